(* C20 - cyDiscreteQuadraticModel._from_numpy_vectors(to_numpy_vectors()): nothing is lost and no bias changes.
   On every state that satisfies the invariant the rebuilt case-level BQM is EQUAL to the old one (linear vector,
   every neighbourhood with its stored order and biases, offset, vartypes), the case starts are the same, and the
   rebuilt adj_ is the projection of the case interactions; hence the rebuild is idempotent, and it is the identity
   exactly when adj_ recorded no pair without a case interaction. *)
From Coq Require Import List ZArith QArith Qcanon Bool Arith Lia Sorted.
From Dimod Require Import Base.Util Model.Poly Model.Adj Model.AdjMore Model.DqmNative
  Proofs.AdjNb Proofs.AdjInv Proofs.AdjRW Proofs.AdjMoreInv Proofs.AdjMoreBqm Proofs.DqmNativeFacts Proofs.DqmRoundTrip.
Import ListNotations.
Local Open Scope nat_scope.

(* ---------- reading a model after a COO replay ---------- *)
Definition hit (x y : nat) (t : nat * nat * Qc) : bool := same_pair x y (fst (fst t)) (snd (fst t)).

Lemma existsb_filter {A} (p : A -> bool) l :
  existsb p l = match filter p l with [] => false | _ => true end.
Proof.
  induction l as [|a l IH]; [reflexivity|]. cbn [existsb filter]. destruct (p a); [reflexivity|exact IH].
Qed.

Lemma adj_len_add_quadratic u v b m :
  u <> v -> length (adj (add_quadratic u v b m)) = length (adj m).
Proof.
  intros Hne. unfold add_quadratic. destruct (Nat.eqb_spec u v) as [E|_]; [contradiction|].
  cbn [adj]. unfold upsert_both. rewrite !upd_nth_length. reflexivity.
Qed.

Lemma get_coo l : forall m x y,
  length (adj m) = nvars m -> coo_ok (nvars m) l ->
  nb_get y (nb (add_quadratic_coo l m) x) =
  if existsb (hit x y) l
  then Some (odef (nb_get y (nb m x)) + qsum (map snd (filter (hit x y) l)))%Qc
  else nb_get y (nb m x).
Proof.
  induction l as [|t l IH]; intros m x y HL Hok; [reflexivity|].
  destruct (Hok t (or_introl eq_refl)) as [Hu [Hv Hne]].
  change (add_quadratic_coo (t :: l) m)
    with (add_quadratic_coo l (add_quadratic (fst (fst t)) (snd (fst t)) (snd t) m)).
  rewrite IH.
  - rewrite get_add_quadratic by assumption.
    assert (EH : aq_hit m (fst (fst t)) (snd (fst t)) x y = hit x y t).
    { unfold aq_hit, hit. destruct (Nat.eqb_spec (fst (fst t)) (snd (fst t))) as [E|_]; [contradiction|].
      cbn [andb negb]. apply andb_true_r. }
    rewrite EH. cbn [existsb filter]. destruct (hit x y t) eqn:Eh; cbn [orb]; [|reflexivity].
    rewrite existsb_filter. destruct (filter (hit x y) l) as [|t' r'] eqn:EF.
    + cbn [map qsum odef]. f_equal. ring.
    + cbn [odef]. f_equal. cbn [map qsum]. ring.
  - rewrite adj_len_add_quadratic by exact Hne. rewrite nvars_add_quadratic. exact HL.
  - rewrite nvars_add_quadratic. intros t' Ht'. apply Hok. right. exact Ht'.
Qed.

(* ---------- the entries of the COO dump that touch one pair ---------- *)
Definition optl (x y : nat) (o : option Qc) : list (nat * nat * Qc) :=
  match o with Some b => [(x, y, b)] | None => [] end.

Lemma filter_lower_prefix x y n :
  ksorted n -> y < x -> filter (hit x y) (lower_prefix x n) = optl x y (nb_get y n).
Proof.
  intros HS Hyx. induction n as [|[w b] r IH]; [reflexivity|].
  apply ksorted_cons in HS. destruct HS as [HA HS]. specialize (IH HS).
  cbn [lower_prefix nb_get].
  destruct (Nat.ltb_spec w y) as [L1|L1].
  - destruct (Nat.ltb_spec w x) as [_|L2]; [|lia]. cbn [filter]. unfold hit at 1, same_pair. cbn [fst snd].
    rewrite Nat.eqb_refl. destruct (Nat.eqb_spec y w) as [E|_]; [lia|].
    destruct (Nat.eqb_spec x w) as [E|_]; [lia|]. cbn [andb orb]. exact IH.
  - destruct (Nat.eqb_spec w y) as [E|Ne].
    + subst w. destruct (Nat.ltb_spec y x) as [_|L2]; [|lia]. cbn [filter]. unfold hit at 1, same_pair. cbn [fst snd].
      rewrite !Nat.eqb_refl. cbn [andb orb]. rewrite IH, (nb_get_lt_all y y r HA) by lia. reflexivity.
    + rewrite (nb_get_lt_all y w r HA) in IH by lia. destruct (Nat.ltb_spec w x) as [L2|L2]; [|reflexivity].
      cbn [filter]. unfold hit at 1, same_pair. cbn [fst snd].
      destruct (Nat.eqb_spec y w) as [E|_]; [lia|]. destruct (Nat.eqb_spec x w) as [E|_]; [lia|].
      rewrite andb_false_r. cbn [orb]. exact IH.
Qed.

Lemma filter_lower_prefix_other ci x y n :
  y < x -> ci <> x -> filter (hit x y) (lower_prefix ci n) = [].
Proof.
  intros Hyx Hne. induction n as [|[w b] r IH]; [reflexivity|]. cbn [lower_prefix].
  destruct (Nat.ltb_spec w ci) as [L|L]; [|reflexivity]. cbn [filter]. unfold hit at 1, same_pair. cbn [fst snd].
  destruct (Nat.eqb_spec x ci) as [E|_]; [congruence|]. cbn [andb orb].
  destruct (Nat.eqb_spec x w) as [E|_]; [|exact IH]. destruct (Nat.eqb_spec y ci) as [E'|_]; [lia|exact IH].
Qed.

Lemma filter_flat_map {A B} (p : B -> bool) (f : A -> list B) l :
  filter p (flat_map f l) = flat_map (fun a => filter p (f a)) l.
Proof.
  induction l as [|a l IH]; [reflexivity|]. cbn [flat_map]. rewrite filter_app, IH. reflexivity.
Qed.

Lemma flat_map_all_nil {A} (f : nat -> list A) l : (forall c, In c l -> f c = []) -> flat_map f l = [].
Proof.
  induction l as [|a l IH]; intros H; [reflexivity|]. cbn [flat_map].
  rewrite (H a (or_introl eq_refl)), IH; [reflexivity|]. intros c Hc. apply H. right. exact Hc.
Qed.

Lemma flat_map_single {A} (f : nat -> list A) x : forall l,
  NoDup l -> In x l -> (forall c, In c l -> c <> x -> f c = []) -> flat_map f l = f x.
Proof.
  induction l as [|a l IH]; intros ND Hin H; [destruct Hin|]. cbn [flat_map].
  apply NoDup_cons_iff in ND. destruct ND as [Na ND]. destruct (Nat.eq_dec a x) as [E|Ne].
  - subst a. rewrite flat_map_all_nil; [apply app_nil_r|]. intros c Hc. apply H; [right; exact Hc|].
    intros E. subst c. contradiction.
  - rewrite (H a (or_introl eq_refl) Ne). cbn [app]. apply IH; [exact ND| |].
    + destruct Hin as [E|Hin]; [contradiction|exact Hin].
    + intros c Hc. apply H. right. exact Hc.
Qed.

Lemma to_coo_hits b x y :
  Inv b -> y < x -> x < nvars b -> filter (hit x y) (to_coo b) = optl x y (nb_get y (nb b x)).
Proof.
  intros HI Hyx Hx. unfold to_coo. rewrite filter_flat_map.
  rewrite (flat_map_single (fun ci => filter (hit x y) (lower_prefix ci (nb b ci))) x).
  - apply filter_lower_prefix; [apply Inv_sorted; exact HI|exact Hyx].
  - apply seq_NoDup.
  - apply in_seq. lia.
  - intros c _ Hc. apply filter_lower_prefix_other; assumption.
Qed.

(* ---------- the models the rebuild goes through ---------- *)
Lemma nb_resize_empty k x : nb (resize BINARY k empty_qm) x = [].
Proof.
  unfold resize, nb. change (nvars empty_qm) with 0. cbn [Nat.ltb Nat.leb empty_qm adj app].
  destruct (Nat.ltb_spec k 0) as [L|_]; [lia|]. cbn [adj app].
  destruct (nth_in_or_default x (repeat (@nil (nat * Qc)) (k - 0)) []) as [H|H]; [|exact H].
  apply repeat_spec in H. exact H.
Qed.

Lemma nb_resize_grow t k m ci : nvars m <= k -> nb (resize t k m) ci = nb m ci.
Proof.
  intros Hk. unfold resize. destruct (Nat.ltb_spec k (nvars m)) as [L|L]; [lia|].
  unfold nb. cbn [adj]. apply nth_app_repeat.
Qed.

Definition rt_m0 (b : qm) : qm := add_quadratic_coo_bqm BINARY (to_coo b) empty_qm.
Definition rt_m1 (b : qm) : qm :=
  if nvars (rt_m0 b) <? nvars b then resize BINARY (nvars b) (rt_m0 b) else rt_m0 b.
Definition rt_m2 (b : qm) : qm :=
  fold_left (fun acc ci => set_linear ci (linear b ci) acc) (seq 0 (nvars b)) (rt_m1 b).

Lemma round_trip_b d : d_b (round_trip d) = set_offset (off (d_b d)) (rt_m2 (d_b d)).
Proof. reflexivity. Qed.

Lemma get_m0 b x y :
  Inv b -> y < x -> x < nvars b -> nb_get y (nb (rt_m0 b) x) = nb_get y (nb b x).
Proof.
  intros HI Hyx Hx. pose proof (to_coo_hits b x y HI Hyx Hx) as HF. unfold rt_m0, add_quadratic_coo_bqm.
  destruct (to_coo b) as [|t0 l0] eqn:EC.
  - cbn [filter] in HF. destruct (nb_get y (nb b x)); [discriminate|]. unfold nb. cbn [empty_qm adj].
    destruct x; reflexivity.
  - set (l := t0 :: l0) in *. change (nvars empty_qm) with 0. cbn [Nat.leb].
    set (ms := resize BINARY (S (coo_max l)) empty_qm).
    assert (Ims : Inv ms) by (apply Inv_resize, Inv_empty).
    assert (Nms : nvars ms = S (coo_max l)) by apply nvars_resize.
    assert (Hok : coo_ok (nvars ms) l).
    { intros t Ht. pose proof (coo_max_bound l) as G. unfold coo_in_range in G. rewrite Forall_forall in G.
      destruct (G t Ht) as [A B]. rewrite Nms. repeat split; [exact A|exact B|].
      pose proof (to_coo_in b t) as G'. rewrite EC in G'. destruct (G' Ht) as [_ [C _]]. lia. }
    rewrite get_coo; [|apply Inv_len_adj; exact Ims|exact Hok].
    rewrite existsb_filter, HF. unfold ms. rewrite nb_resize_empty.
    destruct (nb_get y (nb b x)) as [bb|]; cbn [optl]; [|reflexivity].
    cbn [nb_get odef map qsum snd]. f_equal. ring.
Qed.

Lemma nvars_m0_le b : Inv b -> nvars (rt_m0 b) <= nvars b.
Proof.
  intros HI. unfold rt_m0, add_quadratic_coo_bqm. destruct (to_coo b) as [|t0 l0] eqn:EC; [cbn; lia|].
  set (l := t0 :: l0) in *. change (nvars empty_qm) with 0. cbn [Nat.leb].
  destruct (Inv_add_quadratic_coo l (resize BINARY (S (coo_max l)) empty_qm)) as [_ [N1 _]].
  - apply Inv_resize, Inv_empty.
  - rewrite nvars_resize. apply coo_max_bound.
  - rewrite N1, nvars_resize. apply coo_max_lt.
    + pose proof (to_coo_in b t0) as G. rewrite EC in G. destruct (G (or_introl eq_refl)) as [A _]. lia.
    + intros t Ht. pose proof (to_coo_in b t) as G. rewrite EC in G. destruct (G Ht) as [A [B _]]. lia.
Qed.

Lemma get_m1 b x y :
  Inv b -> y < x -> x < nvars b -> nb_get y (nb (rt_m1 b) x) = nb_get y (nb b x).
Proof.
  intros HI Hyx Hx. unfold rt_m1. destruct (Nat.ltb_spec (nvars (rt_m0 b)) (nvars b)) as [L|L].
  - rewrite nb_resize_grow by lia. apply get_m0; assumption.
  - apply get_m0; assumption.
Qed.

Lemma adj_m2 b : adj (rt_m2 b) = adj (rt_m1 b).
Proof. unfold rt_m2. apply (fold_set_linear_shape (fun ci => ci) (fun ci => linear b ci)). Qed.

(* ---------- a well-formed all-BINARY adjacency is determined by its lower triangle ---------- *)
Lemma vt_at_binary m u : forallb (vartype_eqb BINARY) (vts m) = true -> vt_at m u = BINARY.
Proof.
  intros H. unfold vt_at. destruct (nth_in_or_default u (vts m) BINARY) as [Hin|E]; [|exact E].
  rewrite forallb_forall in H. specialize (H _ Hin). destruct (nth u (vts m) BINARY); try discriminate. reflexivity.
Qed.

Lemma adj_ext_lower b m :
  Inv b -> forallb (vartype_eqb BINARY) (vts b) = true ->
  Inv m -> forallb (vartype_eqb BINARY) (vts m) = true ->
  nvars m = nvars b ->
  (forall x y, y < x -> x < nvars b -> nb_get y (nb m x) = nb_get y (nb b x)) ->
  adj m = adj b.
Proof.
  intros Ib Vb Im Vm HN HL.
  assert (G : forall x y, nb_get y (nb m x) = nb_get y (nb b x)).
  { intros x y. destruct (lt_eq_lt_dec x y) as [[L|E]|L].
    - rewrite (Inv_sym m x y Im), (Inv_sym b x y Ib).
      destruct (Nat.lt_ge_cases y (nvars b)) as [Hy|Hy]; [apply HL; assumption|].
      destruct (nb_get x (nb m y)) as [c|] eqn:E1.
      + apply (Inv_bound m y x c Im) in E1. lia.
      + destruct (nb_get x (nb b y)) as [c|] eqn:E2; [|reflexivity]. apply (Inv_bound b y x c Ib) in E2. lia.
    - subst y. apply Inv_InvG in Ib, Im. destruct Ib as [_ [_ [_ [_ [_ Sb]]]]], Im as [_ [_ [_ [_ [_ Sm]]]]].
      unfold nb. rewrite Sb, Sm; [reflexivity| |]; rewrite vt_at_binary by assumption; reflexivity.
    - destruct (Nat.lt_ge_cases x (nvars b)) as [Hx|Hx]; [apply HL; assumption|].
      unfold nb. rewrite !nth_overflow; [reflexivity| |].
      + rewrite (Inv_len_adj b Ib). exact Hx.
      + rewrite (Inv_len_adj m Im), HN. exact Hx. }
  apply (nth_ext _ _ [] []).
  - exact (eq_trans (Inv_len_adj m Im) (eq_trans HN (eq_sym (Inv_len_adj b Ib)))).
  - intros x _. apply ksorted_ext; [apply (Inv_sorted m x Im)|apply (Inv_sorted b x Ib)|]. intros w. apply G.
Qed.

Lemma all_binary_repeat l : forallb (vartype_eqb BINARY) l = true -> l = repeat BINARY (length l).
Proof.
  induction l as [|t l IH]; [reflexivity|]. cbn [forallb length repeat]. rewrite andb_true_iff. intros [A B].
  destruct t; try discriminate. f_equal. apply IH. exact B.
Qed.

Lemma nth_fold_set_linear (f : nat -> Qc) l : forall m i, i < length (lin m) ->
  nth i (lin (fold_left (fun acc ci => set_linear ci (f ci) acc) l m)) 0%Qc
  = if existsb (Nat.eqb i) l then f i else nth i (lin m) 0%Qc.
Proof.
  induction l as [|c l IH]; intros m i Hi; [reflexivity|]. cbn [fold_left existsb].
  rewrite IH by (cbn [set_linear lin]; rewrite upd_nth_length; exact Hi).
  destruct (existsb (Nat.eqb i) l); [rewrite orb_true_r; reflexivity|]. rewrite orb_false_r.
  cbn [set_linear lin]. destruct (Nat.eqb_spec i c) as [E|Ne].
  - subst c. apply nth_upd_nth_same. exact Hi.
  - apply nth_upd_nth_other. congruence.
Qed.

(* ---------- the theorem ---------- *)
Theorem round_trip_b_identity d : DInv d -> d_b (round_trip d) = d_b d.
Proof.
  intros HD. destruct (round_trip_bqm_ok d HD) as [[I [V _]] Nn].
  apply DInv_iff in HD. destruct HD as [HI [HV _]].
  set (b := d_b d) in *. set (m := d_b (round_trip d)) in *.
  assert (Ea : adj m = adj b).
  { apply adj_ext_lower; try assumption. intros x y Hyx Hx. unfold m. rewrite round_trip_b. fold b.
    unfold nb. cbn [set_offset adj]. rewrite adj_m2. apply (get_m1 b x y HI Hyx Hx). }
  assert (El : lin m = lin b).
  { apply (nth_ext _ _ 0%Qc 0%Qc); [exact Nn|]. intros i Hi. fold (nvars m) in Hi. rewrite Nn in Hi.
    unfold m. rewrite round_trip_b. fold b. cbn [set_offset lin]. unfold rt_m2.
    assert (L1 : length (lin (rt_m1 b)) = nvars b).
    { pose proof Nn as Nn'. unfold m in Nn'. rewrite round_trip_b in Nn'. fold b in Nn'. unfold nvars in Nn' at 1.
      cbn [set_offset lin] in Nn'. unfold rt_m2 in Nn'.
      destruct (fold_set_linear_shape (fun ci => ci) (fun ci => linear b ci) (seq 0 (nvars b)) (rt_m1 b)) as [A _].
      cbv zeta in A. rewrite A in Nn'. exact Nn'. }
    rewrite nth_fold_set_linear by (rewrite L1; exact Hi).
    assert (E : existsb (Nat.eqb i) (seq 0 (nvars b)) = true).
    { apply existsb_exists. exists i. split; [apply in_seq; lia|apply Nat.eqb_refl]. }
    rewrite E. reflexivity. }
  assert (Ev : vts m = vts b).
  { rewrite (all_binary_repeat _ V), (all_binary_repeat _ HV).
    apply Inv_InvG in I, HI. destruct I as [L1 _], HI as [L2 _]. rewrite L1, L2, Nn. reflexivity. }
  assert (Eo : off m = off b) by reflexivity.
  destruct m as [l1 a1 o1 v1], b as [l2 a2 o2 v2]. cbn [lin adj off vts] in *. subst. reflexivity.
Qed.

Theorem round_trip_st d : d_st (round_trip d) = d_st d.
Proof. reflexivity. Qed.

Print Assumptions round_trip_b_identity.

(* ---------- the whole rebuilt object ---------- *)
Theorem round_trip_eq d :
  DInv d -> round_trip d = mkD (d_b d) (d_st d) (afc (d_st d) (d_nvars d) (d_b d)).
Proof.
  intros HD.
  assert (E : round_trip d = mkD (d_b (round_trip d)) (d_st d) (afc (d_st d) (d_nvars d) (d_b (round_trip d)))).
  { unfold round_trip. cbv zeta. cbn [d_b]. rewrite adj_from_cases_afc. reflexivity. }
  rewrite E. rewrite (round_trip_b_identity d HD). reflexivity.
Qed.

Theorem round_trip_idempotent d : DInv d -> round_trip (round_trip d) = round_trip d.
Proof.
  intros HD. rewrite (round_trip_eq (round_trip d) (round_trip_preserves_DInv d HD)).
  rewrite (round_trip_eq d HD). cbn [d_b d_st]. unfold d_nvars at 1. cbn [d_adj]. rewrite afc_length. reflexivity.
Qed.

(* strictly sorted vectors with the same members are equal *)
Lemma SS_ext l1 : forall l2,
  StronglySorted lt l1 -> StronglySorted lt l2 -> (forall x, In x l1 <-> In x l2) -> l1 = l2.
Proof.
  induction l1 as [|a r1 IH]; intros [|b r2] S1 S2 H.
  - reflexivity.
  - destruct (proj2 (H b) (or_introl eq_refl)).
  - destruct (proj1 (H a) (or_introl eq_refl)).
  - apply StronglySorted_inv in S1, S2. destruct S1 as [S1 F1], S2 as [S2 F2].
    rewrite Forall_forall in F1, F2.
    assert (E : a = b).
    { destruct (proj1 (H a) (or_introl eq_refl)) as [E|A]; [auto|].
      destruct (proj2 (H b) (or_introl eq_refl)) as [E|B]; [auto|].
      pose proof (F2 a A). pose proof (F1 b B). lia. }
    subst b. f_equal. apply IH; [exact S1|exact S2|]. intros x. split; intros Hx.
    + destruct (proj1 (H x) (or_intror Hx)) as [E|G]; [|exact G]. subst x. pose proof (F1 a Hx). lia.
    + destruct (proj2 (H x) (or_intror Hx)) as [E|G]; [|exact G]. subst x. pose proof (F2 a Hx). lia.
Qed.

(* adj_ records no pair of variables without a case interaction *)
Definition Tight (d : dqm) : Prop :=
  forall u v, u < d_nvars d -> In v (d_nb d u) ->
    exists ci w, d_start d u <= ci /\ ci < d_start d u + d_ncases d u /\ In w (keys (d_b d) ci) /\ v = var_of d w.

Theorem round_trip_identity_iff_tight d : DInv d -> (round_trip d = d <-> Tight d).
Proof.
  intros HD. pose proof (round_trip_eq d HD) as E. split.
  - intros Hid u v Hu Hv. rewrite <- Hid in Hv. apply (round_trip_adj_exact d u v Hu) in Hv.
    rewrite (round_trip_b_identity d HD) in Hv. exact Hv.
  - intros HT. rewrite E. destruct d as [b st ad]. cbn [d_b d_st]. f_equal.
    unfold d_nvars. cbn [d_adj].
    pose proof (proj1 (DInv_iff _) HD) as [_ [_ [_ [_ [_ [_ [W C]]]]]]]. cbn [d_adj] in W.
    apply (nth_ext _ _ [] []); [apply afc_length|]. intros u Hu. rewrite afc_length in Hu.
    apply SS_ext.
    + apply sorted_nat_iff. apply afc_row_sorted. exact Hu.
    + apply sorted_nat_iff. apply (W u Hu).
    + intros v. rewrite afc_row_In by exact Hu. split.
      * intros [ci [w [A [B [Hw ->]]]]].
        assert (Hci : ci < nvars b).
        { destruct (Nat.lt_ge_cases ci (nvars b)) as [L|G]; [exact L|]. unfold keys, nb in Hw.
          apply DInv_iff in HD. destruct HD as [HI _]. cbn [d_b] in HI.
          rewrite nth_overflow in Hw by (rewrite (Inv_len_adj b HI); exact G). destruct Hw. }
        destruct (C ci w Hci Hw) as [_ L]. cbn [d_b d_st d_adj] in *.
        assert (Eu : vof st ci = u).
        { apply DInv_iff in HD. destruct HD as [_ [_ [H3 [_ [H5 [H6 _]]]]]]. cbn [d_b d_st d_adj d_nvars] in *.
          destruct (st_facts st (length ad) (nvars b) H3 H5 H6 u (ci - nth u st 0) Hu ltac:(lia)) as [_ E'].
          replace (nth u st 0 + (ci - nth u st 0)) with ci in E' by lia. exact E'. }
        unfold var_of, d_nb in L. cbn [d_st d_adj] in L. fold (vof st ci) in L. fold (vof st w) in L. rewrite Eu in L.
        apply lb_has_In in L; [exact L|apply (W u Hu)].
      * intros Hv. apply (HT u v Hu Hv).
Qed.

Print Assumptions round_trip_eq.
Print Assumptions round_trip_idempotent.
Print Assumptions round_trip_identity_iff_tight.
