(* C04: the alternative public spellings the worker issues (mapping-view writes, in-place operators) forward to the
   methods the worker renders them as.  The left-hand sides are generated from the source by translators/view_writes.py;
   a change of the forwarding in dimod makes this proof fail. *)
From Dimod Require Import Gen.Gen_ViewWrites.

Theorem spellings_forward_as_assumed :
  gen_linear_setitem = WSetLinear /\ gen_linear_delitem = WRemoveVariableKeyError
  /\ gen_quadratic_setitem = WSetQuadratic /\ gen_quadratic_delitem = WRemoveInteractionKeyError
  /\ gen_neighborhood_setitem = WSetQuadratic
  /\ gen_bqm_imul = WScale /\ gen_bqm_itruediv = WScaleInverse /\ gen_bqm_iadd_number = WOffsetAdd /\ gen_bqm_isub_number = WOffsetSub
  /\ gen_qm_imul = WScale /\ gen_qm_itruediv = WScaleInverse /\ gen_qm_iadd_number = WOffsetAdd /\ gen_qm_isub_number = WOffsetSub.
Proof. repeat split; reflexivity. Qed.
