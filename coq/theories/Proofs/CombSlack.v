(* Slack coefficients, bound tightening and the cardinality penalty [C16, C17]. *)
From Coq Require Import List ZArith Bool Arith Lia.
From Dimod Require Import Model.Comb.
Import ListNotations.
Local Open Scope Z_scope.

(* ------------------------------------------------------------------ *)
(* dot *)

Definition zsum (cs : list Z) : Z := fold_right Z.add 0 cs.

Lemma zsum_app a b : zsum (a ++ b) = zsum a + zsum b.
Proof. unfold zsum. induction a as [|c a IH]; cbn [app fold_right]; lia. Qed.

Lemma dot_nil_r cs : dot cs [] = 0.
Proof. destruct cs; reflexivity. Qed.

Lemma dot_app a b x y :
  length a = length x -> dot (a ++ b) (x ++ y) = dot a x + dot b y.
Proof.
  revert x. induction a as [|c a IH]; intros [|u x] H; cbn [length] in H; try discriminate.
  - reflexivity.
  - cbn [app dot]. rewrite IH by lia. lia.
Qed.

Lemma dot_rev cs bs : length cs = length bs -> dot (rev cs) (rev bs) = dot cs bs.
Proof.
  revert bs. induction cs as [|c cs IH]; intros [|b bs] H; cbn [length] in H; try discriminate.
  - reflexivity.
  - cbn [rev]. rewrite dot_app by (rewrite !rev_length; lia).
    rewrite IH by lia. cbn [dot]. lia.
Qed.

Lemma dot_all_true cs : dot cs (repeat true (length cs)) = zsum cs.
Proof. unfold zsum. induction cs as [|c cs IH]; cbn [length repeat dot fold_right]; lia. Qed.

Lemma dot_bounds cs bits :
  Forall (fun c => 0 <= c) cs -> 0 <= dot cs bits <= zsum cs.
Proof.
  unfold zsum. intros H. revert bits. induction H as [|c cs Hc H IH]; intros bits.
  - cbn. lia.
  - destruct bits as [|b bits]; cbn [dot fold_right].
    + specialize (IH []). rewrite dot_nil_r in IH. lia.
    + specialize (IH bits). destruct b; lia.
Qed.

(* ------------------------------------------------------------------ *)
(* powers of two *)

Definition pows (k : nat) : list Z := map (fun j => 2 ^ Z.of_nat j) (seq 0 k).

Lemma pows_S k : pows (S k) = pows k ++ [2 ^ Z.of_nat k].
Proof. unfold pows. rewrite seq_S, map_app. reflexivity. Qed.

Lemma pows_length k : length (pows k) = k.
Proof. unfold pows. rewrite map_length, seq_length. reflexivity. Qed.

Lemma pow2_pos (j : nat) : 0 < 2 ^ Z.of_nat j.
Proof. apply Z.pow_pos_nonneg; lia. Qed.

Lemma pow2_S (k : nat) : 2 ^ Z.of_nat (S k) = 2 * 2 ^ Z.of_nat k.
Proof. rewrite Nat2Z.inj_succ, Z.pow_succ_r by lia. reflexivity. Qed.

Lemma pows_pos k : Forall (fun c => 0 < c) (pows k).
Proof. unfold pows. apply Forall_forall. intros c Hc. apply in_map_iff in Hc. destruct Hc as [j [<- _]]. apply pow2_pos. Qed.

Lemma zsum_pows k : zsum (pows k) = 2 ^ Z.of_nat k - 1.
Proof.
  induction k as [|k IH].
  - reflexivity.
  - rewrite pows_S, zsum_app, IH, pow2_S. unfold zsum. cbn [fold_right]. lia.
Qed.

Lemma greedy_length cs t : length (greedy cs t) = length cs.
Proof. revert t. induction cs as [|c cs IH]; intros t; cbn [greedy length]; [reflexivity|]. destruct (c <=? t); cbn [length]; rewrite IH; reflexivity. Qed.

Lemma greedy_pows k : forall t, 0 <= t < 2 ^ Z.of_nat k ->
  dot (rev (pows k)) (greedy (rev (pows k)) t) = t.
Proof.
  induction k as [|k IH]; intros t Ht.
  - cbn in *. lia.
  - rewrite pows_S, rev_app_distr. cbn [rev app greedy]. rewrite pow2_S in Ht.
    destruct (Z.leb_spec (2 ^ Z.of_nat k) t); cbn [dot]; rewrite IH; lia.
Qed.

(* ------------------------------------------------------------------ *)
(* slack coefficients *)

Section Slack.
  Variable U : Z.
  Hypothesis HU : 0 < U.

  Let k := Z.to_nat (Z.log2 U).
  Let r := U - 2 ^ Z.of_nat k + 1.

  Lemma slack_coeffs_eq : slack_coeffs U = pows k ++ [r].
  Proof. reflexivity. Qed.

  Lemma slack_k_spec : 2 ^ Z.of_nat k <= U < 2 * 2 ^ Z.of_nat k.
  Proof.
    unfold k. pose proof (Z.log2_nonneg U) as Hn. rewrite Z2Nat.id by assumption.
    pose proof (Z.log2_spec U HU) as H. rewrite Z.pow_succ_r in H by assumption. lia.
  Qed.

  Lemma slack_r_bounds : 1 <= r <= 2 ^ Z.of_nat k.
  Proof. pose proof slack_k_spec. unfold r. lia. Qed.

  Lemma slack_coeffs_length : length (slack_coeffs U) = S k.
  Proof. rewrite slack_coeffs_eq, app_length, pows_length. cbn. lia. Qed.

  Lemma slack_coeffs_pos : Forall (fun c => 0 < c) (slack_coeffs U).
  Proof.
    rewrite slack_coeffs_eq. apply Forall_app. split; [apply pows_pos|].
    constructor; [|constructor]. pose proof slack_r_bounds. lia.
  Qed.

  Lemma slack_coeffs_zsum : zsum (slack_coeffs U) = U.
  Proof. rewrite slack_coeffs_eq, zsum_app, zsum_pows. unfold zsum, r. cbn [fold_right]. lia. Qed.

  Lemma slack_coeffs_all_true :
    dot (slack_coeffs U) (repeat true (length (slack_coeffs U))) = U.
  Proof. rewrite dot_all_true. apply slack_coeffs_zsum. Qed.

  Lemma slack_coeffs_range bits : 0 <= dot (slack_coeffs U) bits <= U.
  Proof.
    pose proof (dot_bounds (slack_coeffs U) bits) as H. rewrite slack_coeffs_zsum in H. apply H.
    eapply Forall_impl; [|apply slack_coeffs_pos]. cbv beta. intros; lia.
  Qed.

  Lemma slack_bits_length t : length (slack_bits U t) = length (slack_coeffs U).
  Proof. unfold slack_bits. rewrite rev_length, greedy_length, rev_length. reflexivity. Qed.

  Lemma slack_bits_dot t : 0 <= t <= U -> dot (slack_coeffs U) (slack_bits U t) = t.
  Proof.
    intros Ht. unfold slack_bits.
    rewrite <- (rev_involutive (slack_coeffs U)) at 1.
    rewrite dot_rev by (rewrite greedy_length; reflexivity).
    rewrite slack_coeffs_eq, rev_app_distr. cbn [rev app greedy].
    pose proof slack_r_bounds as Hr. pose proof slack_k_spec as Hk.
    destruct (Z.leb_spec r t); cbn [dot]; rewrite greedy_pows; unfold r in *; lia.
  Qed.

  Lemma slack_coverage t : 0 <= t <= U ->
    exists bits, length bits = length (slack_coeffs U) /\ dot (slack_coeffs U) bits = t.
  Proof. intros Ht. exists (slack_bits U t). split; [apply slack_bits_length|apply slack_bits_dot; exact Ht]. Qed.
End Slack.

(* binary_encoding of generators/integer.py is the same list *)
Lemma binary_encoding_coeffs_eq ub : binary_encoding_coeffs ub = slack_coeffs ub.
Proof. unfold binary_encoding_coeffs, slack_coeffs. cbv zeta. f_equal. f_equal. lia. Qed.

Lemma binary_encoding_pos ub : 2 <= ub -> Forall (fun c => 0 < c) (binary_encoding_coeffs ub).
Proof. intros. rewrite binary_encoding_coeffs_eq. apply slack_coeffs_pos. lia. Qed.

Lemma binary_encoding_all_true ub : 2 <= ub ->
  dot (binary_encoding_coeffs ub) (repeat true (length (binary_encoding_coeffs ub))) = ub.
Proof. intros. rewrite binary_encoding_coeffs_eq. apply slack_coeffs_all_true. Qed.

Lemma binary_encoding_range ub bits : 2 <= ub -> 0 <= dot (binary_encoding_coeffs ub) bits <= ub.
Proof. intros. rewrite binary_encoding_coeffs_eq. apply slack_coeffs_range. lia. Qed.

Lemma binary_encoding_coverage ub t : 2 <= ub -> 0 <= t <= ub ->
  exists bits, length bits = length (binary_encoding_coeffs ub) /\ dot (binary_encoding_coeffs ub) bits = t.
Proof. intros. rewrite binary_encoding_coeffs_eq. apply slack_coverage; lia. Qed.

(* ------------------------------------------------------------------ *)
(* bound tightening *)

Lemma dot_sum_bounds a x : sum_neg a <= dot a x <= sum_pos a.
Proof.
  unfold sum_neg, sum_pos. revert x. induction a as [|c a IH]; intros x.
  - cbn. lia.
  - cbn [filter]. destruct x as [|b x].
    + specialize (IH []). rewrite dot_nil_r in *.
      destruct (Z.ltb_spec 0 c), (Z.ltb_spec c 0); cbn [fold_right]; lia.
    + specialize (IH x). cbn [dot].
      destruct b, (Z.ltb_spec 0 c), (Z.ltb_spec c 0); cbn [fold_right]; lia.
Qed.

Section Plan.
  Variables (a : list Z) (const lb ub : Z) (x : list bool).
  Let A := dot a x.
  Let feasible := lb <= A + const <= ub.

  Lemma plan_skip_sound : plan_inequality a const lb ub = Skip -> feasible.
  Proof.
    unfold plan_inequality, feasible. pose proof (dot_sum_bounds a x) as HB. fold A in HB.
    destruct (Z.leb_spec (sum_pos a) (Z.min (sum_pos a) (ub - const)));
    destruct (Z.leb_spec (Z.max (sum_neg a) (lb - const)) (sum_neg a)); cbn [andb];
    try (intros _; lia);
    destruct (Z.ltb_spec (Z.min (sum_pos a) (ub - const)) (Z.max (sum_neg a) (lb - const))); try discriminate;
    destruct (Z.eqb_spec (Z.min (sum_pos a) (ub - const) - Z.max (sum_neg a) (lb - const)) 0); discriminate.
  Qed.

  Lemma plan_infeasible_sound : plan_inequality a const lb ub = Infeasible -> ~ feasible.
  Proof.
    unfold plan_inequality, feasible. pose proof (dot_sum_bounds a x) as HB. fold A in HB.
    destruct (_ && _); [discriminate|].
    destruct (Z.ltb_spec (Z.min (sum_pos a) (ub - const)) (Z.max (sum_neg a) (lb - const))).
    - intros _. lia.
    - destruct (Z.eqb_spec (Z.min (sum_pos a) (ub - const) - Z.max (sum_neg a) (lb - const)) 0); discriminate.
  Qed.

  Lemma plan_equality_sound ubc :
    plan_inequality a const lb ub = Equality ubc -> (feasible <-> A = ubc).
  Proof.
    unfold plan_inequality, feasible. pose proof (dot_sum_bounds a x) as HB. fold A in HB.
    destruct (_ && _); [discriminate|].
    destruct (Z.ltb_spec (Z.min (sum_pos a) (ub - const)) (Z.max (sum_neg a) (lb - const))); [discriminate|].
    destruct (Z.eqb_spec (Z.min (sum_pos a) (ub - const) - Z.max (sum_neg a) (lb - const)) 0); [|discriminate].
    intros [= <-]. lia.
  Qed.

  Lemma ineq_penalty_nonneg cs s ubc : 0 <= ineq_penalty a x cs s ubc.
  Proof. unfold ineq_penalty. cbv zeta. apply Z.square_nonneg. Qed.

  Lemma plan_slack_sound ubc cs :
    plan_inequality a const lb ub = Slack ubc cs ->
    (feasible -> exists s, length s = length cs /\ ineq_penalty a x cs s ubc = 0) /\
    (~ feasible -> forall s, length s = length cs -> 1 <= ineq_penalty a x cs s ubc) /\
    (forall s, 0 <= ineq_penalty a x cs s ubc).
  Proof.
    unfold plan_inequality, feasible. pose proof (dot_sum_bounds a x) as HB. fold A in HB.
    destruct (_ && _); [discriminate|].
    destruct (Z.ltb_spec (Z.min (sum_pos a) (ub - const)) (Z.max (sum_neg a) (lb - const))); [discriminate|].
    destruct (Z.eqb_spec (Z.min (sum_pos a) (ub - const) - Z.max (sum_neg a) (lb - const)) 0); [discriminate|].
    set (ubc' := Z.min (sum_pos a) (ub - const)) in *.
    set (lbc := Z.max (sum_neg a) (lb - const)) in *.
    intros [= <- <-].
    assert (HU : 0 < ubc' - lbc) by lia.
    split; [|split].
    - intros Hf.
      destruct (slack_coverage (ubc' - lbc) HU (ubc' - A)) as [s [Hl Hd]]; [subst ubc' lbc; lia|].
      exists s. split; [exact Hl|]. unfold ineq_penalty. cbv zeta. fold A. rewrite Hd.
      replace (A + (ubc' - A) - ubc') with 0 by lia. reflexivity.
    - intros Hnf s _.
      pose proof (slack_coeffs_range (ubc' - lbc) HU s) as Hr.
      unfold ineq_penalty. cbv zeta. fold A.
      set (d := A + dot (slack_coeffs (ubc' - lbc)) s - ubc').
      assert (d <> 0) by (subst d ubc' lbc; lia).
      nia.
    - intros s. apply ineq_penalty_nonneg.
  Qed.
End Plan.

(* ------------------------------------------------------------------ *)
(* combinations(n, k) *)

Lemma count_true_nonneg x : 0 <= count_true x.
Proof. induction x as [|b x IH]; cbn [count_true]; [lia|destruct b; lia]. Qed.

Lemma pairs_true_spec x : 2 * pairs_true x = count_true x * (count_true x - 1).
Proof.
  induction x as [|b x IH]; cbn [pairs_true count_true]; [reflexivity|].
  destruct b; nia.
Qed.

Lemma pairs_true_div x : pairs_true x = count_true x * (count_true x - 1) / 2.
Proof. rewrite <- pairs_true_spec. rewrite Z.mul_comm, Z.div_mul by lia. reflexivity. Qed.

Lemma combinations_energy_spec k x :
  combinations_energy k x = (count_true x - k) * (count_true x - k).
Proof. unfold combinations_energy. rewrite pairs_true_spec. ring. Qed.

Lemma combinations_energy_zero_iff k x :
  combinations_energy k x = 0 <-> count_true x = k.
Proof. rewrite combinations_energy_spec. nia. Qed.

Lemma combinations_energy_violated k x :
  count_true x <> k -> 1 <= combinations_energy k x.
Proof. rewrite combinations_energy_spec. nia. Qed.

Lemma combinations_energy_nonneg k x : 0 <= combinations_energy k x.
Proof. rewrite combinations_energy_spec. apply Z.square_nonneg. Qed.
