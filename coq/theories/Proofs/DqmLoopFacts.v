(* C01 for DiscreteQuadraticModel.energies: the loop of cydiscrete_quadratic_model.pyx
   (per variable: range check, linear bias of the selected case, walk over the variable
   adjacency with the break at v > u) computes the value of the DQM's own case polynomial
   (the abstraction of its case BQM) at the indicator sample of the row; it raises exactly
   when a case is out of range (or the row has the wrong width). *)
From Coq Require Import List ZArith QArith Qcanon Bool Arith Lia Sorted.
From Dimod Require Import Base.Util Model.Poly Model.Adj Model.Samples Model.DqmLoop
  Proofs.PolyFacts Proofs.SamplesFacts Proofs.AdjNb Proofs.AdjInv Proofs.AdjRW Proofs.AdjEnergy
  Proofs.AdjDense.
Import ListNotations.
Local Open Scope nat_scope.

(* ---------- sums against an indicator of a sorted list ---------- *)
Lemma existsb_eqb_In i cs : existsb (Nat.eqb i) cs = true <-> In i cs.
Proof.
  rewrite existsb_exists. split.
  - intros [x [Hx He]]. apply Nat.eqb_eq in He. subst. exact Hx.
  - intros H. exists i. split; [exact H|apply Nat.eqb_refl].
Qed.

Lemma indl_in cs i : In i cs -> indl cs i = 1%Qc.
Proof. intros H. unfold indl. apply existsb_eqb_In in H. rewrite H. reflexivity. Qed.

Lemma indl_notin cs i : ~ In i cs -> indl cs i = 0%Qc.
Proof.
  intros H. unfold indl. destruct (existsb (Nat.eqb i) cs) eqn:E; [|reflexivity].
  apply existsb_eqb_In in E. contradiction.
Qed.

Lemma ind_sum (g : nat -> Qc) : forall k a cs,
  StronglySorted lt cs -> (forall c, In c cs -> a <= c < a + k) ->
  qsum (map (fun i => (g i * indl cs i)%Qc) (seq a k)) = qsum (map g cs).
Proof.
  induction k as [|k IH]; intros a cs Hs Hb.
  - destruct cs as [|c cs]; [reflexivity|]. exfalso. specialize (Hb c (or_introl eq_refl)). lia.
  - cbn [seq map qsum]. destruct cs as [|c cs'].
    + assert (E : qsum (map (fun i => (g i * indl [] i)%Qc) (seq (S a) k)) = qsum (map g []))
        by (apply IH; [exact Hs|intros c []]).
      rewrite E. rewrite indl_notin by (intros []). cbn [map qsum]. ring.
    + apply StronglySorted_inv in Hs. destruct Hs as [Hs' Hall]. rewrite Forall_forall in Hall.
      destruct (Nat.eq_dec c a) as [->|Hne].
      * rewrite indl_in by (left; reflexivity).
        assert (E1 : qsum (map (fun i => (g i * indl (a :: cs') i)%Qc) (seq (S a) k)) =
                     qsum (map (fun i => (g i * indl cs' i)%Qc) (seq (S a) k))).
        { apply qsum_map_ext_in. intros i Hi. apply in_seq in Hi. f_equal. unfold indl.
          cbn [existsb]. destruct (Nat.eqb_spec i a); [lia|]. reflexivity. }
        assert (E2 : qsum (map (fun i => (g i * indl cs' i)%Qc) (seq (S a) k)) = qsum (map g cs')).
        { apply IH; [exact Hs'|]. intros c Hc. specialize (Hall c Hc).
          specialize (Hb c (or_intror Hc)). lia. }
        rewrite E1, E2. cbn [map qsum]. ring.
      * assert (Hac : a < c) by (specialize (Hb c (or_introl eq_refl)); lia).
        assert (E0 : indl (c :: cs') a = 0%Qc).
        { apply indl_notin. intros [Hc|Hc]; [lia|]. specialize (Hall a Hc). lia. }
        assert (E2 : qsum (map (fun i => (g i * indl (c :: cs') i)%Qc) (seq (S a) k)) =
                     qsum (map g (c :: cs'))).
        { apply IH.
          - constructor; [exact Hs'|apply Forall_forall; exact Hall].
          - intros c0 [<-|Hc0]; [specialize (Hb c (or_introl eq_refl)); lia|]. specialize (Hall c0 Hc0).
            specialize (Hb c0 (or_intror Hc0)). lia. }
        rewrite E0, E2. ring.
Qed.

Lemma SS_map_seq (f : nat -> nat) : forall k a,
  (forall x y, a <= x -> x < y -> y < a + k -> f x < f y) ->
  StronglySorted lt (map f (seq a k)).
Proof.
  induction k as [|k IH]; intros a H; [constructor|].
  cbn [seq map]. constructor.
  - apply IH. intros x y Hx Hxy Hy. apply H; lia.
  - apply Forall_forall. intros z Hz. apply in_map_iff in Hz. destruct Hz as [y [<- Hy]].
    apply in_seq in Hy. apply H; lia.
Qed.

Lemma SS_filter (p : nat -> bool) l : StronglySorted lt l -> StronglySorted lt (filter p l).
Proof.
  induction l as [|x l IH]; intros H; [constructor|].
  apply StronglySorted_inv in H. destruct H as [Hs Hall]. cbn [filter].
  destruct (p x); [|apply IH, Hs]. constructor; [apply IH, Hs|].
  rewrite Forall_forall in *. intros y Hy. apply filter_In in Hy. apply Hall, Hy.
Qed.

Lemma sorted_nats_SS l : sorted_nats l = true -> StronglySorted lt l.
Proof.
  induction l as [|x r IH]; intros H; [constructor|].
  destruct r as [|y r']; [constructor; constructor|].
  cbn [sorted_nats] in H. apply andb_true_iff in H. destruct H as [Hxy Hr].
  apply Nat.ltb_lt in Hxy. specialize (IH Hr). constructor; [exact IH|].
  apply StronglySorted_inv in IH. destruct IH as [_ Hall]. constructor; [exact Hxy|].
  eapply Forall_impl; [|exact Hall]. intros z Hz. cbn beta in Hz. lia.
Qed.

(* the dense energy at an indicator sample *)
Lemma dense_indl N o (l : nat -> Qc) (q : nat -> nat -> Qc) cs :
  StronglySorted lt cs -> (forall c, In c cs -> c < N) ->
  dense N o l q (indl cs) =
  (o + qsum (map (fun c => l c + qsum (map (fun c' => if c' <=? c then q c c' else 0) cs)) cs))%Qc.
Proof.
  intros Hs Hb. unfold dense. f_equal.
  assert (Hb' : forall c, In c cs -> 0 <= c < 0 + N) by (intros c Hc; specialize (Hb c Hc); lia).
  rewrite <- (ind_sum (fun c => (l c + qsum (map (fun c' => if c' <=? c then q c c' else 0) cs))%Qc)
                      N 0 cs Hs Hb').
  apply qsum_map_ext_in. intros u _.
  rewrite <- (ind_sum (fun c' => if c' <=? u then q u c' else 0%Qc) N 0 cs Hs Hb').
  rewrite Qcmult_plus_distr_l. f_equal.
  rewrite Qcmult_comm, <- qsum_map_scale. apply qsum_map_ext_in. intros w _.
  destruct (w <=? u); ring.
Qed.

(* ---------- well-formedness (Prop) ---------- *)
Record dqm_wf (d : dqm) : Prop := mk_wf {
  wf_inv : Inv (d_bqm d);
  wf_len : length (d_starts d) = S (num_variables d);
  wf_s0 : start_of d 0 = 0;
  wf_last : start_of d (num_variables d) = nvars (d_bqm d);
  wf_mono : forall u, u < num_variables d -> start_of d u <= start_of d (S u);
  wf_sorted : forall u, u < num_variables d -> StronglySorted lt (adjv_of d u);
  wf_cons : forall u v i j, u < num_variables d -> v < num_variables d ->
      start_of d u <= i < start_of d (S u) -> start_of d v <= j < start_of d (S v) ->
      has_interaction (d_bqm d) i j = true -> u <> v /\ In v (adjv_of d u)
}.

Definition row_ok (d : dqm) (row : list Z) : Prop :=
  length row = num_variables d /\
  forall u, u < num_variables d -> (0 <= sample_at row u < Z.of_nat (num_cases d u))%Z.

Lemma case_bad_false d u c :
  case_bad d u c = false <-> (0 <= c < Z.of_nat (num_cases d u))%Z.
Proof.
  unfold case_bad. rewrite orb_false_iff, Z.ltb_ge, Z.leb_gt. lia.
Qed.

Lemma case_bad_true d u c :
  case_bad d u c = true <-> (c < 0 \/ Z.of_nat (num_cases d u) <= c)%Z.
Proof.
  unfold case_bad. rewrite orb_true_iff, Z.ltb_lt, Z.leb_le. reflexivity.
Qed.

Lemma row_in_range_iff d row : row_in_range d row = true <-> row_ok d row.
Proof.
  unfold row_in_range, row_ok. rewrite andb_true_iff, Nat.eqb_eq, forallb_forall. split.
  - intros [Hl H]. split; [exact Hl|]. intros u Hu. apply case_bad_false.
    apply negb_true_iff, H, in_seq. lia.
  - intros [Hl H]. split; [exact Hl|]. intros u Hu. apply in_seq in Hu.
    apply negb_true_iff, case_bad_false, H. lia.
Qed.

Theorem dqm_wf_b_sound d : dqm_wf_b d = true -> dqm_wf d.
Proof.
  unfold dqm_wf_b. rewrite !andb_true_iff.
  intros [[[[[[Hi Hl] H0] Hn] Hm] Hs] Hc].
  apply Nat.eqb_eq in Hl, H0, Hn. rewrite forallb_forall in Hm, Hs.
  constructor; try assumption.
  - intros u Hu. apply Nat.leb_le, Hm, in_seq. lia.
  - intros u Hu. apply sorted_nats_SS, Hs. unfold adjv_of. apply nth_In. exact Hu.
  - intros u v i j Hu Hv Hi' Hj' Hint. unfold consistent_b in Hc.
    rewrite forallb_forall in Hc.
    assert (Iu : In u (seq 0 (num_variables d))) by (apply in_seq; lia).
    assert (Iv : In v (seq 0 (num_variables d))) by (apply in_seq; lia).
    assert (Ii : In i (seq (start_of d u) (num_cases d u))) by (apply in_seq; unfold num_cases; lia).
    assert (Hj2 : In j (seq (start_of d v) (num_cases d v))) by (apply in_seq; unfold num_cases; lia).
    specialize (Hc u Iu). rewrite forallb_forall in Hc.
    specialize (Hc v Iv). rewrite forallb_forall in Hc.
    specialize (Hc i Ii). rewrite forallb_forall in Hc.
    assert (Hcj := Hc j). rewrite Hint in Hcj. cbn [implb] in Hcj.
    apply Hcj in Hj2. apply andb_true_iff in Hj2. destruct Hj2 as [Hne Hin].
    split.
    + apply negb_true_iff, Nat.eqb_neq in Hne. exact Hne.
    + apply existsb_eqb_In. exact Hin.
Qed.

(* ---------- list plumbing for the link with Samples.dqm_energy ---------- *)
Lemma forallb_ext_in {A} (f g : A -> bool) l :
  (forall x, In x l -> f x = g x) -> forallb f l = forallb g l.
Proof.
  induction l as [|x l IH]; intros H; [reflexivity|]. cbn [forallb].
  rewrite (H x (or_introl eq_refl)), IH; [reflexivity|]. intros y Hy. apply H. right. exact Hy.
Qed.

Lemma forallb_map_comp {A B} (f : B -> bool) (g : A -> B) l :
  forallb f (map g l) = forallb (fun x => f (g x)) l.
Proof. induction l as [|x l IH]; [reflexivity|]. cbn [map forallb]. rewrite IH. reflexivity. Qed.

Lemma filter_map_length {A B} (p : B -> bool) (f : A -> B) l :
  length (filter p (map f l)) = length (filter (fun x => p (f x)) l).
Proof.
  induction l as [|x l IH]; [reflexivity|]. cbn [map filter].
  destruct (p (f x)); cbn [length]; rewrite IH; reflexivity.
Qed.

Lemma filter_all_false {A} (p : A -> bool) l : (forall x, In x l -> p x = false) -> filter p l = [].
Proof.
  induction l as [|x l IH]; intros H; [reflexivity|]. cbn [filter].
  rewrite (H x (or_introl eq_refl)). apply IH. intros y Hy. apply H. right. exact Hy.
Qed.

Lemma count_prefix (g : nat -> bool) : forall k a u,
  a <= u < a + k -> (forall v, a <= v < a + k -> g v = (v <=? u)) ->
  length (filter g (seq a k)) = S u - a.
Proof.
  induction k as [|k IH]; intros a u Hu Hg; [lia|].
  cbn [seq filter]. rewrite (Hg a) by lia. destruct (Nat.leb_spec a u) as [L|L]; [|lia].
  cbn [length]. destruct (Nat.eq_dec a u) as [->|Hne].
  - rewrite filter_all_false; [cbn [length]; lia|]. intros x Hx. apply in_seq in Hx.
    rewrite Hg by lia. apply Nat.leb_gt. lia.
  - rewrite (IH (S a) u) by (try lia; intros v Hv; apply Hg; lia). lia.
Qed.

Lemma firstn_nth_seq (l : list nat) : forall k,
  k <= length l -> firstn k l = map (fun i => nth i l 0) (seq 0 k).
Proof.
  induction l as [|x l IH]; intros k Hk.
  - cbn [length] in Hk. replace k with 0 by lia. reflexivity.
  - destruct k as [|k]; [reflexivity|]. cbn [firstn seq map nth]. f_equal.
    rewrite <- seq_shift, map_map. cbn [nth]. apply IH. cbn [length] in Hk. lia.
Qed.

Lemma find_combine_seq : forall k a (row : list Z) u,
  a <= u < a + k -> k <= length row ->
  find (fun vc : nat * Z => fst vc =? u) (combine (seq a k) row) = Some (u, nth (u - a) row 0%Z).
Proof.
  induction k as [|k IH]; intros a row u Hu Hk; [lia|].
  destruct row as [|z row]; [cbn [length] in Hk; lia|]. cbn [seq combine find fst].
  destruct (Nat.eqb_spec a u) as [->|Hne].
  - rewrite Nat.sub_diag. reflexivity.
  - rewrite (IH (S a) row u) by (cbn [length] in Hk; lia).
    replace (u - a) with (S (u - S a)) by lia. reflexivity.
Qed.

Lemma in_combine_seq : forall k a (row : list Z) v c,
  In (v, c) (combine (seq a k) row) -> a <= v < a + k /\ c = nth (v - a) row 0%Z.
Proof.
  induction k as [|k IH]; intros a row v c H; [destruct H|].
  destruct row as [|z row]; [destruct H|]. cbn [seq combine] in H. destruct H as [H|H].
  - inversion H. subst. rewrite Nat.sub_diag. split; [lia|reflexivity].
  - apply IH in H. destruct H as [Hv Hc]. split; [lia|].
    replace (v - a) with (S (v - S a)) by lia. exact Hc.
Qed.

Lemma case_ok_eq d row :
  length row = num_variables d ->
  dqm_case_ok (ncases_list d) (combine (seq 0 (num_variables d)) row) =
  forallb (fun u => negb (case_bad d u (sample_at row u))) (seq 0 (num_variables d)).
Proof.
  intros Hl. unfold dqm_case_ok, ncases_list. rewrite forallb_map_comp.
  apply forallb_ext_in. intros u Hu. apply in_seq in Hu. cbn [fst snd].
  rewrite (find_combine_seq (num_variables d) 0 row u) by lia. cbn [snd].
  rewrite Nat.sub_0_r. fold (sample_at row u). unfold case_bad.
  destruct (Z.leb_spec 0 (sample_at row u)); destruct (Z.ltb_spec (sample_at row u) 0);
    destruct (Z.ltb_spec (sample_at row u) (Z.of_nat (num_cases d u)));
    destruct (Z.leb_spec (Z.of_nat (num_cases d u)) (sample_at row u)); try lia; reflexivity.
Qed.

Lemma abs_mentions mm : Inv mm -> mentions_only (abs mm) (seq 0 (nvars mm)).
Proof.
  intros HI. unfold mentions_only, abs. cbn [p_lin p_quad]. split.
  - intros t Ht. destruct t as [v b]. apply in_combine_l in Ht. exact Ht.
  - intros t Ht. apply in_flat_map in Ht. destruct Ht as [u [Hu Ht]].
    unfold lower_terms in Ht. apply in_map_iff in Ht. destruct Ht as [e [<- He]].
    apply filter_In in He. destruct He as [He _]. cbn [fst snd]. split; [exact Hu|].
    destruct e as [w b]. apply (nb_get_In_2 w _ b (Inv_sorted mm u HI)) in He.
    destruct (Inv_bound mm u w b HI He) as [_ Hw]. cbn [fst]. apply in_seq. lia.
Qed.

(* ---------- case indices ---------- *)
Section Row.
Variable d : dqm.
Variable row : list Z.
Hypothesis Hwf : dqm_wf d.
Hypothesis Hrow : row_ok d row.

Let V := num_variables d.
Let m := d_bqm d.
Let cf (u : nat) : nat := cidx d u (sample_at row u).

Lemma starts_mono u v : u <= v -> v <= V -> start_of d u <= start_of d v.
Proof.
  intros Huv. induction v as [|v IH]; intros Hv.
  - replace u with 0 by lia. lia.
  - destruct (Nat.eq_dec u (S v)) as [->|Hne]; [lia|].
    assert (H1 : start_of d u <= start_of d v) by (apply IH; lia).
    assert (H2 := wf_mono d Hwf v). unfold V in Hv. specialize (H2 ltac:(lia)). lia.
Qed.

Lemma cf_range u : u < V -> start_of d u <= cf u < start_of d (S u).
Proof.
  intros Hu. destruct Hrow as [_ Hr]. specialize (Hr u Hu).
  assert (Hm := wf_mono d Hwf u Hu). unfold cf, cidx, num_cases in *. lia.
Qed.

Lemma cf_lt_n u : u < V -> cf u < nvars m.
Proof.
  intros Hu. assert (H1 := cf_range u Hu).
  assert (H2 : start_of d (S u) <= start_of d V) by (apply starts_mono; lia).
  unfold m. rewrite <- (wf_last d Hwf). fold V. lia.
Qed.

Lemma cf_strict u v : u < v -> v < V -> cf u < cf v.
Proof.
  intros Huv Hv. assert (H1 := cf_range u ltac:(lia)). assert (H2 := cf_range v Hv).
  assert (H3 : start_of d (S u) <= start_of d v) by (apply starts_mono; lia). lia.
Qed.

Lemma cf_leb u v : u < V -> v < V -> (cf v <=? cf u) = (v <=? u).
Proof.
  intros Hu Hv. destruct (Nat.leb_spec v u) as [L|L].
  - apply Nat.leb_le. destruct (Nat.eq_dec v u) as [->|Hne]; [lia|].
    assert (cf v < cf u) by (apply cf_strict; lia). lia.
  - apply Nat.leb_gt. apply cf_strict; lia.
Qed.

Lemma case_list_sorted : StronglySorted lt (case_list d row).
Proof.
  unfold case_list. apply SS_map_seq. intros x y _ Hxy Hy. apply (cf_strict x y Hxy). exact Hy.
Qed.

Lemma case_list_bound c : In c (case_list d row) -> c < nvars m.
Proof.
  unfold case_list. intros H. apply in_map_iff in H. destruct H as [u [<- Hu]].
  apply in_seq in Hu. apply cf_lt_n. unfold V. lia.
Qed.

(* the polynomial side as a double sum over variables *)
Lemma poly_side :
  energy (abs m) (ind d row) =
  (off m + qsum (map (fun u => linear m (cf u) +
            qsum (map (fun v => if v <=? u then quadratic m (cf u) (cf v) else 0) (seq 0 V)))
          (seq 0 V)))%Qc.
Proof.
  rewrite <- (energy_adj_abs m (ind d row) (wf_inv d Hwf)).
  rewrite (energy_dense m (ind d row) (wf_inv d Hwf)). unfold ind.
  rewrite (dense_indl (nvars m) (off m) (linear m) (quadratic m) (case_list d row)
             case_list_sorted case_list_bound).
  f_equal. unfold case_list at 2. rewrite map_map. fold V. apply qsum_map_ext_in.
  intros u Hu. apply in_seq in Hu. fold (cf u). f_equal.
  unfold case_list. rewrite map_map. fold V. apply qsum_map_ext_in.
  intros v Hv. apply in_seq in Hv. fold (cf v). rewrite cf_leb by lia. reflexivity.
Qed.

(* ---------- the loop side ---------- *)
Definition walk_sum (u : nat) (vs : list nat) : Qc :=
  qsum (map (fun v => quadratic m (cf u) (cf v)) (filter (fun v => v <=? u) vs)).

Lemma dqm_walk_spec u vs : forall acc,
  StronglySorted lt vs ->
  dqm_walk d row u (cf u) vs acc = (acc + walk_sum u vs)%Qc.
Proof.
  unfold walk_sum. induction vs as [|v r IH]; intros acc Hs.
  - cbn [dqm_walk filter map qsum]. ring.
  - apply StronglySorted_inv in Hs. destruct Hs as [Hs Hall]. rewrite Forall_forall in Hall.
    cbn [dqm_walk filter]. destruct (Nat.ltb_spec u v) as [L|L].
    + destruct (Nat.leb_spec v u); [lia|].
      assert (E : filter (fun v0 => v0 <=? u) r = []).
      { clear IH. induction r as [|x r IHr]; [reflexivity|]. cbn [filter].
        assert (v < x) by (apply Hall; left; reflexivity).
        destruct (Nat.leb_spec x u); [lia|]. apply IHr.
        - apply StronglySorted_inv in Hs. apply Hs.
        - intros y Hy. apply Hall. right. exact Hy. }
      rewrite E. cbn [map qsum]. ring.
    + destruct (Nat.leb_spec v u); [|lia]. rewrite (IH _ Hs). cbn [map qsum]. unfold cf, m. ring.
Qed.

Lemma loop_vars_spec us : forall acc,
  (forall u, In u us -> u < V) ->
  dqm_loop_vars d row us acc =
  Some (acc + qsum (map (fun u => linear m (cf u) + walk_sum u (adjv_of d u)) us))%Qc.
Proof.
  induction us as [|u r IH]; intros acc Hus.
  - cbn [dqm_loop_vars map qsum]. f_equal. ring.
  - assert (Hu : u < V) by (apply Hus; left; reflexivity).
    cbn [dqm_loop_vars].
    assert (Hb : case_bad d u (sample_at row u) = false)
      by (apply case_bad_false; destruct Hrow as [_ Hr]; apply Hr; exact Hu).
    rewrite Hb. fold (cf u). rewrite dqm_walk_spec by (apply (wf_sorted d Hwf); exact Hu).
    rewrite IH by (intros w Hw; apply Hus; right; exact Hw). f_equal.
    cbn [map qsum]. fold m. ring.
Qed.

Lemma quadratic_no_interaction i j : has_interaction m i j = false -> quadratic m i j = 0%Qc.
Proof. unfold has_interaction, quadratic. destruct (nb_get j (nb m i)); [discriminate|reflexivity]. Qed.

(* the heart: per variable, the lower triangle of the dense double sum is what the walk
   over adj_[u] with the break collects *)
Lemma walk_matches u : u < V ->
  qsum (map (fun v => if v <=? u then quadratic m (cf u) (cf v) else 0%Qc) (seq 0 V)) =
  walk_sum u (adjv_of d u).
Proof.
  intros Hu. unfold walk_sum.
  set (L := filter (fun v => v <=? u) (adjv_of d u)).
  set (h := fun v => if v <=? u then quadratic m (cf u) (cf v) else 0%Qc).
  assert (HsL : StronglySorted lt L) by (apply SS_filter, (wf_sorted d Hwf), Hu).
  assert (HbL : forall c, In c L -> 0 <= c < 0 + V).
  { intros c Hc. apply filter_In in Hc. destruct Hc as [_ Hc]. apply Nat.leb_le in Hc. lia. }
  transitivity (qsum (map (fun v => (h v * indl L v)%Qc) (seq 0 V))).
  - apply qsum_map_ext_in. intros v Hv. apply in_seq in Hv. fold (h v).
    destruct (existsb (Nat.eqb v) L) eqn:E.
    + unfold indl. rewrite E. ring.
    + unfold indl. rewrite E. assert (Hz : h v = 0%Qc); [|rewrite Hz; ring].
      unfold h. destruct (Nat.leb_spec v u) as [Lvu|Lvu]; [|reflexivity].
      destruct (has_interaction m (cf u) (cf v)) eqn:Hint.
      * exfalso. destruct (wf_cons d Hwf u v (cf u) (cf v) Hu ltac:(lia)
                            (cf_range u Hu) (cf_range v ltac:(lia)) Hint) as [_ Hin].
        assert (HinL : In v L) by (apply filter_In; split; [exact Hin|apply Nat.leb_le; exact Lvu]).
        apply existsb_eqb_In in HinL. rewrite HinL in E. discriminate.
      * apply quadratic_no_interaction, Hint.
  - rewrite (ind_sum h V 0 L HsL HbL). apply qsum_map_ext_in. intros v Hv.
    apply filter_In in Hv. destruct Hv as [_ Hv]. unfold h. rewrite Hv. reflexivity.
Qed.

Lemma loop_row_eq_poly :
  dqm_loop_row d row = Some (energy (abs (d_bqm d)) (ind d row)).
Proof.
  unfold dqm_loop_row. destruct Hrow as [Hl _]. rewrite Hl, Nat.eqb_refl.
  fold V. rewrite loop_vars_spec by (intros u Hu; apply in_seq in Hu; lia).
  fold m. rewrite poly_side. unfold d_off. fold m. f_equal. f_equal.
  apply qsum_map_ext_in. intros u Hu. apply in_seq in Hu. f_equal. symmetry.
  apply walk_matches. lia.
Qed.

(* ---------- link with the spec Samples.dqm_energy (labels coded variable*stride+case) ---------- *)
Section Link.
Variable stride : nat.
Hypothesis Hstride : forall u, u < V -> num_cases d u <= stride.

Lemma block_exists i : forall k,
  k <= V -> i < start_of d k -> exists u, u < k /\ start_of d u <= i < start_of d (S u).
Proof.
  clear Hrow Hstride. induction k as [|k IH]; intros Hk Hi.
  - rewrite (wf_s0 d Hwf) in Hi. lia.
  - destruct (Nat.lt_ge_cases i (start_of d k)) as [L|L].
    + destruct (IH ltac:(lia) L) as [u [Hu Hb]]. exists u. split; [lia|exact Hb].
    + exists k. split; lia.
Qed.

Lemma var_of_ok u i :
  u < V -> start_of d u <= i < start_of d (S u) -> var_of_case (firstn V (d_starts d)) i = u.
Proof.
  clear Hrow Hstride. intros Hu Hi. unfold var_of_case.
  rewrite firstn_nth_seq by (rewrite (wf_len d Hwf); fold V; lia).
  rewrite filter_map_length. rewrite (count_prefix _ V 0 u); [lia|lia|].
  intros v Hv. change (nth v (d_starts d) 0) with (start_of d v).
  destruct (Nat.leb_spec v u) as [L|L].
  - apply Nat.leb_le. assert (start_of d v <= start_of d u) by (apply starts_mono; lia). lia.
  - apply Nat.leb_gt. assert (start_of d (S u) <= start_of d v) by (apply starts_mono; lia). lia.
Qed.

Lemma code_ok u i :
  u < V -> start_of d u <= i < start_of d (S u) -> code d stride i = u * stride + (i - start_of d u).
Proof.
  clear Hrow Hstride. intros Hu Hi. unfold code. cbv zeta. fold V. rewrite (var_of_ok u i Hu Hi).
  reflexivity.
Qed.

Lemma cf_eq u : u < V -> cf u = start_of d u + Z.to_nat (sample_at row u).
Proof.
  intros Hu. destruct Hrow as [_ Hr]. specialize (Hr u Hu). unfold cf, cidx. lia.
Qed.

Lemma in_case_list_iff u i :
  u < V -> start_of d u <= i < start_of d (S u) -> (In i (case_list d row) <-> i = cf u).
Proof.
  intros Hu Hi. unfold case_list. fold V. split.
  - intros H. apply in_map_iff in H. destruct H as [v [Hv Hin]]. apply in_seq in Hin.
    fold (cf v) in Hv. assert (Hrv := cf_range v ltac:(lia)).
    destruct (Nat.lt_trichotomy v u) as [L|[->|L]].
    + assert (start_of d (S v) <= start_of d u) by (apply starts_mono; lia). lia.
    + symmetry. exact Hv.
    + assert (start_of d (S u) <= start_of d v) by (apply starts_mono; lia). lia.
  - intros ->. apply in_map_iff. exists u. split; [reflexivity|apply in_seq; lia].
Qed.

Lemma sample_link i :
  i < nvars m -> dqm_sample stride (combine (seq 0 V) row) (code d stride i) = ind d row i.
Proof.
  intros Hi. unfold m in Hi. rewrite <- (wf_last d Hwf) in Hi. fold V in Hi.
  destruct (block_exists i V (le_n V) Hi) as [u [Hu Hb]].
  rewrite (code_ok u i Hu Hb). assert (Hcf := cf_eq u Hu).
  assert (Hl : length row = V) by (destruct Hrow as [Hl _]; exact Hl).
  unfold ind, indl, dqm_sample.
  destruct (Nat.eq_dec i (cf u)) as [E|E].
  - assert (H1 : In i (case_list d row)) by (apply (in_case_list_iff u i Hu Hb); exact E).
    apply existsb_eqb_In in H1. rewrite H1.
    assert (H2 : existsb (fun vc : nat * Z =>
                (u * stride + (i - start_of d u) =? fst vc * stride + Z.to_nat (snd vc)) &&
                (0 <=? snd vc)%Z) (combine (seq 0 V) row) = true).
    { apply existsb_exists. exists (u, sample_at row u). split.
      - assert (F := find_combine_seq V 0 row u ltac:(lia) ltac:(lia)).
        apply find_some in F. destruct F as [F _]. rewrite Nat.sub_0_r in F. exact F.
      - cbn [fst snd]. apply andb_true_iff. split.
        + apply Nat.eqb_eq. lia.
        + apply Z.leb_le. destruct Hrow as [_ Hr]. specialize (Hr u Hu). lia. }
    rewrite H2. reflexivity.
  - assert (H1 : existsb (Nat.eqb i) (case_list d row) = false).
    { destruct (existsb (Nat.eqb i) (case_list d row)) eqn:X; [|reflexivity].
      apply existsb_eqb_In, (in_case_list_iff u i Hu Hb) in X. contradiction. }
    rewrite H1.
    assert (H2 : existsb (fun vc : nat * Z =>
                (u * stride + (i - start_of d u) =? fst vc * stride + Z.to_nat (snd vc)) &&
                (0 <=? snd vc)%Z) (combine (seq 0 V) row) = false).
    { match goal with |- ?b = false => destruct b eqn:X; [|reflexivity] end. exfalso.
      apply existsb_exists in X. destruct X as [[v c] [Hin Hc]]. cbn [fst snd] in Hc.
      apply andb_true_iff in Hc. destruct Hc as [Hc1 Hc2]. apply Nat.eqb_eq in Hc1.
      apply Z.leb_le in Hc2. apply in_combine_seq in Hin. destruct Hin as [Hv Hcv].
      rewrite Nat.sub_0_r in Hcv. fold (sample_at row v) in Hcv.
      assert (Hrv : (0 <= sample_at row v < Z.of_nat (num_cases d v))%Z)
        by (destruct Hrow as [_ Hr]; apply Hr; lia).
      assert (Hsu := Hstride u Hu). assert (Hsv := Hstride v ltac:(lia)).
      assert (Hk1 : i - start_of d u < stride) by (unfold num_cases in Hsu; lia).
      assert (Hk2 : Z.to_nat c < stride) by (subst c; lia).
      assert (Huv : u = v).
      { destruct (Nat.lt_trichotomy u v) as [L|[L|L]]; [|exact L|].
        - exfalso. assert (S u * stride <= v * stride) by (apply Nat.mul_le_mono_r; lia). lia.
        - exfalso. assert (S v * stride <= u * stride) by (apply Nat.mul_le_mono_r; lia). lia. }
      subst v. apply E. rewrite Hcf. subst c. lia. }
    rewrite H2. reflexivity.
Qed.

Lemma link_ok :
  dqm_energy (relabel (code d stride) (abs m)) stride (ncases_list d) (combine (seq 0 V) row)
  = Some (energy (abs m) (ind d row)).
Proof.
  assert (Hl : length row = V) by (destruct Hrow as [Hl _]; exact Hl).
  unfold dqm_energy. unfold V. rewrite (case_ok_eq d row Hl).
  assert (Hr : row_in_range d row = true) by (apply row_in_range_iff; exact Hrow).
  unfold row_in_range in Hr. apply andb_true_iff in Hr. destruct Hr as [_ Hr]. rewrite Hr.
  f_equal. rewrite energy_relabel.
  apply (energy_depends_on_vars (abs m) (seq 0 (nvars m))).
  - apply abs_mentions, (wf_inv d Hwf).
  - intros v Hv. apply in_seq in Hv. apply sample_link. lia.
Qed.

End Link.

End Row.

(* ---------- main theorems ---------- *)

(* C01 for one row: the loop returns the DQM offset (kept in the case BQM, hence inside
   `abs`) plus the value of the case polynomial at the indicator sample of the row *)
Theorem dqm_loop_row_eq_poly d row :
  dqm_wf d -> row_ok d row ->
  dqm_loop_row d row = Some (energy (abs (d_bqm d)) (ind d row)).
Proof. intros Hwf Hrow. apply loop_row_eq_poly; assumption. Qed.

(* the same with the offset displayed *)
Theorem dqm_loop_row_eq_poly_off d row :
  dqm_wf d -> row_ok d row ->
  dqm_loop_row d row =
  Some (d_off d + energy (mkPoly 0 (p_lin (abs (d_bqm d))) (p_quad (abs (d_bqm d)))) (ind d row))%Qc.
Proof.
  intros Hwf Hrow. rewrite (dqm_loop_row_eq_poly d row Hwf Hrow). f_equal.
  unfold energy, abs, d_off. cbn [p_off p_lin p_quad]. ring.
Qed.

Lemma loop_vars_none_iff d row us : forall acc,
  dqm_loop_vars d row us acc = None <->
  exists u, In u us /\ case_bad d u (sample_at row u) = true.
Proof.
  induction us as [|u r IH]; intros acc.
  - cbn [dqm_loop_vars]. split; [discriminate|intros [u [[] _]]].
  - cbn [dqm_loop_vars]. destruct (case_bad d u (sample_at row u)) eqn:E.
    + split; [|reflexivity]. intros _. exists u. split; [left; reflexivity|exact E].
    + rewrite IH. split.
      * intros [w [Hw Hb]]. exists w. split; [right; exact Hw|exact Hb].
      * intros [w [[<-|Hw] Hb]]; [rewrite E in Hb; discriminate|]. exists w. split; assumption.
Qed.

(* ValueError iff wrong width or some case out of range (no well-formedness needed) *)
Theorem dqm_loop_row_none_iff d row :
  dqm_loop_row d row = None <->
  length row <> num_variables d \/
  exists u, u < num_variables d /\
            (sample_at row u < 0 \/ Z.of_nat (num_cases d u) <= sample_at row u)%Z.
Proof.
  unfold dqm_loop_row. destruct (Nat.eqb_spec (length row) (num_variables d)) as [E|E].
  - rewrite loop_vars_none_iff. split.
    + intros [u [Hu Hb]]. right. exists u. apply in_seq in Hu. split; [lia|].
      apply case_bad_true. exact Hb.
    + intros [Hl|[u [Hu Hb]]]; [contradiction|]. exists u. split; [apply in_seq; lia|].
      apply case_bad_true. exact Hb.
  - split; [intros _; left; exact E|reflexivity].
Qed.

Corollary dqm_loop_row_none_iff_b d row :
  dqm_loop_row d row = None <-> row_in_range d row = false.
Proof.
  rewrite dqm_loop_row_none_iff. split.
  - intros H. destruct (row_in_range d row) eqn:E; [|reflexivity]. exfalso.
    apply row_in_range_iff in E. destruct E as [Hl Hr]. destruct H as [H|[u [Hu H]]]; [contradiction|].
    specialize (Hr u Hu). lia.
  - intros H. destruct (Nat.eq_dec (length row) (num_variables d)) as [Hl|Hl]; [|left; exact Hl].
    right. unfold row_in_range in H. rewrite Hl, Nat.eqb_refl in H. cbn [andb] in H.
    assert (Hex : exists u, In u (seq 0 (num_variables d)) /\ case_bad d u (sample_at row u) = true).
    { induction (seq 0 (num_variables d)) as [|x l IH]; [discriminate|]. cbn [forallb] in H.
      apply andb_false_iff in H. destruct H as [H|H].
      - exists x. split; [left; reflexivity|]. apply negb_false_iff. exact H.
      - destruct (IH H) as [u [Hu Hb]]. exists u. split; [right; exact Hu|exact Hb]. }
    destruct Hex as [u [Hu Hb]]. exists u. apply in_seq in Hu. split; [lia|].
    apply case_bad_true. exact Hb.
Qed.

(* whole call: all rows or nothing *)
Theorem dqm_loop_eq_poly d rows :
  dqm_wf d -> (forall row, In row rows -> row_ok d row) ->
  dqm_loop d rows = Some (map (fun row => energy (abs (d_bqm d)) (ind d row)) rows).
Proof.
  intros Hwf. induction rows as [|r rs IH]; intros H; [reflexivity|].
  cbn [dqm_loop map]. rewrite (dqm_loop_row_eq_poly d r Hwf) by (apply H; left; reflexivity).
  rewrite IH by (intros row Hr; apply H; right; exact Hr). reflexivity.
Qed.

Theorem dqm_loop_none_iff d rows :
  dqm_loop d rows = None <-> exists row, In row rows /\ dqm_loop_row d row = None.
Proof.
  induction rows as [|r rs IH].
  - cbn [dqm_loop]. split; [discriminate|intros [row [[] _]]].
  - cbn [dqm_loop]. destruct (dqm_loop_row d r) as [e|] eqn:E.
    + destruct (dqm_loop d rs) as [es|].
      * split; [discriminate|]. intros [row [[<-|Hr] Hn]]; [rewrite E in Hn; discriminate|].
        exfalso. assert (Hx : exists row, In row rs /\ dqm_loop_row d row = None)
          by (exists row; split; assumption). apply IH in Hx. discriminate.
      * split; [|reflexivity]. intros _. destruct (proj1 IH eq_refl) as [row [Hr Hn]].
        exists row. split; [right; exact Hr|exact Hn].
    + split; [|reflexivity]. intros _. exists r. split; [left; reflexivity|exact E].
Qed.

(* the loop agrees with the existing specification Samples.dqm_energy on the case polynomial
   relabelled to (variable * stride + case) labels, for any stride >= every num_cases *)
Theorem dqm_loop_row_eq_samples_spec d stride row :
  dqm_wf d -> length row = num_variables d ->
  (forall u, u < num_variables d -> num_cases d u <= stride) ->
  dqm_loop_row d row =
  dqm_energy (relabel (code d stride) (abs (d_bqm d))) stride (ncases_list d)
             (combine (seq 0 (num_variables d)) row).
Proof.
  intros Hwf Hl Hs. destruct (row_in_range d row) eqn:E.
  - assert (Hrow : row_ok d row) by (apply row_in_range_iff; exact E).
    rewrite (dqm_loop_row_eq_poly d row Hwf Hrow). symmetry.
    apply (link_ok d row Hwf Hrow stride Hs).
  - assert (Hn : dqm_loop_row d row = None) by (apply dqm_loop_row_none_iff_b; exact E).
    rewrite Hn. unfold dqm_energy. rewrite (case_ok_eq d row Hl).
    unfold row_in_range in E. rewrite Hl, Nat.eqb_refl in E. cbn [andb] in E. rewrite E. reflexivity.
Qed.

(* ---------- the Python wrapper: column reordering ---------- *)

(* column u of the reordered matrix is the column labelled variables[u] *)
Theorem reorder_row_value vars ls row u :
  u < length vars ->
  sample_at (reorder_row vars ls row) u = nth (idx_of (nth u vars 0) ls) row 0%Z.
Proof.
  intros Hu. unfold sample_at, reorder_row.
  rewrite (nth_indep _ 0%Z (nth (idx_of 0 ls) row 0%Z)) by (rewrite map_length; exact Hu).
  exact (map_nth (fun v => nth (idx_of v ls) row 0%Z) vars 0 u).
Qed.

Lemma reorder_row_length vars ls row : length (reorder_row vars ls row) = length vars.
Proof. unfold reorder_row. apply map_length. Qed.

(* what the wrapper hands to the Cython loop *)
Theorem dqm_energies_unfold vars d ls rows :
  dqm_energies vars d ls rows =
  if forallb (forallb int32_ok) rows && (length ls =? num_variables d) then
    if list_eqb Nat.eqb vars ls then dqm_loop d rows
    else if covers ls vars then dqm_loop_shape d (length vars) (map (reorder_row vars ls) rows)
    else None
  else None.
Proof.
  unfold dqm_energies. destruct (forallb (forallb int32_ok) rows); cbn [negb andb]; [|reflexivity].
  destruct (Nat.eqb_spec (length ls) (num_variables d)) as [E|E]; cbn [negb]; [|reflexivity].
  destruct (list_eqb Nat.eqb vars ls); [|reflexivity].
  unfold dqm_loop_shape. rewrite E, Nat.eqb_refl. reflexivity.
Qed.

Lemma list_eqb_nat_eq (a b : list nat) : list_eqb Nat.eqb a b = true -> a = b.
Proof.
  revert b. induction a as [|x a IH]; intros [|y b] H; try discriminate; [reflexivity|].
  cbn [list_eqb] in H. apply andb_true_iff in H. destruct H as [H1 H2].
  apply Nat.eqb_eq in H1. subst. f_equal. apply IH, H2.
Qed.

(* when the labels are already in model order the reordering is the identity *)
Lemma reorder_row_id ls : forall row,
  NoDup ls -> length row = length ls -> reorder_row ls ls row = row.
Proof.
  unfold reorder_row. induction ls as [|x r IH]; intros row Hnd Hl.
  - destruct row; [reflexivity|discriminate].
  - destruct row as [|z row]; [discriminate|]. inversion Hnd as [|x' r' Hx Hr]. subst.
    cbn [map idx_of]. rewrite Nat.eqb_refl. cbn [nth]. f_equal.
    transitivity (map (fun v => nth (idx_of v r) row 0%Z) r);
      [|apply (IH row Hr); cbn [length] in Hl; lia].
    apply map_ext_in. intros v Hv. destruct (Nat.eqb_spec x v) as [->|Hne]; [contradiction|].
    reflexivity.
Qed.

(* C01 through the wrapper: every returned energy is the value of the case polynomial at
   the indicator sample of the row read through the labels (column u of the reordered row is
   the column labelled variables[u], reorder_row_value) *)
Theorem dqm_energies_eq_poly vars d ls rows :
  dqm_wf d -> NoDup ls -> length vars = num_variables d -> length ls = num_variables d ->
  (forall row, In row rows -> length row = length ls) ->
  forallb (forallb int32_ok) rows = true ->
  (forall v, In v vars -> In v ls) ->
  (forall row, In row rows -> row_ok d (reorder_row vars ls row)) ->
  dqm_energies vars d ls rows =
  Some (map (fun row => energy (abs (d_bqm d)) (ind d (reorder_row vars ls row))) rows).
Proof.
  intros Hwf Hnd Hlv Hll Hrl H32 Hcov Hok.
  assert (E : dqm_energies vars d ls rows = dqm_loop d (map (reorder_row vars ls) rows)).
  { rewrite dqm_energies_unfold, H32, Hll, Nat.eqb_refl. cbn [andb].
    destruct (list_eqb Nat.eqb vars ls) eqn:El.
    - apply list_eqb_nat_eq in El. subst vars. f_equal. rewrite <- (map_id rows) at 1.
      apply map_ext_in. intros row Hr. symmetry. apply reorder_row_id; [exact Hnd|apply Hrl, Hr].
    - rewrite (proj2 (covers_spec ls vars) Hcov). unfold dqm_loop_shape.
      rewrite Hlv, Nat.eqb_refl. reflexivity. }
  rewrite E, (dqm_loop_eq_poly d (map (reorder_row vars ls) rows) Hwf).
  - rewrite map_map. reflexivity.
  - intros row Hr. apply in_map_iff in Hr. destruct Hr as [r0 [<- Hr0]]. apply Hok, Hr0.
Qed.

(* ---------- a worked example, cross-checked against the real code ----------
   d = DiscreteQuadraticModel(); add_variable(2,'a'); add_variable(3,'b'); add_variable(2,'c')
   set_linear a [0.5,-1]  b [1,2,-0.25]  c [0,3]
   set_quadratic(a,b,{(0,1):1.5,(1,2):-2}); set_quadratic(c,b,{(1,0):0.75,(0,2):4}); offset=0.5
   to_numpy_vectors(return_offset=True):
     case_starts [0,2,5]  linear [0.5,-1,1,2,-0.25,0,3]
     irow [3,4,5,6] icol [0,1,4,2] biases [1.5,-2,4,0.75]  offset 0.5 ; _cydqm.adj [[1],[0,2],[1]]
   energies([[0,1,1],[1,2,0],[0,0,0],[1,0,1]]) = [7.5, 1.25, 2.0, 4.25];
   [[0,3,0]] and [[0,-1,0]] raise ValueError("invalid case"), [[0,0]] raises (wrong width) *)
Definition ex_dqm : dqm :=
  dqm_of_obs [0;2;5] [qc 1 2; qc (-1) 1; qc 1 1; qc 2 1; qc (-1) 4; qc 0 1; qc 3 1]
             [(3,0,qc 3 2); (4,1,qc (-2) 1); (5,4,qc 4 1); (6,2,qc 3 4)] (qc 1 2).

Example ex_dqm_adj : d_adjv ex_dqm = [[1];[0;2];[1]] /\ d_starts ex_dqm = [0;2;5;7].
Proof. vm_compute. split; reflexivity. Qed.

Example ex_dqm_wf : dqm_wf_b ex_dqm = true.
Proof. vm_compute. reflexivity. Qed.

Example ex_dqm_energies :
  option_eqb (list_eqb Qc_eqb) (dqm_loop ex_dqm [[0;1;1];[1;2;0];[0;0;0];[1;0;1]]%Z)
             (Some [qc 15 2; qc 5 4; qc 2 1; qc 17 4]) = true.
Proof. vm_compute. reflexivity. Qed.

Example ex_dqm_spec :
  list_eqb Qc_eqb
    (map (fun row => energy (abs (d_bqm ex_dqm)) (ind ex_dqm row)) [[0;1;1];[1;2;0];[0;0;0];[1;0;1]]%Z)
    [qc 15 2; qc 5 4; qc 2 1; qc 17 4] = true.
Proof. vm_compute. reflexivity. Qed.

Example ex_dqm_bad :
  dqm_loop ex_dqm [[0;3;0]]%Z = None /\ dqm_loop ex_dqm [[0;-1;0]]%Z = None /\
  dqm_loop ex_dqm [[0;0]]%Z = None /\ dqm_loop ex_dqm [[0;0;0];[0;5;0]]%Z = None.
Proof. vm_compute. repeat split; reflexivity. Qed.

(* reordered labels: energies((S, ['c','b','a'])) = [1.5, 3.75, 2.0, 4.25] with a=0 b=1 c=2 *)
Example ex_dqm_reordered :
  option_eqb (list_eqb Qc_eqb)
    (dqm_energies [0;1;2] ex_dqm [2;1;0] [[0;1;1];[1;2;0];[0;0;0];[1;0;1]]%Z)
    (Some [qc 3 2; qc 15 4; qc 2 1; qc 17 4]) = true.
Proof. vm_compute. reflexivity. Qed.

(* the link with Samples.dqm_energy on the example: stride 3 >= every num_cases *)
Example ex_dqm_link :
  option_eqb Qc_eqb
    (dqm_energy (relabel (code ex_dqm 3) (abs (d_bqm ex_dqm))) 3 (ncases_list ex_dqm)
                (combine (seq 0 3) [1;2;0]%Z))
    (Some (qc 5 4)) = true
  /\ map (code ex_dqm 3) (seq 0 7) = [0;1;3;4;5;6;7].
Proof. vm_compute. split; reflexivity. Qed.

Print Assumptions dqm_loop_row_eq_poly.
Print Assumptions dqm_loop_row_none_iff.
Print Assumptions dqm_loop_eq_poly.
Print Assumptions dqm_loop_none_iff.
Print Assumptions dqm_wf_b_sound.
Print Assumptions dqm_loop_row_eq_samples_spec.
Print Assumptions dqm_energies_eq_poly.
