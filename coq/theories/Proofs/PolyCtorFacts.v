(* C15 - BinaryPolynomial constructors / exporters (Model/PolyCtor.v): the dict they build has, at every key,
   the coefficient of the documented polynomial (sum of the given terms plus the offset); hence the same
   energy on every assignment of the vartype. *)
From Coq Require Import List ZArith QArith Qcanon Bool Arith Lia Permutation.
From Dimod Require Import Base.Util Model.Poly Model.HPoly Model.HPolyPy Model.Reduce Model.PolyCtor
  Proofs.PolyFacts Proofs.HPolyFacts Proofs.CoeffSound Proofs.HPolyPyFacts Proofs.NormaliseFacts.
Import ListNotations.
Open Scope Qc_scope.

(* ---------- the key computed by __init__ is the normalised term ---------- *)
Lemma dedup_length_le l : (length (dedup l) <= length l)%nat.
Proof.
  induction l as [|x xs IH]; cbn [dedup length]; [lia|].
  destruct (existsb (Nat.eqb x) xs); cbn [length]; lia.
Qed.

Lemma dedup_length_eq l : length (dedup l) = length l -> dedup l = l.
Proof.
  induction l as [|x xs IH]; cbn [dedup length]; [reflexivity|].
  pose proof (dedup_length_le xs) as Hle.
  destruct (existsb (Nat.eqb x) xs); cbn [length]; intros H; [lia|].
  f_equal. apply IH. lia.
Qed.

Lemma count_occ_nat_notin v l : ~ In v l -> count_occ_nat v l = 0%nat.
Proof.
  induction l as [|x xs IH]; intros H; cbn [count_occ_nat]; [reflexivity|].
  destruct (Nat.eqb_spec x v) as [E|E]; [exfalso; apply H; left; exact E|].
  rewrite IH; [reflexivity|]. intros Hin. apply H. right. exact Hin.
Qed.

Lemma count_occ_nat_NoDup v l : NoDup l -> In v l -> count_occ_nat v l = 1%nat.
Proof.
  induction 1 as [|x xs Hx Hnd IH]; intros Hin; [destruct Hin|]. cbn [count_occ_nat].
  destruct (Nat.eqb_spec x v) as [E|E].
  - subst x. rewrite count_occ_nat_notin by exact Hx. reflexivity.
  - destruct Hin as [Hin|Hin]; [contradiction|]. rewrite IH by exact Hin. reflexivity.
Qed.

Lemma filter_all {A} (f : A -> bool) l : (forall x, In x l -> f x = true) -> filter f l = l.
Proof.
  induction l as [|x xs IH]; intros H; cbn [filter]; [reflexivity|].
  rewrite (H x (or_introl eq_refl)). f_equal. apply IH. intros y Hy. apply H. right. exact Hy.
Qed.

Theorem ctor_key_spec vt term :
  ctor_key vt term = match vt with SPIN => spin_reduce_vars term | _ => binary_reduce_vars term end.
Proof.
  unfold ctor_key, spin_reduce_vars, binary_reduce_vars.
  destruct vt; cbn [is_spin_vt]; rewrite ?andb_false_r; try reflexivity.
  rewrite andb_true_r. destruct (Nat.ltb_spec (length (dedup term)) (length term)) as [Hlt|Hge]; [reflexivity|].
  pose proof (dedup_length_le term) as Hle.
  assert (E : dedup term = term) by (apply dedup_length_eq; lia).
  symmetry. apply filter_all. intros v Hv.
  rewrite count_occ_nat_NoDup; [reflexivity| |].
  - rewrite <- E. apply NoDup_dedup.
  - apply In_dedup. exact Hv.
Qed.

Lemma poly_init_as_fold vt raw d :
  fold_left (ctor_step vt) raw d =
  fold_left (fun new t => hdict_add new (sort_nats (fst t)) (snd t)) (normalise vt raw) d.
Proof.
  revert d. induction raw as [|t raw IH]; intros d; [reflexivity|].
  cbn [normalise map fold_left]. fold (normalise vt raw). rewrite IH. unfold ctor_step.
  cbn [fst snd]. rewrite ctor_key_spec. destruct vt; reflexivity.
Qed.

Lemma hmeas_fold_add_mono phi l : sort_invariant phi -> forall d,
  hmeas phi (fold_left (fun new t => hdict_add new (sort_nats (fst t)) (snd t)) l d) = hmeas phi d + hmeas phi l.
Proof.
  intros Hphi. induction l as [|t l IH]; intros d; cbn [fold_left].
  - unfold hmeas at 3. cbn [map qsum]. ring.
  - rewrite IH, hmeas_hdict_add, hmeas_cons, Hphi. ring.
Qed.

(* every linear functional that does not see the order inside a key agrees on the dict and on the normalised list *)
Theorem poly_init_hmeas phi vt raw : sort_invariant phi ->
  hmeas phi (poly_init vt raw) = hmeas phi (normalise vt raw).
Proof.
  intros Hphi. unfold poly_init. rewrite poly_init_as_fold, (hmeas_fold_add_mono phi _ Hphi).
  unfold hmeas at 1. cbn [map qsum]. ring.
Qed.

Theorem poly_init_hcoeff vt raw k : hcoeff (poly_init vt raw) k = hcoeff (normalise vt raw) k.
Proof. rewrite !hcoeff_hmeas. apply poly_init_hmeas, key_ind_sort_invariant. Qed.

Theorem poly_init_coeff vt raw : hpoly_eqb (poly_init vt raw) (normalise vt raw) = true.
Proof. unfold hpoly_eqb. apply forallb_forall. intros k _. apply Qc_eqb_iff, poly_init_hcoeff. Qed.

Theorem poly_init_energy_normalise vt raw s : henergy (poly_init vt raw) s = henergy (normalise vt raw) s.
Proof. rewrite !henergy_hmeas. apply poly_init_hmeas, energy_sort_invariant. Qed.

Theorem poly_init_energy_binary raw (s : sample) :
  (forall v, s v * s v = s v) -> henergy (poly_init BINARY raw) s = henergy raw s.
Proof. intros Hb. rewrite poly_init_energy_normalise. apply normalise_energy_binary, Hb. Qed.

Theorem poly_init_energy_spin raw (s : sample) :
  (forall v, s v * s v = 1) -> henergy (poly_init SPIN raw) s = henergy raw s.
Proof. intros Hs. rewrite poly_init_energy_normalise. apply normalise_energy_spin, Hs. Qed.

(* the result is a dict: distinct sorted keys *)
Theorem poly_init_wf vt raw : hdict_wf (poly_init vt raw).
Proof.
  unfold poly_init. rewrite poly_init_as_fold.
  generalize (normalise vt raw) as l. intros l. generalize hdict_wf_nil. generalize (@nil mono) as d.
  induction l as [|t l IH]; intros d Hd; cbn [fold_left]; [exact Hd|].
  apply IH, hdict_add_wf; [exact Hd|apply sort_nats_idem].
Qed.

(* ---------- __setitem__ ---------- *)
Lemma hmeas_hdict_set phi d k b :
  hmeas phi (hdict_set d k b) = hmeas phi d - get_default d k 0 * phi k + b * phi k.
Proof.
  unfold get_default. induction d as [|[k' v] r IH]; cbn [hdict_set hdict_get].
  - unfold hmeas; cbn [map qsum fst snd]. ring.
  - destruct (nats_eqb k' k) eqn:E.
    + apply nats_eqb_eq in E. subst k'. rewrite !hmeas_cons. cbn [fst snd]. ring.
    + rewrite !hmeas_cons, IH. cbn [fst snd]. ring.
Qed.

Lemma hdict_set_keys_in d k b : In k (map fst d) -> map fst (hdict_set d k b) = map fst d.
Proof.
  induction d as [|[k' v] r IH]; intros H; [destruct H|]. cbn [hdict_set].
  destruct (nats_eqb k' k) eqn:E; cbn [map fst]; [reflexivity|].
  f_equal. apply IH. destruct H as [H|H]; [|exact H]. cbn [fst] in H. subst k'.
  assert (E' : nats_eqb k k = true) by (apply nats_eqb_eq; reflexivity). rewrite E' in E. discriminate E.
Qed.

Lemma hdict_set_keys_notin d k b : ~ In k (map fst d) -> map fst (hdict_set d k b) = map fst d ++ [k].
Proof.
  induction d as [|[k' v] r IH]; intros H; [reflexivity|]. cbn [hdict_set].
  destruct (nats_eqb k' k) eqn:E.
  - apply nats_eqb_eq in E. subst k'. exfalso. apply H. left. reflexivity.
  - cbn [map fst app]. f_equal. apply IH. intros Hin. apply H. right. exact Hin.
Qed.

Lemma hdict_set_In d k b t : In t (hdict_set d k b) -> fst t = k \/ In (fst t) (map fst d).
Proof.
  induction d as [|[k' v] r IH]; cbn [hdict_set].
  - intros [<-|[]]. left. reflexivity.
  - destruct (nats_eqb k' k) eqn:E.
    + intros [<-|H]; right; cbn [map fst]; [left; reflexivity|right; apply in_map; exact H].
    + intros [<-|H]; [right; left; reflexivity|].
      destruct (IH H) as [H'|H']; [left; exact H'|right; right; exact H'].
Qed.

Lemma hdict_set_wf d k b : hdict_wf d -> sort_nats k = k -> hdict_wf (hdict_set d k b).
Proof.
  intros [Hnd Hs] Hk. split.
  - destruct (in_dec (list_eq_dec Nat.eq_dec) k (map fst d)) as [Hin|Hout].
    + rewrite hdict_set_keys_in by exact Hin. exact Hnd.
    + rewrite hdict_set_keys_notin by exact Hout.
      apply (Permutation_NoDup (Permutation_cons_append (map fst d) k)).
      constructor; assumption.
  - intros t Ht. apply hdict_set_In in Ht. destruct Ht as [Ht|Ht].
    + rewrite Ht. exact Hk.
    + apply in_map_iff in Ht. destruct Ht as [t' [E Ht']]. rewrite <- E. apply Hs. exact Ht'.
Qed.

(* ---------- from_hubo ---------- *)
Definition offset_value (off : option Qc) : Qc := match off with Some o => o | None => 0 end.

Lemma hmeas_opt_offset phi off : hmeas phi (opt_offset off) = offset_value off * phi [].
Proof. destruct off; unfold hmeas; cbn [opt_offset offset_value map qsum fst snd]; ring. Qed.

Lemma normalise_app vt a b : normalise vt (a ++ b) = normalise vt a ++ normalise vt b.
Proof. unfold normalise. apply map_app. Qed.

Theorem from_hubo_py_hmeas phi H off : sort_invariant phi ->
  hmeas phi (from_hubo_py H off) = hmeas phi (normalise BINARY (H ++ opt_offset off)).
Proof.
  intros Hphi. rewrite normalise_app, hmeas_app.
  rewrite <- (poly_init_hmeas phi BINARY H Hphi).
  destruct off as [o|]; cbn [from_hubo_py opt_offset].
  - rewrite hmeas_hdict_set. unfold normalise, hmeas at 3. cbn [map qsum fst snd binary_reduce_vars dedup]. ring.
  - unfold normalise, hmeas at 3. cbn [map qsum]. ring.
Qed.

(* coefficient-wise: from_hubo(H, offset) is the normalised polynomial H + offset *)
Theorem from_hubo_py_coeff H off : hpoly_eqb (from_hubo_py H off) (normalise BINARY (H ++ opt_offset off)) = true.
Proof.
  unfold hpoly_eqb. apply forallb_forall. intros k _. apply Qc_eqb_iff. rewrite !hcoeff_hmeas.
  apply from_hubo_py_hmeas, key_ind_sort_invariant.
Qed.

Lemma henergy_app p q s : henergy (p ++ q) s = henergy p s + henergy q s.
Proof. rewrite !henergy_hmeas. apply hmeas_app. Qed.

Lemma henergy_opt_offset off s : henergy (opt_offset off) s = offset_value off.
Proof. rewrite henergy_hmeas, hmeas_opt_offset. cbn [map qprod]. ring. Qed.

Theorem from_hubo_py_energy H off (s : sample) :
  (forall v, s v * s v = s v) -> henergy (from_hubo_py H off) s = henergy H s + offset_value off.
Proof.
  intros Hb. rewrite henergy_hmeas, (from_hubo_py_hmeas _ H off (energy_sort_invariant s)), <- henergy_hmeas.
  rewrite (normalise_energy_binary _ s Hb), henergy_app, henergy_opt_offset. reflexivity.
Qed.

Theorem from_hubo_py_wf H off : hdict_wf (from_hubo_py H off).
Proof.
  destruct off as [o|]; cbn [from_hubo_py]; [|apply poly_init_wf].
  apply hdict_set_wf; [apply poly_init_wf|reflexivity].
Qed.

(* ---------- from_hising ---------- *)
Definition lin_energy (h : list (label * Qc)) (s : sample) : Qc := qsum (map (fun kv => snd kv * s (fst kv)) h).

Lemma henergy_lin_terms h s : henergy (lin_terms h) s = lin_energy h s.
Proof.
  unfold henergy, lin_terms, lin_energy, mono_val. rewrite map_map. f_equal. apply map_ext. intros kv.
  cbn [fst snd map qprod]. ring.
Qed.

Theorem from_hising_py_coeff h J off :
  hpoly_eqb (from_hising_py h J off) (normalise SPIN (lin_terms h ++ J ++ opt_offset off)) = true.
Proof. apply poly_init_coeff. Qed.

Theorem from_hising_py_energy h J off (s : sample) :
  (forall v, s v * s v = 1) ->
  henergy (from_hising_py h J off) s = lin_energy h s + henergy J s + offset_value off.
Proof.
  intros Hs. unfold from_hising_py. rewrite (poly_init_energy_spin _ s Hs), !henergy_app.
  rewrite henergy_lin_terms, henergy_opt_offset. ring.
Qed.

Theorem from_hising_py_wf h J off : hdict_wf (from_hising_py h J off).
Proof. apply poly_init_wf. Qed.

(* ---------- every constructor: coefficients and value of the documented polynomial ---------- *)
Theorem ctor_model_coeff k : hpoly_eqb (ctor_model k) (normalise (ctor_vt k) (ctor_spec k)) = true.
Proof.
  destruct k as [vt raw|H off|h J off]; cbn [ctor_model ctor_vt ctor_spec].
  - apply poly_init_coeff.
  - apply from_hubo_py_coeff.
  - apply from_hising_py_coeff.
Qed.

Theorem ctor_model_wf k : hdict_wf (ctor_model k).
Proof.
  destruct k; cbn [ctor_model]; [apply poly_init_wf|apply from_hubo_py_wf|apply from_hising_py_wf].
Qed.

Lemma hpoly_eqb_hcoeff a b : hpoly_eqb a b = true -> forall k, hcoeff a k = hcoeff b k.
Proof.
  unfold hpoly_eqb. rewrite forallb_forall. intros H k.
  destruct (in_dec (list_eq_dec Nat.eq_dec) k (hkeys a ++ hkeys b)) as [Hin|Hout].
  - apply Qc_eqb_iff, H, Hin.
  - assert (Hz : forall p, ~ In k (hkeys p) -> hcoeff p k = 0).
    { intros p Hp. unfold hcoeff. replace (filter _ p) with (@nil mono); [reflexivity|].
      symmetry. induction p as [|t p IH]; [reflexivity|]. cbn [filter].
      destruct (nats_eqb (sort_nats (fst t)) k) eqn:E.
      - apply nats_eqb_eq in E. exfalso. apply Hp. left. exact E.
      - apply IH. intros Hin. apply Hp. right. exact Hin. }
    rewrite (Hz a), (Hz b); [reflexivity| |]; intros Hin; apply Hout, in_or_app; [right|left]; exact Hin.
Qed.

Theorem ctor_model_energy_binary k (s : sample) : ctor_vt k = BINARY ->
  (forall v, s v * s v = s v) -> henergy (ctor_model k) s = henergy (ctor_spec k) s.
Proof.
  intros Hvt Hb. destruct k as [vt raw|H off|h J off]; cbn [ctor_model ctor_vt ctor_spec] in *; try discriminate Hvt.
  - subst vt. apply poly_init_energy_binary, Hb.
  - rewrite (from_hubo_py_energy H off s Hb), henergy_app, henergy_opt_offset. reflexivity.
Qed.

Theorem ctor_model_energy_spin k (s : sample) : ctor_vt k = SPIN ->
  (forall v, s v * s v = 1) -> henergy (ctor_model k) s = henergy (ctor_spec k) s.
Proof.
  intros Hvt Hs. destruct k as [vt raw|H off|h J off]; cbn [ctor_model ctor_vt ctor_spec] in *; try discriminate Hvt.
  - subst vt. apply poly_init_energy_spin, Hs.
  - apply (poly_init_energy_spin _ s Hs).
Qed.

(* ---------- to_hubo ---------- *)
Lemma hmeas_filter_split phi (f : mono -> bool) p :
  hmeas phi p = hmeas phi (filter f p) + hmeas phi (filter (fun t => negb (f t)) p).
Proof.
  induction p as [|t p IH]; [unfold hmeas; cbn [filter map qsum]; ring|].
  cbn [filter]. rewrite hmeas_cons, IH. destruct (f t); cbn [negb]; rewrite hmeas_cons; ring.
Qed.

Lemma hmeas_empty_keys phi d : NoDup (map fst d) ->
  hmeas phi (filter (fun t => negb (nonempty_key t)) d) = get_default d [] 0 * phi [].
Proof.
  unfold get_default. induction d as [|[k v] r IH]; intros Hnd.
  - unfold hmeas; cbn [filter map qsum hdict_get]. ring.
  - inversion Hnd as [|x l Hx Hl]; subst. cbn [filter hdict_get]. unfold nonempty_key at 1. cbn [fst].
    destruct k as [|a k]; cbn [negb nats_eqb list_eqb].
    + rewrite hmeas_cons. cbn [fst snd].
      assert (E : filter (fun t => negb (nonempty_key t)) r = []).
      { clear IH Hl Hnd. induction r as [|[k' v'] r IHr]; [reflexivity|]. cbn [filter]. unfold nonempty_key at 1. cbn [fst].
        destruct k' as [|b k']; cbn [negb].
        - exfalso. apply Hx. left. reflexivity.
        - apply IHr. intros Hin. apply Hx. right. exact Hin. }
      rewrite E. unfold hmeas at 1. cbn [map qsum]. ring.
    + apply IH, Hl.
Qed.

Theorem to_hubo_py_energy p (s : sample) : hdict_wf p ->
  henergy (fst (to_hubo_py p)) s + snd (to_hubo_py p) = henergy p s.
Proof.
  intros [Hnd _]. unfold to_hubo_py. cbn [fst snd]. rewrite !henergy_hmeas.
  rewrite (hmeas_filter_split _ nonempty_key p), (hmeas_empty_keys _ p Hnd). cbn [map qprod]. ring.
Qed.

Theorem to_hubo_from_hubo_energy H off (s : sample) : (forall v, s v * s v = s v) ->
  henergy (fst (to_hubo_py (from_hubo_py H off))) s + snd (to_hubo_py (from_hubo_py H off))
  = henergy H s + offset_value off.
Proof. intros Hb. rewrite (to_hubo_py_energy _ s (from_hubo_py_wf H off)). apply from_hubo_py_energy, Hb. Qed.

(* to_hubo never emits a constant term *)
Theorem to_hubo_py_no_constant p t : In t (fst (to_hubo_py p)) -> fst t <> [].
Proof.
  unfold to_hubo_py. cbn [fst]. rewrite filter_In. intros [_ H] E. unfold nonempty_key in H. rewrite E in H. discriminate H.
Qed.

(* ---------- to_hising ---------- *)
Definition hising_value (st : list (label * Qc) * hpoly * Qc) (s : sample) : Qc :=
  let '(h, J, off) := st in lin_energy h s + henergy J s + off.

Lemma lin_energy_app h h' s : lin_energy (h ++ h') s = lin_energy h s + lin_energy h' s.
Proof. unfold lin_energy. rewrite map_app, qsum_app. reflexivity. Qed.

Lemma to_hising_step_value st t s : hising_value (to_hising_step st t) s = hising_value st s + mono_val s t.
Proof.
  destruct st as [[h J] off]. destruct t as [k b]. unfold to_hising_step. cbn [fst snd].
  destruct k as [|v [|w k]]; cbn [hising_value].
  - unfold mono_val. cbn [fst snd map qprod]. ring.
  - rewrite lin_energy_app. unfold lin_energy at 2, mono_val. cbn [fst snd map qprod qsum]. ring.
  - rewrite henergy_app. unfold henergy at 2. cbn [map qsum]. ring.
Qed.

Theorem to_hising_py_energy p (s : sample) : hising_value (to_hising_py p) s = henergy p s.
Proof.
  unfold to_hising_py.
  assert (G : forall st, hising_value (fold_left to_hising_step p st) s = hising_value st s + henergy p s).
  { induction p as [|t p IH]; intros st; cbn [fold_left].
    - unfold henergy. cbn [map qsum]. ring.
    - rewrite IH, to_hising_step_value. unfold henergy. cbn [map qsum]. ring. }
  rewrite G. unfold hising_value, lin_energy, henergy. cbn [map qsum]. ring.
Qed.

Theorem to_hising_from_hising_energy h J off (s : sample) : (forall v, s v * s v = 1) ->
  hising_value (to_hising_py (from_hising_py h J off)) s = lin_energy h s + henergy J s + offset_value off.
Proof. intros Hs. rewrite to_hising_py_energy. apply from_hising_py_energy, Hs. Qed.
