(* C17: quadratic_assignment - the construction generated from the source (Gen/Gen_Qap.v, Model/QapGen.v) *)
From Coq Require Import List ZArith QArith Qcanon Bool Arith Lia.
From Dimod Require Import Base.Util Model.Poly Model.Knap Model.Qap Gen.Gen_Qap Model.QapGen Proofs.PolyFacts Proofs.KnapFacts Proofs.QapFacts.
Import ListNotations.
Open Scope Qc_scope.

(* the bias rule of the source is the one of the mirror *)
Theorem gq_coef_is_source F D i j k l : gq_coef (mget F) (mget D) i j k l = qap_coef F D i j k l.
Proof. unfold gq_coef, qap_coef. ring. Qed.

Theorem gq_index_is_source n i j : gq_index n i j = qidx n i j.
Proof. reflexivity. Qed.

Theorem qapg_constraints_is_source n : qapg_constraints n = qap_constraints n.
Proof.
  unfold qapg_constraints, qap_constraints, gq_row_cells, gq_col_terms, lin_of, gq_col_sense.
  f_equal. apply map_ext. intros i. rewrite map_map. reflexivity.
Qed.

(* ---------- the four nested loops over range(n) are two nested loops over the n*n cells ---------- *)
Lemma flat_map_ext_in' {A B} (f g : A -> list B) l : (forall a, In a l -> f a = g a) -> flat_map f l = flat_map g l.
Proof.
  induction l as [|a l IH]; intros H; [reflexivity|]. cbn [flat_map].
  rewrite (H a (or_introl eq_refl)), IH; [reflexivity|]. intros b Hb. apply H. right. exact Hb.
Qed.

Lemma flat_map_seq_shift {A} (f : nat -> list A) k len :
  forall s, flat_map f (seq (k + s) len) = flat_map (fun j => f (k + j)%nat) (seq s len).
Proof.
  induction len as [|len IH]; intros s; [reflexivity|]. cbn [seq flat_map]. f_equal.
  replace (S (k + s)) with (k + S s)%nat by lia. apply IH.
Qed.

Lemma flat_map_cells {A} n (h : nat -> nat -> list A) m :
  flat_map (fun i => flat_map (fun j => h i j) (seq 0 n)) (seq 0 m)
  = flat_map (fun p => h (p / n) (p mod n))%nat (seq 0 (m * n)).
Proof.
  induction m as [|m IH]; [reflexivity|].
  rewrite seq_S, flat_map_app, IH. cbn [flat_map plus]. rewrite app_nil_r.
  replace (S m * n)%nat with (m * n + n)%nat by lia. rewrite seq_app, flat_map_app. f_equal. cbn [plus].
  pose proof (flat_map_seq_shift (fun p => h (p / n) (p mod n))%nat (m * n) n 0) as E.
  rewrite Nat.add_0_r in E. rewrite E. apply flat_map_ext_in'. intros j Hj. apply in_seq in Hj.
  assert (Hn : (n <> 0)%nat) by lia.
  replace ((m * n + j) / n)%nat with m. 1: replace ((m * n + j) mod n)%nat with j. 1: reflexivity.
  - rewrite Nat.add_comm, Nat.mod_add by assumption. symmetry. apply Nat.mod_small. lia.
  - rewrite Nat.div_add_l by assumption. rewrite Nat.div_small by lia. lia.
Qed.

Lemma cell_facts n p : (p < n * n)%nat -> (p / n < n)%nat /\ (p mod n < n)%nat /\ (p / n * n + p mod n = p)%nat.
Proof.
  intros H. assert (Hn : (n <> 0)%nat) by lia. repeat split.
  - apply Nat.div_lt_upper_bound; lia.
  - apply Nat.mod_upper_bound; lia.
  - pose proof (Nat.div_mod p n Hn). lia.
Qed.

Lemma cell_eqb n p q : (p < n * n)%nat -> (q < n * n)%nat ->
  ((p / n =? q / n) && (p mod n =? q mod n))%nat = (p =? q)%nat.
Proof.
  intros Hp Hq. destruct (cell_facts n p Hp) as (_ & _ & Ep). destruct (cell_facts n q Hq) as (_ & _ & Eq).
  destruct (Nat.eqb_spec p q) as [->|Hne]; [rewrite !Nat.eqb_refl; reflexivity|].
  destruct (Nat.eqb_spec (p / n) (q / n)) as [E1|]; [|reflexivity].
  destruct (Nat.eqb_spec (p mod n) (q mod n)) as [E2|]; [|reflexivity].
  exfalso. apply Hne. rewrite E1, E2 in Ep. congruence.
Qed.

Lemma cell_lex n p q : (p < n * n)%nat -> (q < n * n)%nat ->
  lex_gt (p / n) (p mod n) (q / n) (q mod n) = (q <? p)%nat.
Proof.
  intros Hp Hq. destruct (cell_facts n p Hp) as (_ & Hj & Ep). destruct (cell_facts n q Hq) as (_ & Hl & Eq).
  unfold lex_gt. revert Hj Ep Hl Eq.
  generalize (p / n)%nat (p mod n)%nat (q / n)%nat (q mod n)%nat. intros i j k l Hj Ep Hl Eq.
  destruct (Nat.ltb_spec q p); destruct (Nat.ltb_spec k i); cbn [orb]; try reflexivity.
  - destruct (Nat.eqb_spec k i); cbn [andb]; [destruct (Nat.ltb_spec l j); [reflexivity|nia]|nia].
  - nia.
  - destruct (Nat.eqb_spec k i); cbn [andb]; [|reflexivity]. destruct (Nat.ltb_spec l j); [nia|reflexivity].
Qed.

(* gq_writes in cell form *)
Theorem gq_writes_cells n F D : gq_writes n F D = writes2 (n * n) (cell_coef n F D).
Proof.
  unfold gq_writes, writes2.
  rewrite (flat_map_cells n (fun i j => flat_map (fun k => flat_map (fun l =>
     if gq_guard i j k l then [(gq_index n i j, gq_index n k l, gq_coef F D i j k l)] else []) (seq 0 n)) (seq 0 n)) n).
  apply flat_map_ext_in'. intros p Hp. apply in_seq in Hp.
  rewrite (flat_map_cells n (fun k l =>
     if gq_guard (p / n) (p mod n) k l
     then [(gq_index n (p / n) (p mod n), gq_index n k l, gq_coef F D (p / n) (p mod n) k l)] else []) n).
  apply flat_map_ext_in'. intros q Hq. apply in_seq in Hq.
  unfold gq_guard. rewrite cell_eqb by lia. unfold gq_index, cell_coef.
  destruct (cell_facts n p) as (_ & _ & Ep); [lia|]. destruct (cell_facts n q) as (_ & _ & Eq); [lia|].
  rewrite Ep, Eq. destruct (p =? q)%nat; reflexivity.
Qed.

(* ---------- set_quadratic on coefficients: the last write of an unordered pair survives ---------- *)
Lemma same_pair_trans a b u v x y : same_pair a b x y = true -> same_pair u v x y = same_pair a b u v.
Proof.
  unfold same_pair.
  destruct (Nat.eqb_spec a x), (Nat.eqb_spec b y), (Nat.eqb_spec a y), (Nat.eqb_spec b x); cbn [andb orb];
    intros H; try discriminate H; subst;
    repeat match goal with |- context [Nat.eqb ?s ?t] => destruct (Nat.eqb_spec s t) end;
    cbn [andb orb]; try reflexivity; exfalso; congruence.
Qed.

Lemma quad_coeff_set q u v c a b :
  quad_coeff ((u, v, c) :: filter (fun t => negb (same_pair u v (fst (fst t)) (snd (fst t)))) q) a b
  = if same_pair a b u v then c else quad_coeff q a b.
Proof.
  unfold quad_coeff. cbn [filter fst snd].
  assert (E : qsum (map snd (filter (fun t => same_pair a b (fst (fst t)) (snd (fst t)))
                       (filter (fun t => negb (same_pair u v (fst (fst t)) (snd (fst t)))) q)))
              = if same_pair a b u v then 0
                else qsum (map snd (filter (fun t => same_pair a b (fst (fst t)) (snd (fst t))) q))).
  { induction q as [|t q IH]; [cbn; destruct (same_pair a b u v); reflexivity|].
    cbn [filter]. destruct (same_pair a b (fst (fst t)) (snd (fst t))) eqn:Et.
    - rewrite (same_pair_trans _ _ u v _ _ Et). destruct (same_pair a b u v) eqn:Eab; cbn [negb].
      + exact IH.
      + cbn [filter]. rewrite Et. cbn [map qsum]. rewrite IH. reflexivity.
    - destruct (negb (same_pair u v (fst (fst t)) (snd (fst t)))); cbn [filter]; [rewrite Et|]; exact IH. }
  destruct (same_pair a b u v) eqn:Eab; cbn [map qsum snd]; rewrite E; [ring|reflexivity].
Qed.

Definition cf (P : poly) (a b : nat) : Qc := quad_coeff (p_quad P) a b.

Lemma cf_step P w a b :
  cf (qapg_step P w) a b = if same_pair a b (fst (fst w)) (snd (fst w)) then snd w else cf P a b.
Proof.
  destruct w as [[u v] c]. unfold cf, qapg_step, set_quadratic, remove_interaction. cbn [p_quad fst snd].
  apply quad_coeff_set.
Qed.

Lemma cf_post post : forall P a b,
  Forall (fun w : qterm => same_pair a b (fst (fst w)) (snd (fst w)) = false) post ->
  cf (fold_left qapg_step post P) a b = cf P a b.
Proof.
  induction post as [|w post IH]; intros P a b H; [reflexivity|]. cbn [fold_left].
  inversion H as [|w' post' Hw Hpost]; subst. rewrite IH by assumption. rewrite cf_step, Hw. reflexivity.
Qed.

Definition row2 (N : nat) (c : nat -> nat -> Qc) (p : nat) : list qterm :=
  flat_map (fun q => if (p =? q)%nat then [] else [(p, q, c p q)]) (seq 0 N).

Lemma seq_split N a : (a < N)%nat -> seq 0 N = seq 0 a ++ a :: seq (S a) (N - S a).
Proof. intros H. replace N with (a + S (N - S a))%nat at 1 by lia. rewrite seq_app. reflexivity. Qed.

Lemma no_pair_false a b p q : (p <> a \/ q <> b)%nat -> (p <> b \/ q <> a)%nat -> same_pair a b p q = false.
Proof.
  intros H1 H2. unfold same_pair.
  destruct (Nat.eqb_spec a p), (Nat.eqb_spec b q), (Nat.eqb_spec a q), (Nat.eqb_spec b p); cbn [andb orb];
    try reflexivity; exfalso; lia.
Qed.

(* after the whole loop the bias of the unordered pair {a, b}, b < a, is the one of its LATER visit (a, b) *)
Lemma writes2_coef N c a b : (b < a)%nat -> (a < N)%nat -> cf (qapg_replay (writes2 N c)) a b = c a b.
Proof.
  intros Hba HaN. unfold qapg_replay. change (writes2 N c) with (flat_map (row2 N c) (seq 0 N)).
  rewrite (seq_split N a HaN), flat_map_app. cbn [flat_map].
  unfold row2 at 2. rewrite (seq_split N b) by lia. rewrite flat_map_app. cbn [flat_map].
  destruct (Nat.eqb_spec a b) as [E|_]; [lia|].
  rewrite !fold_left_app. cbn [app fold_left]. rewrite ?fold_left_app.
  rewrite cf_post.
  - rewrite cf_post.
    + rewrite cf_step. cbn [fst snd]. unfold same_pair. rewrite !Nat.eqb_refl. reflexivity.
    + apply Forall_forall. intros w Hin. apply in_flat_map in Hin. destruct Hin as (q & Hq & Hw).
      apply in_seq in Hq. destruct (Nat.eqb_spec a q); [destruct Hw|]. destruct Hw as [<-|[]]. cbn [fst snd].
      apply no_pair_false; lia.
  - apply Forall_forall. intros w Hin. apply in_flat_map in Hin. destruct Hin as (p & Hp & Hw).
    apply in_seq in Hp. unfold row2 in Hw. apply in_flat_map in Hw. destruct Hw as (q & Hq & Hw).
    destruct (Nat.eqb_spec p q); [destruct Hw|]. destruct Hw as [<-|[]]. cbn [fst snd].
    apply no_pair_false; lia.
Qed.

(* ---------- the energy of a list of interactions from its coefficients ---------- *)
Definition wfq (N : nat) (t : qterm) : Prop :=
  (fst (fst t) < N)%nat /\ (snd (fst t) < N)%nat /\ fst (fst t) <> snd (fst t).

Lemma range_sum_00 N : range_sum N (fun a => range_sum a (fun _ => 0)) = 0.
Proof. rewrite (range_sum_ext N _ (fun _ => 0)); [apply range_sum_0|]. intros a _. apply range_sum_0. Qed.

Lemma single_pick N u v (x : sample) c : (v < u)%nat -> (u < N)%nat ->
  range_sum N (fun a => range_sum a (fun b => (if same_pair a b u v then c else 0) * x a * x b)) = c * x u * x v.
Proof.
  intros Hvu HuN.
  rewrite (range_sum_ext N _ (fun a => if (u =? a)%nat
       then range_sum a (fun b => if (v =? b)%nat then c * x a * x b else 0) else 0)).
  - rewrite (range_sum_pick N u (fun a => range_sum a (fun b => if (v =? b)%nat then c * x a * x b else 0))) by assumption.
    rewrite (range_sum_pick u v (fun b => c * x u * x b)) by assumption. reflexivity.
  - intros a Ha. destruct (Nat.eqb_spec u a) as [<-|Hne].
    + apply range_sum_ext. intros b Hb. unfold same_pair.
      destruct (Nat.eqb_spec u u), (Nat.eqb_spec b v), (Nat.eqb_spec v b), (Nat.eqb_spec u v), (Nat.eqb_spec b u);
        cbn [andb orb]; try (exfalso; lia); ring.
    + rewrite (range_sum_ext a _ (fun _ => 0)); [apply range_sum_0|]. intros b Hb. unfold same_pair.
      destruct (Nat.eqb_spec a u), (Nat.eqb_spec b v), (Nat.eqb_spec a v), (Nat.eqb_spec b u);
        cbn [andb orb]; try (exfalso; lia); ring.
Qed.

Lemma same_pair_swap a b u v : same_pair a b u v = same_pair a b v u.
Proof. unfold same_pair. apply orb_comm. Qed.

Lemma energy_from_coeff N q (x : sample) : Forall (wfq N) q ->
  quad_energy q x = range_sum N (fun a => range_sum a (fun b => quad_coeff q a b * x a * x b)).
Proof.
  induction q as [|t q IH]; intros H.
  - unfold quad_coeff, quad_energy. cbn [filter map qsum]. symmetry.
    rewrite (range_sum_ext N _ (fun a => range_sum a (fun _ => 0))); [apply range_sum_00|].
    intros a _. apply range_sum_ext. intros b _. ring.
  - inversion H as [|t' q' Ht Hq]; subst. rewrite quad_energy_cons, (IH Hq).
    destruct t as [[u v] c]. destruct Ht as (Hu & Hv & Hne). cbn [fst snd] in *.
    assert (Ec : forall a b, quad_coeff ((u, v, c) :: q) a b = (if same_pair a b u v then c else 0) + quad_coeff q a b).
    { intros a b. unfold quad_coeff. cbn [filter fst snd]. destruct (same_pair a b u v); cbn [map qsum snd]; ring. }
    symmetry.
    rewrite (range_sum_ext N _
               (fun a => range_sum a (fun b => (if same_pair a b u v then c else 0) * x a * x b)
                         + range_sum a (fun b => quad_coeff q a b * x a * x b))).
    + rewrite (range_sum_plus N (fun a => range_sum a (fun b => (if same_pair a b u v then c else 0) * x a * x b))
                 (fun a => range_sum a (fun b => quad_coeff q a b * x a * x b))).
      f_equal. destruct (Nat.lt_ge_cases v u) as [Hlt|Hge].
      * apply single_pick; assumption.
      * rewrite (range_sum_ext N _ (fun a => range_sum a (fun b => (if same_pair a b v u then c else 0) * x a * x b))).
        -- rewrite single_pick by lia. ring.
        -- intros a _. apply range_sum_ext. intros b _. rewrite same_pair_swap. reflexivity.
    + intros a Ha. rewrite <- range_sum_plus. apply range_sum_ext. intros b Hb. rewrite Ec. ring.
Qed.

(* the replay keeps offset 0, no linear term, and only interactions between two different cells *)
Lemma replay_wf N ws : forall P, Forall (wfq N) ws ->
  p_off P = 0 -> p_lin P = [] -> Forall (wfq N) (p_quad P) ->
  let R := fold_left qapg_step ws P in p_off R = 0 /\ p_lin R = [] /\ Forall (wfq N) (p_quad R).
Proof.
  induction ws as [|w ws IH]; intros P Hws H0 Hl Hq; [cbn; auto|].
  inversion Hws as [|w' ws' Hw Hrest]; subst. cbn [fold_left]. apply IH; [exact Hrest| | |].
  - unfold qapg_step, set_quadratic, remove_interaction. cbn [p_off]. exact H0.
  - unfold qapg_step, set_quadratic, remove_interaction. cbn [p_lin]. exact Hl.
  - unfold qapg_step, set_quadratic, remove_interaction. cbn [p_quad]. constructor.
    + destruct w as [[u v] c]. exact Hw.
    + apply Forall_forall. intros t Ht. apply filter_In in Ht. destruct Ht as [Ht _].
      revert t Ht. apply Forall_forall. exact Hq.
Qed.

Lemma writes2_wf N c : Forall (wfq N) (writes2 N c).
Proof.
  apply Forall_forall. intros w Hin. unfold writes2 in Hin. apply in_flat_map in Hin. destruct Hin as (p & Hp & Hw).
  apply in_flat_map in Hw. destruct Hw as (q & Hq & Hw). apply in_seq in Hp. apply in_seq in Hq.
  destruct (Nat.eqb_spec p q); [destruct Hw|]. destruct Hw as [<-|[]]. unfold wfq. cbn [fst snd]. lia.
Qed.

(* energy of the replayed loop: sum over unordered pairs of cells of the bias of the later visit *)
Theorem writes2_energy N c (x : sample) :
  energy (qapg_replay (writes2 N c)) x = range_sum N (fun a => range_sum a (fun b => c a b * x a * x b)).
Proof.
  destruct (replay_wf N (writes2 N c) (mkPoly 0 [] []) (writes2_wf N c) eq_refl eq_refl (Forall_nil _)) as (H0 & Hl & Hq).
  fold (qapg_replay (writes2 N c)) in H0, Hl, Hq.
  unfold energy. rewrite H0, Hl. unfold lin_energy. cbn [map qsum].
  rewrite (energy_from_coeff N _ x Hq).
  replace (0 + 0 + range_sum N (fun a => range_sum a (fun b => quad_coeff (p_quad (qapg_replay (writes2 N c))) a b * x a * x b)))
    with (range_sum N (fun a => range_sum a (fun b => quad_coeff (p_quad (qapg_replay (writes2 N c))) a b * x a * x b))) by ring.
  apply range_sum_ext. intros a Ha. apply range_sum_ext. intros b Hb.
  change (quad_coeff (p_quad (qapg_replay (writes2 N c))) a b) with (cf (qapg_replay (writes2 N c)) a b).
  rewrite writes2_coef by assumption. reflexivity.
Qed.

(* ---------- the hand-written mirror (Model/Qap.v) in cell form ---------- *)
Theorem qap_quad_energy_cells n F D (x : sample) :
  quad_energy (qap_quad n F D) x
  = range_sum (n * n) (fun a => range_sum a (fun b => cell_coef n (mget F) (mget D) a b * x a * x b)).
Proof.
  unfold qap_quad.
  rewrite (flat_map_cells n (fun i j => flat_map (fun k => flat_map (fun l =>
     if lex_gt i j k l then [(qidx n i j, qidx n k l, qap_coef F D i j k l)] else []) (seq 0 n)) (seq 0 n)) n).
  rewrite quad_energy_flat_map_seq. apply range_sum_ext. intros p Hp.
  rewrite (flat_map_cells n (fun k l =>
     if lex_gt (p / n) (p mod n) k l
     then [(qidx n (p / n) (p mod n), qidx n k l, qap_coef F D (p / n) (p mod n) k l)] else []) n).
  rewrite quad_energy_flat_map_seq.
  rewrite <- (range_sum_prefix (n * n) p (fun q => cell_coef n (mget F) (mget D) p q * x p * x q)) by lia.
  apply range_sum_ext. intros q Hq. rewrite cell_lex by assumption.
  destruct (q <? p)%nat; [|reflexivity].
  destruct (cell_facts n p Hp) as (_ & _ & Ep). destruct (cell_facts n q Hq) as (_ & _ & Eq).
  unfold quad_energy. cbn [map qsum]. unfold qterm_val. cbn [fst snd]. unfold qidx. rewrite Ep, Eq.
  unfold cell_coef. rewrite gq_coef_is_source. ring.
Qed.

(* TIE: the objective replayed from the generated construction and the hand-written mirror have the same energy
   on EVERY assignment, for every size and all matrices *)
Theorem qapg_objective_is_source n F D (x : sample) :
  energy (qapg_objective n F D) x = energy (qap_objective n F D) x.
Proof.
  unfold qapg_objective. rewrite gq_writes_cells, writes2_energy.
  unfold energy, qap_objective. cbn [p_off p_lin p_quad]. unfold lin_energy. cbn [map qsum].
  rewrite qap_quad_energy_cells. ring.
Qed.

(* ... and the same coefficient of every unordered pair of cells *)
Theorem qapg_coefficient_is_source n F D a b : (b < a)%nat -> (a < n * n)%nat ->
  quad_coeff (p_quad (qapg_objective n F D)) a b = cell_coef n (mget F) (mget D) a b.
Proof.
  intros Hba Ha. unfold qapg_objective. rewrite gq_writes_cells. apply (writes2_coef (n * n) _ a b Hba Ha).
Qed.

Theorem qapg_objective_as_is n F D (pi : nat -> nat) (x : sample) :
  (forall i, (i < n)%nat -> (pi i < n)%nat) ->
  (forall i j, (i < n)%nat -> (j < n)%nat -> x (gq_index n i j) = onehot_sample n pi i j) ->
  energy (qapg_objective n F D) x = qap_cost_as_is n F D pi.
Proof. intros Hpi Hx. rewrite qapg_objective_is_source. apply qap_objective_as_is; assumption. Qed.

(* the documented relation over the GENERATED construction *)
Theorem qapg_cost_symmetric n F D (pi : nat -> nat) (x : sample) :
  (forall i, (i < n)%nat -> (pi i < n)%nat) -> symmetric n D ->
  (forall i j, (i < n)%nat -> (j < n)%nat -> x (gq_index n i j) = onehot_sample n pi i j) ->
  energy (qapg_objective n F D) x = qap_cost n F D pi.
Proof.
  intros Hpi Hs Hx. rewrite (qapg_objective_as_is n F D pi x Hpi Hx). apply qap_cost_symmetric; assumption.
Qed.

Theorem qapg_feasible n F D (x : sample) :
  feasibleb (qapg_model n F D) x = true
  <-> (forall i, (i < n)%nat -> qap_row n x i = 1) /\ (forall j, (j < n)%nat -> qap_col n x j = 1).
Proof.
  unfold feasibleb, qapg_model. cbn [q_cons]. rewrite qapg_constraints_is_source. exact (qap_feasible n F D x).
Qed.

(* the generated construction as it is: an asymmetric distance matrix does not give the documented cost *)
Theorem qapg_asymmetric_refuted :
  energy (qapg_objective 2 F_ex D_ex) (perm_sample 2 (fun i => i)) <> qap_cost 2 F_ex D_ex (fun i => i).
Proof.
  intros H. apply (f_equal (fun q : Qc => Qnum (this q))) in H. vm_compute in H. discriminate H.
Qed.
