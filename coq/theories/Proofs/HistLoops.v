(* C04: the documented loops (add_linear_from, add_quadratic_from, remove_variables_from,
   remove_interactions_from, QM add_variables_from, QM add_linear_from with defaults) stop at the
   first error and keep the effect so far: a raising loop call leaves the model exactly as the same
   call on a proper prefix of its argument - which succeeds - would. *)
From Coq Require Import List ZArith QArith Qcanon Bool Arith Lia.
From Dimod Require Import Base.Util Model.Poly Model.View Model.Hist Proofs.PolyFacts Proofs.HistFacts
  Proofs.HistWf Proofs.HistWf2 Proofs.HistAtomic Proofs.HistAtomicQM Proofs.HistQmAtomic Proofs.HistQmPres.
Import ListNotations.
Open Scope Qc_scope.

Lemma seqm_prefix {A : Type} (P : state -> Prop) (f : A -> state -> res) l :
  (forall x s, P s -> P (fst (f x s))) -> (forall x s, P s -> noop (f x s) s) ->
  forall s e, P s -> snd (seqm f l s) = Raised e ->
    exists k, (k < length l)%nat /\ snd (seqm f (firstn k l) s) = Ok /\ fst (seqm f l s) = fst (seqm f (firstn k l) s).
Proof.
  intros HP Hn. induction l as [|x l IH]; intros s e Hs H; [discriminate|].
  cbn [seqm] in H. unfold bind in H. destruct (snd (f x s)) eqn:E.
  - destruct (IH (fst (f x s)) e (HP x s Hs) H) as [k [Hk [H1 H2]]].
    exists (S k). split; [cbn [length]; lia|]. cbn [firstn seqm]. unfold bind. rewrite E. auto.
  - exists O. split; [cbn [length]; lia|]. cbn [firstn seqm]. split; [reflexivity|].
    unfold bind. rewrite E. cbn [ok fst]. exact (Hn x s Hs b E).
Qed.

(* the same call on the first k elements of its argument *)
Definition take_op (k : nat) (o : op) : op :=
  match o with
  | OAddLinearFrom l => OAddLinearFrom (firstn k l)
  | OAddQuadraticFrom l => OAddQuadraticFrom (firstn k l)
  | ORemoveVariablesFrom l => ORemoveVariablesFrom (firstn k l)
  | ORemoveInteractionsFrom l => ORemoveInteractionsFrom (firstn k l)
  | OQAddVariablesFrom vt l => OQAddVariablesFrom vt (firstn k l)
  | OQAddLinearFromDflt l vt lb ub => OQAddLinearFromDflt (firstn k l) vt lb ub
  | o => o
  end.

Definition arg_length (o : op) : nat :=
  match o with
  | OAddLinearFrom l => length l
  | OAddQuadraticFrom l => length l
  | ORemoveVariablesFrom l => length l
  | ORemoveInteractionsFrom l => length l
  | OQAddVariablesFrom _ l => length l
  | OQAddLinearFromDflt l _ _ _ => length l
  | _ => 0
  end.

Definition BW (s : state) : Prop := B s /\ wf s.

Lemma B_bind r g : B (fst r) -> (forall s', B s' -> B (fst (g s'))) -> B (fst (r >>= g)).
Proof. intros Hr Hg. unfold bind. destruct (snd r); [apply Hg; exact Hr|exact Hr]. Qed.

Lemma B_d_remove_variable v s : B s -> B (fst (d_remove_variable v s)).
Proof. intros Hs. unfold d_remove_variable. destruct (has_var s v); exact Hs. Qed.

Lemma B_d_remove_interaction u v s : B s -> B (fst (d_remove_interaction u v s)).
Proof. intros Hs. unfold d_remove_interaction. destruct (has_var s u && has_var s v && hasq s u v); exact Hs. Qed.

Lemma B_h_remove_variable_some h v s : B s -> wf s -> B (fst (h_remove_variable h (Some v) s)).
Proof.
  intros Hs Hw. unfold h_remove_variable. destruct (vdir_of h s); [|apply B_d_remove_variable; exact Hs].
  destruct (has_var s v) eqn:Hv; [|exact Hs].
  apply B_bind; [apply B_bind|].
  - assert (G : good s (seqm (fun t => h_set_quadratic h (fst t) v 0) (h_nbh h v s) s)).
    { apply good_seqm; [|exact Hs]. intros t Ht s' Hs'. apply good_h_set_quadratic; [exact Hs'|].
      apply h_nbh_in in Ht. destruct Ht as [Ht _]. intros E. rewrite E in Ht.
      rewrite (bqm_no_self s v Hs Hw) in Ht. discriminate. }
    apply G.
  - intros s' Hs'. apply (good_h_set_linear h v 0 s' Hs').
  - intros s' Hs'. apply B_d_remove_variable. exact Hs'.
Qed.

Lemma B_h_remove_interaction h u v s : B s -> B (fst (h_remove_interaction h u v s)).
Proof.
  intros Hs. destruct (h_remove_interaction_spec h u v s Hs) as [[e ->]|[(G & _)|(_ & _ & D)]].
  - exact Hs.
  - apply G.
  - unfold h_remove_interaction. rewrite D. apply B_d_remove_interaction. exact Hs.
Qed.

Lemma B_h_add_quadratic h u v b s : B s -> B (fst (h_add_quadratic h u v b s)).
Proof.
  intros Hs. destruct (snd (h_add_quadratic h u v b s)) eqn:R.
  - destruct (Nat.eq_dec u v) as [E|E]; [|apply (good_h_add_quadratic h u v b s Hs E)].
    exfalso. subst. assert (D : forall b', d_add_quadratic v v b' s = raise BValue s).
    { intros b'. unfold d_add_quadratic. rewrite (bqm_guard v v s Hs), Nat.eqb_refl. reflexivity. }
    unfold h_add_quadratic in R. destruct (vdir_of h s) as [[|]|]; rewrite D, ?bind_raise in R; discriminate.
  - rewrite (noop_h_add_quadratic h u v b s Hs b0 R). exact Hs.
Qed.

(* BinaryQuadraticModel, base object or any view handle *)
(* the four loops a BinaryQuadraticModel has (the two QM-only loops are not methods of a BQM) *)
Definition bqm_loop (o : op) : bool :=
  match o with
  | OAddLinearFrom _ | OAddQuadraticFrom _ | ORemoveVariablesFrom _ | ORemoveInteractionsFrom _ => true
  | _ => false
  end.

Theorem failed_loop_keeps_prefix_bqm s h o e :
  B s -> wf s -> bqm_loop o = true -> snd (step s (h, o)) = Raised e ->
  exists k, (k < arg_length o)%nat /\ snd (step s (h, take_op k o)) = Ok /\ fst (step s (h, o)) = fst (step s (h, take_op k o)).
Proof.
  intros Hb Hw Ha. assert (Hs : BW s) by (split; assumption). pose proof Hb as Hb'. unfold B in Hb'.
  destruct o; cbn [bqm_loop] in Ha; try discriminate; cbn [step take_op arg_length]; rewrite ?Hb'.
  - apply (seqm_prefix BW); [| |exact Hs].
    + intros t s' Hs'. split; [apply (good_h_add_linear h (fst t) (snd t) s'); apply Hs'|apply pres_h_add_linear; apply Hs'].
    + intros t s' Hs'. apply (noop_good s'). apply good_h_add_linear. apply Hs'.
  - apply (seqm_prefix BW); [| |exact Hs].
    + intros t s' Hs'. split; [apply B_h_add_quadratic; apply Hs'|apply pres_h_add_quadratic; apply Hs'].
    + intros t s' Hs'. apply noop_h_add_quadratic. apply Hs'.
  - apply (seqm_prefix BW); [| |exact Hs].
    + intros x s' Hs'. split; [apply B_h_remove_variable_some; apply Hs'|apply pres_h_remove_variable; apply Hs'].
    + intros x s' [Hb1 Hw1]. apply noop_h_remove_variable; assumption.
  - apply (seqm_prefix BW); [| |exact Hs].
    + intros t s' Hs'. split; [apply B_h_remove_interaction; apply Hs'|apply pres_h_remove_interaction; apply Hs'].
    + intros t s' [Hb1 Hw1]. apply noop_h_remove_interaction; assumption.
Qed.

(* QuadraticModel *)
Theorem failed_loop_keeps_prefix_qm s o e :
  qm_inv s -> atomic o = false -> snd (step s (Direct, o)) = Raised e ->
  exists k, (k < arg_length o)%nat /\ snd (step s (Direct, take_op k o)) = Ok
            /\ fst (step s (Direct, o)) = fst (step s (Direct, take_op k o)).
Proof.
  intros Hs Ha. pose proof Hs as (K & _ & _).
  assert (Hb : is_bqm s = false) by (unfold is_bqm; rewrite K; reflexivity).
  assert (Hstep : forall o' s', qm_inv s' -> atomic o' = true -> noop (step s' (Direct, o')) s').
  { intros o' s' (K' & W' & R') Ha' e' H'. apply (failed_op_is_noop_qm s' o' e'); assumption. }
  destruct o; cbn [atomic] in Ha; try discriminate; cbn [step take_op arg_length]; rewrite ?Hb.
  - apply (seqm_prefix qm_inv); [| |exact Hs].
    + intros t. exact (PI_h_add_linear (fst t) (fun _ => snd t)).
    + intros t s' Hs'. exact (Hstep (OAddLinear (fst t) (snd t)) s' Hs' eq_refl).
  - apply (seqm_prefix qm_inv); [| |exact Hs].
    + intros t. exact (PI_h_add_quadratic (fst (fst t)) (snd (fst t)) (fun _ => snd t)).
    + intros t s' Hs'. exact (Hstep (OAddQuadratic (fst (fst t)) (snd (fst t)) (snd t)) s' Hs' eq_refl).
  - apply (seqm_prefix qm_inv); [| |exact Hs].
    + intros x. apply PI_h_remove_variable.
    + intros x s' Hs'. exact (Hstep (ORemoveVariable (Some x)) s' Hs' eq_refl).
  - apply (seqm_prefix qm_inv); [| |exact Hs].
    + intros t. apply PI_h_remove_interaction.
    + intros t s' Hs'. exact (Hstep (ORemoveInteraction (fst t) (snd t)) s' Hs' eq_refl).
  - apply (seqm_prefix qm_inv); [| |exact Hs].
    + intros t. apply PI_q_add_linear_dflt.
    + intros t s' Hs'. apply noop_q_add_linear_dflt.
  - apply (seqm_prefix qm_inv); [| |exact Hs].
    + intros x. apply PI_q_add_variable.
    + intros x s' Hs'. pose proof Hs' as (K' & _ & _).
      pose proof (Hstep (OQAddVariable vt x None None) s' Hs' eq_refl) as N. cbn [step] in N.
      replace (is_bqm s') with false in N by (unfold is_bqm; rewrite K'; reflexivity). exact N.
Qed.

Print Assumptions failed_loop_keeps_prefix_bqm.
Print Assumptions failed_loop_keeps_prefix_qm.
