(* C04: set_quadratic and remove_interaction through a translating view, at the level of `step`:
   the view's coefficient of (u, v) becomes b / the term disappears, in the view's variables *)
From Coq Require Import List ZArith QArith Qcanon Bool Arith Lia.
From Dimod Require Import Base.Util Model.Poly Model.View Model.Hist Proofs.PolyFacts Proofs.ViewFacts Proofs.HistFacts
  Proofs.HistWf Proofs.HistAtomic Proofs.HistContract Proofs.HistViewStep.
Import ListNotations.
Open Scope Qc_scope.

(* factor a view write of a quadratic bias puts on the base interaction *)
Definition kqm (d : vdir) (b : Qc) : Qc := match d with BinOverSpin => b * quarter | SpinOverBin => four * b end.

Lemma vscale_kqm h d s b : vdir_of h s = Some d -> vscale h s (kqm d b) = b.
Proof.
  intros D. unfold vscale, kqm. rewrite D. destruct d.
  - transitivity (b * (quarter * four)); [ring|]. rewrite quarter_four. ring.
  - transitivity (b * (quarter * four)); [ring|]. rewrite quarter_four. ring.
Qed.

Lemma kqm_vscale h d s q : vdir_of h s = Some d -> kqm d (vscale h s q) = q.
Proof.
  intros D. unfold vscale, kqm. rewrite D. destruct d.
  - transitivity (q * (quarter * four)); [ring|]. rewrite quarter_four. ring.
  - transitivity (q * (quarter * four)); [ring|]. rewrite quarter_four. ring.
Qed.

Definition kpf (f : state -> res) : Prop := forall a, st_kind (fst (f a)) = st_kind a.

Lemma kind_h_add_linear h v b s : st_kind (fst (h_add_linear h v b s)) = st_kind s.
Proof.
  unfold h_add_linear. destruct (vdir_of h s) as [[|]|]; try apply kp_d_add_linear;
    (apply kp_bind; [apply kp_d_add_linear|intros a; reflexivity]).
Qed.

Lemma kind_h_add_variable h v b s : st_kind (fst (h_add_variable h v b s)) = st_kind s.
Proof. unfold h_add_variable. apply kp_bind; [apply kp_resolve|intros a; apply kind_h_add_linear]. Qed.

Lemma kind_h_add_quadratic h u v b s : st_kind (fst (h_add_quadratic h u v b s)) = st_kind s.
Proof.
  unfold h_add_quadratic. destruct (vdir_of h s) as [[|]|]; try apply kp_d_add_quadratic;
    (apply kp_bind; [apply kp_bind; [apply kp_bind; [apply kp_d_add_quadratic|intros a; apply kp_d_add_linear]|intros a; apply kp_d_add_linear]|intros a; reflexivity]).
Qed.

(* the quadratic bag after add_quadratic through a translating view *)
Lemma quad_h_add_quadratic_view h d u v b s :
  B s -> vdir_of h s = Some d -> u <> v ->
  p_quad (st_poly (fst (h_add_quadratic h u v b s))) = (u, v, kqm d b) :: p_quad (st_poly s).
Proof.
  intros Hs D E. unfold h_add_quadratic. rewrite D. unfold kqm. destruct d.
  - destruct (good_d_add_quadratic u v (b * quarter) s Hs E) as (A1 & A2 & A3). unfold bind at 3. rewrite A1.
    destruct (good_d_add_linear u (b * quarter) _ A2) as (L1 & L2 & L3). unfold bind at 2. rewrite L1.
    destruct (good_d_add_linear v (b * quarter) _ L2) as (M1 & M2 & M3). unfold bind at 1. rewrite M1.
    cbn [d_add_offset ok fst with_poly st_poly add_offset p_quad].
    rewrite (quad_d_add_linear v _ _ L2), (quad_d_add_linear u _ _ A2). apply quad_d_add_quadratic; assumption.
  - destruct (good_d_add_quadratic u v (four * b) s Hs E) as (A1 & A2 & A3). unfold bind at 3. rewrite A1.
    destruct (good_d_add_linear u (- (two * b)) _ A2) as (L1 & L2 & L3). unfold bind at 2. rewrite L1.
    destruct (good_d_add_linear v (- (two * b)) _ L2) as (M1 & M2 & M3). unfold bind at 1. rewrite M1.
    cbn [d_add_offset ok fst with_poly st_poly add_offset p_quad].
    rewrite (quad_d_add_linear v _ _ L2), (quad_d_add_linear u _ _ A2). apply quad_d_add_quadratic; assumption.
Qed.

Lemma energy_h_add_linear_view h d v b s y :
  B s -> vdir_of h s = Some d ->
  energy (st_poly (fst (h_add_linear h v b s))) y = energy (st_poly s) y + b * view_value d (y v).
Proof. intros Hs D. exact (proj2 (view_step_add_linear h d v b s y Hs D)). Qed.

Lemma energy_h_add_quadratic_view h d u v b s y :
  B s -> vdir_of h s = Some d -> u <> v ->
  energy (st_poly (fst (h_add_quadratic h u v b s))) y
  = energy (st_poly s) y + b * view_value d (y u) * view_value d (y v).
Proof. intros Hs D E. exact (proj2 (view_step_add_quadratic h d u v b s y Hs D E)). Qed.

Lemma energy_h_add_variable_zero h d v s y :
  B s -> vdir_of h s = Some d ->
  energy (st_poly (fst (h_add_variable h v 0 s))) y = energy (st_poly s) y.
Proof.
  intros Hs D. destruct (B_kind s Hs) as [vt K]. unfold h_add_variable. rewrite (resolve_bqm_ok v s vt K), bind_ok.
  assert (D1 : vdir_of h (ensure v s) = Some d) by (rewrite <- D; apply vdir_kind; apply kind_ensure).
  rewrite (energy_h_add_linear_view h d v 0 (ensure v s) y (B_ensure v s Hs) D1), poly_ensure. ring.
Qed.

Lemma quad_coeff_cons u v b (q : list qterm) x y :
  quad_coeff ((u, v, b) :: q) x y = (if same_pair x y u v then b else 0) + quad_coeff q x y.
Proof. unfold quad_coeff. cbn [filter fst snd]. destruct (same_pair x y u v); cbn [map qsum snd]; ring. Qed.

Lemma kqm_zero d : kqm d 0 = 0.
Proof. unfold kqm. destruct d; ring. Qed.

(* set_quadratic through a translating view: afterwards the view's coefficient of (u, v) is b *)
Theorem view_step_set_quadratic h d u v b s y :
  B s -> wf s -> vdir_of h s = Some d -> u <> v ->
  snd (step s (h, OSetQuadratic u v b)) = Ok /\
  energy (st_poly (fst (step s (h, OSetQuadratic u v b)))) y
  = energy (st_poly s) y + (b - vscale h s (quad s u v)) * view_value d (y u) * view_value d (y v) /\
  quad (fst (step s (h, OSetQuadratic u v b))) u v = kqm d b /\
  hasq (fst (step s (h, OSetQuadratic u v b))) u v = true.
Proof.
  intros Hs Hw D E. cbn [step]. destruct h as [|wv]; [discriminate|].
  unfold h_set_quadratic. rewrite (bqm_guard u v s Hs). destruct (Nat.eqb_spec u v) as [E'|_]; [contradiction|].
  remember (Via wv) as h eqn:Eh.
  destruct (good_h_add_variable h u 0 s Hs) as (A1 & A2 & A3).
  remember (fst (h_add_variable h u 0 s)) as s1 eqn:Es1.
  assert (D1 : vdir_of h s1 = Some d) by (rewrite <- D, Es1; apply vdir_kind; apply kind_h_add_variable).
  destruct (good_h_add_variable h v 0 s1 A2) as (C1 & C2 & C3).
  remember (fst (h_add_variable h v 0 s1)) as s2 eqn:Es2.
  assert (D2 : vdir_of h s2 = Some d) by (rewrite <- D1, Es2; apply vdir_kind; apply kind_h_add_variable).
  destruct (good_h_add_quadratic h u v 0 s2 C2 E) as (F1 & F2 & F3).
  remember (fst (h_add_quadratic h u v 0 s2)) as s3 eqn:Es3.
  assert (D3 : vdir_of h s3 = Some d) by (rewrite <- D2, Es3; apply vdir_kind; apply kind_h_add_quadratic).
  assert (W3 : wf s3).
  { rewrite Es3, Es2, Es1. apply pres_h_add_quadratic. apply pres_h_add_variable. apply pres_h_add_variable. exact Hw. }
  assert (Q2 : p_quad (st_poly s2) = p_quad (st_poly s)).
  { rewrite Es2, (sameq_h_add_variable h v 0 s1 A2), Es1. apply (sameq_h_add_variable h u 0 s Hs). }
  assert (Q3 : p_quad (st_poly s3) = (u, v, kqm d 0) :: p_quad (st_poly s)).
  { rewrite Es3, (quad_h_add_quadratic_view h d u v 0 s2 C2 D2 E), Q2. reflexivity. }
  assert (H3 : hasq s3 u v = true).
  { unfold hasq. rewrite Q3. cbn [has_pair existsb fst snd]. rewrite same_pair_refl. reflexivity. }
  assert (V3 : has_var s3 u = true /\ has_var s3 v = true).
  { destruct W3 as (_ & _ & Wq & _). assert (It : In (u, v, kqm d 0) (p_quad (st_poly s3))) by (rewrite Q3; left; reflexivity).
    destruct (Wq _ It) as (L1 & L2 & _). cbn [fst snd] in *. split; apply has_var_In; assumption. }
  assert (G3 : h_get_quadratic h u v s3 = Some (vscale h s (quad s u v))).
  { unfold h_get_quadratic. destruct V3 as [-> ->]. rewrite H3. cbn [andb]. f_equal.
    unfold vscale. rewrite D3, D. unfold quad. rewrite Q3, quad_coeff_cons, same_pair_refl, kqm_zero.
    destruct d; ring. }
  assert (Hform : (h_add_variable h u 0 s >>= h_add_variable h v 0 >>= h_add_quadratic h u v 0 >>=
                   (fun s0 => h_add_quadratic h u v (b - opt0 (h_get_quadratic h u v s0)) s0))
                  = h_add_quadratic h u v (b - vscale h s (quad s u v)) s3).
  { unfold bind at 3. rewrite A1, <- Es1. unfold bind at 2. rewrite C1, <- Es2. unfold bind at 1. rewrite F1, <- Es3.
    rewrite G3. reflexivity. }
  rewrite Hform.
  destruct (good_h_add_quadratic h u v (b - vscale h s (quad s u v)) s3 F2 E) as (K1 & K2 & K3).
  split; [exact K1|].
  assert (E3 : energy (st_poly s3) y = energy (st_poly s) y).
  { rewrite Es3, (energy_h_add_quadratic_view h d u v 0 s2 y C2 D2 E).
    rewrite Es2, (energy_h_add_variable_zero h d v s1 y A2 D1).
    rewrite Es1, (energy_h_add_variable_zero h d u s y Hs D). ring. }
  split; [rewrite (energy_h_add_quadratic_view h d u v _ s3 y F2 D3 E), E3; reflexivity|].
  assert (Q4 : p_quad (st_poly (fst (h_add_quadratic h u v (b - vscale h s (quad s u v)) s3)))
               = (u, v, kqm d (b - vscale h s (quad s u v))) :: (u, v, kqm d 0) :: p_quad (st_poly s)).
  { rewrite (quad_h_add_quadratic_view h d u v _ s3 F2 D3 E), Q3. reflexivity. }
  split.
  - unfold quad at 1. rewrite Q4, !quad_coeff_cons, same_pair_refl, kqm_zero.
    fold (quad s u v). rewrite <- (kqm_vscale h d s (quad s u v) D) at 2.
    unfold kqm. destruct d; ring.
  - unfold hasq. rewrite Q4. cbn [has_pair existsb fst snd]. rewrite same_pair_refl. reflexivity.
Qed.

Print Assumptions view_step_set_quadratic.

(* remove_interaction through a translating view: the term disappears, in the view's variables *)
Theorem view_step_remove_interaction h d u v s y :
  B s -> wf s -> vdir_of h s = Some d -> u <> v ->
  has_var s u = true -> has_var s v = true -> hasq s u v = true ->
  snd (step s (h, ORemoveInteraction u v)) = Ok /\
  energy (st_poly (fst (step s (h, ORemoveInteraction u v)))) y
  = energy (st_poly s) y - vscale h s (quad s u v) * view_value d (y u) * view_value d (y v) /\
  hasq (fst (step s (h, ORemoveInteraction u v))) u v = false.
Proof.
  intros Hs Hw D E Hu Hv Hq.
  destruct (view_step_set_quadratic h d u v 0 s y Hs Hw D E) as (S1 & S2 & S3 & S4). cbn [step] in *.
  destruct (good_h_set_quadratic h u v 0 s Hs E) as (_ & G2 & G3).
  assert (Hg : h_get_quadratic h u v s = Some (vscale h s (quad s u v))).
  { unfold h_get_quadratic. rewrite Hu, Hv, Hq. reflexivity. }
  unfold h_remove_interaction. rewrite D, Hg.
  unfold bind. rewrite S1.
  remember (fst (h_set_quadratic h u v 0 s)) as s' eqn:Es'.
  unfold d_remove_interaction. rewrite (G3 u Hu), (G3 v Hv), S4. cbn [andb ok fst snd with_poly st_poly].
  split; [reflexivity|]. split.
  - rewrite energy_remove_interaction. fold (quad s' u v). rewrite S3, S2, kqm_zero. ring.
  - unfold hasq. cbn [with_poly st_poly]. rewrite has_pair_remove_interaction, same_pair_refl. reflexivity.
Qed.

Print Assumptions view_step_remove_interaction.

(* ---------- set_linear through a translating view ---------- *)
(* explicit form of add_linear through a translating view on an existing variable *)
Definition klm (d : vdir) (b : Qc) : Qc := match d with BinOverSpin => b * half | SpinOverBin => two * b end.
Definition kom (d : vdir) (b : Qc) : Qc := match d with BinOverSpin => b * half | SpinOverBin => - b end.

Lemma h_add_linear_view_form h d v b s :
  B s -> vdir_of h s = Some d -> has_var s v = true ->
  h_add_linear h v b s = ok (with_poly s (add_offset (kom d b) (add_linear v (klm d b) (st_poly s)))).
Proof.
  intros Hs D Hv. unfold h_add_linear. rewrite D.
  destruct d; unfold klm, kom; rewrite (d_add_linear_has v _ s Hs Hv), bind_ok, d_add_offset_eq; reflexivity.
Qed.

Lemma get_linear_with_poly h v s p :
  p_quad p = p_quad (st_poly s) ->
  h_get_linear h v (with_poly s p)
  = if has_var s v then
      Some match vdir_of h s with
           | None => lin_coeff (p_lin p) v
           | Some BinOverSpin => two * lin_coeff (p_lin p) v - two * nbh_sum s v
           | Some SpinOverBin => lin_coeff (p_lin p) v * half + nbh_sum s v * quarter
           end
    else None.
Proof.
  intros Hq. unfold h_get_linear.
  assert (Hn : nbh_sum (with_poly s p) v = nbh_sum s v).
  { unfold nbh_sum, nbh, quad, hasq, labels. cbn [with_poly st_vars st_poly]. rewrite Hq. reflexivity. }
  assert (Hd : vdir_of h (with_poly s p) = vdir_of h s) by (apply vdir_kind; reflexivity).
  change (has_var (with_poly s p) v) with (has_var s v). rewrite Hn, Hd. unfold lin. cbn [with_poly st_poly]. reflexivity.
Qed.

Theorem view_step_set_linear h d v b s y :
  B s -> vdir_of h s = Some d -> has_var s v = true ->
  snd (step s (h, OSetLinear v b)) = Ok /\
  energy (st_poly (fst (step s (h, OSetLinear v b)))) y
  = energy (st_poly s) y + (b - opt0 (h_get_linear h v s)) * view_value d (y v) /\
  h_get_linear h v (fst (step s (h, OSetLinear v b))) = Some b.
Proof.
  intros Hs D Hv. cbn [step]. unfold h_set_linear. rewrite D.
  rewrite (h_add_linear_view_form h d v 0 s Hs D Hv), bind_ok.
  set (p1 := add_offset (kom d 0) (add_linear v (klm d 0) (st_poly s))).
  assert (Q1 : p_quad p1 = p_quad (st_poly s)) by reflexivity.
  assert (B1 : B (with_poly s p1)) by exact Hs.
  assert (D1 : vdir_of h (with_poly s p1) = Some d) by (rewrite <- D; apply vdir_kind; reflexivity).
  assert (L1 : lin_coeff (p_lin p1) v = lin s v).
  { unfold p1, lin. cbn [add_offset add_linear p_lin]. rewrite lin_coeff_cons. cbn [fst snd]. rewrite Nat.eqb_refl. destruct d; unfold klm; ring. }
  assert (G1 : h_get_linear h v (with_poly s p1) = h_get_linear h v s).
  { rewrite (get_linear_with_poly h v s p1 Q1). unfold h_get_linear. rewrite L1. reflexivity. }
  rewrite G1.
  rewrite (h_add_linear_view_form h d v _ (with_poly s p1) B1 D1 Hv). cbn [ok fst snd].
  split; [reflexivity|]. split.
  - cbn [with_poly st_poly]. rewrite energy_add_offset, energy_add_linear. unfold p1. rewrite energy_add_offset, energy_add_linear.
    destruct d; unfold klm, kom, view_value; ring.
  - match goal with |- h_get_linear h v (with_poly ?s1 ?p2) = _ =>
      assert (Q2 : p_quad p2 = p_quad (st_poly s1)) by reflexivity;
      rewrite (get_linear_with_poly h v s1 p2 Q2) end.
    change (has_var (with_poly s p1) v) with (has_var s v). rewrite Hv, D1. f_equal.
    assert (N1 : nbh_sum (with_poly s p1) v = nbh_sum s v).
    { unfold nbh_sum, nbh, quad, hasq, labels. cbn [with_poly st_vars st_poly]. rewrite Q1. reflexivity. }
    rewrite N1. cbn [with_poly st_poly add_offset add_linear p_lin]. rewrite lin_coeff_cons. cbn [fst snd]. rewrite Nat.eqb_refl, L1.
    unfold h_get_linear. rewrite Hv, D.
    pose proof two_half as TH.
    destruct d; unfold klm, quarter; cbn [opt0]; ring [TH].
Qed.

Print Assumptions view_step_set_linear.
