(* C17: gate truth tables (finite, by computation over the GENERATED coefficient tables),
   scaling by a positive strength, independent-set energy *)
From Coq Require Import List ZArith QArith Qcanon Bool Arith Lia.
From Dimod Require Import Base.Util Model.Poly Model.Comb Gen.Gen_Gates Model.Gates
  Proofs.PolyFacts Proofs.CombGray.
Import ListNotations.

(* ---------- lifting a computed table to a universally quantified statement ---------- *)
Lemma table_lift n ok E :
  table_ok n ok E = true ->
  forall x, length x = n -> (ok x = true -> E x = 0%Z) /\ (ok x = false -> (1 <= E x)%Z).
Proof.
  unfold table_ok. rewrite forallb_forall. intros H x Hl.
  assert (Hin : In x (all_bitvectors n)) by (apply all_bitvectors_In; exact Hl).
  specialize (H x Hin). unfold row_ok in H. split; intros Hok; rewrite Hok in H.
  - apply Z.eqb_eq. exact H.
  - apply Z.leb_le. exact H.
Qed.

(* 8, 8, 16, 32 rows; xor: 8 rows, each minimised over the auxiliary *)
Lemma and_table_computed : table_ok 3 and_ok and_energy = true.
Proof. vm_compute. reflexivity. Qed.
Lemma or_table_computed : table_ok 3 or_ok or_energy = true.
Proof. vm_compute. reflexivity. Qed.
Lemma halfadder_table_computed : table_ok 4 halfadder_ok halfadder_energy = true.
Proof. vm_compute. reflexivity. Qed.
Lemma fulladder_table_computed : table_ok 5 fulladder_ok fulladder_energy = true.
Proof. vm_compute. reflexivity. Qed.
Lemma xor_table_computed : table_ok 3 xor_ok xor_min_energy = true.
Proof. vm_compute. reflexivity. Qed.
(* no assignment of any gate is below 0 (including the xor auxiliary) *)
Lemma xor_nonneg_computed : forallb (fun x => (0 <=? xor_energy x)%Z) (all_bitvectors 4) = true.
Proof. vm_compute. reflexivity. Qed.

Theorem and_gate_table_thm : forall x, length x = 3%nat ->
  (and_ok x = true -> and_energy x = 0%Z) /\ (and_ok x = false -> (1 <= and_energy x)%Z).
Proof. exact (table_lift 3 and_ok and_energy and_table_computed). Qed.
Theorem or_gate_table_thm : forall x, length x = 3%nat ->
  (or_ok x = true -> or_energy x = 0%Z) /\ (or_ok x = false -> (1 <= or_energy x)%Z).
Proof. exact (table_lift 3 or_ok or_energy or_table_computed). Qed.
Theorem halfadder_table_thm : forall x, length x = 4%nat ->
  (halfadder_ok x = true -> halfadder_energy x = 0%Z) /\ (halfadder_ok x = false -> (1 <= halfadder_energy x)%Z).
Proof. exact (table_lift 4 halfadder_ok halfadder_energy halfadder_table_computed). Qed.
Theorem fulladder_table_thm : forall x, length x = 5%nat ->
  (fulladder_ok x = true -> fulladder_energy x = 0%Z) /\ (fulladder_ok x = false -> (1 <= fulladder_energy x)%Z).
Proof. exact (table_lift 5 fulladder_ok fulladder_energy fulladder_table_computed). Qed.
Theorem xor_gate_table_thm : forall x, length x = 3%nat ->
  (xor_ok x = true -> xor_min_energy x = 0%Z) /\ (xor_ok x = false -> (1 <= xor_min_energy x)%Z).
Proof. exact (table_lift 3 xor_ok xor_min_energy xor_table_computed). Qed.
Theorem xor_gate_nonneg_thm : forall x, length x = 4%nat -> (0 <= xor_energy x)%Z.
Proof.
  intros x Hl. pose proof xor_nonneg_computed as H. rewrite forallb_forall in H.
  apply Z.leb_le. apply H. apply all_bitvectors_In. exact Hl.
Qed.

(* ---------- Z -> Qc ---------- *)
Open Scope Qc_scope.

Lemma z2q_add a b : z2q (a + b) = z2q a + z2q b.
Proof.
  apply Qc_is_canon. unfold z2q. cbn [this Qcplus Q2Qc]. rewrite !Qred_correct. rewrite inject_Z_plus. reflexivity.
Qed.
Lemma z2q_mul a b : z2q (a * b) = z2q a * z2q b.
Proof.
  apply Qc_is_canon. unfold z2q. cbn [this Qcmult Q2Qc]. rewrite !Qred_correct. rewrite inject_Z_mult. reflexivity.
Qed.
Lemma z2q_0 : z2q 0 = 0.
Proof. apply Qc_is_canon. reflexivity. Qed.
Lemma z2q_1 : z2q 1 = 1.
Proof. apply Qc_is_canon. reflexivity. Qed.
Lemma z2q_le a b : (a <= b)%Z -> z2q a <= z2q b.
Proof.
  intros H. unfold Qcle, z2q. cbn [this Q2Qc]. rewrite !Qred_correct. rewrite <- Zle_Qle. exact H.
Qed.
Lemma z2q_inj0 a : z2q a = 0 -> a = 0%Z.
Proof.
  intros H. apply (f_equal this) in H. unfold z2q in H. cbn [this Q2Qc] in H.
  assert (H' : (inject_Z a == 0)%Q) by (rewrite <- (Qred_correct (inject_Z a)); rewrite H; reflexivity).
  unfold Qeq in H'. cbn in H'. lia.
Qed.

Lemma sample_of_bits_bit x i : sample_of_bits x i = z2q (bit x i).
Proof. unfold sample_of_bits, bit. destruct (nth i x false); [rewrite z2q_1|rewrite z2q_0]; reflexivity. Qed.

(* the generated BQM (coefficients strength * table) evaluates to strength * integer energy *)
Theorem gate_poly_energy lin quad (s : Qc) x :
  energy (gate_poly lin quad s) (sample_of_bits x) = s * z2q (gate_energy lin quad x).
Proof.
  unfold energy, gate_poly, gate_energy. cbn [p_off p_lin p_quad].
  rewrite z2q_add.
  assert (Hl : lin_energy (map (fun t => (fst t, s * z2q (snd t))) lin) (sample_of_bits x)
               = s * z2q (fold_right (fun t acc => snd t * bit x (fst t) + acc) 0 lin)%Z).
  { unfold lin_energy. induction lin as [|t r IH]; cbn [map qsum fold_right].
    - rewrite z2q_0. ring.
    - rewrite IH, z2q_add, z2q_mul. unfold lterm_val. cbn [fst snd]. rewrite sample_of_bits_bit. ring. }
  assert (Hq : quad_energy (map (fun t => (fst (fst t), snd (fst t), s * z2q (snd t))) quad) (sample_of_bits x)
               = s * z2q (fold_right (fun t acc => snd t * bit x (fst (fst t)) * bit x (snd (fst t)) + acc) 0 quad)%Z).
  { unfold quad_energy. induction quad as [|t r IH]; cbn [map qsum fold_right].
    - rewrite z2q_0. ring.
    - rewrite IH, z2q_add, !z2q_mul. unfold qterm_val. cbn [fst snd]. rewrite !sample_of_bits_bit. ring. }
  rewrite Hl, Hq. ring.
Qed.

(* scaling: for any strength > 0 an integer energy of 0 stays 0, one of >= 1 becomes >= strength *)
Theorem gate_scaling (s : Qc) (e : Z) :
  0 < s ->
  (e = 0%Z -> s * z2q e = 0) /\ ((1 <= e)%Z -> s <= s * z2q e) /\ ((0 <= e)%Z -> 0 <= s * z2q e) /\
  (s * z2q e = 0 -> e = 0%Z).
Proof.
  intros Hs. repeat split.
  - intros ->. rewrite z2q_0. ring.
  - intros H. apply z2q_le in H. rewrite z2q_1 in H.
    replace s with (1 * s) at 1 by ring. replace (s * z2q e) with (z2q e * s) by ring.
    apply Qcmult_le_compat_r; [exact H|apply Qclt_le_weak; exact Hs].
  - intros H. apply z2q_le in H. rewrite z2q_0 in H.
    replace 0 with (0 * z2q e) by ring.
    apply Qcmult_le_compat_r; [apply Qclt_le_weak; exact Hs|exact H].
  - intros H. destruct (Qcmult_integral _ _ H) as [H0|H0].
    + subst s. exfalso. revert Hs. unfold Qclt. apply Qlt_irrefl.
    + apply z2q_inj0. exact H0.
Qed.

(* the property as stated: BQM energy at any strength > 0 *)
Theorem gate_bqm_gap lin quad n ok (s : Qc) :
  table_ok n ok (gate_energy lin quad) = true -> 0 < s ->
  forall x, length x = n ->
    (ok x = true -> energy (gate_poly lin quad s) (sample_of_bits x) = 0) /\
    (ok x = false -> s <= energy (gate_poly lin quad s) (sample_of_bits x)).
Proof.
  intros Ht Hs x Hl. rewrite gate_poly_energy.
  destruct (table_lift n ok _ Ht x Hl) as [H1 H2].
  destruct (gate_scaling s (gate_energy lin quad x) Hs) as [G0 [G1 _]].
  split; intros Hok; [apply G0; apply H1; exact Hok|apply G1; apply H2; exact Hok].
Qed.

(* ---------- independent-set family ---------- *)
Lemma b2qc_and a b : b2qc (a && b) = b2qc a * b2qc b.
Proof. destruct a, b; cbn [b2qc andb]; ring. Qed.

Theorem mwis_energy s edges weights sel :
  energy (mwis_poly s edges weights) (sel_sample sel)
  = s * edges_inside sel edges - selected_weight sel weights.
Proof.
  unfold energy, mwis_poly. cbn [p_off p_lin p_quad].
  assert (Hl : lin_energy (map (fun t => (fst t, - snd t)) weights) (sel_sample sel)
               = - selected_weight sel weights).
  { unfold lin_energy, selected_weight. induction weights as [|t r IH]; cbn [map qsum]; [ring|].
    rewrite IH. unfold lterm_val, sel_sample. cbn [fst snd]. destruct (sel (fst t)); cbn [b2qc]; ring. }
  assert (Hq : quad_energy (map (fun e => (fst e, snd e, s)) edges) (sel_sample sel)
               = s * edges_inside sel edges).
  { unfold quad_energy, edges_inside. induction edges as [|e r IH]; cbn [map qsum]; [ring|].
    rewrite IH. unfold qterm_val, sel_sample. cbn [fst snd]. rewrite b2qc_and. ring. }
  rewrite Hl, Hq. ring.
Qed.

(* an independent selection (no listed edge inside) has energy minus its weight *)
Theorem mwis_independent s edges weights sel :
  (forall e, In e edges -> sel (fst e) && sel (snd e) = false) ->
  energy (mwis_poly s edges weights) (sel_sample sel) = - selected_weight sel weights.
Proof.
  intros H. rewrite mwis_energy.
  assert (E : edges_inside sel edges = 0).
  { unfold edges_inside. induction edges as [|e r IH]; cbn [map qsum]; [reflexivity|].
    rewrite (H e (or_introl eq_refl)), IH by (intros e' He'; apply H; right; exact He').
    cbn [b2qc]. ring. }
  rewrite E. ring.
Qed.
