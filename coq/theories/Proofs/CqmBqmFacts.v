(* C16: cqm_to_bqm - energy decomposition and the penalty gap on the assembled BQM *)
From Coq Require Import List ZArith QArith Qcanon Bool Arith Lia.
From Dimod Require Import Base.Util Model.Poly Model.Comb Model.Penalty Model.CqmBqm
  Proofs.PolyFacts Proofs.CombFacts Proofs.PenaltyEq Proofs.PenaltySlack.
Import ListNotations.
Open Scope Qc_scope.

(* ---------- integers inside Qc ---------- *)

Lemma this_zq z : (this (zq z) == inject_Z z)%Q.
Proof. unfold zq, qc, Q2Qc. cbn [this]. rewrite Qred_correct. reflexivity. Qed.

Lemma zq_add a b : zq (a + b) = zq a + zq b.
Proof.
  apply Qc_is_canon. unfold Qcplus, Q2Qc. cbn [this]. rewrite Qred_correct, !this_zq.
  unfold inject_Z, Qeq, Qplus. cbn. lia.
Qed.

Lemma zq_mul a b : zq (a * b) = zq a * zq b.
Proof.
  apply Qc_is_canon. unfold Qcmult, Q2Qc. cbn [this]. rewrite Qred_correct, !this_zq.
  unfold inject_Z, Qeq, Qmult. cbn. lia.
Qed.

Lemma zq_opp a : zq (- a) = - zq a.
Proof.
  apply Qc_is_canon. unfold Qcopp, Q2Qc. cbn [this]. rewrite Qred_correct, !this_zq.
  unfold inject_Z, Qeq, Qopp. cbn. lia.
Qed.

Lemma zq_sub a b : zq (a - b) = zq a - zq b.
Proof. unfold Z.sub, Qcminus. rewrite zq_add, zq_opp. reflexivity. Qed.

Lemma zq_0 : zq 0 = 0.
Proof. apply Qc_is_canon. reflexivity. Qed.

Lemma zq_1 : zq 1 = 1.
Proof. apply Qc_is_canon. reflexivity. Qed.

Lemma zq_le a b : (a <= b)%Z <-> zq a <= zq b.
Proof.
  unfold Qcle. rewrite !this_zq. unfold inject_Z, Qle. cbn. lia.
Qed.

Lemma zq_inj a b : zq a = zq b -> a = b.
Proof. intros H. apply Z.le_antisymm; apply zq_le; rewrite H; apply Qcle_refl. Qed.

Lemma zq_qz q : is_int q = true -> zq (qz q) = q.
Proof.
  intros H. apply Qc_is_canon. rewrite this_zq. unfold is_int in H. apply Pos.eqb_eq in H.
  unfold qz. destruct q as [[n d] c]. cbn [this Qnum Qden] in *. subst d. reflexivity.
Qed.

(* ---------- energy decomposition ---------- *)

Lemma energy_con_step E lam p k s :
  respects (cvt BINARY) s ->
  energy (con_step E lam p k) s = energy p s + lam * con_penalty_q E k s.
Proof.
  intros Hr. unfold con_step, con_penalty_q.
  assert (Hb : bqm_vt BINARY) by (left; reflexivity).
  destruct (cc_sense k).
  - destruct (con_plan E k); try (rewrite add_eq_cy_exact by assumption; reflexivity); ring.
  - destruct (con_plan E k); try (rewrite add_eq_cy_exact by assumption; reflexivity); ring.
  - rewrite add_eq_cy_exact by assumption. reflexivity.
Qed.

Lemma energy_fold_con_step E lam cons : forall p s,
  respects (cvt BINARY) s ->
  energy (fold_left (con_step E lam) cons p) s
  = energy p s + lam * qsum (map (fun k => con_penalty_q E k s) cons).
Proof.
  induction cons as [|k r IH]; intros p s Hr; cbn [fold_left map qsum].
  - ring.
  - rewrite IH by assumption. rewrite energy_con_step by assumption. ring.
Qed.

(* E_bqm(s) = objective(inverter(s)) + multiplier * sum of the squared constraint residuals *)
Theorem cqm_bqm_energy E lam obj cons s :
  respects (cvt BINARY) s -> (forall v, p_quad (E v) = []) ->
  energy (cqm_bqm E lam obj cons) s
  = energy obj (invert E s) + lam * qsum (map (fun k => con_penalty_q E k s) cons).
Proof.
  intros Hr HE. unfold cqm_bqm. rewrite energy_fold_con_step by assumption.
  rewrite encode_poly_energy by assumption. reflexivity.
Qed.

(* ---------- 0/1 samples, bits, integer terms ---------- *)

Definition binary01 (s : sample) : Prop := forall v, s v = 0 \/ s v = 1.

Lemma binary01_respects s : binary01 s -> respects (cvt BINARY) s.
Proof. intros H v. unfold cvt. destruct (H v) as [-> | ->]; ring. Qed.

Lemma Qc_eqb_eq a b : Qc_eqb a b = true -> a = b.
Proof. unfold Qc_eqb. intros H. apply Qeq_bool_iff in H. apply Qc_is_canon. exact H. Qed.

Lemma lin_energy_bits s (zt : list (label * Z)) :
  binary01 s ->
  lin_energy (map (fun t => (fst t, zq (snd t))) zt) s = zq (dot (map snd zt) (bits_of s (map fst zt))).
Proof.
  intros Hb. induction zt as [|[v a] r IH]; cbn [map fst snd bits_of dot].
  - rewrite lin_energy_nil, zq_0. reflexivity.
  - rewrite lin_energy_cons. cbn [fst snd]. rewrite IH. fold (bits_of s (map fst r)).
    rewrite zq_add. destruct (Hb v) as [H|H]; rewrite H.
    + replace (Qc_eqb 0 1) with false by reflexivity. rewrite zq_0. ring.
    + replace (Qc_eqb 1 1) with true by reflexivity. ring.
Qed.

Lemma int_terms (l : list lterm) :
  forallb (fun t => is_int (snd t)) l = true ->
  l = map (fun t => (fst t, zq (snd t))) (map (fun t => (fst t, qz (snd t))) l).
Proof.
  induction l as [|[v a] r IH]; cbn [forallb map fst snd]; intros H; [reflexivity|].
  apply andb_true_iff in H. destruct H as [Ha Hr]. rewrite zq_qz by exact Ha. f_equal. apply IH. exact Hr.
Qed.

Definition xbits (E : encoding) (k : ccon) (s : sample) : list bool := bits_of s (map fst (con_terms E k)).
Definition sbits (k : ccon) (s : sample) : list bool := bits_of s (cc_slack k).

Lemma xbits_length E k s : length (xbits E k s) = length (con_coeffs E k).
Proof. unfold xbits, bits_of, con_coeffs. rewrite !map_length. reflexivity. Qed.

Lemma con_terms_value E k s :
  binary01 s -> forallb (fun t => is_int (snd t)) (con_terms E k) = true ->
  lin_energy (con_terms E k) s = zq (dot (con_coeffs E k) (xbits E k s)).
Proof.
  intros Hb Hi. rewrite (int_terms _ Hi) at 1. rewrite lin_energy_bits by exact Hb.
  unfold con_coeffs, xbits. rewrite !map_map. cbn [fst snd]. reflexivity.
Qed.

Lemma slack_terms_value s (g : list label) : forall cs : list Z,
  binary01 s -> lin_energy (combine g (map zq cs)) s = zq (dot cs (bits_of s g)).
Proof.
  induction g as [|v g IH]; intros cs Hb.
  - cbn [combine bits_of map]. rewrite lin_energy_nil. destruct cs; cbn [dot]; rewrite zq_0; reflexivity.
  - destruct cs as [|c cs]; cbn [map combine bits_of dot].
    + rewrite lin_energy_nil, zq_0. reflexivity.
    + rewrite lin_energy_cons. cbn [fst snd]. rewrite IH by exact Hb. fold (bits_of s g).
      rewrite zq_add. destruct (Hb v) as [H|H]; rewrite H.
      * replace (Qc_eqb 0 1) with false by reflexivity. rewrite zq_0. ring.
      * replace (Qc_eqb 1 1) with true by reflexivity. ring.
Qed.

Lemma quad_energy_zero (q : list qterm) s :
  forallb (fun t => Qc_eqb (snd t) 0) q = true -> quad_energy q s = 0.
Proof.
  induction q as [|t r IH]; cbn [forallb]; intros H; [reflexivity|].
  apply andb_true_iff in H. destruct H as [Ht Hr]. rewrite quad_energy_cons, IH by exact Hr.
  apply Qc_eqb_eq in Ht. rewrite Ht. ring.
Qed.

(* the substituted left-hand side, evaluated on a BQM sample, is the CQM left-hand side at the inverter's image *)
Lemma con_lhs_value E k s :
  respects (cvt BINARY) s -> (forall v, p_quad (E v) = []) ->
  forallb (fun t => Qc_eqb (snd t) 0) (p_quad (con_encoded E k)) = true ->
  lin_energy (con_terms E k) s + con_const E k = energy (cc_lhs k) (invert E s).
Proof.
  intros Hr HE Hq. unfold con_terms, con_const. rewrite lin_energy_merge.
  rewrite <- (encode_poly_energy E (cc_lhs k) s Hr HE). fold (con_encoded E k).
  unfold energy. rewrite (quad_energy_zero _ s Hq). ring.
Qed.

(* unpacking con_wf *)
Lemma con_wf_parts E k : con_wf E k = true ->
  forallb (fun t => is_int (snd t)) (con_terms E k) = true /\
  is_int (con_const E k) = true /\ is_int (cc_rhs k) = true /\
  forallb (fun t => Qc_eqb (snd t) 0) (p_quad (con_encoded E k)) = true /\
  length (cc_slack k) = length (zcon_slack (con_zcon E k)) /\
  (int64_min <= sum_neg (con_coeffs E k) + qz (con_const E k))%Z /\
  (sum_pos (con_coeffs E k) + qz (con_const E k) <= int64_max)%Z.
Proof.
  unfold con_wf. intros H. repeat (apply andb_true_iff in H; destruct H as [H ?]).
  repeat split; try assumption.
  - apply Nat.eqb_eq. assumption.
  - apply Z.leb_le. assumption.
  - apply Z.leb_le. assumption.
Qed.

(* ---------- each residual is the integer penalty of Comb / Penalty ---------- *)

Lemma con_penalty_q_eq E k s :
  con_wf E k = true -> binary01 s ->
  con_penalty_q E k s = zq (zcon_penalty (con_zcon E k) (xbits E k s) (sbits k s)).
Proof.
  intros Hwf Hb. destruct (con_wf_parts E k Hwf) as [Hi [Hc [Hrhs _]]].
  unfold con_penalty_q, con_slack_terms, lin_sum.
  destruct (cc_sense k) eqn:Es.
  - (* SLe *)
    assert (Hz : con_zcon E k = ZIneq (con_coeffs E k) (qz (con_const E k)) int64_min (qz (cc_rhs k)))
      by (unfold con_zcon; rewrite Es; reflexivity).
    assert (Hp : con_plan E k = plan_inequality (con_coeffs E k) (qz (con_const E k)) int64_min (qz (cc_rhs k)))
      by (unfold con_plan; rewrite Hz; reflexivity).
    rewrite Hz. cbn [zcon_penalty]. rewrite <- Hp.
    destruct (con_plan E k) as [| |ubc|ubc cs].
    + rewrite zq_0. reflexivity.
    + rewrite zq_0. reflexivity.
    + unfold ineq_penalty. rewrite con_terms_value by assumption. cbn [dot].
      rewrite zq_mul, !zq_sub, !zq_add, zq_opp, zq_0. ring.
    + unfold ineq_penalty. rewrite lin_energy_app, con_terms_value, slack_terms_value by assumption.
      unfold sbits. rewrite zq_mul, !zq_sub, !zq_add, zq_opp. ring.
  - (* SGe *)
    assert (Hz : con_zcon E k = ZIneq (con_coeffs E k) (qz (con_const E k)) (qz (cc_rhs k)) int64_max)
      by (unfold con_zcon; rewrite Es; reflexivity).
    assert (Hp : con_plan E k = plan_inequality (con_coeffs E k) (qz (con_const E k)) (qz (cc_rhs k)) int64_max)
      by (unfold con_plan; rewrite Hz; reflexivity).
    rewrite Hz. cbn [zcon_penalty]. rewrite <- Hp.
    destruct (con_plan E k) as [| |ubc|ubc cs].
    + rewrite zq_0. reflexivity.
    + rewrite zq_0. reflexivity.
    + unfold ineq_penalty. rewrite con_terms_value by assumption. cbn [dot].
      rewrite zq_mul, !zq_sub, !zq_add, zq_opp, zq_0. ring.
    + unfold ineq_penalty. rewrite lin_energy_app, con_terms_value, slack_terms_value by assumption.
      unfold sbits. rewrite zq_mul, !zq_sub, !zq_add, zq_opp. ring.
  - (* SEq *)
    unfold con_zcon. rewrite Es. cbn [zcon_penalty].
    rewrite con_terms_value by assumption.
    rewrite <- (zq_qz _ Hc) at 1 2. rewrite <- (zq_qz _ Hrhs) at 1 2.
    rewrite zq_mul, !zq_add, !zq_sub. ring.
Qed.

Lemma con_sat_iff E k s :
  con_wf E k = true -> binary01 s -> (forall v, p_quad (E v) = []) ->
  con_satisfied_at k (invert E s) <-> zcon_feasible (con_zcon E k) (xbits E k s).
Proof.
  intros Hwf Hb HE. destruct (con_wf_parts E k Hwf) as [Hi [Hc [Hrhs [Hq [_ [Hlo Hhi]]]]]].
  pose proof (con_lhs_value E k s (binary01_respects s Hb) HE Hq) as Hv.
  rewrite con_terms_value in Hv by assumption.
  rewrite <- (zq_qz _ Hc) in Hv. rewrite <- zq_add in Hv.
  pose proof (dot_sum_bounds (con_coeffs E k) (xbits E k s)) as Hbd.
  unfold con_satisfied_at, con_zcon. rewrite <- Hv.
  destruct (cc_sense k); cbn [zcon_feasible].
  - rewrite <- (zq_qz _ Hrhs) at 1. rewrite <- zq_le. lia.
  - rewrite <- (zq_qz _ Hrhs) at 1. rewrite <- zq_le. lia.
  - rewrite <- (zq_qz _ Hrhs) at 1. split.
    + intros H. apply zq_inj in H. lia.
    + intros H. f_equal. lia.
Qed.

(* ---------- lower bounds: every sample pays at least the objective; a violated constraint costs the multiplier ---------- *)

Lemma con_accepted E k : con_raises E k = false -> zcon_accepted (con_zcon E k).
Proof.
  unfold con_raises, con_plan, con_zcon. destruct (cc_sense k); cbn [zcon_accepted]; try exact (fun _ => I).
  - destruct (plan_inequality _ _ _ _); intros H; try discriminate H; intro X; discriminate X.
  - destruct (plan_inequality _ _ _ _); intros H; try discriminate H; intro X; discriminate X.
Qed.

Lemma sbits_length k s : length (sbits k s) = length (cc_slack k).
Proof. unfold sbits, bits_of. apply map_length. Qed.

Lemma con_gap E k s :
  con_wf E k = true -> binary01 s -> (forall v, p_quad (E v) = []) -> con_raises E k = false ->
  0 <= con_penalty_q E k s /\
  (~ con_satisfied_at k (invert E s) -> 1 <= con_penalty_q E k s).
Proof.
  intros Hwf Hb HE Hnr. rewrite con_penalty_q_eq by assumption.
  destruct (con_wf_parts E k Hwf) as [_ [_ [_ [_ [Hlen _]]]]].
  assert (Hx : length (xbits E k s) = length (zcon_coeffs (con_zcon E k))).
  { rewrite xbits_length. unfold con_zcon. destruct (cc_sense k); reflexivity. }
  destruct (zcon_gap (con_zcon E k) (xbits E k s) (con_accepted E k Hnr) Hx) as [_ [Hviol Hnn]].
  split.
  - rewrite <- zq_0. apply (proj1 (zq_le _ _)). apply Hnn.
  - intros Hns. rewrite <- zq_1. apply (proj1 (zq_le _ _)). apply Hviol.
    + intro Hf. apply Hns. apply (con_sat_iff E k s Hwf Hb HE). exact Hf.
    + rewrite sbits_length. exact Hlen.
Qed.

Lemma qsum_nonneg (l : list Qc) : Forall (fun x => 0 <= x) l -> 0 <= qsum l.
Proof.
  induction 1 as [|x l Hx Hl IH]; cbn [qsum]; [apply Qcle_refl|].
  rewrite <- (Qcplus_0_l 0). apply Qcplus_le_compat; assumption.
Qed.

Lemma qsum_ge_one (l : list Qc) : Forall (fun x => 0 <= x) l -> Exists (fun x => 1 <= x) l -> 1 <= qsum l.
Proof.
  intros Hnn Hex. induction Hex as [x l Hx|x l Hex IH]; cbn [qsum]; inversion Hnn as [|y l' Hy Hl]; subst.
  - rewrite <- (Qcplus_0_r 1). apply Qcplus_le_compat; [exact Hx|apply qsum_nonneg; exact Hl].
  - rewrite <- (Qcplus_0_l 1). apply Qcplus_le_compat; [exact Hy|apply IH; exact Hl].
Qed.

Definition cqm_wf (E : encoding) (cons : list ccon) : Prop :=
  (forall v, p_quad (E v) = []) /\ Forall (fun k => con_wf E k = true) cons /\ cqm_raises E cons = false.

Lemma cqm_wf_con E cons k : cqm_wf E cons -> In k cons -> con_wf E k = true /\ con_raises E k = false.
Proof.
  intros [_ [Hw Hr]] Hin. split.
  - rewrite Forall_forall in Hw. apply Hw. exact Hin.
  - unfold cqm_raises in Hr. destruct (con_raises E k) eqn:Ek; [|reflexivity].
    assert (X : existsb (con_raises E) cons = true) by (apply existsb_exists; exists k; split; assumption).
    rewrite X in Hr. discriminate Hr.
Qed.

Lemma penalties_nonneg E cons s :
  cqm_wf E cons -> binary01 s -> Forall (fun x => 0 <= x) (map (fun k => con_penalty_q E k s) cons).
Proof.
  intros Hwf Hb. apply Forall_forall. intros x Hx. apply in_map_iff in Hx. destruct Hx as [k [<- Hin]].
  destruct (cqm_wf_con E cons k Hwf Hin) as [Hk Hr]. destruct Hwf as [HE _].
  apply (con_gap E k s Hk Hb HE Hr).
Qed.

(* every BQM sample costs at least the objective of the CQM sample it inverts to *)
Theorem cqm_bqm_lower_bound E lam obj cons s :
  cqm_wf E cons -> binary01 s -> 0 <= lam ->
  energy obj (invert E s) <= energy (cqm_bqm E lam obj cons) s.
Proof.
  intros Hwf Hb Hl. pose proof Hwf as [HE _].
  rewrite cqm_bqm_energy by (try apply binary01_respects; assumption).
  rewrite <- (Qcplus_0_r (energy obj (invert E s))) at 1.
  apply Qcplus_le_compat; [apply Qcle_refl|].
  rewrite <- (Qcmult_0_r lam). rewrite !(Qcmult_comm lam).
  apply Qcmult_le_compat_r; [|exact Hl]. apply qsum_nonneg. apply penalties_nonneg; assumption.
Qed.

(* ... and at least the multiplier more when that CQM sample violates a constraint *)
Theorem cqm_bqm_infeasible_gap E lam obj cons s :
  cqm_wf E cons -> binary01 s -> 0 <= lam ->
  Exists (fun k => ~ con_satisfied_at k (invert E s)) cons ->
  energy obj (invert E s) + lam <= energy (cqm_bqm E lam obj cons) s.
Proof.
  intros Hwf Hb Hl Hex. pose proof Hwf as [HE _].
  rewrite cqm_bqm_energy by (try apply binary01_respects; assumption).
  apply Qcplus_le_compat; [apply Qcle_refl|].
  rewrite <- (Qcmult_1_r lam) at 1. rewrite !(Qcmult_comm lam).
  apply Qcmult_le_compat_r; [|exact Hl]. apply qsum_ge_one; [apply penalties_nonneg; assumption|].
  apply Exists_exists in Hex. destruct Hex as [k [Hin Hns]].
  apply Exists_exists. exists (con_penalty_q E k s). split.
  - apply in_map_iff. exists k. split; [reflexivity|exact Hin].
  - destruct (cqm_wf_con E cons k Hwf Hin) as [Hk Hr]. apply (con_gap E k s Hk Hb HE Hr). exact Hns.
Qed.

(* ---------- attainment: a feasible CQM sample is reached at exactly the objective ---------- *)

Lemma NoDup_app_parts {A} (a b : list A) :
  NoDup (a ++ b) -> NoDup a /\ NoDup b /\ (forall x, In x a -> ~ In x b).
Proof.
  induction a as [|x a IH]; cbn [app]; intros H.
  - split; [constructor|]. split; [exact H|]. intros x [].
  - inversion H as [|y l Hni Hnd]; subst. destruct (IH Hnd) as [Ha [Hb Hd]].
    split; [constructor; [|exact Ha]; intro X; apply Hni; apply in_or_app; left; exact X|].
    split; [exact Hb|]. intros z [<-|Hz]; [intro X; apply Hni; apply in_or_app; right; exact X|apply Hd; exact Hz].
Qed.

Lemma set_bits_other ls : forall bits s v, ~ In v ls -> set_bits ls bits s v = s v.
Proof.
  induction ls as [|w ls IH]; intros bits s v Hni; [reflexivity|].
  destruct bits as [|b bits]; [reflexivity|]. cbn [set_bits]. unfold upd.
  destruct (Nat.eqb_spec v w) as [->|Hne]; [exfalso; apply Hni; left; reflexivity|].
  apply IH. intro X. apply Hni. right. exact X.
Qed.

Lemma set_bits_binary01 ls : forall bits s, binary01 s -> binary01 (set_bits ls bits s).
Proof.
  induction ls as [|w ls IH]; intros bits s Hb; [exact Hb|].
  destruct bits as [|b bits]; [exact Hb|]. cbn [set_bits]. intros v. unfold upd.
  destruct (v =? w)%nat; [destruct b; [right|left]; reflexivity|apply IH; exact Hb].
Qed.

Lemma bits_of_set_bits ls : forall bits s,
  NoDup ls -> length bits = length ls -> bits_of (set_bits ls bits s) ls = bits.
Proof.
  induction ls as [|w ls IH]; intros bits s Hnd Hl.
  - destruct bits; [reflexivity|discriminate Hl].
  - destruct bits as [|b bits]; [discriminate Hl|]. inversion Hnd as [|y l Hni Hnd']; subst.
    cbn [set_bits bits_of map]. f_equal.
    + unfold upd. rewrite Nat.eqb_refl. destruct b; reflexivity.
    + transitivity (bits_of (set_bits ls bits s) ls).
      * unfold bits_of. apply map_ext_in. intros v Hv. unfold upd.
        destruct (Nat.eqb_spec v w) as [->|Hne]; [contradiction|reflexivity].
      * apply IH; [exact Hnd'|]. cbn [length] in Hl. lia.
Qed.

Lemma bits_of_agree s s' ls : (forall v, In v ls -> s v = s' v) -> bits_of s ls = bits_of s' ls.
Proof. intros H. unfold bits_of. apply map_ext_in. intros v Hv. rewrite (H v Hv). reflexivity. Qed.

Lemma lin_energy_agree (l : list lterm) s s' :
  (forall t, In t l -> s (fst t) = s' (fst t)) -> lin_energy l s = lin_energy l s'.
Proof.
  induction l as [|t r IH]; intros H; [reflexivity|].
  rewrite !lin_energy_cons. rewrite (H t (or_introl eq_refl)). rewrite IH; [reflexivity|].
  intros u Hu. apply H. right. exact Hu.
Qed.

Lemma invert_agree E s s' :
  (forall v, p_quad (E v) = []) ->
  (forall v t, In t (p_lin (E v)) -> s (fst t) = s' (fst t)) ->
  forall v, invert E s v = invert E s' v.
Proof.
  intros HE H v. unfold invert, energy. rewrite (HE v). f_equal. f_equal. apply lin_energy_agree. apply H.
Qed.

Lemma zcon_penalty_dot (zk : zcon) (x x' sl : list bool) :
  dot (zcon_coeffs zk) x = dot (zcon_coeffs zk) x' -> zcon_penalty zk x sl = zcon_penalty zk x' sl.
Proof.
  destruct zk as [a c|a const lb ub]; cbn [zcon_coeffs zcon_penalty]; intros H.
  - rewrite H. reflexivity.
  - destruct (plan_inequality a const lb ub); unfold ineq_penalty; rewrite ?H; reflexivity.
Qed.

Lemma con_zcon_coeffs E k : zcon_coeffs (con_zcon E k) = con_coeffs E k.
Proof. unfold con_zcon. destruct (cc_sense k); reflexivity. Qed.

(* the x-part of a residual depends on the sample only through the inverter's image *)
Lemma con_dot_agree E k s s' :
  con_wf E k = true -> binary01 s -> binary01 s' -> (forall v, p_quad (E v) = []) ->
  (forall v, invert E s v = invert E s' v) ->
  dot (con_coeffs E k) (xbits E k s) = dot (con_coeffs E k) (xbits E k s').
Proof.
  intros Hwf Hb Hb' HE Hinv. destruct (con_wf_parts E k Hwf) as [Hi [_ [_ [Hq _]]]].
  apply zq_inj. rewrite <- !con_terms_value by assumption.
  pose proof (con_lhs_value E k s (binary01_respects s Hb) HE Hq) as H1.
  pose proof (con_lhs_value E k s' (binary01_respects s' Hb') HE Hq) as H2.
  rewrite (energy_ext _ _ _ Hinv) in H1. rewrite <- H2 in H1.
  apply (f_equal (fun q => q - con_const E k)) in H1.
  ring_simplify in H1. exact H1.
Qed.

Lemma con_penalty_agree E k s s' :
  con_wf E k = true -> binary01 s -> binary01 s' -> (forall v, p_quad (E v) = []) ->
  (forall v, invert E s v = invert E s' v) -> sbits k s = sbits k s' ->
  con_penalty_q E k s = con_penalty_q E k s'.
Proof.
  intros Hwf Hb Hb' HE Hinv Hs. rewrite !con_penalty_q_eq by assumption. rewrite Hs. f_equal.
  apply zcon_penalty_dot. rewrite con_zcon_coeffs. apply con_dot_agree; assumption.
Qed.

Definition slack_separated (E : encoding) (cons : list ccon) : Prop :=
  NoDup (slack_labels cons) /\
  (forall v t, In t (p_lin (E v)) -> ~ In (fst t) (slack_labels cons)).

Lemma attain_zero E cons : forall s,
  (forall v, p_quad (E v) = []) ->
  Forall (fun k => con_wf E k = true /\ con_raises E k = false) cons ->
  binary01 s -> slack_separated E cons ->
  Forall (fun k => con_satisfied_at k (invert E s)) cons ->
  exists s', binary01 s' /\
             (forall v, ~ In v (slack_labels cons) -> s' v = s v) /\
             (forall k, In k cons -> con_penalty_q E k s' = 0).
Proof.
  induction cons as [|k r IH]; intros s HE Hwf Hb [Hnd Havoid] Hsat.
  - exists s. split; [exact Hb|]. split; [reflexivity|]. intros k [].
  - inversion Hwf as [|k0 r0 [Hk Hnr] Hwr]; subst. inversion Hsat as [|k1 r1 Hsk Hsr]; subst.
    unfold slack_labels in Hnd, Havoid. cbn [flat_map] in Hnd, Havoid. fold (slack_labels r) in Hnd, Havoid.
    destruct (NoDup_app_parts _ _ Hnd) as [Hndk [Hndr Hdisj]].
    assert (Hsep_r : slack_separated E r).
    { split; [exact Hndr|]. intros v t Ht X. apply (Havoid v t Ht). apply in_or_app. right. exact X. }
    destruct (IH s HE Hwr Hb Hsep_r Hsr) as [sr [Hbr [Hoff Hzero]]].
    assert (Hinv_r : forall v, invert E sr v = invert E s v).
    { apply invert_agree; [exact HE|]. intros v t Ht. apply Hoff. intro X.
      apply (Havoid v t Ht). apply in_or_app. right. exact X. }
    (* slack bits for k *)
    destruct (con_wf_parts E k Hk) as [_ [_ [_ [_ [Hlen _]]]]].
    assert (Hx : length (xbits E k sr) = length (zcon_coeffs (con_zcon E k))).
    { rewrite xbits_length, con_zcon_coeffs. reflexivity. }
    destruct (zcon_gap (con_zcon E k) (xbits E k sr) (con_accepted E k Hnr) Hx) as [Hfeas _].
    assert (Hf : zcon_feasible (con_zcon E k) (xbits E k sr)).
    { apply (con_sat_iff E k sr Hk Hbr HE). unfold con_satisfied_at in *.
      rewrite (energy_ext _ _ _ Hinv_r). exact Hsk. }
    destruct (Hfeas Hf) as [bits [Hbl Hpen]].
    set (s' := set_bits (cc_slack k) bits sr).
    assert (Hb' : binary01 s') by (apply set_bits_binary01; exact Hbr).
    assert (Hinv' : forall v, invert E s' v = invert E sr v).
    { apply invert_agree; [exact HE|]. intros v t Ht. unfold s'. apply set_bits_other.
      intro X. apply (Havoid v t Ht). apply in_or_app. left. exact X. }
    exists s'. split; [exact Hb'|]. split.
    + intros v Hv. unfold s'. rewrite set_bits_other by (intro X; apply Hv; apply in_or_app; left; exact X).
      apply Hoff. intro X. apply Hv. apply in_or_app. right. exact X.
    + intros k' [<-|Hin].
      * rewrite con_penalty_q_eq by assumption.
        assert (Hsb : sbits k s' = bits).
        { unfold sbits, s'. apply bits_of_set_bits; [exact Hndk|]. rewrite Hbl. symmetry. exact Hlen. }
        rewrite Hsb.
        rewrite (zcon_penalty_dot _ (xbits E k s') (xbits E k sr)).
        -- rewrite Hpen. apply zq_0.
        -- rewrite con_zcon_coeffs. apply con_dot_agree; assumption.
      * rewrite <- (Hzero k' Hin).
        rewrite Forall_forall in Hwr. destruct (Hwr k' Hin) as [Hk' _].
        apply con_penalty_agree; try assumption.
        unfold sbits. apply bits_of_agree. intros v Hv. unfold s'. apply set_bits_other.
        intro X. apply (Hdisj v X). unfold slack_labels. apply in_flat_map. exists k'. split; assumption.
Qed.

Lemma qsum_zero {A} (f : A -> Qc) (l : list A) : (forall x, In x l -> f x = 0) -> qsum (map f l) = 0.
Proof.
  induction l as [|a l IH]; intros H; cbn [map qsum]; [reflexivity|].
  rewrite (H a (or_introl eq_refl)), IH; [ring|]. intros x Hx. apply H. right. exact Hx.
Qed.

(* a BQM sample whose image satisfies every constraint can be completed, by changing slack bits
   only, to a sample whose energy is exactly the objective *)
Theorem cqm_bqm_feasible_attained E lam obj cons s :
  cqm_wf E cons -> binary01 s -> slack_separated E cons ->
  Forall (fun k => con_satisfied_at k (invert E s)) cons ->
  exists s', binary01 s' /\
             (forall v, ~ In v (slack_labels cons) -> s' v = s v) /\
             (forall v, invert E s' v = invert E s v) /\
             energy (cqm_bqm E lam obj cons) s' = energy obj (invert E s).
Proof.
  intros Hwf Hb Hsep Hsat. pose proof Hwf as [HE [Hw Hr]].
  assert (Hall : Forall (fun k => con_wf E k = true /\ con_raises E k = false) cons).
  { apply Forall_forall. intros k Hin. apply (cqm_wf_con E cons k Hwf Hin). }
  destruct (attain_zero E cons s HE Hall Hb Hsep Hsat) as [s' [Hb' [Hoff Hzero]]].
  assert (Hinv : forall v, invert E s' v = invert E s v).
  { apply invert_agree; [exact HE|]. intros v t Ht. apply Hoff. destruct Hsep as [_ Hav]. apply (Hav v t Ht). }
  exists s'. split; [exact Hb'|]. split; [exact Hoff|]. split; [exact Hinv|].
  rewrite cqm_bqm_energy by (try apply binary01_respects; assumption).
  rewrite (qsum_zero _ _ Hzero). rewrite (energy_ext _ _ _ Hinv). ring.
Qed.

(* ---------- the three facts together ---------- *)
Theorem cqm_bqm_gap E lam obj cons :
  cqm_wf E cons -> slack_separated E cons -> 0 < lam ->
  forall s, binary01 s ->
    energy obj (invert E s) <= energy (cqm_bqm E lam obj cons) s /\
    (Exists (fun k => ~ con_satisfied_at k (invert E s)) cons ->
       energy obj (invert E s) + lam <= energy (cqm_bqm E lam obj cons) s) /\
    (Forall (fun k => con_satisfied_at k (invert E s)) cons ->
       exists s', binary01 s' /\
                  (forall v, ~ In v (slack_labels cons) -> s' v = s v) /\
                  (forall v, invert E s' v = invert E s v) /\
                  energy (cqm_bqm E lam obj cons) s' = energy obj (invert E s)).
Proof.
  intros Hwf Hsep Hl s Hb. apply Qclt_le_weak in Hl. split; [|split].
  - apply cqm_bqm_lower_bound; assumption.
  - apply cqm_bqm_infeasible_gap; assumption.
  - apply cqm_bqm_feasible_attained; assumption.
Qed.
