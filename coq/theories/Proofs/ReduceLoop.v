(* C15: the greedy reduction loop terminates within fuel = sum of (degree - 2), for EVERY admissible
   choice of pairs, with all degrees <= 2, a valid constraint sequence and fresh product names *)
From Coq Require Import List ZArith QArith Qcanon Bool Arith Lia.
From Dimod Require Import Base.Util Model.Poly Model.HPoly Model.Reduce Proofs.ReduceFacts.
Import ListNotations.

Definition terms_NoDup (p : hpoly) : Prop := forall t, In t p -> NoDup (fst t).

(* an admissible choice: a pair of distinct variables occurring together in a term of degree > 2,
   and None only when no term of degree > 2 is left *)
Definition good_choice (ch : choice) : Prop :=
  forall p, terms_NoDup p ->
    match ch p with
    | Some (u, v) => u <> v /\ exists t, In t p /\ applies u v (fst t) = true
    | None => all_degree_le2 p = true
    end.

Lemma excess_zero p : excess p = 0%nat -> all_degree_le2 p = true.
Proof.
  induction p as [|t r IH]; cbn [excess fold_right all_degree_le2 forallb]; [reflexivity|].
  fold (excess r). intros H. apply andb_true_iff. split; [apply Nat.leb_le; lia|apply IH; lia].
Qed.

Lemma filter_len_le {A} (f : A -> bool) l : (length (filter f l) <= length l)%nat.
Proof. induction l as [|x l IH]; cbn [filter length]; [lia|]. destruct (f x); cbn [length]; lia. Qed.

Lemma subst_term_length_le c t : NoDup t -> (length (subst_term c t) <= length t)%nat.
Proof.
  destruct c as [[u v] p]. intros Hnd.
  destruct (Nat.eq_dec u v) as [E|E].
  - unfold subst_term. destruct (applies u v t) eqn:Ha; [|lia]. cbn [length].
    apply applies_spec in Ha. destruct Ha as [_ [Hu _]]. subst v.
    assert (Hl : (length (remove_var u (remove_var u t)) <= length (remove_var u t))%nat)
      by (unfold remove_var; apply filter_len_le).
    pose proof (length_remove_var u t Hnd Hu). lia.
  - destruct (applies u v t) eqn:Ha.
    + pose proof (subst_term_degree u v p t Hnd E Ha). lia.
    + unfold subst_term. rewrite Ha. lia.
Qed.

Lemma excess_subst_le c p : terms_NoDup p -> (excess (subst_step c p) <= excess p)%nat.
Proof.
  induction p as [|t r IH]; intros Hnd; cbn [subst_step map excess fold_right fst]; [lia|].
  fold (excess r). fold (subst_step c r). fold (excess (subst_step c r)).
  pose proof (subst_term_length_le c (fst t) (Hnd t (or_introl eq_refl))).
  assert (IH' : (excess (subst_step c r) <= excess r)%nat) by (apply IH; intros t' Ht'; apply Hnd; right; exact Ht').
  lia.
Qed.

Lemma excess_subst_lt u v x p :
  terms_NoDup p -> u <> v -> (exists t, In t p /\ applies u v (fst t) = true) ->
  (excess (subst_step (u, v, x) p) < excess p)%nat.
Proof.
  intros Hnd Huv [t [Hin Ha]]. induction p as [|t0 r IH]; [destruct Hin|].
  cbn [subst_step map excess fold_right fst]. fold (excess r). fold (subst_step (u, v, x) r).
  fold (excess (subst_step (u, v, x) r)).
  assert (Hr : terms_NoDup r) by (intros t' Ht'; apply Hnd; right; exact Ht').
  destruct Hin as [->|Hin].
  - pose proof (subst_term_degree u v x (fst t) (Hnd t (or_introl eq_refl)) Huv Ha) as Hd.
    apply applies_spec in Ha. destruct Ha as [Hl _].
    pose proof (excess_subst_le (u, v, x) r Hr). lia.
  - pose proof (subst_term_length_le (u, v, x) (fst t0) (Hnd t0 (or_introl eq_refl))).
    specialize (IH Hr Hin). lia.
Qed.

Lemma wf_terms_NoDup vars p : wf vars p -> terms_NoDup p.
Proof. intros H t Ht. apply (H t Ht). Qed.

Theorem reduce_loop_spec ch : good_choice ch ->
  forall fuel fresh vars p,
    wf vars p -> (forall x, In x vars -> (x < fresh)%nat) -> (excess p <= fuel)%nat ->
    let '(r, cs) := reduce_loop fuel ch fresh p in
    all_degree_le2 r = true /\ valid_cons vars cs = true /\ r = reduce_with cs p /\
    (length cs <= excess p)%nat.
Proof.
  intros Hg fuel. induction fuel as [|f IH]; intros fresh vars p Hwf Hfr Hex; cbn [reduce_loop].
  - repeat split; [apply excess_zero; lia|cbn; lia].
  - pose proof (Hg p (wf_terms_NoDup vars p Hwf)) as Hc.
    destruct (ch p) as [[u v]|].
    + destruct Hc as [Huv Hex1].
      assert (Hfresh : ~ In fresh vars) by (intros H; apply Hfr in H; lia).
      pose proof (excess_subst_lt u v fresh p (wf_terms_NoDup vars p Hwf) Huv Hex1) as Hlt.
      specialize (IH (S fresh) (fresh :: vars) (subst_step (u, v, fresh) p)
                     (subst_step_wf u v fresh vars p Hwf Hfresh)).
      destruct (reduce_loop f ch (S fresh) (subst_step (u, v, fresh) p)) as [r cs].
      destruct IH as [H1 [H2 [H3 H4]]].
      * intros x [<-|Hx]; [lia|]. apply Hfr in Hx. lia.
      * lia.
      * split; [exact H1|]. split; [|split].
        -- cbn [valid_cons]. destruct Hex1 as [t [Ht Ha]]. apply applies_spec in Ha. destruct Ha as [_ [Hu Hv]].
           destruct (Hwf t Ht) as [_ Hin].
           rewrite H2, andb_true_r. repeat (apply andb_true_iff; split).
           ++ apply negb_true_iff. apply Nat.eqb_neq. exact Huv.
           ++ apply mem_In. apply Hin. exact Hu.
           ++ apply mem_In. apply Hin. exact Hv.
           ++ apply negb_true_iff. apply mem_false. exact Hfresh.
        -- exact H3.
        -- cbn [length]. lia.
    + repeat split; [exact Hc|cbn; lia].
Qed.

Lemma fresh_above_spec p x : In x (hvars p) -> (x < fresh_above p)%nat.
Proof.
  unfold fresh_above. generalize (hvars p). intros l. induction l as [|y l IH]; intros H; [destruct H|].
  cbn [fold_right]. destruct H as [->|H]; [lia|]. specialize (IH H). lia.
Qed.

(* the statement for the polynomial a user passes: fuel = sum of max(0, degree - 2) suffices *)
Theorem reduce_degree_le_2 ch p :
  good_choice ch -> terms_nodup p = true ->
  let '(r, cs) := reduce_loop (excess p) ch (fresh_above p) p in
  all_degree_le2 r = true /\ valid_cons (hvars p) cs = true /\ r = reduce_with cs p /\
  (length cs <= excess p)%nat.
Proof.
  intros Hg Hnd.
  apply (reduce_loop_spec ch Hg (excess p) (fresh_above p) (hvars p) p (terms_nodup_wf p Hnd)).
  - intros x Hx. apply fresh_above_spec. exact Hx.
  - lia.
Qed.

(* the hypothesis is satisfiable: first_pair is an admissible choice *)
Theorem first_pair_good : good_choice first_pair.
Proof.
  intros p. induction p as [|t r IH]; intros Hnd; cbn [first_pair]; [reflexivity|].
  assert (Hr : terms_NoDup r) by (intros t' Ht'; apply Hnd; right; exact Ht').
  specialize (IH Hr).
  destruct (fst t) as [|u [|v [|w l]]] eqn:E.
  - destruct (first_pair r) as [[u' v']|].
    + destruct IH as [H1 [t' [H2 H3]]]. split; [exact H1|]. exists t'. split; [right; exact H2|exact H3].
    + cbn [all_degree_le2 forallb]. rewrite E. cbn [length]. exact IH.
  - destruct (first_pair r) as [[u' v']|].
    + destruct IH as [H1 [t' [H2 H3]]]. split; [exact H1|]. exists t'. split; [right; exact H2|exact H3].
    + cbn [all_degree_le2 forallb]. rewrite E. cbn [length]. exact IH.
  - destruct (first_pair r) as [[u' v']|].
    + destruct IH as [H1 [t' [H2 H3]]]. split; [exact H1|]. exists t'. split; [right; exact H2|exact H3].
    + cbn [all_degree_le2 forallb]. rewrite E. cbn [length]. exact IH.
  - pose proof (Hnd t (or_introl eq_refl)) as Hn. rewrite E in Hn.
    inversion Hn as [|? ? Hu _]; subst. split.
    + intros ->. apply Hu. left. reflexivity.
    + exists t. split; [left; reflexivity|]. rewrite E. unfold applies. cbn [length].
      apply andb_true_iff. split; [apply andb_true_iff; split|].
      * reflexivity.
      * unfold mem. cbn [existsb]. rewrite Nat.eqb_refl. reflexivity.
      * unfold mem. cbn [existsb]. rewrite Nat.eqb_refl. apply orb_true_r.
Qed.

(* a valid sequence in which every constraint is used has at most sum of max(0, degree - 2) constraints *)
Theorem admissible_length cs : forall vars p,
  wf vars p -> valid_cons vars cs = true -> admissible p cs = true -> (length cs <= excess p)%nat.
Proof.
  induction cs as [|[[u v] x] r IH]; intros vars p Hwf Hv Ha; [cbn; lia|].
  apply valid_cons_cons in Hv. destruct Hv as [Huv [_ [_ [Hx Hr]]]].
  cbn [admissible] in Ha. apply andb_true_iff in Ha. destruct Ha as [He Ha].
  apply existsb_exists in He. destruct He as [t [Ht Happ]].
  pose proof (excess_subst_lt u v x p (wf_terms_NoDup vars p Hwf) Huv (ex_intro _ t (conj Ht Happ))) as Hlt.
  specialize (IH (x :: vars) (subst_step (u, v, x) p) (subst_step_wf u v x vars p Hwf Hx) Hr Ha).
  cbn [length]. lia.
Qed.
