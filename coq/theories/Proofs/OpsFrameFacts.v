(* C06: the translated pure operator methods never write to their operands.  A statement "writes" a slot when
   the slot is its target: assignment, augmented assignment, .offset +=, .update(), .scale().  Syntactically no
   body of a pure method (__add__, __radd__, __sub__, __rsub__, __mul__, __rmul__, __truediv__, __neg__, __pos__,
   __pow__) has `self` or `other` as a target, nor binds a local to a bare operand (an alias through which it
   could be modified); semantically, running statements without such targets leaves both slots as they were. *)
From Coq Require Import List ZArith QArith Qcanon Bool Arith Lia.
From Dimod Require Import Base.Util Model.Poly Model.Sym Model.OpsLang Gen.Gen_Ops Gen.Gen_AddVar Model.Ops.
Import ListNotations.

Definition is_operand (x : expr) : bool := match x with ESelf | EOther => true | _ => false end.
Definition is_bare (x : expr) : bool := match x with ESelf | EOther | EVar _ => true | _ => false end.

(* the statement (or one nested in it) has an operand as its target, or binds a name to a bare object *)
Fixpoint touches (s : stmt) : bool :=
  match s with
  | SAssign x e => is_operand x || is_bare e
  | SAug x _ _ | SOffset x _ _ | SUpdate x _ | SScale x _ => is_operand x
  | SIf _ th el => existsb touches th || existsb touches el
  | STryFinally b f => existsb touches b || existsb touches f
  | _ => false
  end.

Definition pure_method (m : mname) : bool :=
  match m with MIOp _ => false | _ => true end.

Definition all_kinds : list kcls := [KNum; KBqm; KQm; KView].
Definition all_ops : list bop := [OAdd; OSub; OMul; ODiv].
Definition all_methods : list mname := map MOp all_ops ++ map MIOp all_ops ++ map MROp all_ops ++ [MNeg; MPos; MPow].

Definition body_clean (k : kcls) (m : mname) : bool :=
  match gen_method k m with Some body => negb (existsb touches body) | None => true end.

(* in-place methods may only have `self` as target (never `other`, except rebinding it to a copy of self) *)
Fixpoint touches_other (s : stmt) : bool :=
  match s with
  | SAssign x e => match x, e with
                   | EOther, ECopy ESelf => false
                   | EOther, _ => true
                   | _, _ => is_bare e
                   end
  | SAug x _ _ | SOffset x _ _ | SUpdate x _ | SScale x _ => match x with EOther => true | _ => false end
  | SIf _ th el => existsb touches_other th || existsb touches_other el
  | STryFinally b f => existsb touches_other b || existsb touches_other f
  | _ => false
  end.

Definition body_spares_other (k : kcls) (m : mname) : bool :=
  match gen_method k m with Some body => negb (existsb touches_other body) | None => true end.

Lemma all_kinds_complete k : In k all_kinds.
Proof. destruct k; cbn; tauto. Qed.

Lemma all_methods_complete m : In m all_methods.
Proof. destruct m as [[| | |]|[| | |]|[| | |]| | |]; cbn; tauto. Qed.

(* every pure operator method of every class, as translated, is free of operand targets and aliases *)
Theorem pure_methods_clean k m : pure_method m = true -> body_clean k m = true.
Proof.
  intros P.
  assert (A : forallb (fun k => forallb (fun m => implb (pure_method m) (body_clean k m)) all_methods) all_kinds = true)
    by (vm_compute; reflexivity).
  rewrite forallb_forall in A. specialize (A k (all_kinds_complete k)).
  rewrite forallb_forall in A. specialize (A m (all_methods_complete m)).
  rewrite P in A. exact A.
Qed.

(* and no method at all, in place or not, has its right operand as a target *)
Theorem methods_spare_other k m : body_spares_other k m = true.
Proof.
  assert (A : forallb (fun k => forallb (fun m => body_spares_other k m) all_methods) all_kinds = true)
    by (vm_compute; reflexivity).
  rewrite forallb_forall in A. specialize (A k (all_kinds_complete k)).
  rewrite forallb_forall in A. exact (A m (all_methods_complete m)).
Qed.

(* ---------- semantics: statements without operand targets leave both slots alone ---------- *)
Definition same_operands (en en' : env) : Prop := en_self en' = en_self en /\ en_other en' = en_other en.

Lemma set_slot_frame en x v en' : is_operand x = false -> set_slot en x v = Ok en' -> same_operands en en'.
Proof. destruct x; cbn; intros H E; try discriminate; inversion E; subst; split; reflexivity. Qed.

Lemma on_slot_frame d en x f en' : is_operand x = false -> on_slot d en x f = Cont en' -> same_operands en en'.
Proof.
  intros H. unfold on_slot. destruct (bind (eval_expr d en x) f) as [v|e]; [|discriminate].
  destruct (set_slot en x v) as [en2|e] eqn:E; [|discriminate]. intros C. inversion C; subst.
  eapply set_slot_frame; eassumption.
Qed.

Lemma stmt_ind_nested (P : stmt -> Prop)
  (Hass : forall x e, P (SAssign x e)) (Haug : forall x o e, P (SAug x o e)) (Hoff : forall x o e, P (SOffset x o e))
  (Hupd : forall x e, P (SUpdate x e)) (Hsc : forall x e, P (SScale x e)) (Hret : forall e, P (SReturn e))
  (Hni : P SReturnNotImplemented) (Hraise : forall k, P (SRaise k))
  (Hif : forall g th el, Forall P th -> Forall P el -> P (SIf g th el))
  (Htf : forall b f, Forall P b -> Forall P f -> P (STryFinally b f))
  (Hpb : forall t, P (SProductBqm t)) (Hpq : forall t, P (SProductQm t)) : forall s, P s.
Proof.
  fix IH 1. intros s. destruct s.
  - apply Hass.
  - apply Haug.
  - apply Hoff.
  - apply Hupd.
  - apply Hsc.
  - apply Hret.
  - apply Hni.
  - apply Hraise.
  - apply Hif; [induction th as [|a l IHl]|induction el as [|a l IHl]]; constructor; solve [apply IH|assumption].
  - apply Htf; [induction body as [|a l IHl]|induction fin as [|a l IHl]]; constructor; solve [apply IH|assumption].
  - apply Hpb.
  - apply Hpq.
Qed.

Lemma same_operands_refl en : same_operands en en.
Proof. split; reflexivity. Qed.

Lemma same_operands_trans a b c : same_operands a b -> same_operands b c -> same_operands a c.
Proof. intros [A B] [C D]. split; congruence. Qed.

Lemma exec_list_frame d l :
  Forall (fun s => forall en en', touches s = false -> exec_stmt d s en = Cont en' -> same_operands en en') l ->
  forall en en', existsb touches l = false -> exec_list d l en = Cont en' -> same_operands en en'.
Proof.
  induction 1 as [|s l Hs Hl IH]; intros en en' T E.
  - cbn in E. inversion E; subst. apply same_operands_refl.
  - cbn [existsb] in T. apply orb_false_elim in T. destruct T as [T1 T2].
    cbn [exec_list] in E. destruct (exec_stmt d s en) as [en1| | |] eqn:E1; try discriminate.
    eapply same_operands_trans; [eapply Hs; eassumption|eapply IH; eassumption].
Qed.

Lemma exec_stmt_list d l en : 
  (fix exec_list (l : list stmt) (en : env) : step :=
     match l with
     | [] => Cont en
     | s :: l' => match exec_stmt d s en with Cont en' => exec_list l' en' | r => r end
     end) l en = exec_list d l en.
Proof. revert en. induction l as [|s l IH]; intros en; [reflexivity|]. cbn. destruct (exec_stmt d s en); auto. Qed.

Theorem exec_stmt_frame d s :
  forall en en', touches s = false -> exec_stmt d s en = Cont en' -> same_operands en en'.
Proof.
  induction s as [x e|x o e|x o e|x e|x e|e| |k|g th el Hth Hel|b f Hb Hf|t|t] using stmt_ind_nested;
    intros en en' T E; cbn [touches] in T.
  - apply orb_false_elim in T. destruct T as [T _]. cbn [exec_stmt] in E.
    destruct (eval_expr d en e) as [v|]; [|discriminate].
    destruct (set_slot en x v) as [en2|] eqn:S; [|discriminate]. inversion E; subst. eapply set_slot_frame; eassumption.
  - cbn [exec_stmt] in E. destruct (eval_expr d en e) as [v|]; [|discriminate]. eapply on_slot_frame; eassumption.
  - cbn [exec_stmt] in E. destruct (eval_expr d en e) as [[q|m|m]|]; try discriminate. eapply on_slot_frame; eassumption.
  - cbn [exec_stmt] in E. destruct (eval_expr d en e) as [v|]; [|discriminate].
    destruct (as_source v); [|discriminate]. eapply on_slot_frame; eassumption.
  - cbn [exec_stmt] in E. destruct (eval_expr d en e) as [[q|m|m]|]; try discriminate. eapply on_slot_frame; eassumption.
  - cbn [exec_stmt] in E. destruct (eval_expr d en e); discriminate.
  - discriminate.
  - discriminate.
  - apply orb_false_elim in T. destruct T as [T1 T2]. cbn [exec_stmt] in E. rewrite !exec_stmt_list in E.
    revert E. destruct (guard_holds g en); intros E; [apply (exec_list_frame d th Hth en en' T1 E)|apply (exec_list_frame d el Hel en en' T2 E)].
  - apply orb_false_elim in T. destruct T as [T1 T2]. cbn [exec_stmt] in E. rewrite !exec_stmt_list in E.
    revert E. destruct (exec_list d b en) as [en1| | |] eqn:E1; intros E; try discriminate.
    + apply (same_operands_trans en en1 en'); [apply (exec_list_frame d b Hb en en1 T1 E1)|apply (exec_list_frame d f Hf en1 en' T2 E)].
    + revert E. destruct (exec_list d f en); discriminate.
  - cbn [exec_stmt] in E. destruct (en_self en) as [|x|], (en_other en) as [|y|]; try discriminate.
    revert E. destruct (product_bqm t x y); discriminate.
  - cbn [exec_stmt] in E. destruct (en_self en) as [|x|], (en_other en) as [|y|]; try discriminate.
    revert E. destruct (product_qm t x y); discriminate.
Qed.

(* at whatever point the body of a pure method has got to, `self` and `other` are the objects it was called with *)
Theorem pure_method_operands_unchanged d k m body pre post self other n en' :
  pure_method m = true -> gen_method k m = Some body -> body = pre ++ post ->
  exec_list d pre (mkEnv self other n []) = Cont en' -> en_self en' = self /\ en_other en' = other.
Proof.
  intros P G -> E. pose proof (pure_methods_clean k m P) as C. unfold body_clean in C. rewrite G in C.
  apply negb_true_iff in C. rewrite existsb_app in C. apply orb_false_elim in C. destruct C as [C _].
  refine (exec_list_frame d pre _ _ _ C E).
  apply Forall_forall. intros s _. apply exec_stmt_frame.
Qed.
