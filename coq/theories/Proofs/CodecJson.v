(* The JSON text of the header dictionaries: json.loads (rigid parser) inverts json.dumps (printer)
   and rejects every proper prefix of the printed text. *)
From Coq Require Import List NArith ZArith Arith Bool Lia String.
From Dimod Require Import Gen.Gen_Codec Model.Codec Proofs.CodecBase Proofs.CodecFrame Proofs.CodecLabel.
Import ListNotations.
Open Scope nat_scope.
Notation length := List.length (only parsing).

Ltac len_norm Hk :=
  match type of Hk with _ < ?n => let v := eval vm_compute in n in change n with v in Hk end.

Ltac fin_strict Hk :=
  len_norm Hk; do 12 (try (match goal with k : nat |- _ => destruct k as [|k]; [vm_compute; reflexivity|] end)); exfalso; lia.

(* ------------------------------------------------------------ enumerations *)

Lemma p_dtype_rt : forall d, rt p_dtype (js_dtype d) d.
Proof. intros [|] rest; reflexivity. Qed.
Lemma p_dtype_strict : forall d, strict p_dtype (js_dtype d).
Proof. intros [|] k Hk; fin_strict Hk. Qed.

Lemma p_bvt_rt : forall v, rt p_bvt (js_bvt v) v.
Proof. intros [|] rest; reflexivity. Qed.
Lemma p_bvt_strict : forall v, strict p_bvt (js_bvt v).
Proof. intros [|] k Hk; fin_strict Hk. Qed.

Lemma p_bool_rt : forall b, rt p_bool (js_bool b) b.
Proof. intros [|] rest; reflexivity. Qed.
Lemma p_bool_strict : forall b, strict p_bool (js_bool b).
Proof. intros [|] k Hk; fin_strict Hk. Qed.

(* ------------------------------------------------------------ the `variables` entry *)

Definition HvWF (v : hvars) : Prop := match v with HVbool _ => True | HVlist l => LabelsWF l end.

Lemma p_hvars_list : forall t, p_hvars (91%N :: t)
  = match p_labels (91%N :: t) with Ok (l, r) => Ok (HVlist l, r) | Err => Err end.
Proof. reflexivity. Qed.

Lemma p_hvars_rt : forall v rest, HvWF v -> nodigit_start rest -> p_hvars (js_hvars v ++ rest) = Ok (v, rest).
Proof.
  intros [b|l] rest W Hr.
  - destruct b; reflexivity.
  - cbn [js_hvars]. pose proof (labels_rt l rest W Hr) as R. unfold pr_labels in *. rewrite pr_label_tup in *.
    cbn [List.app] in *. rewrite p_hvars_list, R. reflexivity.
Qed.

Lemma p_hvars_strict : forall v, HvWF v -> strict p_hvars (js_hvars v).
Proof.
  intros [b|l] W k Hk.
  - destruct b; cbn [js_hvars] in *; fin_strict Hk.
  - cbn [js_hvars] in *. pose proof (labels_strict l W k Hk) as R. unfold pr_labels in *. rewrite pr_label_tup in *.
    destruct k as [|k]; [reflexivity|]. cbn [firstn] in *. rewrite p_hvars_list, R. reflexivity.
Qed.

(* ------------------------------------------------------------ chaining *)

Lemma rt_lit_bind : forall {B} s (f : unit -> parser B) e2 b, rt (f tt) e2 b -> rt (bind (lit s) f) (s ++ e2) b.
Proof. intros B s f e2 b H. exact (rt_bind (lit s) f s e2 tt b (lit_rt s) H). Qed.

Lemma strict_lit_bind : forall {B} s (f : unit -> parser B) e2, strict (f tt) e2 -> strict (bind (lit s) f) (s ++ e2).
Proof. intros B s f e2 H. exact (strict_bind (lit s) f s e2 tt (lit_rt s) (lit_strict s) H). Qed.

Lemma rt_ret_nil : forall {A} (a : A), rt (ret a) [] a.
Proof. intros A a rest. reflexivity. Qed.

(* p_hvars needs to see what follows (a number must be delimited): a variant of rt with a side condition *)
Definition rt_nd {A} (d : parser A) (e : bytes) (a : A) : Prop :=
  forall rest, nodigit_start rest -> d (e ++ rest) = Ok (a, rest).

Lemma rt_bind_nd : forall {A B} (d1 : parser A) (f : A -> parser B) e1 e2 a b,
  rt_nd d1 e1 a -> rt (f a) e2 b -> nodigit_start e2 -> e2 <> [] -> rt (bind d1 f) (e1 ++ e2) b.
Proof.
  intros A B d1 f e1 e2 a b H1 H2 Hn Hne rest. unfold bind. rewrite <- app_assoc. rewrite H1.
  - apply H2.
  - destruct e2 as [|c e2]; [contradiction|exact Hn].
Qed.

(* ------------------------------------------------------------ BQM header *)

Definition bqm_json_parts (h : bqmhdr) : bytes :=
  L "{""dtype"": """ ++ js_dtype (h_dtype h)
  ++ L """, ""itype"": ""int32"", ""ntype"": ""int32"", ""shape"": [" ++ (dec_N (h_n h) ++ [44%N]) ++ L " "
  ++ (dec_N (h_m h) ++ [93%N])
  ++ L ", ""type"": ""BinaryQuadraticModel"", ""variables"": " ++ js_hvars (h_vars h)
  ++ L ", ""vartype"": """ ++ js_bvt (h_vt h) ++ L """}" ++ [].

Lemma bqm_json_eq : forall h, bqm_json h = bqm_json_parts h.
Proof. intros h. unfold bqm_json, bqm_json_parts. rewrite <- !app_assoc. rewrite app_nil_r. reflexivity. Qed.

Lemma p_bqm_json_rt : forall h, HvWF (h_vars h) -> rt p_bqm_json (bqm_json h) h.
Proof.
  intros h W. rewrite bqm_json_eq. unfold bqm_json_parts, p_bqm_json. destruct h as [d n m v vt]. cbn [h_dtype h_n h_m h_vars h_vt] in *.
  apply rt_lit_bind.
  apply (rt_bind _ _ _ _ d); [apply p_dtype_rt|].
  apply rt_lit_bind.
  apply (rt_bind _ _ _ _ n); [apply p_N_until_rt; reflexivity|].
  apply rt_lit_bind.
  apply (rt_bind _ _ _ _ m); [apply p_N_until_rt; reflexivity|].
  apply rt_lit_bind.
  apply (rt_bind_nd _ _ _ _ v); [intros rest Hr; now apply p_hvars_rt| |reflexivity|discriminate].
  apply rt_lit_bind.
  apply (rt_bind _ _ _ _ vt); [apply p_bvt_rt|].
  apply rt_lit_bind. apply rt_ret_nil.
Qed.

Lemma p_bqm_json_strict : forall h, HvWF (h_vars h) -> strict p_bqm_json (bqm_json h).
Proof.
  intros h W. rewrite bqm_json_eq. unfold bqm_json_parts, p_bqm_json. destruct h as [d n m v vt]. cbn [h_dtype h_n h_m h_vars h_vt] in *.
  apply strict_lit_bind.
  apply (strict_bind _ _ _ _ d); [apply p_dtype_rt|apply p_dtype_strict|].
  apply strict_lit_bind.
  apply (strict_bind _ _ _ _ n); [apply p_N_until_rt; reflexivity|apply p_N_until_strict|].
  apply strict_lit_bind.
  apply (strict_bind _ _ _ _ m); [apply p_N_until_rt; reflexivity|apply p_N_until_strict|].
  apply strict_lit_bind.
  (* p_hvars: round trip only before a non-digit; what follows here is the vartype key *)
  intros k Hk. unfold bind at 1.
  set (tl := L ", ""vartype"": """ ++ js_bvt vt ++ L """}" ++ []) in *.
  rewrite app_length in Hk.
  destruct (firstn_app_cases k (js_hvars v) tl) as [[Hl E]|[Hl E]]; rewrite E.
  - now rewrite (p_hvars_strict v W k Hl).
  - rewrite (p_hvars_rt v _ W (nodigit_firstn _ tl eq_refl)).
    assert (S2 : strict (bind (lit (L ", ""vartype"": """)) (fun _ => bind p_bvt (fun vt0 =>
                   bind (lit (L """}")) (fun _ => ret (mkBqmHdr d n m v vt0))))) tl).
    { unfold tl. apply strict_lit_bind.
      apply (strict_bind _ _ _ _ vt); [apply p_bvt_rt|apply p_bvt_strict|].
      apply strict_lit_bind. apply strict_nil. }
    apply S2. lia.
Qed.

Theorem bqm_hdr_ok : forall h, HvWF (h_vars h) ->
  (forall ws, forallb is_ws ws = true -> bqm_jd (bqm_json h ++ ws) = Some h) /\
  (forall k, k < length (bqm_json h) -> bqm_jd (firstn k (bqm_json h)) = None).
Proof.
  intros h W. split.
  - intros ws Hws. unfold bqm_jd, json_doc. rewrite (p_bqm_json_rt h W ws). now rewrite Hws.
  - intros k Hk. unfold bqm_jd, json_doc. now rewrite (p_bqm_json_strict h W k Hk).
Qed.
