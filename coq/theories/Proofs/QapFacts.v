(* C17: quadratic_assignment - what the generated objective evaluates to on an assignment
   "facility i at location pi(i)", and when that is the documented cost *)
From Coq Require Import List ZArith QArith Qcanon Bool Arith Lia.
From Dimod Require Import Base.Util Model.Poly Model.Knap Model.Qap Proofs.PolyFacts Proofs.KnapFacts.
Import ListNotations.
Open Scope Qc_scope.

Lemma quad_energy_flat_map {A} (f : A -> list qterm) l (x : sample) :
  quad_energy (flat_map f l) x = qsum (map (fun a => quad_energy (f a) x) l).
Proof.
  induction l as [|a l IH]; cbn [flat_map map qsum]; [reflexivity|].
  rewrite quad_energy_app, IH. reflexivity.
Qed.

Lemma quad_energy_flat_map_seq (f : nat -> list qterm) n (x : sample) :
  quad_energy (flat_map f (seq 0 n)) x = range_sum n (fun a => quad_energy (f a) x).
Proof. unfold range_sum. apply quad_energy_flat_map. Qed.

Lemma range_sum_0 n : range_sum n (fun _ => 0) = 0.
Proof. induction n as [|n IH]; [reflexivity|]. rewrite range_sum_S, IH. ring. Qed.

Lemma range_sum_plus n f g : range_sum n (fun i => f i + g i) = range_sum n f + range_sum n g.
Proof. induction n as [|n IH]; [cbn; ring|]. rewrite !range_sum_S, IH. ring. Qed.

(* a sum with a single non-zero summand *)
Lemma range_sum_pick n j0 (f : nat -> Qc) :
  (j0 < n)%nat -> range_sum n (fun j => if (j0 =? j)%nat then f j else 0) = f j0.
Proof.
  induction n as [|n IH]; intros H; [lia|]. rewrite range_sum_S.
  destruct (Nat.eq_dec j0 n) as [->|E].
  - rewrite Nat.eqb_refl.
    rewrite (range_sum_ext n _ (fun _ => 0)); [rewrite range_sum_0; ring|].
    intros i Hi. destruct (Nat.eqb_spec n i); [lia|reflexivity].
  - rewrite IH by lia. destruct (Nat.eqb_spec j0 n); [contradiction|ring].
Qed.

(* a sum restricted to a prefix *)
Lemma range_sum_prefix n i (f : nat -> Qc) :
  (i <= n)%nat -> range_sum n (fun k => if (k <? i)%nat then f k else 0) = range_sum i f.
Proof.
  induction n as [|n IH]; intros H.
  - assert (i = 0)%nat by lia. subst. reflexivity.
  - rewrite range_sum_S. destruct (Nat.eq_dec i (S n)) as [->|E].
    + rewrite range_sum_S. destruct (Nat.ltb_spec n (S n)); [|lia]. f_equal.
      apply range_sum_ext. intros k Hk. destruct (Nat.ltb_spec k (S n)); [reflexivity|lia].
    + rewrite IH by lia. destruct (Nat.ltb_spec n i); [lia|ring].
Qed.

Theorem qap_objective_as_is n F D (pi : nat -> nat) (x : sample) :
  (forall i, (i < n)%nat -> (pi i < n)%nat) ->
  (forall i j, (i < n)%nat -> (j < n)%nat -> x (qidx n i j) = onehot_sample n pi i j) ->
  energy (qap_objective n F D) x = qap_cost_as_is n F D pi.
Proof.
  intros Hpi Hx. unfold energy, qap_objective, qap_cost_as_is. cbn [p_off p_lin p_quad lin_energy map qsum].
  replace (0 + 0 + quad_energy (qap_quad n F D) x) with (quad_energy (qap_quad n F D) x) by ring.
  unfold qap_quad. rewrite quad_energy_flat_map_seq.
  apply range_sum_ext. intros i Hi.
  rewrite quad_energy_flat_map_seq.
  (* the sum over j picks j = pi i *)
  rewrite (range_sum_ext n _ (fun j => if (pi i =? j)%nat
      then range_sum n (fun k => if (k <? i)%nat then (mget F i k + mget F k i) * mget D j (pi k) else 0) else 0)).
  - rewrite (range_sum_pick n (pi i)) by (apply Hpi; exact Hi).
    apply range_sum_prefix. lia.
  - intros j Hj. rewrite quad_energy_flat_map_seq.
    assert (Hin : forall k, (k < n)%nat ->
       quad_energy (flat_map (fun l => if lex_gt i j k l then [(qidx n i j, qidx n k l, qap_coef F D i j k l)] else []) (seq 0 n)) x
       = if lex_gt i j k (pi k) then qap_coef F D i j k (pi k) * onehot_sample n pi i j else 0).
    { intros k Hk. rewrite quad_energy_flat_map_seq.
      rewrite (range_sum_ext n _ (fun l => if (pi k =? l)%nat
           then (if lex_gt i j k l then qap_coef F D i j k l * onehot_sample n pi i j else 0) else 0)).
      - apply range_sum_pick. apply Hpi. exact Hk.
      - intros l Hl. destruct (lex_gt i j k l).
        + unfold quad_energy. cbn [map qsum]. unfold qterm_val. cbn [fst snd].
          rewrite (Hx i j Hi Hj), (Hx k l Hk Hl). unfold onehot_sample at 2.
          destruct (pi k =? l)%nat; ring.
        + unfold quad_energy. cbn [map qsum]. destruct (pi k =? l)%nat; reflexivity. }
    rewrite (range_sum_ext n _ _ Hin). unfold onehot_sample.
    destruct (Nat.eqb_spec (pi i) j) as [E|E].
    + subst j. apply range_sum_ext. intros k Hk. unfold lex_gt.
      destruct (Nat.ltb_spec k i) as [Hlt|Hge]; cbn [orb].
      * unfold qap_coef. ring.
      * destruct (Nat.eqb_spec k i) as [->|Hne]; cbn [andb]; [|reflexivity].
        rewrite Nat.ltb_irrefl. reflexivity.
    + rewrite (range_sum_ext n _ (fun _ => 0)); [apply range_sum_0|].
      intros k Hk. destruct (lex_gt i j k (pi k)); ring.
Qed.

(* sum over ordered pairs of distinct indices = sum over i > k of both orders *)
Lemma triangular n (g : nat -> nat -> Qc) :
  range_sum n (fun i => range_sum n (fun k => if (i =? k)%nat then 0 else g i k))
  = range_sum n (fun i => range_sum i (fun k => g i k + g k i)).
Proof.
  induction n as [|n IH]; [reflexivity|].
  rewrite (range_sum_S n (fun i => range_sum i (fun k => g i k + g k i))), <- IH.
  rewrite range_sum_S.
  rewrite (range_sum_ext n (fun i => range_sum (S n) (fun k => if (i =? k)%nat then 0 else g i k))
             (fun i => range_sum n (fun k => if (i =? k)%nat then 0 else g i k) + g i n)).
  - rewrite range_sum_plus, range_sum_S, Nat.eqb_refl, range_sum_plus.
    rewrite (range_sum_ext n (fun k => if (n =? k)%nat then 0 else g n k) (fun k => g n k)).
    + change (range_sum n (fun k : nat => g n k)) with (range_sum n (g n)). ring.
    + intros k Hk. destruct (Nat.eqb_spec n k); [lia|reflexivity].
  - intros i Hi. rewrite range_sum_S. destruct (Nat.eqb_spec i n); [lia|reflexivity].
Qed.

Theorem qap_cost_symmetric n F D (pi : nat -> nat) :
  (forall i, (i < n)%nat -> (pi i < n)%nat) -> symmetric n D ->
  qap_cost_as_is n F D pi = qap_cost n F D pi.
Proof.
  intros Hpi Hs. unfold qap_cost, qap_cost_as_is.
  rewrite (triangular n (fun i k => mget F i k * mget D (pi i) (pi k))).
  apply range_sum_ext. intros i Hi. apply range_sum_ext. intros k Hk.
  rewrite (Hs (pi k) (pi i)) by (apply Hpi; lia). ring.
Qed.

(* the generator as it is: with an asymmetric distance matrix the objective is NOT the documented cost *)
Definition F_ex : matrix := [[0; 1]; [0; 0]].
Definition D_ex : matrix := [[0; 1]; [0; 0]].
Theorem qap_asymmetric_refuted :
  qap_cost_as_is 2 F_ex D_ex (fun i => i) <> qap_cost 2 F_ex D_ex (fun i => i).
Proof.
  intros H. apply (f_equal (fun q : Qc => Qnum (this q))) in H. vm_compute in H. discriminate H.
Qed.

(* feasible = every facility in exactly one location and every location holding exactly one facility *)
Theorem qap_feasible n F D (x : sample) :
  feasibleb (qap_model n F D) x = true
  <-> (forall i, (i < n)%nat -> qap_row n x i = 1) /\ (forall j, (j < n)%nat -> qap_col n x j = 1).
Proof.
  unfold feasibleb, qap_model, qap_constraints. cbn [q_cons].
  rewrite forallb_app, andb_true_iff, !forallb_map_seq.
  assert (Hone : forall idx, lc_satb (mkLC (lin_of n idx (fun _ => 1)) (- (1)) SEq) x = true
                             <-> range_sum n (fun k => x (idx k)) = 1).
  { intros idx. unfold lc_satb, lc_value. cbn [lc_sense lc_lin lc_const]. rewrite lin_energy_lin_of.
    rewrite Qc_eqb_eq, eq_shift.
    rewrite (range_sum_ext n (fun k => 1 * x (idx k)) (fun k => x (idx k))) by (intros; ring). reflexivity. }
  split; intros [H1 H2]; split; intros k Hk.
  - apply (Hone (qidx n k)). apply H1. exact Hk.
  - apply (Hone (fun i => qidx n i k)). apply H2. exact Hk.
  - apply (Hone (qidx n k)). apply H1. exact Hk.
  - apply (Hone (fun i => qidx n i k)). apply H2. exact Hk.
Qed.
