(* Gray-code enumeration and cartesian products: every assignment exactly once [C07]. *)
From Coq Require Import List ZArith NArith PArith Bool Arith Lia Permutation.
From Dimod Require Import Model.Comb.
Import ListNotations.

(* ------------------------------------------------------------------ *)
(* generic list facts *)

Lemma NoDup_app_intro {A} (a b : list A) :
  NoDup a -> NoDup b -> (forall x, In x a -> ~ In x b) -> NoDup (a ++ b).
Proof.
  induction a as [|x a IH]; intros Ha Hb Hd; [exact Hb|].
  inversion Ha; subst. cbn [app]. constructor.
  - rewrite in_app_iff. intros [H|H]; [contradiction|]. apply (Hd x); [left; reflexivity|exact H].
  - apply IH; try assumption. intros y Hy. apply Hd. right. exact Hy.
Qed.

Lemma NoDup_map_cons {A} (x : A) l : NoDup l -> NoDup (map (cons x) l).
Proof.
  induction 1 as [|y l Hn H IH]; cbn [map]; constructor; [|exact IH].
  rewrite in_map_iff. intros [z [E Hz]]. inversion E; subst. contradiction.
Qed.

(* ------------------------------------------------------------------ *)
(* all_bitvectors *)

Lemma all_bitvectors_In n v : In v (all_bitvectors n) <-> length v = n.
Proof.
  revert v. induction n as [|n IH]; intros v; cbn [all_bitvectors].
  - split.
    + intros [<-|[]]. reflexivity.
    + destruct v; [left; reflexivity|discriminate].
  - rewrite in_app_iff, !in_map_iff. split.
    + intros [[w [<- Hw]]|[w [<- Hw]]]; cbn [length]; f_equal; apply IH; exact Hw.
    + destruct v as [|b v]; [discriminate|]. cbn [length]. intros [= H].
      destruct b; [right|left]; exists v; (split; [reflexivity|apply IH; exact H]).
Qed.

Lemma all_bitvectors_NoDup n : NoDup (all_bitvectors n).
Proof.
  induction n as [|n IH]; cbn [all_bitvectors].
  - constructor; [intros []|constructor].
  - apply NoDup_app_intro; try (apply NoDup_map_cons; exact IH).
    intros v. rewrite !in_map_iff. intros [w [<- _]] [w' [E _]]. discriminate.
Qed.

Lemma all_bitvectors_length n : length (all_bitvectors n) = 2 ^ n.
Proof.
  induction n as [|n IH]; cbn [all_bitvectors]; [reflexivity|].
  rewrite app_length, !map_length, IH. cbn [Nat.pow]. lia.
Qed.

(* ------------------------------------------------------------------ *)
(* the loop as a walk along a list of flip positions *)

Fixpoint walk (ps : list nat) (cur : list bool) : list (list bool) :=
  match ps with
  | [] => []
  | p :: r => let nxt := flip_nth p cur in nxt :: walk r nxt
  end.

Fixpoint pseq (p : positive) (steps : nat) : list positive :=
  match steps with
  | O => []
  | S k => p :: pseq (Pos.succ p) k
  end.

Lemma gray_loop_walk steps : forall p cur acc,
  gray_loop steps (Npos p) cur acc = rev acc ++ walk (map ctz_pos (pseq p steps)) cur.
Proof.
  induction steps as [|k IH]; intros p cur acc; cbn [gray_loop pseq map walk].
  - rewrite app_nil_r. reflexivity.
  - change (N.succ (Npos p)) with (Npos (Pos.succ p)). rewrite IH.
    cbn [rev ctz]. rewrite <- app_assoc. reflexivity.
Qed.

Lemma gray_loop_length steps : forall i cur acc,
  length (gray_loop steps i cur acc) = length acc + steps.
Proof.
  induction steps as [|k IH]; intros i cur acc; cbn [gray_loop].
  - rewrite rev_length. lia.
  - rewrite IH. cbn [length]. lia.
Qed.

(* flip positions of an n-variable enumeration *)
Definition positions (n : nat) : list nat := map ctz_pos (pseq 1 (2 ^ n - 1)).

Lemma graycode_walk n :
  graycode n = repeat false n :: walk (positions n) (repeat false n).
Proof. unfold graycode. cbv zeta. rewrite gray_loop_walk. reflexivity. Qed.

Definition dbl (j : positive) : list positive := [xO j; xI j].

Lemma pseq_double s : forall p, pseq (xO p) (s + s) = flat_map dbl (pseq p s).
Proof.
  induction s as [|s IH]; intros p; [reflexivity|].
  replace (S s + S s) with (S (S (s + s))) by lia.
  cbn [pseq flat_map dbl app]. change (Pos.succ (xO p)) with (xI p).
  change (Pos.succ (xI p)) with (xO (Pos.succ p)). rewrite IH. reflexivity.
Qed.

Lemma pow2_pos_nat n : 0 < 2 ^ n.
Proof. induction n; cbn [Nat.pow]; lia. Qed.

Lemma positions_S n :
  positions (S n) = 0 :: flat_map (fun p => [S p; 0]) (positions n).
Proof.
  unfold positions. pose proof (pow2_pos_nat n) as H.
  replace (2 ^ S n - 1) with (S ((2 ^ n - 1) + (2 ^ n - 1))) by (cbn [Nat.pow]; lia).
  cbn [pseq map ctz_pos]. change (Pos.succ 1) with (xO 1%positive).
  rewrite pseq_double. f_equal.
  induction (pseq 1 (2 ^ n - 1)) as [|j l IH]; [reflexivity|].
  cbn [flat_map dbl app map ctz_pos]. rewrite IH. reflexivity.
Qed.

(* ------------------------------------------------------------------ *)
(* one more variable: every previous row appears with both values of the new bit *)

Lemma walk_double ps : forall b cur,
  Permutation (walk (flat_map (fun p => [S p; 0]) ps) (b :: cur))
              (map (cons false) (walk ps cur) ++ map (cons true) (walk ps cur)).
Proof.
  induction ps as [|p ps IH]; intros b cur; [constructor|].
  cbn [flat_map app walk flip_nth map].
  set (c := flip_nth p cur).
  eapply perm_trans; [do 2 apply perm_skip; apply IH|].
  destruct b; cbn [negb].
  - eapply perm_trans; [apply perm_swap|]. apply perm_skip. apply Permutation_middle.
  - apply perm_skip. apply Permutation_middle.
Qed.

Lemma graycode_S n :
  Permutation (graycode (S n)) (map (cons false) (graycode n) ++ map (cons true) (graycode n)).
Proof.
  rewrite !graycode_walk, positions_S. cbn [repeat walk flip_nth negb map app].
  apply perm_skip.
  eapply perm_trans; [apply perm_skip; apply walk_double|].
  apply Permutation_middle.
Qed.

Theorem graycode_perm n : Permutation (graycode n) (all_bitvectors n).
Proof.
  induction n as [|n IH].
  - apply Permutation_refl.
  - eapply perm_trans; [apply graycode_S|]. cbn [all_bitvectors].
    apply Permutation_app; apply Permutation_map; exact IH.
Qed.

Theorem graycode_length n : length (graycode n) = 2 ^ n.
Proof.
  unfold graycode. cbv zeta. rewrite gray_loop_length. cbn [length].
  pose proof (pow2_pos_nat n). lia.
Qed.

Theorem graycode_NoDup n : NoDup (graycode n).
Proof.
  eapply Permutation_NoDup; [apply Permutation_sym; apply graycode_perm|apply all_bitvectors_NoDup].
Qed.

Theorem graycode_complete n v : In v (graycode n) <-> length v = n.
Proof.
  rewrite <- all_bitvectors_In. split; apply Permutation_in;
    [apply graycode_perm|apply Permutation_sym; apply graycode_perm].
Qed.

(* the first row is all zeros and consecutive rows differ by one flip *)
Lemma graycode_head n : hd [] (graycode n) = repeat false n.
Proof. rewrite graycode_walk. reflexivity. Qed.

(* ------------------------------------------------------------------ *)
(* cartesian products *)

Lemma product_In {A} (doms : list (list A)) : forall xs,
  In xs (product doms) <-> Forall2 (fun x d => In x d) xs doms.
Proof.
  induction doms as [|d r IH]; intros xs; cbn [product].
  - split.
    + intros [<-|[]]. constructor.
    + intros H. inversion H. left. reflexivity.
  - rewrite in_flat_map. split.
    + intros [x [Hx Hin]]. apply in_map_iff in Hin. destruct Hin as [ys [<- Hys]].
      constructor; [exact Hx|apply IH; exact Hys].
    + intros H. inversion H as [|x d' ys r' Hx Hys]; subst.
      exists x. split; [exact Hx|]. apply in_map_iff. exists ys. split; [reflexivity|apply IH; exact Hys].
Qed.

Lemma product_length {A} (doms : list (list A)) :
  length (product doms) = fold_right Nat.mul 1 (map (@length A) doms).
Proof.
  induction doms as [|d r IH]; cbn [product map fold_right]; [reflexivity|].
  rewrite <- IH. generalize (product r) as P. intros P.
  induction d as [|x d IHd]; cbn [flat_map length]; [reflexivity|].
  rewrite app_length, map_length, IHd. lia.
Qed.

Lemma product_NoDup {A} (doms : list (list A)) :
  Forall (@NoDup A) doms -> NoDup (product doms).
Proof.
  induction 1 as [|d r Hd Hr IH]; cbn [product].
  - constructor; [intros []|constructor].
  - induction Hd as [|x d Hx Hd IHd]; cbn [flat_map]; [constructor|].
    apply NoDup_app_intro; [apply NoDup_map_cons; exact IH|exact IHd|].
    intros v. rewrite in_map_iff, in_flat_map. intros [w [<- _]] [y [Hy Hin]].
    apply in_map_iff in Hin. destruct Hin as [w' [E _]]. inversion E; subst. contradiction.
Qed.

Lemma product_bits n : product (repeat [false; true] n) = all_bitvectors n.
Proof.
  induction n as [|n IH]; cbn [repeat product all_bitvectors flat_map]; [reflexivity|].
  rewrite IH, app_nil_r. reflexivity.
Qed.
