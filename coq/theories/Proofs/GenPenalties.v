(* C15: the penalty polynomials used in the theorems ARE the tables translated from the source
   (Gen/Gen_SpinProduct.v from higherorder/utils.py::_spin_product, Gen/Gen_Gates.v from
   generators/gates.py::and_gate): a changed constant in the source breaks these equalities. *)
From Coq Require Import List ZArith QArith Qcanon Bool Arith.
From Dimod Require Import Base.Util Model.Poly Model.HPoly Model.Reduce Model.Gates
  Gen.Gen_Gates Gen.Gen_SpinProduct.
Import ListNotations.
Open Scope Qc_scope.

(* a coefficient table over argument positions, instantiated with labels *)
Definition table_poly (args : list label) (off : Qc) (lin : list (nat * Qc)) (quad : list (nat * nat * Qc)) : poly :=
  mkPoly off (map (fun t => (nth (fst t) args 0%nat, snd t)) lin)
         (map (fun t => (nth (fst (fst t)) args 0%nat, nth (snd (fst t)) args 0%nat, snd t)) quad).

Ltac qc_entries := repeat (f_equal; try (apply Qc_is_canon; reflexivity)).

Theorem spin_pen_poly_is_source u v p w :
  spin_pen_poly u v p w = table_poly [u; v; p; w] spin_product_offset spin_product_lin spin_product_quad.
Proof.
  unfold spin_pen_poly, table_poly, spin_product_offset, spin_product_lin, spin_product_quad.
  cbn [map nth fst snd]. qc_entries.
Qed.

Theorem and_pen_poly_is_source u v p :
  and_pen_poly u v p
  = table_poly [u; v; p] 0 (map (fun t => (fst t, z2q (snd t))) and_gate_lin)
                           (map (fun t => (fst t, z2q (snd t))) and_gate_quad).
Proof.
  unfold and_pen_poly, table_poly, and_gate_lin, and_gate_quad.
  cbn [map nth fst snd]. qc_entries.
Qed.
