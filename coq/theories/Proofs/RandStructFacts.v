(* C17(b) - structural theorems on the random generators, for ANY draws of the PRNG (Model/RandStruct.v). *)
From Coq Require Import List ZArith Bool Arith Lia.
From Dimod Require Import Model.FrustLoop Model.RandStruct Proofs.FrustLoopFacts.
Import ListNotations.
Open Scope Z_scope.

(* ---------- edges ---------- *)
Lemma edge_eqb_eq e f : edge_eqb e f = true <-> e = f.
Proof.
  destruct e as [a b], f as [c d]; unfold edge_eqb; simpl.
  rewrite andb_true_iff, !Nat.eqb_eq. split; [intros [-> ->]; reflexivity | intros H; inversion H; auto].
Qed.

Lemma edge_eqb_refl e : edge_eqb e e = true.
Proof. apply edge_eqb_eq; reflexivity. Qed.

Lemma emem_In e l : emem e l = true <-> In e l.
Proof.
  unfold emem. rewrite existsb_exists. split.
  - intros [x [Hi He]]. apply edge_eqb_eq in He. subst; auto.
  - intros H. exists e. split; auto. apply edge_eqb_refl.
Qed.

Lemma enodupb_NoDup l : enodupb l = true -> NoDup l.
Proof.
  induction l as [|e t IH]; simpl; intros H; [constructor|].
  apply andb_true_iff in H. destruct H as [H1 H2]. constructor; auto.
  intros Hin. apply emem_In in Hin. rewrite Hin in H1. discriminate.
Qed.

(* ---------- add_interactions_from ---------- *)
Lemma coef_notin lp e : ~ In e (map fst lp) -> coef lp e = 0.
Proof.
  unfold coef. induction lp as [|[f s] t IH]; simpl; intros H; [reflexivity|].
  destruct (edge_eqb e f) eqn:E.
  - apply edge_eqb_eq in E. subst. exfalso; apply H; auto.
  - apply IH. intros Hi; apply H; auto.
Qed.

Lemma coef_nodup_pm1 lp e : NoDup (map fst lp) -> Forall fl_pm1 (map snd lp) -> In e (map fst lp) ->
  fl_pm1 (coef lp e).
Proof.
  induction lp as [|[f s] t IH]; simpl; intros Hnd Hpm Hin; [contradiction|].
  inversion Hnd as [|? ? Hnot Hnd']; subst. inversion Hpm as [|? ? Hs Hpm']; subst.
  unfold coef; simpl. destruct (edge_eqb e f) eqn:E.
  - apply edge_eqb_eq in E. subst. simpl.
    change (fl_zsum (map snd (filter (fun p => edge_eqb f (fst p)) t))) with (coef t f).
    rewrite (coef_notin t f Hnot). rewrite Z.add_0_r. exact Hs.
  - apply IH; auto. destruct Hin as [Hin|Hin]; auto. subst. rewrite edge_eqb_refl in E. discriminate.
Qed.

Lemma coef_app a b e : coef (a ++ b) e = coef a e + coef b e.
Proof.
  unfold coef. rewrite filter_app, map_app. induction (map snd (filter (fun p => edge_eqb e (fst p)) a)); simpl; lia.
Qed.

(* ---------- 1. frustrated_loop ---------- *)
Lemma length_cyc_prev c : length (cyc_prev c) = length c.
Proof.
  destruct c as [|x r]; [reflexivity|]. unfold cyc_prev. cbn [length]. f_equal.
  assert (Hne : x :: r <> []) by discriminate.
  pose proof (f_equal (@length nat) (app_removelast_last 0%nat Hne)) as H. rewrite app_length in H. cbn [length] in H. lia.
Qed.

Lemma length_cycle_edges c : length (cycle_edges c) = length c.
Proof. unfold cycle_edges. rewrite map_length, combine_length, length_cyc_prev. apply Nat.min_id. Qed.

Lemma combine_fst_snd {A B} (a : list A) : forall (b : list B), length a = length b ->
  map fst (combine a b) = a /\ map snd (combine a b) = b.
Proof.
  induction a as [|x a IH]; intros [|y b] H; simpl in *; try discriminate; auto.
  destruct (IH b) as [H1 H2]; [lia|]. rewrite H1, H2. auto.
Qed.

Lemma loop_plant_fst c idx : map fst (loop_plant c idx) = cycle_edges c.
Proof. unfold loop_plant. apply combine_fst_snd. rewrite length_cycle_edges, planted_J_length. reflexivity. Qed.

Lemma loop_plant_snd c idx : map snd (loop_plant c idx) = planted_J (length c) idx.
Proof. unfold loop_plant. apply combine_fst_snd. rewrite length_cycle_edges, planted_J_length. reflexivity. Qed.

Lemma zprod_repeat_m1 k : fl_zprod (repeat (-1) k) = 1 - 2 * (Z.of_nat k mod 2).
Proof.
  induction k as [|k IH]; [reflexivity|].
  change (repeat (-1) (S k)) with (-1 :: repeat (-1) k). unfold fl_zprod in *. cbn [fold_right]. rewrite IH.
  rewrite Nat2Z.inj_succ. Z.div_mod_to_equations. lia.
Qed.

(* fcl.py 144: the "random" closing coupling of plant_solution=False is always +1 *)
Theorem fl_noplant_closing_is_afm L :
  noplant_values L = repeat (-1) (L - 1) ++ [1].
Proof.
  unfold noplant_values. cbv zeta. f_equal. f_equal. rewrite repeat_length, zprod_repeat_m1.
  assert (H : Z.of_nat (L - 1) mod 2 = 0 \/ Z.of_nat (L - 1) mod 2 = 1) by (Z.div_mod_to_equations; lia).
  destruct H as [-> | ->]; reflexivity.
Qed.
Print Assumptions fl_noplant_closing_is_afm.

Lemma planted_tail_m1 L : forall st, (0 < st)%nat ->
  map (fun i => if Nat.eqb i 0 then 1 else -1) (seq st L) = repeat (-1) L.
Proof.
  induction L as [|L IH]; intros st H; [reflexivity|]. cbn [seq map repeat].
  destruct st; [lia|]. cbn [Nat.eqb]. f_equal. apply IH. lia.
Qed.

(* ... so the plant_solution=False loop is the planted loop with idx = 0: nothing is sampled *)
Theorem fl_noplant_is_plant0 c : loop_noplant c = loop_plant c 0.
Proof.
  unfold loop_noplant, loop_plant, noplant_J. cbv zeta. rewrite fl_noplant_closing_is_afm.
  rewrite last_last, removelast_last.
  destruct c as [|x r]; [reflexivity|]. f_equal.
  unfold planted_J. cbn [length seq map Nat.eqb]. replace (S (length r) - 1)%nat with (length r) by lia.
  f_equal. symmetry. apply planted_tail_m1. lia.
Qed.
Print Assumptions fl_noplant_is_plant0.

Definition fl_inv (Rn Rd : Z) (st : fl_st) : Prop :=
  forall e, Rd * Z.abs (stJ st e) < Rn + Rd /\ (stAlive st e = true -> Rd * Z.abs (stJ st e) < Rn).

Lemma fl_body_inv Rn Rd plant st cd : 0 < Rd -> fl_inv Rn Rd st -> fl_inv Rn Rd (fl_body Rn Rd plant st cd).
Proof.
  intros HRd Hinv. unfold fl_body. destruct cd as [|c idx ok]; [exact Hinv|].
  destruct (walkable (stAlive st) c && ok) eqn:W; [|exact Hinv].
  assert (Hlp : exists i, (if plant then loop_plant c idx else loop_noplant c) = loop_plant c i).
  { destruct plant; [exists idx; reflexivity | exists 0%nat; apply fl_noplant_is_plant0]. }
  destruct Hlp as [i ->].
  apply andb_true_iff in W. destruct W as [W _]. unfold walkable in W.
  apply andb_true_iff in W. destruct W as [W Wnd]. apply andb_true_iff in W. destruct W as [_ Wal].
  apply enodupb_NoDup in Wnd. rewrite forallb_forall in Wal.
  intros e. cbn [stJ stAlive]. unfold addJ. rewrite loop_plant_fst.
  destruct (emem e (cycle_edges c)) eqn:M.
  - apply emem_In in M. pose proof (Wal e M) as Ha. destruct (Hinv e) as [_ H2]. specialize (H2 Ha).
    assert (Hc : fl_pm1 (coef (loop_plant c i) e)).
    { apply coef_nodup_pm1; rewrite ?loop_plant_fst, ?loop_plant_snd; auto. apply planted_J_pm1. }
    split.
    + destruct Hc as [-> | ->]; nia.
    + rewrite Ha. cbn [andb]. unfold hot, addJ. intros Hh. apply negb_true_iff in Hh.
      apply Z.leb_gt in Hh. exact Hh.
  - assert (Hn : ~ In e (map fst (loop_plant c i))).
    { rewrite loop_plant_fst. intros Hi. apply emem_In in Hi. congruence. }
    rewrite (coef_notin _ _ Hn), Z.add_0_r. destruct (Hinv e) as [H1 H2]. split; auto.
    cbn [andb negb]. rewrite andb_true_r. exact H2.
Qed.

Lemma fl_step_inv Rn Rd plant num maxfail st cd : 0 < Rd -> fl_inv Rn Rd st ->
  fl_inv Rn Rd (fl_step Rn Rd plant num maxfail st cd).
Proof. intros. unfold fl_step. destruct (_ && _); auto using fl_body_inv. Qed.

Lemma fl_fold_inv Rn Rd plant num maxfail cds : forall st, 0 < Rd -> fl_inv Rn Rd st ->
  fl_inv Rn Rd (fold_left (fl_step Rn Rd plant num maxfail) cds st).
Proof. induction cds as [|cd t IH]; intros st H1 H2; simpl; auto using fl_step_inv. Qed.

(* the R cut-off for R = Rn/Rd > 0 and ANY random walk: every accumulated coupling stays below R + 1 ... *)
Theorem fl_cutoff_bound Rn Rd plant num maxfail G cds e : 0 < Rd -> 0 < Rn ->
  Rd * Z.abs (stJ (fl_run Rn Rd plant num maxfail G cds) e) < Rn + Rd.
Proof.
  intros HRd HRn. apply (fl_fold_inv Rn Rd plant num maxfail cds (fl_init G) HRd).
  intros e'. unfold fl_init, zeroJ; cbn [stJ stAlive]. simpl. lia.
Qed.
Print Assumptions fl_cutoff_bound.

(* ... and every edge still offered to the random walk is strictly below R *)
Theorem fl_alive_below_R Rn Rd plant num maxfail G cds e : 0 < Rd -> 0 < Rn ->
  stAlive (fl_run Rn Rd plant num maxfail G cds) e = true ->
  Rd * Z.abs (stJ (fl_run Rn Rd plant num maxfail G cds) e) < Rn.
Proof.
  intros HRd HRn. apply (fl_fold_inv Rn Rd plant num maxfail cds (fl_init G) HRd).
  intros e'. unfold fl_init, zeroJ; cbn [stJ stAlive]. simpl. lia.
Qed.
Print Assumptions fl_alive_below_R.

(* integer R (the error message says "R should be a positive integer"): |J| <= R *)
Theorem fl_cutoff_integer_R R plant num maxfail G cds e : 0 < R ->
  Z.abs (stJ (fl_run R 1 plant num maxfail G cds) e) <= R.
Proof. intros HR. pose proof (fl_cutoff_bound R 1 plant num maxfail G cds e ltac:(lia) HR). lia. Qed.
Print Assumptions fl_cutoff_integer_R.

(* for a fractional R (R is typed float, default inf) "|J| <= R" is FALSE: R = 1/2 on a triangle *)
Theorem fl_cutoff_fractional_R_refuted :
  exists Rn Rd plant num maxfail G cds e, 0 < Rd /\ 0 < Rn /\
    ~ (Rd * Z.abs (stJ (fl_run Rn Rd plant num maxfail G cds) e) <= Rn).
Proof.
  exists 1, 2, true, 1%nat, 100%nat, [(0, 1); (1, 2); (0, 2)]%nat, [CCycle [0; 1; 2]%nat 0 true], (0, 1)%nat.
  vm_compute. repeat split; congruence.
Qed.
Print Assumptions fl_cutoff_fractional_R_refuted.

Lemma zsum_app a b : fl_zsum (a ++ b) = fl_zsum a + fl_zsum b.
Proof. unfold fl_zsum. induction a; simpl; lia. Qed.

Definition fl_acc_inv (num : nat) (st : fl_st) : Prop :=
  (forall e, stJ st e = fl_zsum (map (fun lp => coef lp e) (stAcc st))) /\
  length (stAcc st) = stGood st /\ (stGood st <= num)%nat /\
  Forall (fun lp => exists c i, (3 <= length c)%nat /\ NoDup (cycle_edges c) /\ lp = loop_plant c i) (stAcc st).

Lemma fl_step_acc_inv Rn Rd plant num maxfail st cd : fl_acc_inv num st ->
  fl_acc_inv num (fl_step Rn Rd plant num maxfail st cd).
Proof.
  intros Hinv. unfold fl_step. destruct (_ && _) eqn:G; [|exact Hinv].
  apply andb_true_iff in G. destruct G as [G _]. apply Nat.ltb_lt in G.
  unfold fl_body. destruct cd as [|c idx ok]; [exact Hinv|].
  destruct (walkable (stAlive st) c && ok) eqn:W; [|exact Hinv].
  assert (Hlp : exists i, (if plant then loop_plant c idx else loop_noplant c) = loop_plant c i).
  { destruct plant; [exists idx; reflexivity | exists 0%nat; apply fl_noplant_is_plant0]. }
  destruct Hlp as [i ->].
  destruct Hinv as [HJ [Hlen [Hle HF]]]. unfold fl_acc_inv. cbn [stJ stAcc stGood]. repeat split.
  - intros e. unfold addJ. rewrite map_app, zsum_app, HJ. simpl. lia.
  - rewrite app_length, Hlen. simpl. lia.
  - lia.
  - apply Forall_app. split; auto. constructor; auto. exists c, i.
    apply andb_true_iff in W. destruct W as [W _]. unfold walkable in W.
    apply andb_true_iff in W. destruct W as [W Wnd]. apply andb_true_iff in W. destruct W as [Wl _].
    apply Nat.leb_le in Wl. apply enodupb_NoDup in Wnd. auto.
Qed.

Lemma fl_fold_acc_inv Rn Rd plant num maxfail cds : forall st, fl_acc_inv num st ->
  fl_acc_inv num (fold_left (fl_step Rn Rd plant num maxfail) cds st).
Proof. induction cds as [|cd t IH]; intros st H; simpl; auto using fl_step_acc_inv. Qed.

(* accumulation: the couplings are the sum of exactly the good loops (fcl.py 147), there are at most num_cycles
   of them, and each is a loop of >= 3 distinct edges with one +1 coupling and -1 elsewhere *)
Theorem fl_accumulates Rn Rd plant num maxfail G cds :
  let st := fl_run Rn Rd plant num maxfail G cds in
  (forall e, stJ st e = fl_zsum (map (fun lp => coef lp e) (stAcc st))) /\
  length (stAcc st) = stGood st /\ (stGood st <= num)%nat /\
  Forall (fun lp => exists c i, (3 <= length c)%nat /\ NoDup (cycle_edges c) /\ lp = loop_plant c i) (stAcc st).
Proof.
  cbv zeta. apply (fl_fold_acc_inv Rn Rd plant num maxfail cds (fl_init G)).
  unfold fl_acc_inv, fl_init, zeroJ; cbn [stJ stAcc stGood]. repeat split; auto. lia.
Qed.
Print Assumptions fl_accumulates.

(* ---------- 2. doped ---------- *)
Lemma coef_cons f s t e : coef ((f, s) :: t) e = (if edge_eqb e f then s else 0) + coef t e.
Proof. unfold coef. simpl. destruct (edge_eqb e f); simpl; lia. Qed.

Lemma coef_combine_nodup (E : list edge) : forall D, length E = length D -> NoDup E ->
  map (coef (combine E D)) E = D.
Proof.
  induction E as [|f E IH]; intros [|s D] Hlen Hnd; simpl in *; try discriminate; auto.
  inversion Hnd as [|? ? Hnot Hnd']; subst.
  assert (Hfst : map fst (combine E D) = E) by (apply combine_fst_snd; lia).
  f_equal.
  - rewrite coef_cons, edge_eqb_refl, coef_notin; [lia|]. rewrite Hfst. exact Hnot.
  - rewrite <- (IH D) at 2; auto. apply map_ext_in. intros e He. rewrite coef_cons.
    destruct (edge_eqb e f) eqn:E1; [|lia]. apply edge_eqb_eq in E1. subst. contradiction.
Qed.

Definition doped_keys (edges : list (nat * nat)) : list edge := map (fun uv => enorm (fst uv) (snd uv)) edges.

(* for ANY draws: on a graph without repeated edges the coupling of the i-th edge IS the i-th draw, nothing else is
   coupled, linear biases and offset are 0 *)
Theorem doped_structure edges draws : length draws = length edges -> NoDup (doped_keys edges) ->
  map (doped_J edges draws) (doped_keys edges) = draws /\
  (forall e, ~ In e (doped_keys edges) -> doped_J edges draws e = 0) /\
  (forall v, doped_linear edges v = 0) /\ doped_offset = 0.
Proof.
  intros Hlen Hnd. unfold doped_J, doped_items, addJ, zeroJ. fold (doped_keys edges).
  assert (Hl : length (doped_keys edges) = length draws) by (unfold doped_keys; rewrite map_length; lia).
  repeat split.
  - transitivity (map (coef (combine (doped_keys edges) draws)) (doped_keys edges));
      [apply map_ext; intros; lia | apply coef_combine_nodup; auto].
  - intros e He. rewrite coef_notin; [lia|].
    destruct (combine_fst_snd (doped_keys edges) draws Hl) as [-> _]. exact He.
Qed.
Print Assumptions doped_structure.

(* choice([1, -1], p=[p, 1-p]) returns an element of positive probability: every coupling is +-1;
   with p = 0 (fm) or p = 1 (not fm) all are -1, with p = 1 (fm) or p = 0 (not fm) all are +1 *)
Theorem doped_couplings_pm1 p fm edges draws : length draws = length edges -> NoDup (doped_keys edges) ->
  Forall (doped_allowed p fm) draws ->
  Forall fl_pm1 (map (doped_J edges draws) (doped_keys edges)) /\
  ((if fm then p else pflip p) = P0 -> Forall (fun x => x = -1) (map (doped_J edges draws) (doped_keys edges))) /\
  ((if fm then p else pflip p) = P1 -> Forall (fun x => x = 1) (map (doped_J edges draws) (doped_keys edges))).
Proof.
  intros Hlen Hnd Hal. destruct (doped_structure edges draws Hlen Hnd) as [-> _].
  unfold doped_allowed in Hal. repeat split.
  - eapply Forall_impl; [|exact Hal]. intros x Hx. cbv beta in Hx. unfold fl_pm1.
    destruct (if fm then p else pflip p); intuition.
  - intros Hp. rewrite Hp in Hal. exact Hal.
  - intros Hp. rewrite Hp in Hal. exact Hal.
Qed.
Print Assumptions doped_couplings_pm1.

(* add_interaction ACCUMULATES: with an edge listed twice (an edge list [(0,1),(1,0)] is accepted by
   graph_argument) the coupling is not +-1 *)
Theorem doped_repeated_edge_refuted :
  exists edges draws, length draws = length edges /\ Forall fl_pm1 draws /\
    ~ Forall fl_pm1 (map (doped_J edges draws) (doped_keys edges)).
Proof.
  exists [(0, 1); (1, 0)]%nat, [1; 1]. repeat split; [repeat constructor; left; reflexivity|].
  vm_compute. intros H. inversion H as [|? ? [H1|H1] _]; discriminate.
Qed.
Print Assumptions doped_repeated_edge_refuted.

(* `variables, edges = graph` but `variables` is never used: isolated nodes of the graph are dropped *)
Theorem doped_keeps_all_nodes_refuted :
  exists (nodes : list nat) edges, Forall (fun uv => In (fst uv) nodes /\ In (snd uv) nodes) edges /\
    exists v, In v nodes /\ ~ In v (doped_vars edges).
Proof.
  exists [0; 1; 2]%nat, [(0, 1)]%nat. split; [constructor; [simpl; auto|constructor]|].
  exists 2%nat. split; [simpl; auto|]. simpl. intros [H|[H|[]]]; discriminate.
Qed.
Print Assumptions doped_keeps_all_nodes_refuted.

(* ---------- 3a. gnm_random_bqm ---------- *)
Lemma gnm_loop_prefix n m : forall draws ui vi k, gnm_draws_ok m k draws -> (k + length draws = m)%nat ->
  gnm_loop n m draws ui vi k = gnm_prefix n (length draws) ui vi k.
Proof.
  induction draws as [|d rest IH]; intros ui vi k Hok Hlen; [reflexivity|].
  cbn [gnm_loop gnm_prefix length]. cbn [gnm_draws_ok] in Hok. destruct Hok as [Hd Hrest].
  assert (Hlt : (d <? Z.of_nat m - Z.of_nat k) = true) by (apply Z.ltb_lt; lia). rewrite Hlt.
  f_equal. cbn [length] in Hlen. destruct (Nat.eqb (S k) m) eqn:E.
  - apply Nat.eqb_eq in E. destruct rest; [|cbn [length] in Hlen; lia].
    destruct (gnm_adv n ui vi); reflexivity.
  - destruct (gnm_adv n ui vi) as [ui' vi']. apply IH; auto. lia.
Qed.

(* random.py 116-131.  The test `randint(m - t) < m - k` is ALWAYS true (k <= t), so whatever randint returns the
   m interactions are the FIRST m pairs of the upper triangle in row-major order, with qbias[0..m-1] in order:
   gnm_random_bqm draws no random graph at all *)
Theorem gnm_selection_is_prefix n m draws : length draws = m -> gnm_draws_ok m 0 draws ->
  gnm_sets n m draws = gnm_prefix n m 0 1 0.
Proof.
  intros Hlen Hok. unfold gnm_sets. destruct m as [|m']; [reflexivity|].
  rewrite gnm_loop_prefix; auto. rewrite Hlen. reflexivity.
Qed.
Print Assumptions gnm_selection_is_prefix.

Lemma gnm_prefix_length n : forall cnt ui vi k, length (gnm_prefix n cnt ui vi k) = cnt.
Proof.
  induction cnt as [|c IH]; intros ui vi k; [reflexivity|]. cbn [gnm_prefix length].
  destruct (gnm_adv n ui vi). rewrite IH. reflexivity.
Qed.

Lemma gnm_prefix_ks n : forall cnt ui vi k, map snd (gnm_prefix n cnt ui vi k) = seq k cnt.
Proof.
  induction cnt as [|c IH]; intros ui vi k; [reflexivity|]. cbn [gnm_prefix map seq snd].
  destruct (gnm_adv n ui vi). rewrite IH. reflexivity.
Qed.

Definition gnm_valid (n : nat) (x : nat * nat * nat) : Prop := (fst (fst x) < snd (fst x) < n)%nat.

Lemma gnm_prefix_valid n : forall cnt ui b a k, n = (ui + 1 + a)%nat -> ((0 < cnt)%nat -> (b < a)%nat) ->
  (2 * cnt + 2 * b <= a * (a + 1))%nat -> Forall (gnm_valid n) (gnm_prefix n cnt ui (ui + 1 + b) k).
Proof.
  induction cnt as [|c IH]; intros ui b a k Hn Hb Hbud; [constructor|].
  cbn [gnm_prefix]. assert (Hba : (b < a)%nat) by (apply Hb; lia). constructor.
  - unfold gnm_valid. simpl. lia.
  - unfold gnm_adv. destruct (Nat.eqb (S (ui + 1 + b)) n) eqn:E.
    + apply Nat.eqb_eq in E. replace (S (S ui)) with (S ui + 1 + 0)%nat by lia.
      apply (IH (S ui) 0%nat (a - 1)%nat); [lia| |].
      * intros Hc. assert (a <> 1)%nat by nia. lia.
      * assert (b + 1 = a)%nat by lia. subst a. replace (b + 1 - 1)%nat with b by lia. nia.
    + apply Nat.eqb_neq in E. replace (S (ui + 1 + b)) with (ui + 1 + (b + 1))%nat by lia.
      apply (IH ui (b + 1)%nat a); [lia| |]; lia.
Qed.

(* num_interactions = min(n(n-1)//2, requested) (random.py 98-99): exactly m set_quadratic calls, with qbias indices
   0..m-1, every one on a pair ui < vi < num_variables (labels[ui], labels[vi] exist; no self-loop) *)
Theorem gnm_structure n m draws : length draws = m -> gnm_draws_ok m 0 draws -> (2 * m <= n * (n - 1))%nat ->
  length (gnm_sets n m draws) = m /\ map snd (gnm_sets n m draws) = seq 0 m /\
  Forall (gnm_valid n) (gnm_sets n m draws).
Proof.
  intros Hlen Hok Hm. rewrite gnm_selection_is_prefix; auto. repeat split.
  - apply gnm_prefix_length.
  - apply gnm_prefix_ks.
  - destruct m as [|m']; [constructor|]. destruct n as [|[|n']]; [simpl in Hm; lia | simpl in Hm; lia |].
    change 1%nat with (0 + 1 + 0)%nat at 1. apply (gnm_prefix_valid _ _ 0%nat 0%nat (S n')); [lia|lia|nia].
Qed.
Print Assumptions gnm_structure.

(* the selected pairs do not depend on the draws *)
Theorem gnm_draws_irrelevant n m d1 d2 : length d1 = m -> length d2 = m -> gnm_draws_ok m 0 d1 -> gnm_draws_ok m 0 d2 ->
  gnm_sets n m d1 = gnm_sets n m d2.
Proof. intros. rewrite !gnm_selection_is_prefix; auto. Qed.
Print Assumptions gnm_draws_irrelevant.

(* ---------- 3b. gnp_random_bqm ---------- *)
(* for ANY uniform draws: (u, w) is an interaction iff u < w < n and the draw of row u, column w was below p *)
Theorem gnp_edges_spec n ex u w :
  In (u, w) (gnp_edges n ex) <-> (u < w < n)%nat /\ ex u (w - u - 1)%nat = true.
Proof.
  unfold gnp_edges, gnp_row. rewrite in_flat_map. split.
  - intros [v [Hv Hin]]. apply in_map_iff in Hin. destruct Hin as [j [Heq Hj]].
    apply filter_In in Hj. destruct Hj as [Hj Hex]. apply in_seq in Hj. apply in_seq in Hv.
    inversion Heq; subst. replace (u + 1 + j - u - 1)%nat with j by lia. split; [lia|exact Hex].
  - intros [Hlt Hex]. exists u. split; [apply in_seq; lia|]. apply in_map_iff.
    exists (w - u - 1)%nat. split; [f_equal; lia|]. apply filter_In. split; [apply in_seq; lia|exact Hex].
Qed.
Print Assumptions gnp_edges_spec.

Lemma length_flat_map {A B} (f : A -> list B) l :
  length (flat_map f l) = fold_right Nat.add 0%nat (map (fun x => length (f x)) l).
Proof. induction l as [|x l IH]; simpl; [reflexivity|]. rewrite app_length, IH. reflexivity. Qed.

(* irow/icol are allocated with num_interactions entries and filled exactly (random.py 196-210) *)
Theorem gnp_count n ex : length (gnp_edges n ex) = gnp_num_interactions n ex.
Proof.
  unfold gnp_edges, gnp_num_interactions. rewrite length_flat_map. f_equal. apply map_ext.
  intros v. unfold gnp_row. apply map_length.
Qed.
Print Assumptions gnp_count.

(* ---------- 4. chimera_anticluster ---------- *)
(* for ANY signs: the first len(inrow) biases (intra-tile) are +-1, the others (inter-tile) +-multiplier *)
Theorem anti_qdata_biases n_in mult signs : Forall fl_pm1 signs ->
  exists A B, anti_qdata n_in mult signs = A ++ B /\ length A = Nat.min n_in (length signs) /\
    length (A ++ B) = length signs /\
    Forall fl_pm1 A /\ Forall (fun x => x = mult \/ x = - mult) B /\
    (forall v, anti_linear v = 0) /\ anti_offset = 0.
Proof.
  intros H. exists (firstn n_in signs), (map (fun x => x * mult) (skipn n_in signs)).
  assert (H' : Forall fl_pm1 (firstn n_in signs ++ skipn n_in signs)) by (rewrite firstn_skipn; exact H).
  apply Forall_app in H'. destruct H' as [HA HB]. repeat split; auto.
  - apply firstn_length.
  - rewrite app_length, map_length, <- app_length, firstn_skipn. reflexivity.
  - apply Forall_forall. intros x Hx. apply in_map_iff in Hx. destruct Hx as [y [<- Hy]].
    rewrite Forall_forall in HB. destruct (HB y Hy) as [-> | ->]; [left|right]; lia.
Qed.
Print Assumptions anti_qdata_biases.

Lemma in_srange j a b step : In j (srange a b step) -> exists q, j = (a + q * step)%nat.
Proof. unfold srange. intros H. apply in_map_iff in H. destruct H as [q [<- _]]. exists q. reflexivity. Qed.

(* _iter_chimera_tile_edges: an intra-tile edge joins the two shores of ONE tile c:
   k0 = 2t*c + x, k1 = 2t*c + t + y with x, y < t *)
Theorem tile_edges_intra m n t k0 k1 : In (k0, k1) (tile_edges m n t) ->
  exists c x y, (x < t)%nat /\ (y < t)%nat /\ k0 = (c * (2 * t) + x)%nat /\ k1 = (c * (2 * t) + t + y)%nat.
Proof.
  unfold tile_edges. cbv zeta. intros H.
  apply in_flat_map in H. destruct H as [i [Hi H]]. apply in_flat_map in H. destruct H as [j [Hj H]].
  apply in_flat_map in H. destruct H as [a [Ha H]]. apply in_map_iff in H. destruct H as [b [Heq Hb]].
  inversion Heq; subst. apply in_seq in Ha. apply in_seq in Hb.
  apply in_srange in Hi. destruct Hi as [q Hi]. apply in_srange in Hj. destruct Hj as [r Hj].
  exists (q + r * n)%nat, (k0 - j)%nat, (k1 - j - t)%nat. subst i j. repeat split; try lia; nia.
Qed.
Print Assumptions tile_edges_intra.

(* ---------- 1'. what _random_cycle guarantees implies `walkable`'s distinct-edges test ---------- *)
Fixpoint path_edges (l : list nat) : list edge :=
  match l with
  | x :: ((y :: _) as r) => enorm x y :: path_edges r
  | _ => []
  end.

Lemma enorm_inj a b c d : enorm a b = enorm c d -> (a = c /\ b = d) \/ (a = d /\ b = c).
Proof.
  unfold enorm. destruct (a <=? b)%nat, (c <=? d)%nat; intros H; inversion H; auto.
Qed.

Lemma enorm_ends a b : (fst (enorm a b) = a /\ snd (enorm a b) = b) \/ (fst (enorm a b) = b /\ snd (enorm a b) = a).
Proof. unfold enorm. destruct (a <=? b)%nat; simpl; auto. Qed.

Lemma path_edges_ends l : forall e, In e (path_edges l) -> In (fst e) l /\ In (snd e) l.
Proof.
  induction l as [|x r IH]; intros e H; [contradiction|]. destruct r as [|y t]; [contradiction|].
  cbn [path_edges] in H. destruct H as [<- | H].
  - destruct (enorm_ends x y) as [[-> ->] | [-> ->]]; simpl; auto.
  - destruct (IH e H). split; right; assumption.
Qed.

Lemma path_edges_combine t : forall x,
  map (fun p => enorm (fst p) (snd p)) (combine (removelast (x :: t)) t) = path_edges (x :: t).
Proof.
  induction t as [|y t IH]; intros x; [reflexivity|].
  change (removelast (x :: y :: t)) with (x :: removelast (y :: t)).
  cbn [combine map fst snd path_edges]. f_equal. apply IH.
Qed.

Lemma cycle_edges_cons x y t : cycle_edges (x :: y :: t) = enorm (last (y :: t) 0%nat) x :: path_edges (x :: y :: t).
Proof.
  unfold cycle_edges, cyc_prev. change (last (x :: y :: t) 0%nat) with (last (y :: t) 0%nat).
  cbn [combine map fst snd]. f_equal. apply path_edges_combine.
Qed.

Lemma last_In (l : list nat) d : l <> [] -> In (last l d) l.
Proof.
  intros H. rewrite (app_removelast_last d H) at 2. apply in_or_app. right. left. reflexivity.
Qed.

Lemma path_edges_NoDup l : NoDup l -> NoDup (path_edges l).
Proof.
  induction l as [|x r IH]; intros H; [constructor|]. destruct r as [|y t]; [constructor|].
  inversion H as [|? ? Hx Hr]; subst.
  change (path_edges (x :: y :: t)) with (enorm x y :: path_edges (y :: t)). constructor; [|apply IH; exact Hr].
  intros Hin. apply path_edges_ends in Hin. destruct Hin as [H1 H2].
  destruct (enorm_ends x y) as [[E1 E2] | [E1 E2]]; rewrite ?E1, ?E2 in *; contradiction.
Qed.

(* a cycle returned by _random_cycle has pairwise distinct vertices (walk[visited[u]:] of a walk that stops at
   the first revisit) and, never stepping straight back, at least 3 of them: its edges are pairwise distinct
   (the comment at fcl.py 187), so dict cycle_J has len(cycle) keys and each edge moves by exactly +-1 *)
Theorem cycle_edges_distinct c : NoDup c -> (3 <= length c)%nat -> NoDup (cycle_edges c).
Proof.
  intros Hnd Hlen. destruct c as [|x [|y [|z t]]]; simpl in Hlen; try lia.
  rewrite cycle_edges_cons. constructor; [|apply path_edges_NoDup; exact Hnd].
  inversion Hnd as [|? ? Hx Hr]; subst. inversion Hr as [|? ? Hy Hr']; subst.
  change (last (y :: z :: t) 0%nat) with (last (z :: t) 0%nat).
  assert (Hl : In (last (z :: t) 0%nat) (z :: t)) by (apply last_In; discriminate).
  set (l := last (z :: t) 0%nat) in *.
  change (path_edges (x :: y :: z :: t)) with (enorm x y :: path_edges (y :: z :: t)). intros [Heq | Hin].
  - symmetry in Heq. apply enorm_inj in Heq. destruct Heq as [[E1 E2] | [E1 E2]].
    + subst. apply Hx. left. reflexivity.
    + rewrite E1 in Hl. contradiction.
  - apply path_edges_ends in Hin. destruct Hin as [H1 H2].
    destruct (enorm_ends l x) as [[E1 E2] | [E1 E2]]; rewrite ?E1, ?E2 in *; contradiction.
Qed.
Print Assumptions cycle_edges_distinct.

(* ---------- 3a'. the m pairs of gnm are pairwise distinct ---------- *)
Definition gnm_key (n : nat) (x : nat * nat * nat) : nat := (fst (fst x) * n + snd (fst x))%nat.

Lemma gnm_prefix_increasing n : forall cnt ui b a k, n = (ui + 1 + a)%nat -> ((0 < cnt)%nat -> (b < a)%nat) ->
  (2 * cnt + 2 * b <= a * (a + 1))%nat ->
  Forall (fun x => (ui * n + (ui + 1 + b) <= gnm_key n x)%nat) (gnm_prefix n cnt ui (ui + 1 + b) k) /\
  NoDup (map fst (gnm_prefix n cnt ui (ui + 1 + b) k)).
Proof.
  induction cnt as [|c IH]; intros ui b a k Hn Hb Hbud; [split; constructor|].
  cbn [gnm_prefix]. assert (Hba : (b < a)%nat) by (apply Hb; lia).
  assert (Hstep : forall ui' b' L, (ui * n + (ui + 1 + b) < ui' * n + (ui' + 1 + b'))%nat ->
     Forall (fun x => (ui' * n + (ui' + 1 + b') <= gnm_key n x)%nat) L /\ NoDup (map fst L) ->
     Forall (fun x => (ui * n + (ui + 1 + b) <= gnm_key n x)%nat) ((ui, (ui + 1 + b)%nat, k) :: L) /\
     NoDup (map fst ((ui, (ui + 1 + b)%nat, k) :: L))).
  { intros ui' b' L Hlt [HF HN]. split.
    - constructor; [unfold gnm_key; simpl; lia|]. eapply Forall_impl; [|exact HF]. intros x Hx. cbv beta in *. lia.
    - cbn [map fst]. constructor; [|exact HN]. intros Hin. apply in_map_iff in Hin. destruct Hin as [x [Hfx Hx]].
      rewrite Forall_forall in HF. specialize (HF x Hx). unfold gnm_key in HF. rewrite Hfx in HF. simpl in HF. lia. }
  unfold gnm_adv. destruct (Nat.eqb (S (ui + 1 + b)) n) eqn:E.
  - apply Nat.eqb_eq in E. replace (S (S ui)) with (S ui + 1 + 0)%nat by lia.
    apply (Hstep (S ui) 0%nat); [lia|]. apply (IH (S ui) 0%nat (a - 1)%nat); [lia| |].
    + intros Hc. assert (a <> 1)%nat by nia. lia.
    + assert (b + 1 = a)%nat by lia. subst a. replace (b + 1 - 1)%nat with b by lia. nia.
  - apply Nat.eqb_neq in E. replace (S (ui + 1 + b)) with (ui + 1 + (b + 1))%nat by lia.
    apply (Hstep ui (b + 1)%nat); [lia|]. apply (IH ui (b + 1)%nat a); [lia| |]; lia.
Qed.

(* so the model has exactly num_interactions interactions: every set_quadratic hits a fresh pair *)
Theorem gnm_pairs_distinct n m draws : length draws = m -> gnm_draws_ok m 0 draws -> (2 * m <= n * (n - 1))%nat ->
  NoDup (map fst (gnm_sets n m draws)) /\ length (map fst (gnm_sets n m draws)) = m.
Proof.
  intros Hlen Hok Hm. rewrite gnm_selection_is_prefix; auto. split; [|rewrite map_length; apply gnm_prefix_length].
  destruct m as [|m']; [constructor|]. destruct n as [|[|n']]; [simpl in Hm; lia | simpl in Hm; lia |].
  change 1%nat with (0 + 1 + 0)%nat at 1. apply (gnm_prefix_increasing _ _ 0%nat 0%nat (S n')); [lia|lia|nia].
Qed.
Print Assumptions gnm_pairs_distinct.

Lemma map_nth_seq (l : list Z) : map (fun k => nth k l 0) (seq 0 (length l)) = l.
Proof.
  induction l as [|a l IH]; [reflexivity|]. cbn [length seq map nth]. f_equal.
  rewrite <- seq_shift, map_map. exact IH.
Qed.

(* the quadratic biases of gnm are exactly the generated qbias, in order; so each lies wherever bias_generator
   puts its values (default uniform(size=n): [0, 1)) *)
Theorem gnm_biases n m draws qbias lo hi : length draws = m -> gnm_draws_ok m 0 draws -> length qbias = m ->
  map snd (gnm_quadratic n m draws qbias) = qbias /\
  (Forall (fun x => lo <= x <= hi) qbias -> Forall (fun x => lo <= x <= hi) (map snd (gnm_quadratic n m draws qbias))).
Proof.
  intros Hlen Hok Hq.
  assert (E : map snd (gnm_quadratic n m draws qbias) = qbias).
  { unfold gnm_quadratic. rewrite map_map. cbn [snd].
    rewrite <- (map_map snd (fun k => nth k qbias 0)). rewrite gnm_selection_is_prefix; auto.
    rewrite gnm_prefix_ks, <- Hq. apply map_nth_seq. }
  split; [exact E | rewrite E; auto].
Qed.
Print Assumptions gnm_biases.

(* ---------- 3b'. gnp pairs are pairwise distinct (from_numpy_vectors would ADD repeated pairs) ---------- *)
Lemma nodup_app {A} (a b : list A) : NoDup a -> NoDup b -> (forall x, In x a -> ~ In x b) -> NoDup (a ++ b).
Proof.
  induction a as [|x a IH]; intros Ha Hb Hd; [exact Hb|]. inversion Ha; subst. simpl. constructor.
  - intros Hin. apply in_app_or in Hin. destruct Hin as [Hin|Hin]; [contradiction|]. apply (Hd x); simpl; auto.
  - apply IH; auto. intros y Hy. apply Hd. right. exact Hy.
Qed.

Lemma nodup_map_inj {A B} (f : A -> B) l : (forall x y, f x = f y -> x = y) -> NoDup l -> NoDup (map f l).
Proof.
  intros Hinj. induction l as [|x l IH]; intros H; [constructor|]. inversion H; subst. simpl. constructor; auto.
  intros Hin. apply in_map_iff in Hin. destruct Hin as [y [Hy Hin]]. apply Hinj in Hy. subst. contradiction.
Qed.

Lemma gnp_rows_nodup n ex l : NoDup l -> NoDup (flat_map (gnp_row n ex) l).
Proof.
  induction l as [|v l IH]; intros H; [constructor|]. inversion H; subst. simpl. apply nodup_app; auto.
  - unfold gnp_row. apply nodup_map_inj; [intros x y E; inversion E; lia|]. apply NoDup_filter, seq_NoDup.
  - intros [u w] Hin Hin2. unfold gnp_row in Hin. apply in_map_iff in Hin. destruct Hin as [j [E _]].
    inversion E; subst. apply in_flat_map in Hin2. destruct Hin2 as [v' [Hv' Hin2]].
    unfold gnp_row in Hin2. apply in_map_iff in Hin2. destruct Hin2 as [j' [E' _]]. inversion E'; subst. contradiction.
Qed.

Theorem gnp_pairs_distinct n ex : NoDup (gnp_edges n ex).
Proof. apply gnp_rows_nodup, seq_NoDup. Qed.
Print Assumptions gnp_pairs_distinct.

(* ---------- 1''. which edges the walk may still use; couplings only on graph edges ---------- *)
Definition fl_inv2 (Rn Rd : Z) (G : list edge) (st : fl_st) : Prop :=
  forall e, stAlive st e = emem e G && negb (hot Rn Rd (stJ st) e) /\ (emem e G = false -> stJ st e = 0).

Lemma fl_step_inv2 Rn Rd plant num maxfail G st cd : fl_inv2 Rn Rd G st ->
  fl_inv2 Rn Rd G (fl_step Rn Rd plant num maxfail st cd).
Proof.
  intros Hinv. unfold fl_step. destruct (_ && _); [|exact Hinv].
  unfold fl_body. destruct cd as [|c idx ok]; [exact Hinv|].
  destruct (walkable (stAlive st) c && ok) eqn:W; [|exact Hinv].
  assert (Hlp : exists i, (if plant then loop_plant c idx else loop_noplant c) = loop_plant c i).
  { destruct plant; [exists idx; reflexivity | exists 0%nat; apply fl_noplant_is_plant0]. }
  destruct Hlp as [i ->].
  apply andb_true_iff in W. destruct W as [W _]. unfold walkable in W.
  apply andb_true_iff in W. destruct W as [W _]. apply andb_true_iff in W. destruct W as [_ Wal].
  rewrite forallb_forall in Wal.
  intros e. cbn [stJ stAlive]. rewrite loop_plant_fst. destruct (Hinv e) as [H1 H2].
  destruct (emem e (cycle_edges c)) eqn:M.
  - apply emem_In in M. pose proof (Wal e M) as Ha. rewrite Ha in *. symmetry in H1.
    apply andb_true_iff in H1. destruct H1 as [HG _]. rewrite HG. cbn [andb]. split; [reflexivity|discriminate].
  - assert (Hn : ~ In e (map fst (loop_plant c i))).
    { rewrite loop_plant_fst. intros Hi. apply emem_In in Hi. congruence. }
    cbn [andb negb]. rewrite andb_true_r. unfold hot, addJ in *. rewrite (coef_notin _ _ Hn), Z.add_0_r.
    split; assumption.
Qed.

Lemma fl_fold_inv2 Rn Rd plant num maxfail G cds : forall st, fl_inv2 Rn Rd G st ->
  fl_inv2 Rn Rd G (fold_left (fl_step Rn Rd plant num maxfail) cds st).
Proof. induction cds as [|cd t IH]; intros st H; simpl; auto using fl_step_inv2. Qed.

(* fcl.py 148-151, for ANY walk: at every moment the edges offered to _random_cycle are exactly the graph edges with
   |J| < R (an edge is removed when, and only when, it reaches R), and nothing outside the graph is ever coupled *)
Theorem fl_alive_iff Rn Rd plant num maxfail G cds e : 0 < Rn ->
  let st := fl_run Rn Rd plant num maxfail G cds in
  (stAlive st e = true <-> In e G /\ Rd * Z.abs (stJ st e) < Rn) /\ (~ In e G -> stJ st e = 0).
Proof.
  intros HRn. cbv zeta.
  assert (H : fl_inv2 Rn Rd G (fl_run Rn Rd plant num maxfail G cds)).
  { unfold fl_run. apply fl_fold_inv2.
    intros e'. unfold fl_init, hot, zeroJ; cbn [stJ stAlive]. split; [|reflexivity].
    assert ((Rn <=? Rd * Z.abs 0) = false) as -> by (apply Z.leb_gt; simpl; lia).
    cbn [negb]. rewrite andb_true_r. reflexivity. }
  destruct (H e) as [H1 H2]. split.
  - rewrite H1, andb_true_iff, negb_true_iff, emem_In. unfold hot. rewrite Z.leb_gt. reflexivity.
  - intros Hn. apply H2. destruct (emem e G) eqn:M; [apply emem_In in M; contradiction|reflexivity].
Qed.
Print Assumptions fl_alive_iff.

(* ---------- 4'. inter-tile edges ---------- *)
(* an inter-tile edge joins the SAME shore position of two neighbouring tiles:
   horizontal shore (offset t + x) one tile to the right (+2t), or vertical shore (offset x) one row down (+2t*n) *)
Theorem intertile_edges_shape m n t a b : In (a, b) (intertile_edges m n t) ->
  exists c x, (x < t)%nat /\
    ((a = (c * (2 * t) + t + x)%nat /\ b = (a + 2 * t)%nat) \/ (a = (c * (2 * t) + x)%nat /\ b = (a + n * (2 * t))%nat)).
Proof.
  unfold intertile_edges. cbv zeta. intros H. apply in_app_or in H. destruct H as [H|H].
  - apply in_flat_map in H. destruct H as [i [Hi H]]. apply in_flat_map in H. destruct H as [j [Hj H]].
    apply in_map_iff in H. destruct H as [k [Heq Hk]]. inversion Heq; subst.
    apply in_seq in Hi. apply in_srange in Hj. destruct Hj as [q Hj]. apply in_srange in Hk. destruct Hk as [r Hk].
    exists (q + r * n)%nat, (i - t)%nat. split; [lia|]. left. split; [|reflexivity]. subst a j. nia.
  - apply in_flat_map in H. destruct H as [i [Hi H]]. apply in_flat_map in H. destruct H as [j [Hj H]].
    apply in_map_iff in H. destruct H as [k [Heq Hk]]. inversion Heq; subst.
    apply in_seq in Hi. apply in_srange in Hj. destruct Hj as [q Hj]. apply in_srange in Hk. destruct Hk as [r Hk].
    exists (q + r * n)%nat, i. split; [lia|]. right. split; [|reflexivity]. subst a j. nia.
Qed.
Print Assumptions intertile_edges_shape.

(* irow = inrow + outrow: no pair is both an intra-tile and an inter-tile edge, so from_numpy_vectors never adds a
   +-1 and a +-multiplier on the same interaction (guard `if m and n and t`: n > 0) *)
Theorem anti_intra_inter_disjoint m n t a b : (0 < n)%nat ->
  In (a, b) (tile_edges m n t) -> In (a, b) (intertile_edges m n t) -> False.
Proof.
  intros Hn H1 H2. apply tile_edges_intra in H1. destruct H1 as [c [x [y [Hx [Hy [Ha Hb]]]]]].
  apply intertile_edges_shape in H2. destruct H2 as [c' [x' [Hx' [[Ha' Hb'] | [Ha' Hb']]]]]; nia.
Qed.
Print Assumptions anti_intra_inter_disjoint.
