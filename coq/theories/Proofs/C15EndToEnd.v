(* C15 assembled from the user's raw polynomial (terms may repeat variables) *)
From Coq Require Import List ZArith QArith Qcanon Bool Arith.
From Dimod Require Import Base.Util Model.Poly Model.HPoly Model.Reduce
  Proofs.ReduceFacts Proofs.PenaltyFacts Proofs.MakeQuadratic Proofs.NormaliseFacts.
Import ListNotations.
Open Scope Qc_scope.

Lemma binary_idem (a : sample) : is_binary a -> forall v, a v * a v = a v.
Proof. intros H v. destruct (H v) as [-> | ->]; ring. Qed.
Lemma spin_square (a : sample) : is_spin a -> forall v, a v * a v = 1.
Proof. intros H v. destruct (H v) as [-> | ->]; ring. Qed.

Theorem make_quadratic_binary_raw s raw cons (a : sample) :
  let poly := normalise BINARY raw in
  valid_cons (hvars poly) cons = true -> all_degree_le2 (reduce_with cons poly) = true ->
  is_binary a -> consistent cons a ->
  energy (mq_binary s cons (reduce_with cons poly)) a = henergy raw a.
Proof.
  intros poly Hv Hd Hb Hc.
  rewrite (make_quadratic_binary_exact s poly cons a (normalise_terms_nodup BINARY raw) Hv Hd Hb Hc).
  apply normalise_energy_binary. apply binary_idem. exact Hb.
Qed.

Theorem make_quadratic_spin_raw s raw cons (a : sample) :
  let poly := normalise SPIN raw in
  valid_cons4 poly cons = true -> all_degree_le2 (reduce_with (map drop_aux cons) poly) = true ->
  is_spin a -> consistent (map drop_aux cons) a ->
  let a' := set_aux cons a in
  (forall x, In x (known_vars poly cons) -> a' x = a x) /\ is_spin a' /\
  energy (mq_spin s cons (reduce_with (map drop_aux cons) poly)) a' = henergy raw a.
Proof.
  intros poly Hv Hd Hb Hc a'.
  destruct (make_quadratic_spin_exact s poly cons a (normalise_terms_nodup SPIN raw) Hv Hd Hb Hc) as [H1 [H2 H3]].
  split; [exact H1|]. split; [exact H2|]. fold a' in H3. rewrite H3.
  apply normalise_energy_spin. apply spin_square. exact Hb.
Qed.
