(* C16: the squared-sum expansions add exactly lam * (sum a x + c)^2 *)
From Coq Require Import List ZArith QArith Qcanon Bool Arith Lia Sorted.
From Dimod Require Import Base.Util Model.Poly Model.Comb Model.Penalty Proofs.PolyFacts.
Import ListNotations.
Open Scope Qc_scope.

(* ---------- the algebraic identity over a term list ---------- *)

Fixpoint sqsum (terms : list lterm) (s : sample) : Qc :=
  match terms with
  | [] => 0
  | t :: r => snd t * snd t * (s (fst t) * s (fst t)) + sqsum r s
  end.

Fixpoint offdiag (terms : list lterm) (s : sample) : Qc :=
  match terms with
  | [] => 0
  | t :: r => two * (snd t * s (fst t)) * lin_energy r s + offdiag r s
  end.

Lemma lin_energy_nil s : lin_energy [] s = 0.
Proof. reflexivity. Qed.

Lemma square_expand terms s :
  lin_energy terms s * lin_energy terms s = sqsum terms s + offdiag terms s.
Proof.
  induction terms as [|t r IH].
  - rewrite lin_energy_nil. cbn [sqsum offdiag]. ring.
  - rewrite lin_energy_cons. cbn [sqsum offdiag].
    transitivity (snd t * snd t * (s (fst t) * s (fst t))
                  + two * (snd t * s (fst t)) * lin_energy r s
                  + lin_energy r s * lin_energy r s).
    + unfold two. ring.
    + rewrite IH. ring.
Qed.

Lemma penalty_expand terms s lam c :
  lam * ((lin_energy terms s + c) * (lin_energy terms s + c))
  = lam * c * c + (lam * two * c * lin_energy terms s + lam * sqsum terms s) + lam * offdiag terms s.
Proof.
  transitivity (lam * c * c + lam * two * c * lin_energy terms s
                + lam * (lin_energy terms s * lin_energy terms s)).
  - unfold two. ring.
  - rewrite square_expand. ring.
Qed.

(* the coefficients are generated definitions (Gen/Gen_Penalty.v): open them before ring *)
Ltac ug := cbv beta delta [gen_cy_offset gen_cy_lin_binary gen_cy_lin_spin gen_cy_off_spin gen_cy_quad
                           gen_dqm_offset gen_dqm_lin gen_dqm_quad
                           gen_py_diag_spin_lin gen_py_diag_spin_off gen_py_diag_binary_lin
                           gen_py_same_spin_off gen_py_same_binary_lin gen_py_quad gen_py_offset
                           gen_unb_lin gen_unb_offset gen_unb_mult gen_unb_constant].

Definition bqm_vt (vt : vartype) : Prop := vt = BINARY \/ vt = SPIN.

(* ---------- native back-end ---------- *)

Lemma energy_eq_lin_step vt lam c p t s :
  bqm_vt vt -> respects (cvt vt) s ->
  energy (eq_lin_step vt lam c p t) s
  = energy p s + (lam * two * c * (snd t * s (fst t)) + lam * (snd t * snd t * (s (fst t) * s (fst t)))).
Proof.
  intros Hvt Hr. pose proof (Hr (fst t)) as Hv. unfold cvt in Hv.
  destruct Hvt as [-> | ->]; unfold eq_lin_step.
  - rewrite energy_add_linear. rewrite Hv. ug; ring.
  - rewrite energy_add_offset, energy_add_linear. rewrite Hv. ug; ring.
Qed.

Lemma energy_eq_lin_pass vt lam c terms : forall p s,
  bqm_vt vt -> respects (cvt vt) s ->
  energy (fold_left (eq_lin_step vt lam c) terms p) s
  = energy p s + (lam * two * c * lin_energy terms s + lam * sqsum terms s).
Proof.
  induction terms as [|t r IH]; intros p s Hvt Hr; cbn [fold_left].
  - rewrite lin_energy_nil. cbn [sqsum]. ug; ring.
  - rewrite IH by assumption. rewrite energy_eq_lin_step by assumption.
    rewrite lin_energy_cons. cbn [sqsum]. ug; ring.
Qed.

Lemma energy_eq_quad_row vt lam t r : forall p s,
  respects (cvt vt) s ->
  energy (eq_quad_row vt lam t r p) s
  = energy p s + lam * (two * (snd t * s (fst t)) * lin_energy r s).
Proof.
  unfold eq_quad_row. induction r as [|u r IH]; intros p s Hr; cbn [fold_left].
  - rewrite lin_energy_nil. ug; ring.
  - rewrite IH by assumption. rewrite energy_add_quadratic by assumption.
    rewrite lin_energy_cons. ug; ring.
Qed.

Lemma energy_eq_quad_part vt lam terms : forall p s,
  respects (cvt vt) s ->
  energy (eq_quad_part vt lam terms p) s = energy p s + lam * offdiag terms s.
Proof.
  induction terms as [|t r IH]; intros p s Hr; cbn [eq_quad_part offdiag].
  - ug; ring.
  - rewrite IH by assumption. rewrite energy_eq_quad_row by assumption. ug; ring.
Qed.

Theorem add_eq_cy_exact vt terms lam c p s :
  bqm_vt vt -> respects (cvt vt) s ->
  energy (add_eq_cy vt terms lam c p) s
  = energy p s + lam * ((lin_sum terms s + c) * (lin_sum terms s + c)).
Proof.
  intros Hvt Hr. unfold add_eq_cy, lin_sum.
  rewrite energy_eq_quad_part by assumption.
  rewrite energy_eq_lin_pass by assumption.
  rewrite energy_add_offset. rewrite penalty_expand. ug; ring.
Qed.

(* ---------- python fallback (positions, repeated labels allowed) ---------- *)

Lemma energy_py_pair_step vt lam t u p s :
  bqm_vt vt -> respects (cvt vt) s ->
  energy (py_pair_step vt lam t u p) s
  = energy p s + two * lam * snd t * snd u * (s (fst t) * s (fst u)).
Proof.
  intros Hvt Hr. unfold py_pair_step. destruct (Nat.eqb_spec (fst t) (fst u)) as [E|E].
  - rewrite <- E. pose proof (Hr (fst t)) as Hv. unfold cvt in Hv.
    destruct Hvt as [-> | ->].
    + rewrite energy_add_linear. rewrite Hv. ug; ring.
    + rewrite energy_add_offset. rewrite Hv. ug; ring.
  - rewrite energy_add_quadratic by assumption. ug; ring.
Qed.

Lemma energy_py_diag vt lam c t p s :
  bqm_vt vt -> respects (cvt vt) s ->
  energy (py_diag vt lam c t p) s
  = energy p s + (lam * two * c * (snd t * s (fst t)) + lam * (snd t * snd t * (s (fst t) * s (fst t)))).
Proof.
  intros Hvt Hr. pose proof (Hr (fst t)) as Hv. unfold cvt in Hv.
  destruct Hvt as [-> | ->]; unfold py_diag.
  - rewrite energy_add_linear. rewrite Hv. ug; ring.
  - rewrite energy_add_offset, energy_add_linear. rewrite Hv. ug; ring.
Qed.

Lemma energy_py_fold vt lam t r : forall p s,
  bqm_vt vt -> respects (cvt vt) s ->
  energy (fold_left (fun acc u => py_pair_step vt lam t u acc) r p) s
  = energy p s + lam * (two * (snd t * s (fst t)) * lin_energy r s).
Proof.
  induction r as [|u r IH]; intros p s Hvt Hr; cbn [fold_left].
  - rewrite lin_energy_nil. ug; ring.
  - rewrite IH by assumption. rewrite energy_py_pair_step by assumption.
    rewrite lin_energy_cons. ug; ring.
Qed.

Lemma energy_py_row vt lam c t r p s :
  bqm_vt vt -> respects (cvt vt) s ->
  energy (py_row vt lam c t r p) s
  = energy p s
    + (lam * two * c * (snd t * s (fst t)) + lam * (snd t * snd t * (s (fst t) * s (fst t))))
    + lam * (two * (snd t * s (fst t)) * lin_energy r s).
Proof.
  intros Hvt Hr. unfold py_row. rewrite energy_py_fold by assumption.
  rewrite energy_py_diag by assumption. ug; ring.
Qed.

Lemma energy_py_pairs vt lam c terms : forall p s,
  bqm_vt vt -> respects (cvt vt) s ->
  energy (py_pairs vt lam c terms p) s
  = energy p s + (lam * two * c * lin_energy terms s + lam * sqsum terms s) + lam * offdiag terms s.
Proof.
  induction terms as [|t r IH]; intros p s Hvt Hr; cbn [py_pairs].
  - rewrite lin_energy_nil. cbn [sqsum offdiag]. ug; ring.
  - rewrite IH by assumption. rewrite energy_py_row by assumption.
    rewrite lin_energy_cons. cbn [sqsum offdiag]. ug; ring.
Qed.

Theorem add_eq_py_exact vt terms lam c p s :
  bqm_vt vt -> respects (cvt vt) s ->
  energy (add_eq_py vt terms lam c p) s
  = energy p s + lam * ((lin_sum terms s + c) * (lin_sum terms s + c)).
Proof.
  intros Hvt Hr. unfold add_eq_py, lin_sum.
  rewrite energy_add_offset, energy_py_pairs by assumption.
  rewrite penalty_expand. ug; ring.
Qed.

(* ---------- DQM ---------- *)

Lemma lin_energy_ins_term t l s :
  lin_energy (ins_term t l) s = snd t * s (fst t) + lin_energy l s.
Proof.
  induction l as [|u r IH]; cbn [ins_term].
  - reflexivity.
  - destruct (fst t <? fst u)%nat.
    + reflexivity.
    + destruct (Nat.eqb_spec (fst t) (fst u)) as [E|E].
      * rewrite !lin_energy_cons. cbn [fst snd]. rewrite E. ug; ring.
      * rewrite lin_energy_cons, IH, lin_energy_cons. ug; ring.
Qed.

Lemma lin_energy_merge_aux terms : forall acc s,
  lin_energy (fold_left (fun a t => ins_term t a) terms acc) s
  = lin_energy acc s + lin_energy terms s.
Proof.
  induction terms as [|t r IH]; intros acc s; cbn [fold_left].
  - rewrite lin_energy_nil. ug; ring.
  - rewrite IH, lin_energy_ins_term, lin_energy_cons. ug; ring.
Qed.

Lemma lin_energy_merge terms s : lin_energy (merge_terms terms) s = lin_energy terms s.
Proof. unfold merge_terms. rewrite lin_energy_merge_aux, lin_energy_nil. ug; ring. Qed.

Definition keys_sorted (l : list lterm) : Prop := StronglySorted lt (map fst l).

Lemma ins_term_lower k t l :
  (k < fst t)%nat -> Forall (lt k) (map fst l) -> Forall (lt k) (map fst (ins_term t l)).
Proof.
  intros Hk. induction l as [|u r IH]; intros Hl; cbn [ins_term map].
  - constructor; [exact Hk|constructor].
  - cbn [map] in Hl. inversion Hl as [|a b Ha Hb Heq]; subst.
    destruct (fst t <? fst u)%nat.
    + cbn [map]. constructor; [exact Hk|]. constructor; assumption.
    + destruct (fst t =? fst u)%nat; cbn [map fst].
      * constructor; assumption.
      * constructor; [assumption|]. apply IH. assumption.
Qed.

Lemma ins_term_sorted t l : keys_sorted l -> keys_sorted (ins_term t l).
Proof.
  unfold keys_sorted. induction l as [|u r IH]; intros Hs; cbn [ins_term map].
  - constructor; constructor.
  - cbn [map] in Hs. inversion Hs as [|a b Hb Ha Heq]; subst.
    destruct (Nat.ltb_spec (fst t) (fst u)) as [Hlt|Hge].
    + cbn [map]. constructor.
      * constructor; assumption.
      * constructor; [exact Hlt|]. eapply Forall_impl; [|exact Ha]. intros x Hx. lia.
    + destruct (Nat.eqb_spec (fst t) (fst u)) as [E|E]; cbn [map fst].
      * constructor; assumption.
      * constructor; [apply IH; assumption|]. apply ins_term_lower; [lia|assumption].
Qed.

Lemma merge_sorted_aux terms : forall acc,
  keys_sorted acc -> keys_sorted (fold_left (fun a t => ins_term t a) terms acc).
Proof.
  induction terms as [|t r IH]; intros acc Ha; cbn [fold_left]; [assumption|].
  apply IH. apply ins_term_sorted. assumption.
Qed.

Lemma merge_sorted terms : keys_sorted (merge_terms terms).
Proof. apply merge_sorted_aux. constructor. Qed.

Lemma onehot_respects grp s : onehot_sample grp s -> respects (cvt BINARY) s.
Proof. intros [H _] v. apply H. Qed.

Lemma energy_dqm_row grp lam t r : forall p s,
  onehot_sample grp s -> ~ In (fst t) (map fst r) ->
  energy (dqm_row grp lam t r p) s
  = energy p s + lam * (two * (snd t * s (fst t)) * lin_energy r s).
Proof.
  unfold dqm_row. induction r as [|u r IH]; intros p s Ho Hni; cbn [fold_left].
  - rewrite lin_energy_nil. ug; ring.
  - cbn [map In] in Hni. rewrite IH by tauto. rewrite lin_energy_cons.
    destruct (Nat.eqb_spec (grp (fst t)) (grp (fst u))) as [E|E].
    + destruct Ho as [_ Hz].
      assert (Hp : s (fst t) * s (fst u) = 0).
      { apply Hz; [|exact E]. intro X. apply Hni. left. symmetry. exact X. }
      transitivity (energy p s + lam * (two * snd t * snd u * (s (fst t) * s (fst u))
                                        + two * (snd t * s (fst t)) * lin_energy r s)).
      * rewrite Hp. ug; ring.
      * ug; ring.
    + rewrite energy_add_quadratic by (eapply onehot_respects; eassumption). ug; ring.
Qed.

Lemma energy_dqm_terms grp lam c terms : forall p s,
  onehot_sample grp s -> keys_sorted terms ->
  energy (dqm_terms grp lam c terms p) s
  = energy p s + (lam * two * c * lin_energy terms s + lam * sqsum terms s) + lam * offdiag terms s.
Proof.
  induction terms as [|t r IH]; intros p s Ho Hs; cbn [dqm_terms].
  - rewrite lin_energy_nil. cbn [sqsum offdiag]. ug; ring.
  - unfold keys_sorted in Hs. cbn [map] in Hs. inversion Hs as [|a b Hb Ha Heq]; subst.
    assert (Hni : ~ In (fst t) (map fst r)).
    { intro X. rewrite Forall_forall in Ha. specialize (Ha _ X). lia. }
    rewrite IH by assumption. rewrite energy_dqm_row by assumption.
    rewrite energy_add_linear. rewrite lin_energy_cons. cbn [sqsum offdiag].
    destruct Ho as [Hb' _]. rewrite (Hb' (fst t)). ug; ring.
Qed.

Theorem add_eq_dqm_exact grp terms lam c p s :
  onehot_sample grp s ->
  energy (add_eq_dqm grp terms lam c p) s
  = energy p s + lam * ((lin_sum terms s + c) * (lin_sum terms s + c)).
Proof.
  intros Ho. unfold add_eq_dqm, lin_sum.
  rewrite energy_dqm_terms by (try assumption; apply merge_sorted).
  rewrite energy_add_offset. rewrite <- (lin_energy_merge terms s).
  rewrite penalty_expand. ug; ring.
Qed.

(* ---------- penalization_method='unbalanced' ---------- *)

Lemma energy_fold_add_linear lam0 terms : forall p s,
  energy (fold_left (fun acc t => add_linear (fst t) (lam0 * snd t) acc) terms p) s
  = energy p s + lam0 * lin_energy terms s.
Proof.
  induction terms as [|t r IH]; intros p s; cbn [fold_left].
  - rewrite lin_energy_nil. ug; ring.
  - rewrite IH, energy_add_linear, lin_energy_cons. ug; ring.
Qed.

Theorem add_unbalanced_exact py vt terms lam0 lam1 ubc p s :
  bqm_vt vt -> respects (cvt vt) s ->
  energy (add_unbalanced py vt terms lam0 lam1 ubc p) s
  = energy p s + lam0 * lin_sum terms s - ubc
    + lam1 * ((lin_sum terms s - ubc) * (lin_sum terms s - ubc)).
Proof.
  intros Hvt Hr. unfold add_unbalanced.
  destruct py; [rewrite add_eq_py_exact by assumption|rewrite add_eq_cy_exact by assumption];
    rewrite energy_add_offset, energy_fold_add_linear; unfold lin_sum; ug; ring.
Qed.
