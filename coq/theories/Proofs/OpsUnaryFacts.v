(* C06: the translated unary minus / plus (__neg__, __pos__ of Gen/Gen_Ops.v run through the operator
   protocol of Model/Ops.v) compute what Model/Sym.v specifies, for every operand kind. *)
From Coq Require Import List ZArith QArith Qcanon Bool Arith Lia.
From Dimod Require Import Base.Util Model.Poly Model.Sym Model.OpsLang Gen.Gen_Ops Gen.Gen_AddVar Model.Ops
  Proofs.PolyFacts Proofs.SymFacts Proofs.OpsFacts Proofs.AddVarFacts.
Import ListNotations.
Open Scope Qc_scope.

Definition g_neg (a : val) : res val := disp FUEL (RNeg a).
Definition g_pos (a : val) : res val := disp FUEL (RPos a).

Local Opaque merge padd psub pneg scale add_offset pmul_linear pmul_linear_tab unexpected_pair real_interaction
  Qcplus Qcmult Qcopp Qcinv Qcminus Qcdiv qc qpow qis0 pzero gen_upd_err upd_err mul_err gen_mul_err.

Ltac go1 :=
  unfold g_neg, g_pos, g_op, g_iop, FUEL; cbn;
  repeat (first [ rewrite disp_S
                | progress unfold on_slot, p_update, product_bqm, product_qm
                | progress rewrite ?merge_gen
                | rewrite (merge_nil upd_err) by assumption
                | match goal with |- context [match merge ?f ?a ?b with _ => _ end] => destruct (merge f a b) eqn:? end
                | match goal with |- context [if ?c then _ else _] => destruct c eqn:? end ]; cbn).

Theorem g_neg_correct a : wfv a -> requiv (g_neg a) (v_neg a).
Proof.
  intros Wa. dest_val2 a; cbn in Wa; go1; cbn [v_neg m_scale m_cls m_tab m_poly]; finish.
Qed.

Theorem g_pos_correct a : wfv a -> requiv (g_pos a) (v_pos a).
Proof.
  intros Wa. dest_val2 a; cbn in Wa; go1; cbn [v_pos m_scale m_cls m_tab m_poly]; finish.
Qed.
