(* C05 - from_discrete_quadratic_model at the S level: one discrete constraint per DQM variable, in order, under the DQM
   variable's label, each a hard equality with right-hand side 1 carrying the discrete mark; the objective is the
   case-level model. *)
From Coq Require Import List ZArith QArith Qcanon Bool Arith Lia.
From Dimod Require Import Base.Util Model.Poly Model.CQMSpec.
Import ListNotations.

Lemma has_con_false_map l f ks :
  has_con l ks = false -> map (fun k => if (k_lbl k =? l)%nat then f k else k) ks = ks.
Proof.
  unfold has_con, find_con. induction ks as [|k r IH]; [reflexivity|]. cbn [find map].
  destruct (k_lbl k =? l)%nat; [discriminate|]. intros H. rewrite IH by exact H. reflexivity.
Qed.

(* one discrete constraint appended *)
Lemma add_discrete_iter_shape ls l chk q q' :
  add_discrete_iter ls l chk q = (q', XNone) ->
  exists k, q_cons q' = q_cons q ++ [k] /\ k_lbl k = l /\ k_sense k = EQ /\ k_rhs k = 1%Qc /\ k_soft k = None /\ k_mark k = true
            /\ q_obj q' = q_obj q.
Proof.
  unfold add_discrete_iter. destruct (has_con l (q_cons q)) eqn:HC; [discriminate|].
  destruct (existsb _ ls); [discriminate|].
  set (dl := rev (nodup Nat.eq_dec (rev ls))). set (d := mkDesc _ _ _ _).
  unfold add_con_model. rewrite HC. destruct (negb (merge_ok (q_vars q) (d_vars d))); [discriminate|].
  unfold append_con. cbn [fst snd]. intros H. injection H as <-.
  eexists. unfold upd_con, set_cons, set_vars. cbn [q_cons q_obj q_vars]. rewrite map_app. cbn [map k_lbl]. rewrite Nat.eqb_refl.
  rewrite (has_con_false_map l _ (q_cons q) HC). split; [reflexivity|]. cbn [con_set_mark k_lbl k_sense k_rhs k_soft k_mark].
  repeat split; reflexivity.
Qed.

Theorem add_groups_shape gs : forall q q',
  add_groups gs q = (q', XNone) ->
  map k_lbl (q_cons q') = map k_lbl (q_cons q) ++ map fst gs
  /\ map k_mark (q_cons q') = map k_mark (q_cons q) ++ map (fun _ => true) gs
  /\ map k_sense (q_cons q') = map k_sense (q_cons q) ++ map (fun _ => EQ) gs
  /\ map k_rhs (q_cons q') = map k_rhs (q_cons q) ++ map (fun _ => 1%Qc) gs
  /\ q_obj q' = q_obj q.
Proof.
  induction gs as [|g r IH]; intros q q' H; cbn [add_groups] in H.
  - injection H as <-. cbn [map]. rewrite !app_nil_r. repeat split; reflexivity.
  - destruct (add_discrete_iter (snd g) (fst g) false q) as [q1 e] eqn:E. destruct e; try discriminate.
    apply add_discrete_iter_shape in E. destruct E as [k [Ek [E1 [E2 [E3 [E4 [E5 E6]]]]]]].
    destruct (IH q1 q' H) as [A [B [C [D F]]]]. rewrite A, B, C, D, F, Ek, !map_app. cbn [map]. rewrite E1, E2, E3, E5, E6, <- !app_assoc.
    repeat split; reflexivity.
Qed.

Theorem from_dqm_shape d gs q' :
  from_dqm d gs = (q', XNone) ->
  map k_lbl (q_cons q') = map fst gs
  /\ map k_mark (q_cons q') = map (fun _ => true) gs
  /\ map k_sense (q_cons q') = map (fun _ => EQ) gs
  /\ map k_rhs (q_cons q') = map (fun _ => 1%Qc) gs
  /\ q_obj q' = desc_poly (vt_of (merge_vars [] (d_vars d))) d.
Proof.
  unfold from_dqm. destruct (negb (merge_ok [] (d_vars d))); [discriminate|]. intros H.
  apply add_groups_shape in H. cbn [q_cons q_obj map app] in H. exact H.
Qed.

Print Assumptions add_groups_shape.
Print Assumptions from_dqm_shape.
