(* Facts about Variables.__getitem__(slice): the model of cyvariables.pyx selects exactly
   the labels Python list slicing selects, never raises for a non-zero step, and
   returns a well-formed container. *)
From Coq Require Import List ZArith Bool Arith Lia.
From Dimod Require Import Model.Vars Model.ChkC13 Proofs.VarsFacts.
Import ListNotations.

Section ZPart.
Local Open Scope Z_scope.

Lemma adjust_pos x n s b : 0 <= n -> 0 < s -> 0 <= adjust x n s b <= n.
Proof.
  intros Hn Hs. unfold adjust. destruct x as [a|].
  - destruct (a <? 0) eqn:E1.
    + destruct (a + n <? 0) eqn:E2.
      * destruct (s <? 0) eqn:E3; lia.
      * lia.
    + destruct (n <=? a) eqn:E2.
      * destruct (s <? 0) eqn:E3; lia.
      * lia.
  - destruct (s <? 0) eqn:E3; [lia|]. destruct b; lia.
Qed.

Lemma adjust_neg x n s b : 0 <= n -> s < 0 -> -1 <= adjust x n s b <= n - 1.
Proof.
  intros Hn Hs. unfold adjust. destruct x as [a|].
  - destruct (a <? 0) eqn:E1.
    + destruct (a + n <? 0) eqn:E2.
      * destruct (s <? 0) eqn:E3; lia.
      * lia.
    + destruct (n <=? a) eqn:E2.
      * destruct (s <? 0) eqn:E3; lia.
      * lia.
  - destruct (s <? 0) eqn:E3; [|lia]. destruct b; lia.
Qed.

Lemma zrange_len_nonneg a b s : s <> 0 -> 0 <= zrange_len a b s.
Proof.
  intro Hs. unfold zrange_len.
  destruct (0 <? s) eqn:E1.
  - destruct (a <? b) eqn:E2; [|lia].
    assert (0 <= (b - a - 1) / s) by (apply Z.div_pos; lia). lia.
  - destruct (b <? a) eqn:E2; [|lia].
    assert (0 <= (a - b - 1) / (- s)) by (apply Z.div_pos; lia). lia.
Qed.

(* k is a valid step count iff the k-th element has not reached the bound *)
Lemma zrange_len_spec a b s k : s <> 0 -> 0 <= k ->
  (k < zrange_len a b s <-> if 0 <? s then a + k * s < b else b < a + k * s).
Proof.
  intros Hs Hk. unfold zrange_len.
  destruct (0 <? s) eqn:E1.
  - assert (0 < s) by lia.
    destruct (a <? b) eqn:E2.
    + pose proof (Z.div_mod (b - a - 1) s ltac:(lia)) as Hd.
      pose proof (Z.mod_pos_bound (b - a - 1) s ltac:(lia)) as Hm.
      split; intro H1; nia.
    + split; intro H1; nia.
  - assert (s < 0) by lia.
    destruct (b <? a) eqn:E2.
    + pose proof (Z.div_mod (a - b - 1) (- s) ltac:(lia)) as Hd.
      pose proof (Z.mod_pos_bound (a - b - 1) (- s) ltac:(lia)) as Hm.
      split; intro H1; nia.
    + split; intro H1; nia.
Qed.

Lemma zrange_in a b s z : s <> 0 ->
  (In z (zrange a b s) <->
   exists k, 0 <= k /\ z = a + k * s /\ (if 0 <? s then z < b else b < z)).
Proof.
  intro Hs. unfold zrange. rewrite in_map_iff. split.
  - intros [k [<- Hk]]. apply in_seq in Hk. exists (Z.of_nat k).
    split; [lia|]. split; [reflexivity|].
    apply (zrange_len_spec a b s (Z.of_nat k) Hs); [lia|].
    pose proof (zrange_len_nonneg a b s Hs). lia.
  - intros [k [Hk [-> Hb]]]. exists (Z.to_nat k). split; [rewrite Z2Nat.id; lia|].
    apply in_seq. apply (zrange_len_spec a b s k Hs Hk) in Hb.
    pose proof (zrange_len_nonneg a b s Hs). lia.
Qed.

Lemma zrange_nodup a b s : s <> 0 -> NoDup (zrange a b s).
Proof.
  intro Hs. unfold zrange. apply FinFun.Injective_map_NoDup; [|apply seq_NoDup].
  intros x y H. nia.
Qed.

Lemma zrange_length a b s : length (zrange a b s) = Z.to_nat (zrange_len a b s).
Proof. unfold zrange. now rewrite map_length, seq_length. Qed.

(* every index a slice visits is a position of the container *)
Lemma slice_indices_in_range v a b s z :
  let '(lo, hi, st) := slice_bounds v a b s in
  st <> 0 -> In z (zrange lo hi st) -> 0 <= z < Z.of_nat (stop v).
Proof.
  unfold slice_bounds. set (st := match s with None => 1 | Some x => x end).
  set (n := Z.of_nat (stop v)). intros Hs Hin.
  apply zrange_in in Hin; [|assumption]. destruct Hin as [k [Hk [-> Hb]]].
  assert (Hn : 0 <= n) by (unfold n; lia).
  destruct (0 <? st) eqn:E.
  - pose proof (adjust_pos a n st false Hn ltac:(lia)).
    pose proof (adjust_pos b n st true Hn ltac:(lia)). nia.
  - pose proof (adjust_neg a n st false Hn ltac:(lia)).
    pose proof (adjust_neg b n st true Hn ltac:(lia)). nia.
Qed.
End ZPart.

Lemma to_list_empty : to_list empty = [].
Proof. reflexivity. Qed.

Lemma at_checked_in v z : (0 <= z < Z.of_nat (stop v))%Z -> at_checked v z = Ok (at_ v (Z.to_nat z)).
Proof.
  intro H. unfold at_checked. destruct (z <? 0)%Z eqn:E; [lia|].
  unfold in_range. destruct (0 <=? z)%Z eqn:E1; [|lia]. destruct (z <? Z.of_nat (stop v))%Z eqn:E2; [|lia].
  reflexivity.
Qed.

Lemma ats_ok v zs : (forall z, In z zs -> (0 <= z < Z.of_nat (stop v))%Z) ->
  ats v zs = Ok (map (fun z => at_ v (Z.to_nat z)) zs).
Proof.
  induction zs as [|z r IH]; intro H; cbn [ats map]; [reflexivity|].
  rewrite at_checked_in by (apply H; now left).
  rewrite IH by (intros y Hy; apply H; now right). reflexivity.
Qed.

Lemma ats_nodup v zs : wf v -> NoDup zs -> (forall z, In z zs -> (0 <= z < Z.of_nat (stop v))%Z) ->
  NoDup (map (fun z => at_ v (Z.to_nat z)) zs).
Proof.
  intros Hwf Hnd. induction Hnd as [|z r Hnin Hnd IH]; intro H; cbn [map]; constructor.
  - intro Hin. apply in_map_iff in Hin. destruct Hin as [y [Hy Hyr]].
    assert (Hz := H z (or_introl eq_refl)). assert (Hy' := H y (or_intror Hyr)).
    apply (at_inj v) in Hy; [|assumption|lia|lia].
    assert (y = z) by lia. subst. contradiction.
  - apply IH. intros y Hy. apply H. now right.
Qed.

(* strict extension succeeds exactly on fresh, pairwise distinct labels *)
Lemma extend_fresh ls : forall v, wf v -> NoDup ls -> (forall l, In l ls -> ~ In l (to_list v)) ->
  exists v', extend v ls false = Ok v' /\ wf v' /\ to_list v' = to_list v ++ ls.
Proof.
  induction ls as [|l r IH]; intros v Hwf Hnd Hfresh; cbn [extend].
  - exists v. rewrite app_nil_r. auto.
  - inversion Hnd as [|? ? Hnin Hnd']; subst.
    assert (Hc : count v l = false) by (apply count_false; [assumption|apply Hfresh; now left]).
    destruct (append_new v l false Hwf Hc) as [E [Hl Hw]]. rewrite E.
    destruct (IH (store v l) Hw Hnd') as [v' [E' [Hw' Hl']]].
    + intros x Hx. rewrite Hl. intro Hin. apply in_app_or in Hin. destruct Hin as [Hin|[->|[]]].
      * apply (Hfresh x); [now right|assumption].
      * contradiction.
    + exists v'. split; [assumption|]. split; [assumption|]. rewrite Hl', Hl, <- app_assoc. reflexivity.
Qed.

Lemma getitem_slice_zero v a b s : slice_step s = 0%Z -> getitem_slice v a b s = Err.
Proof. unfold getitem_slice, slice_bounds, slice_step. intros ->. reflexivity. Qed.

Lemma getitem_slice_ok v a b s : wf v -> slice_step s <> 0%Z ->
  exists v', getitem_slice v a b s = Ok v' /\ wf v' /\ to_list v' = slice_labels v a b s.
Proof.
  intros Hwf Hs. pose proof (slice_indices_in_range v a b s) as Hr.
  unfold getitem_slice, slice_labels. unfold slice_bounds in *. fold (slice_step s) in *.
  set (lo := adjust a _ _ false) in *. set (hi := adjust b _ _ true) in *.
  destruct (slice_step s =? 0)%Z eqn:E; [apply Z.eqb_eq in E; contradiction|].
  rewrite ats_ok by (intros z Hz; now apply Hr).
  destruct (extend_fresh (map (fun z => at_ v (Z.to_nat z)) (zrange lo hi (slice_step s))) empty wf_empty) as [v' [E' [Hw Hl]]].
  - apply ats_nodup; [assumption|now apply zrange_nodup|]. intros z Hz. now apply Hr.
  - intros l _ [].
  - exists v'. auto.
Qed.

(* the selected labels, read off the label list itself *)
Lemma slice_labels_nth v a b s d : slice_step s <> 0%Z ->
  slice_labels v a b s =
  let '(lo, hi, st) := slice_bounds v a b s in
  map (fun z => nth (Z.to_nat z) (to_list v) d) (zrange lo hi st).
Proof.
  intro Hs. pose proof (slice_indices_in_range v a b s) as Hr.
  unfold slice_labels. unfold slice_bounds in *. fold (slice_step s) in *.
  apply map_ext_in. intros z Hz. specialize (Hr z Hs Hz).
  rewrite nth_to_list by lia. reflexivity.
Qed.

Lemma map_nth_window {A} (d : A) : forall (l : list A) lo hi, hi <= length l ->
  map (fun k => nth (lo + k) l d) (seq 0 (hi - lo)) = skipn lo (firstn hi l).
Proof.
  induction l as [|x l IH]; intros lo hi Hh.
  - cbn [length] in Hh. assert (hi = 0) by lia. subst. cbn. now destruct lo.
  - destruct hi as [|hi]; [cbn; now destruct lo|].
    cbn [length] in Hh. destruct lo as [|lo].
    + cbn [firstn skipn]. rewrite Nat.sub_0_r. cbn [seq map nth Nat.add]. f_equal.
      rewrite <- seq_shift, map_map. specialize (IH 0 hi ltac:(lia)).
      rewrite Nat.sub_0_r in IH. cbn [skipn] in IH. rewrite <- IH. apply map_ext. intro k. reflexivity.
    + cbn [firstn skipn]. rewrite Nat.sub_succ. rewrite <- (IH lo hi ltac:(lia)).
      apply map_ext. intro k. reflexivity.
Qed.

(* step 1 (or omitted): the slice is a window of the label list *)
Lemma slice_labels_step1 v a b s : slice_step s = 1%Z ->
  let n := Z.of_nat (stop v) in
  slice_labels v a b s =
  skipn (Z.to_nat (adjust a n 1 false)) (firstn (Z.to_nat (adjust b n 1 true)) (to_list v)).
Proof.
  intros Hs n. unfold slice_labels, slice_bounds. fold (slice_step s). rewrite Hs. fold n.
  assert (Hn : (0 <= n)%Z) by (unfold n; lia).
  pose proof (adjust_pos a n 1 false Hn ltac:(lia)) as Ha.
  pose proof (adjust_pos b n 1 true Hn ltac:(lia)) as Hb.
  set (lo := adjust a n 1 false) in *. set (hi := adjust b n 1 true) in *.
  rewrite <- (map_nth_window (LI 0%Z) (to_list v) (Z.to_nat lo) (Z.to_nat hi)); [|rewrite to_list_length; lia].
  unfold zrange. rewrite map_map.
  assert (El : Z.to_nat (zrange_len lo hi 1) = Z.to_nat hi - Z.to_nat lo).
  { unfold zrange_len. cbn [Z.ltb Z.compare]. destruct (lo <? hi)%Z eqn:E.
    - rewrite Z.div_1_r. lia.
    - lia. }
  rewrite El. apply map_ext_in. intros k Hk. apply in_seq in Hk.
  rewrite nth_to_list by lia. f_equal. lia.
Qed.

Lemma rev_map_seq {A} (f : nat -> A) n :
  rev (map f (seq 0 n)) = map (fun k => f (n - 1 - k)) (seq 0 n).
Proof.
  induction n as [|n IH]; [reflexivity|].
  rewrite seq_S, map_app, rev_app_distr. cbn [map rev app Nat.add].
  rewrite IH. rewrite <- seq_S. cbn [seq map]. f_equal.
  - f_equal. lia.
  - rewrite <- seq_shift, map_map. apply map_ext. intro k. f_equal. lia.
Qed.

(* v[::-1] is the reversed label list *)
Lemma slice_labels_reverse v : slice_labels v None None (Some (-1)%Z) = rev (to_list v).
Proof.
  unfold slice_labels, slice_bounds, adjust. cbn [Z.ltb Z.compare].
  unfold to_list. rewrite rev_map_seq. unfold zrange. rewrite map_map.
  assert (El : Z.to_nat (zrange_len (Z.of_nat (stop v) - 1) (-1) (-1)) = stop v).
  { unfold zrange_len. cbn [Z.ltb Z.compare Z.opp]. destruct (-1 <? Z.of_nat (stop v) - 1)%Z eqn:E.
    - rewrite Z.div_1_r. lia.
    - lia. }
  rewrite El. apply map_ext_in. intros k Hk. apply in_seq in Hk. f_equal. lia.
Qed.

(* whole, prefix, suffix and drop-from-the-end slices in list vocabulary *)
Lemma slice_labels_all v : slice_labels v None None None = to_list v.
Proof.
  rewrite slice_labels_step1 by reflexivity. unfold adjust. cbn [Z.ltb Z.compare].
  rewrite Nat2Z.id. cbn [Z.to_nat skipn]. apply firstn_all2. rewrite to_list_length. lia.
Qed.

Lemma slice_labels_prefix v k : k <= stop v ->
  slice_labels v None (Some (Z.of_nat k)) None = firstn k (to_list v).
Proof.
  intro Hk. rewrite slice_labels_step1 by reflexivity. unfold adjust. cbn [Z.ltb Z.compare skipn Z.to_nat].
  destruct (Z.of_nat k <? 0)%Z eqn:E; [lia|].
  destruct (Z.of_nat (stop v) <=? Z.of_nat k)%Z eqn:E2.
  - assert (k = stop v) by lia. subst. now rewrite Nat2Z.id.
  - now rewrite Nat2Z.id.
Qed.

Lemma slice_labels_suffix v k : k <= stop v ->
  slice_labels v (Some (Z.of_nat k)) None None = skipn k (to_list v).
Proof.
  intro Hk. rewrite slice_labels_step1 by reflexivity. unfold adjust. cbn [Z.ltb Z.compare].
  rewrite Nat2Z.id, firstn_all2 by (rewrite to_list_length; lia).
  destruct (Z.of_nat k <? 0)%Z eqn:E; [lia|].
  destruct (Z.of_nat (stop v) <=? Z.of_nat k)%Z eqn:E2.
  - assert (k = stop v) by lia. subst. now rewrite Nat2Z.id.
  - now rewrite Nat2Z.id.
Qed.

(* v[:-k] drops the last k labels *)
Lemma slice_labels_drop_last v k : 0 < k <= stop v ->
  slice_labels v None (Some (- Z.of_nat k)%Z) None = firstn (stop v - k) (to_list v).
Proof.
  intro Hk. rewrite slice_labels_step1 by reflexivity. unfold adjust. cbn [Z.ltb Z.compare skipn Z.to_nat].
  destruct (- Z.of_nat k <? 0)%Z eqn:E; [|lia].
  destruct (- Z.of_nat k + Z.of_nat (stop v) <? 0)%Z eqn:E2; [lia|].
  f_equal. lia.
Qed.

(* out-of-range bounds are clipped, never an error: v[-m:M] with m, M >= len is everything *)
Lemma slice_labels_clipped v m M : (Z.of_nat (stop v) <= m)%Z -> (Z.of_nat (stop v) <= M)%Z ->
  slice_labels v (Some (- m)%Z) (Some M) None = to_list v.
Proof.
  intros Hm HM. rewrite slice_labels_step1 by reflexivity. unfold adjust. cbn [Z.ltb Z.compare].
  destruct (M <? 0)%Z eqn:E1; [lia|]. destruct (Z.of_nat (stop v) <=? M)%Z eqn:E2; [|lia].
  rewrite Nat2Z.id, firstn_all2 by (rewrite to_list_length; lia).
  destruct (- m <? 0)%Z eqn:E3.
  - destruct (- m + Z.of_nat (stop v) <? 0)%Z eqn:E4; [reflexivity|].
    assert (- m + Z.of_nat (stop v) = 0)%Z by lia. now rewrite H.
  - destruct (Z.of_nat (stop v) <=? - m)%Z eqn:E4; [|lia].
    assert (stop v = 0) by lia. rewrite H. cbn. destruct (to_list v) eqn:El; [reflexivity|].
    pose proof (to_list_length v) as Hl. rewrite El, H in Hl. discriminate.
Qed.
