(* The structural invariant of the adjacency model: Prop-level reading of
   inv_b, and its preservation by every mutator of Model/Adj.v. *)
From Coq Require Import List ZArith QArith Qcanon Bool Arith Lia Sorted.
From Dimod Require Import Base.Util Model.Poly Model.Adj Proofs.AdjNb.
Import ListNotations.
Local Open Scope nat_scope.

(* ---------- readable invariant ---------- *)
Definition InvP (m : qm) : Prop :=
  length (adj m) = nvars m /\
  length (vts m) = nvars m /\
  (forall u, u < nvars m -> StronglySorted lt (map fst (nb m u))) /\
  (forall u w b, u < nvars m -> In (w, b) (nb m u) -> w < nvars m) /\
  (forall u w b, u < nvars m -> In (w, b) (nb m u) -> nb_get u (nb m w) = Some b) /\
  (forall u, u < nvars m -> is_binspin (vt_at m u) = true -> has_interaction m u u = false).

Lemma forallb_seq0 f n : forallb f (seq 0 n) = true <-> forall u, u < n -> f u = true.
Proof.
  rewrite forallb_forall. split; intros H u Hu; apply H; [apply in_seq; lia|apply in_seq in Hu; lia].
Qed.

Lemma forallb_nth {A} (f : A -> bool) l d :
  forallb f l = true <-> forall u, u < length l -> f (nth u l d) = true.
Proof.
  rewrite forallb_forall. split.
  - intros H u Hu. apply H, nth_In, Hu.
  - intros H x Hx. destruct (In_nth l x d Hx) as [u [Hu <-]]. auto.
Qed.

Lemma Qc_eqb_eq a b : Qc_eqb a b = true <-> a = b.
Proof.
  unfold Qc_eqb. rewrite Qeq_bool_iff. split; [apply Qc_is_canon|intros ->; reflexivity].
Qed.

Lemma option_eqb_Some o b : option_eqb Qc_eqb o (Some b) = true <-> o = Some b.
Proof.
  destruct o as [c|]; cbn [option_eqb].
  - rewrite Qc_eqb_eq. split; [intros ->; reflexivity|intros [= ->]; reflexivity].
  - split; discriminate.
Qed.

Theorem inv_b_iff m : inv_b m = true <-> InvP m.
Proof.
  unfold inv_b, InvP. rewrite !andb_true_iff, !Nat.eqb_eq.
  rewrite (forallb_nth strictly_sorted (adj m) []).
  rewrite (forallb_nth _ (adj m) []).
  rewrite !forallb_seq0. fold (nb m).
  split.
  - intros [[[[[H1 H2] H3] H4] H5] H6]. rewrite H1 in H3, H4.
    split; [exact H1|]. split; [exact H2|]. split; [|split; [|split]].
    + intros u Hu. apply strictly_sorted_iff. apply H3, Hu.
    + intros u w b Hu Hin. specialize (H4 u Hu). rewrite forallb_forall in H4.
      specialize (H4 _ Hin). apply Nat.ltb_lt in H4. exact H4.
    + intros u w b Hu Hin. specialize (H5 u Hu). rewrite forallb_forall in H5.
      specialize (H5 _ Hin). apply option_eqb_Some in H5. exact H5.
    + intros u Hu Hb. specialize (H6 u Hu). rewrite Hb in H6.
      destruct (has_interaction m u u); [discriminate|reflexivity].
  - intros [H1 [H2 [H3 [H4 [H5 H6]]]]]. rewrite H1.
    split; [split; [split; [split; [split|]|]|]|]; try assumption; try reflexivity.
    + intros u Hu. apply strictly_sorted_iff. apply H3, Hu.
    + intros u Hu. apply forallb_forall. intros [w b] Hin. apply Nat.ltb_lt. eapply H4; eassumption.
    + intros u Hu. apply forallb_forall. intros [w b] Hin. apply option_eqb_Some. cbn [fst snd]. auto.
    + intros u Hu. destruct (is_binspin (vt_at m u)) eqn:E; [|reflexivity].
      rewrite (H6 u Hu E). reflexivity.
Qed.

Corollary Inv_iff m : Inv m <-> InvP m.
Proof. apply inv_b_iff. Qed.

(* ---------- working form: everything through lookups, no range guards ---------- *)
Definition AdjOK (N : nat) (vt : nat -> vartype) (a : list nbh) : Prop :=
  length a = N /\
  (forall u, ksorted (nth u a [])) /\
  (forall u w b, nb_get w (nth u a []) = Some b -> w < N) /\
  (forall u w b, nb_get w (nth u a []) = Some b -> nb_get u (nth w a []) = Some b) /\
  (forall u, is_binspin (vt u) = true -> nb_get u (nth u a []) = None).

Definition InvG (m : qm) : Prop :=
  length (vts m) = nvars m /\ AdjOK (nvars m) (vt_at m) (adj m).

Lemma get_lt_len (a : list nbh) u w b : nb_get w (nth u a []) = Some b -> u < length a.
Proof.
  intros H. destruct (Nat.lt_ge_cases u (length a)) as [L|L]; [exact L|].
  rewrite nth_overflow in H by exact L. discriminate.
Qed.

Lemma InvP_InvG m : InvP m <-> InvG m.
Proof.
  unfold InvP, InvG, AdjOK. fold (ksorted). unfold nb. split.
  - intros [H1 [H2 [H3 [H4 [H5 H6]]]]]. split; [exact H2|]. split; [exact H1|].
    assert (HS : forall u, ksorted (nth u (adj m) [])).
    { intros u. destruct (Nat.lt_ge_cases u (nvars m)) as [L|L]; [apply H3, L|].
      rewrite nth_overflow by lia. apply ksorted_nil. }
    split; [exact HS|]. split; [|split].
    + intros u w b Hg. pose proof (get_lt_len _ _ _ _ Hg) as Hu. rewrite H1 in Hu.
      apply nb_get_In_1 in Hg. eapply H4; eassumption.
    + intros u w b Hg. pose proof (get_lt_len _ _ _ _ Hg) as Hu. rewrite H1 in Hu.
      apply nb_get_In_1 in Hg. eapply H5; eassumption.
    + intros u Hb. destruct (Nat.lt_ge_cases u (nvars m)) as [L|L].
      * specialize (H6 u L Hb). unfold has_interaction, nb in H6.
        destruct (nb_get u (nth u (adj m) [])); [discriminate|reflexivity].
      * rewrite nth_overflow by lia. reflexivity.
  - intros [H2 [H1 [H3 [H4 [H5 H6]]]]]. split; [exact H1|]. split; [exact H2|].
    split; [|split; [|split]].
    + intros u _. apply H3.
    + intros u w b _ Hin. apply (H4 u w b). apply nb_get_In_2; [apply H3|exact Hin].
    + intros u w b _ Hin. apply H5. apply nb_get_In_2; [apply H3|exact Hin].
    + intros u _ Hb. unfold has_interaction, nb. rewrite (H6 u Hb). reflexivity.
Qed.

Lemma Inv_InvG m : Inv m <-> InvG m.
Proof. rewrite Inv_iff. apply InvP_InvG. Qed.

(* ---------- facts about a well formed adjacency ---------- *)
Lemma AdjOK_sym_eq N vt a u v : AdjOK N vt a -> nb_get v (nth u a []) = nb_get u (nth v a []).
Proof.
  intros [_ [_ [_ [Hsy _]]]].
  destruct (nb_get v (nth u a [])) as [b|] eqn:E1.
  - symmetry. apply Hsy. exact E1.
  - destruct (nb_get u (nth v a [])) as [b|] eqn:E2; [|reflexivity].
    apply Hsy in E2. congruence.
Qed.

Lemma AdjOK_vt N vt vt' a :
  (forall x, x < N -> vt' x = vt x) -> AdjOK N vt a -> AdjOK N vt' a.
Proof.
  intros Hv [H1 [H2 [H3 [H4 H5]]]]. repeat split; try assumption.
  intros u Hb. destruct (Nat.lt_ge_cases u N) as [L|L].
  - apply H5. rewrite <- Hv by exact L. exact Hb.
  - rewrite nth_overflow by lia. reflexivity.
Qed.

Lemma AdjOK_grow N vt a d : AdjOK N vt a -> AdjOK (N + d) vt (a ++ repeat [] d).
Proof.
  intros [H1 [H2 [H3 [H4 H5]]]]. unfold AdjOK.
  rewrite app_length, repeat_length, H1. split; [reflexivity|].
  split; [|split; [|split]]; intros u; rewrite ?nth_app_repeat.
  - apply H2.
  - intros w b Hg. specialize (H3 u w b Hg). lia.
  - intros w b Hg. rewrite nth_app_repeat. apply H4, Hg.
  - apply H5.
Qed.

Lemma AdjOK_nil vt : AdjOK 0 vt [].
Proof.
  unfold AdjOK. split; [reflexivity|].
  split; [|split; [|split]]; intros u; destruct u; cbn [nth nb_get];
    try discriminate; try reflexivity; apply ksorted_nil.
Qed.

(* ---------- upsert ---------- *)
Lemma nth_upsert_both f u v (a : list nbh) x :
  u <> v -> u < length a -> v < length a ->
  nth x (upsert_both f u v a) [] =
  if x =? v then nb_upsert f u (nth v a [])
  else if x =? u then nb_upsert f v (nth u a []) else nth x a [].
Proof.
  intros Hne Hu Hv. unfold upsert_both.
  destruct (Nat.eqb_spec x v) as [->|Nv].
  - rewrite nth_upd_nth_same by (rewrite upd_nth_length; exact Hv).
    rewrite nth_upd_nth_other by congruence. reflexivity.
  - rewrite nth_upd_nth_other by exact Nv. destruct (Nat.eqb_spec x u) as [->|Nu].
    + apply nth_upd_nth_same. exact Hu.
    + apply nth_upd_nth_other. exact Nu.
Qed.

Lemma get_upsert_both f u v (a : list nbh) x y :
  u <> v -> u < length a -> v < length a ->
  nb_get y (nth x (upsert_both f u v a) []) =
  if (x =? v) && (y =? u) then Some (f (odef (nb_get u (nth v a []))))
  else if (x =? u) && (y =? v) then Some (f (odef (nb_get v (nth u a []))))
  else nb_get y (nth x a []).
Proof.
  intros Hne Hu Hv. rewrite nth_upsert_both by assumption.
  destruct (Nat.eqb_spec x v) as [->|Nv]; cbn [andb].
  - destruct (Nat.eqb_spec y u) as [->|Ny].
    + apply nb_get_upsert_same.
    + destruct (Nat.eqb_spec v u) as [E|_]; [congruence|]. cbn [andb].
      apply nb_get_upsert_other. exact Ny.
  - destruct (Nat.eqb_spec x u) as [->|Nu]; cbn [andb]; [|reflexivity].
    destruct (Nat.eqb_spec y v) as [->|Ny].
    + apply nb_get_upsert_same.
    + apply nb_get_upsert_other. exact Ny.
Qed.

Lemma get_upsert_self f u (a : list nbh) x y :
  u < length a ->
  nb_get y (nth x (upd_nth u (nb_upsert f u) a) []) =
  if (x =? u) && (y =? u) then Some (f (odef (nb_get u (nth u a []))))
  else nb_get y (nth x a []).
Proof.
  intros Hu. destruct (Nat.eqb_spec x u) as [->|Nu]; cbn [andb].
  - rewrite nth_upd_nth_same by exact Hu. destruct (Nat.eqb_spec y u) as [->|Ny].
    + apply nb_get_upsert_same.
    + apply nb_get_upsert_other. exact Ny.
  - rewrite nth_upd_nth_other by exact Nu. reflexivity.
Qed.

Ltac eqb_cases :=
  repeat match goal with
         | |- context [?a =? ?b] =>
             destruct (Nat.eqb_spec a b); [first [subst a|subst b|idtac]|]; cbn [andb orb negb] in *
         | H : context [?a =? ?b] |- _ =>
             destruct (Nat.eqb_spec a b); [first [subst a|subst b|idtac]|]; cbn [andb orb negb] in *
         end.

Lemma AdjOK_upsert_both N vt a f u v :
  AdjOK N vt a -> u <> v -> u < N -> v < N -> AdjOK N vt (upsert_both f u v a).
Proof.
  intros HA Hne Hu Hv. pose proof (AdjOK_sym_eq _ _ _ u v HA) as Hsym.
  destruct HA as [H1 [H2 [H3 [H4 H5]]]]. rewrite <- H1 in Hu, Hv.
  split; [|split; [|split; [|split]]].
  - unfold upsert_both. rewrite !upd_nth_length. exact H1.
  - intros x. rewrite nth_upsert_both by assumption.
    destruct (x =? v); [|destruct (x =? u)]; try apply nb_upsert_sorted; apply H2.
  - intros x y b. rewrite get_upsert_both by assumption. rewrite <- H1.
    destruct ((x =? v) && (y =? u)) eqn:E1; [|destruct ((x =? u) && (y =? v)) eqn:E2].
    + apply andb_true_iff in E1. destruct E1 as [_ E]. apply Nat.eqb_eq in E. subst. intros _. exact Hu.
    + apply andb_true_iff in E2. destruct E2 as [_ E]. apply Nat.eqb_eq in E. subst. intros _. exact Hv.
    + rewrite H1. apply H3.
  - intros x y b. rewrite !get_upsert_both by assumption. rewrite Hsym.
    intros Hg. eqb_cases; try congruence; try (apply H4; exact Hg).
  - intros x Hb. rewrite get_upsert_both by assumption. eqb_cases; try congruence; apply H5, Hb.
Qed.

Lemma AdjOK_upsert_self N vt a f u :
  AdjOK N vt a -> u < N -> is_binspin (vt u) = false -> AdjOK N vt (upd_nth u (nb_upsert f u) a).
Proof.
  intros [H1 [H2 [H3 [H4 H5]]]] Hu Hnb. rewrite <- H1 in Hu.
  split; [|split; [|split; [|split]]].
  - rewrite upd_nth_length. exact H1.
  - intros x. destruct (Nat.eq_dec x u) as [->|Nx].
    + rewrite nth_upd_nth_same by exact Hu. apply nb_upsert_sorted, H2.
    + rewrite nth_upd_nth_other by exact Nx. apply H2.
  - intros x y b. rewrite get_upsert_self by assumption.
    destruct (Nat.eqb_spec y u) as [->|Ny]; [intros _; lia|]. rewrite andb_false_r. apply H3.
  - intros x y b. rewrite !get_upsert_self by assumption.
    intros Hg. eqb_cases; try congruence; try (apply H4; exact Hg).
  - intros x Hb. rewrite get_upsert_self by assumption. eqb_cases; try congruence; apply H5, Hb.
Qed.

(* ---------- erase ---------- *)
Lemma nth_upd_nth_nil (F : nbh -> nbh) i (a : list nbh) :
  F [] = [] -> nth i (upd_nth i F a) [] = F (nth i a []).
Proof.
  intros HF. destruct (Nat.lt_ge_cases i (length a)) as [L|L].
  - apply nth_upd_nth_same, L.
  - rewrite upd_nth_oob by exact L. rewrite nth_overflow by exact L. symmetry. exact HF.
Qed.

Definition erase_both (u v : nat) (a : list nbh) : list nbh :=
  let a1 := upd_nth u (nb_erase v) a in if u =? v then a1 else upd_nth v (nb_erase u) a1.

Lemma get_erase_both u v (a : list nbh) x y :
  (forall k, ksorted (nth k a [])) ->
  nb_get y (nth x (erase_both u v a) []) =
  if ((x =? u) && (y =? v)) || ((x =? v) && (y =? u)) then None else nb_get y (nth x a []).
Proof.
  intros Hs. unfold erase_both. destruct (Nat.eqb_spec u v) as [->|Huv].
  - destruct (Nat.eqb_spec x v) as [->|Nx]; cbn [andb orb].
    + rewrite nth_upd_nth_nil by reflexivity. destruct (Nat.eqb_spec y v) as [->|Ny]; cbn [orb].
      * apply nb_get_erase_same, Hs.
      * apply nb_get_erase_other; [apply Hs|exact Ny].
    + rewrite nth_upd_nth_other by exact Nx. reflexivity.
  - destruct (Nat.eqb_spec x v) as [->|Nv].
    + rewrite nth_upd_nth_nil by reflexivity. rewrite nth_upd_nth_other by congruence.
      destruct (Nat.eqb_spec v u) as [E|_]; [congruence|]. cbn [andb orb].
      destruct (Nat.eqb_spec y u) as [->|Ny].
      * apply nb_get_erase_same, Hs.
      * apply nb_get_erase_other; [apply Hs|exact Ny].
    + rewrite nth_upd_nth_other by exact Nv. cbn [andb]. rewrite orb_false_r.
      destruct (Nat.eqb_spec x u) as [->|Nu]; cbn [andb].
      * rewrite nth_upd_nth_nil by reflexivity. destruct (Nat.eqb_spec y v) as [->|Ny].
        -- apply nb_get_erase_same, Hs.
        -- apply nb_get_erase_other; [apply Hs|exact Ny].
      * rewrite nth_upd_nth_other by exact Nu. reflexivity.
Qed.

Lemma erase_both_sorted u v (a : list nbh) x :
  (forall k, ksorted (nth k a [])) -> ksorted (nth x (erase_both u v a) []).
Proof.
  intros Hs.
  assert (H1 : forall w k (l : list nbh), (forall j, ksorted (nth j l [])) ->
                                    ksorted (nth k (upd_nth w (nb_erase v) l) [])
                                    /\ ksorted (nth k (upd_nth w (nb_erase u) l) [])).
  { intros w k l Hl. destruct (Nat.eq_dec k w) as [->|Nk].
    - rewrite !nth_upd_nth_nil by reflexivity. split; apply nb_erase_sorted, Hl.
    - rewrite !nth_upd_nth_other by exact Nk. split; apply Hl. }
  unfold erase_both. destruct (u =? v).
  - apply H1, Hs.
  - apply H1. intros j. apply H1, Hs.
Qed.

Lemma AdjOK_erase_both N vt a u v : AdjOK N vt a -> AdjOK N vt (erase_both u v a).
Proof.
  intros [H1 [H2 [H3 [H4 H5]]]].
  split; [|split; [|split; [|split]]].
  - unfold erase_both. destruct (u =? v); rewrite !upd_nth_length; exact H1.
  - intros x. apply erase_both_sorted, H2.
  - intros x y b. rewrite get_erase_both by exact H2.
    destruct (_ || _); [discriminate|apply H3].
  - intros x y b. rewrite !get_erase_both by exact H2.
    intros Hg. eqb_cases; try discriminate; try congruence; apply H4; exact Hg.
  - intros x Hb. rewrite get_erase_both by exact H2.
    destruct (_ || _); [reflexivity|apply H5, Hb].
Qed.

(* ---------- remove_variable ---------- *)
Lemma nth_remove_var v (a : list nbh) x :
  nth x (map (nb_remove_var v) (del_nth v a)) [] = nb_remove_var v (nth (skip v x) a []).
Proof. rewrite nth_map_nil by reflexivity. rewrite nth_del_nth. reflexivity. Qed.

Lemma AdjOK_remove_var N vt a v :
  AdjOK N vt a -> v < N ->
  AdjOK (N - 1) (fun x => vt (skip v x)) (map (nb_remove_var v) (del_nth v a)).
Proof.
  intros [H1 [H2 [H3 [H4 H5]]]] Hv.
  split; [|split; [|split; [|split]]].
  - rewrite map_length, del_nth_length by lia. lia.
  - intros x. rewrite nth_remove_var. apply nb_remove_var_sorted, H2.
  - intros x y b. rewrite nth_remove_var, nb_get_remove_var by apply H2.
    intros Hg. apply H3 in Hg. unfold skip in Hg. destruct (Nat.ltb_spec y v); lia.
  - intros x y b. rewrite !nth_remove_var, !nb_get_remove_var by apply H2. apply H4.
  - intros x Hb. rewrite nth_remove_var, nb_get_remove_var by apply H2. apply H5, Hb.
Qed.

(* ---------- resize (shrinking) ---------- *)
Lemma nth_shrink k (a : list nbh) x :
  nth x (firstn k (map (nb_below k) a)) [] = if x <? k then nb_below k (nth x a []) else [].
Proof. rewrite nth_firstn. rewrite nth_map_nil by reflexivity. reflexivity. Qed.

Lemma AdjOK_shrink N vt a k :
  AdjOK N vt a -> k <= N -> AdjOK k vt (firstn k (map (nb_below k) a)).
Proof.
  intros [H1 [H2 [H3 [H4 H5]]]] Hk.
  split; [|split; [|split; [|split]]].
  - rewrite firstn_length, map_length. lia.
  - intros x. rewrite nth_shrink. destruct (x <? k); [apply nb_below_sorted, H2|apply ksorted_nil].
  - intros x y b. rewrite nth_shrink. destruct (x <? k); [|discriminate].
    rewrite nb_get_below. destruct (Nat.ltb_spec y k) as [L|L]; [intros _; exact L|discriminate].
  - intros x y b. rewrite !nth_shrink.
    destruct (Nat.ltb_spec x k) as [Lx|Lx]; [|discriminate]. rewrite nb_get_below.
    destruct (Nat.ltb_spec y k) as [Ly|Ly]; [|discriminate]. rewrite nb_get_below.
    destruct (Nat.ltb_spec x k); [apply H4|lia].
  - intros x Hb. rewrite nth_shrink. destruct (x <? k); [|reflexivity].
    rewrite nb_get_below. destruct (x <? k); [apply H5, Hb|reflexivity].
Qed.

(* ---------- scale ---------- *)
Lemma AdjOK_scale N vt a k : AdjOK N vt a -> AdjOK N vt (map (nb_scale k) a).
Proof.
  intros [H1 [H2 [H3 [H4 H5]]]].
  assert (Hn : forall x, nth x (map (nb_scale k) a) [] = nb_scale k (nth x a [])).
  { intros x. apply nth_map_nil. reflexivity. }
  split; [|split; [|split; [|split]]].
  - rewrite map_length. exact H1.
  - intros x. rewrite Hn. apply nb_scale_sorted, H2.
  - intros x y b. rewrite Hn, nb_get_scale.
    destruct (nb_get y (nth x a [])) as [c|] eqn:E; [|discriminate]. intros _. eapply H3, E.
  - intros x y b. rewrite !Hn, !nb_get_scale.
    destruct (nb_get y (nth x a [])) as [c|] eqn:E; [|discriminate].
    rewrite (H4 _ _ _ E). tauto.
  - intros x Hb. rewrite Hn, nb_get_scale, (H5 x Hb). reflexivity.
Qed.

(* ================= model level ================= *)
Lemma InvG_with_adj m a :
  InvG m -> AdjOK (nvars m) (vt_at m) a -> InvG (mkQM (lin m) a (off m) (vts m)).
Proof. intros [Hv _] HA. split; [exact Hv|exact HA]. Qed.

Lemma InvG_same m m' :
  length (lin m') = length (lin m) -> adj m' = adj m -> vts m' = vts m -> InvG m -> InvG m'.
Proof.
  intros Hl Ha Hv [H1 H2]. unfold InvG, nvars, vt_at in *. rewrite Hl, Ha, Hv. split; assumption.
Qed.

Lemma InvG_empty : InvG empty_qm.
Proof. split; [reflexivity|apply AdjOK_nil]. Qed.

Lemma InvG_add_variable t m : InvG m -> InvG (add_variable t m).
Proof.
  intros [Hv HA]. unfold InvG, add_variable, nvars in *. cbn [lin adj vts].
  rewrite !app_length, Hv. cbn [length]. split; [reflexivity|].
  apply (AdjOK_grow _ _ _ 1). revert HA. apply AdjOK_vt.
  intros x Hx. unfold vt_at. cbn [vts]. apply app_nth1. lia.
Qed.

Lemma InvG_add_linear v b m : InvG m -> InvG (add_linear v b m).
Proof. apply InvG_same; [apply upd_nth_length|reflexivity|reflexivity]. Qed.

Lemma InvG_set_linear v b m : InvG m -> InvG (set_linear v b m).
Proof. apply InvG_same; [apply upd_nth_length|reflexivity|reflexivity]. Qed.

Lemma InvG_add_offset b m : InvG m -> InvG (Adj.add_offset b m).
Proof. apply InvG_same; reflexivity. Qed.

Lemma InvG_set_offset b m : InvG m -> InvG (set_offset b m).
Proof. apply InvG_same; reflexivity. Qed.

Lemma InvG_scale k m : InvG m -> InvG (Adj.scale k m).
Proof.
  intros [Hv HA]. unfold InvG, Adj.scale, nvars, vt_at in *. cbn [lin adj vts].
  rewrite map_length. split; [exact Hv|]. apply AdjOK_scale, HA.
Qed.

Lemma InvG_add_quadratic u v b m :
  InvG m -> u < nvars m -> v < nvars m -> InvG (add_quadratic u v b m).
Proof.
  intros HI Hu Hv. unfold add_quadratic. destruct (Nat.eqb_spec u v) as [->|Hne].
  - destruct (vt_at m v) eqn:Et.
    + apply InvG_add_linear, HI.
    + apply InvG_add_offset, HI.
    + apply InvG_with_adj; [exact HI|]. apply AdjOK_upsert_self; [apply HI|exact Hv|rewrite Et; reflexivity].
    + apply InvG_with_adj; [exact HI|]. apply AdjOK_upsert_self; [apply HI|exact Hv|rewrite Et; reflexivity].
  - apply InvG_with_adj; [exact HI|]. apply AdjOK_upsert_both; [apply HI|assumption..].
Qed.

Lemma InvG_set_quadratic u v b m m' :
  InvG m -> u < nvars m -> v < nvars m -> set_quadratic u v b m = Some m' -> InvG m'.
Proof.
  intros HI Hu Hv. unfold set_quadratic. destruct (Nat.eqb_spec u v) as [->|Hne].
  - destruct (is_binspin (vt_at m v)) eqn:Et; [discriminate|]. intros [= <-].
    apply InvG_with_adj; [exact HI|]. apply AdjOK_upsert_self; [apply HI|exact Hv|exact Et].
  - intros [= <-]. apply InvG_with_adj; [exact HI|]. apply AdjOK_upsert_both; [apply HI|assumption..].
Qed.

Lemma remove_interaction_fst u v m :
  fst (remove_interaction u v m) =
  match nb_get v (nb m u) with
  | None => m
  | Some _ => mkQM (lin m) (erase_both u v (adj m)) (off m) (vts m)
  end.
Proof. unfold remove_interaction, erase_both. destruct (nb_get v (nb m u)); reflexivity. Qed.

Lemma InvG_remove_interaction u v m : InvG m -> InvG (fst (remove_interaction u v m)).
Proof.
  intros HI. rewrite remove_interaction_fst. destruct (nb_get v (nb m u)); [|exact HI].
  apply InvG_with_adj; [exact HI|]. apply AdjOK_erase_both, HI.
Qed.

Lemma vt_at_remove_variable v m x : vt_at (remove_variable v m) x = vt_at m (skip v x).
Proof. unfold vt_at, remove_variable. cbn [vts]. apply nth_del_nth. Qed.

Lemma InvG_remove_variable v m : InvG m -> v < nvars m -> InvG (remove_variable v m).
Proof.
  intros [Hv HA] Hlt. unfold InvG, nvars in *. cbn [remove_variable lin adj vts].
  rewrite !del_nth_length by lia. split; [lia|].
  apply (AdjOK_vt _ (fun x => vt_at m (skip v x))).
  - intros x _. apply vt_at_remove_variable.
  - apply AdjOK_remove_var; assumption.
Qed.

Lemma InvG_resize t k m : InvG m -> InvG (resize t k m).
Proof.
  intros [Hv HA]. unfold resize. destruct (Nat.ltb_spec k (nvars m)) as [L|L].
  - unfold InvG, nvars in *. cbn [lin adj vts]. rewrite !firstn_length, Hv.
    split; [reflexivity|]. rewrite Nat.min_l by lia.
    apply (AdjOK_vt _ (vt_at m)).
    + intros x Hx. unfold vt_at. cbn [vts]. rewrite nth_firstn.
      destruct (Nat.ltb_spec x k); [reflexivity|lia].
    + apply (AdjOK_shrink (length (lin m))); [exact HA|lia].
  - unfold InvG, nvars in *. cbn [lin adj vts]. rewrite !app_length, !repeat_length, Hv.
    split; [reflexivity|]. apply AdjOK_grow. revert HA. apply AdjOK_vt.
    intros x Hx. unfold vt_at. cbn [vts]. apply app_nth1. lia.
Qed.

(* fold of add_linear: only the linear vector moves *)
Lemma fold_add_linear_shape (l : nbh) a m :
  let m1 := fold_left (fun acc e => add_linear (fst e) (snd e * a)%Qc acc) l m in
  length (lin m1) = length (lin m) /\ adj m1 = adj m /\ vts m1 = vts m /\ off m1 = off m.
Proof.
  revert m. induction l as [|e l IH]; intros m; cbn [fold_left]; [auto|].
  destruct (IH (add_linear (fst e) (snd e * a)%Qc m)) as [I1 [I2 [I3 I4]]].
  cbn [add_linear lin adj vts off] in *. rewrite upd_nth_length in I1. auto.
Qed.

Lemma InvG_fix_variable v a m : InvG m -> v < nvars m -> InvG (fix_variable v a m).
Proof.
  intros HI Hv. unfold fix_variable.
  destruct (fold_add_linear_shape (nb m v) a m) as [I1 [I2 [I3 _]]].
  set (m1 := fold_left _ _ _) in *.
  apply InvG_remove_variable.
  - apply InvG_add_offset. revert HI. apply InvG_same; assumption.
  - unfold nvars in *. cbn [Adj.add_offset lin]. rewrite I1. exact Hv.
Qed.

(* substitute_variable: every step rewrites biases that are already stored *)
Lemma InvG_substitute_variable v k c m :
  InvG m -> v < nvars m -> InvG (substitute_variable v k c m).
Proof.
  intros HI Hv. unfold substitute_variable.
  set (m0 := mkQM _ _ _ _).
  assert (H0 : InvG m0 /\ nvars m0 = nvars m /\ vts m0 = vts m).
  { split; [|split; [|reflexivity]].
    - revert HI. apply InvG_same; [apply upd_nth_length|reflexivity|reflexivity].
    - unfold nvars, m0. cbn [lin]. apply upd_nth_length. }
  assert (HL : forall e, In e (nb m v) ->
                         fst e < nvars m /\ (fst e = v -> is_binspin (vt_at m v) = false)).
  { intros [w b] Hin. cbn [fst]. destruct HI as [_ [_ [H2 [H3 [_ H5]]]]].
    assert (Hg : nb_get w (nth v (adj m) []) = Some b) by (apply nb_get_In_2; [apply H2|exact Hin]).
    split; [eapply H3, Hg|]. intros ->. destruct (is_binspin (vt_at m v)) eqn:E; [|reflexivity].
    rewrite (H5 v E) in Hg. discriminate. }
  clearbody m0. revert m0 H0 HL. generalize (nb m v) as l.
  induction l as [|[w b] l IH]; intros m0 [I0 [N0 V0]] HL; cbn [fold_left]; [exact I0|].
  apply IH.
  - destruct (HL (w, b) (or_introl eq_refl)) as [Hw Hself]. cbn [fst] in Hw, Hself.
    destruct (Nat.eqb_spec w v) as [->|Hne].
    + split; [|split; [|exact V0]].
      * assert (I1 : InvG (mkQM (lin m0) (upd_nth v (nb_upsert (fun x => (x * (k * k))%Qc) v) (adj m0)) (off m0) (vts m0))).
        { apply InvG_with_adj; [exact I0|]. apply AdjOK_upsert_self; [apply I0|lia|].
          unfold vt_at. rewrite V0. apply Hself. reflexivity. }
        revert I1. apply InvG_same; [apply upd_nth_length|reflexivity|reflexivity].
      * unfold nvars in *. cbn [lin]. rewrite upd_nth_length. exact N0.
    + split; [|split; [|exact V0]].
      * assert (I1 : InvG (mkQM (lin m0) (upsert_both (fun x => (x * k)%Qc) v w (adj m0)) (off m0) (vts m0))).
        { apply InvG_with_adj; [exact I0|]. apply AdjOK_upsert_both; [apply I0|congruence|lia|lia]. }
        revert I1. apply InvG_same; [apply upd_nth_length|reflexivity|reflexivity].
      * unfold nvars in *. cbn [lin]. rewrite upd_nth_length. exact N0.
  - intros e He. apply HL. right. exact He.
Qed.

(* add_quadratic_back under its ordering promise is add_quadratic *)
Definition back_pre (u v : nat) (m : qm) : Prop :=
  back_ok (nb m u) v /\ back_ok (nb m v) u.

Lemma add_quadratic_back_eq u v b m :
  InvG m -> back_pre u v m -> add_quadratic_back u v b m = add_quadratic u v b m.
Proof.
  intros [_ [_ [H2 _]]] [Pu Pv]. unfold add_quadratic_back, add_quadratic.
  assert (E : forall w x (l : list nbh), (forall j, ksorted (nth j l [])) -> back_ok (nth w l []) x ->
              upd_nth w (fun n => n ++ [(x, b)]) l = upd_nth w (nb_upsert (fun y => (y + b)%Qc) x) l).
  { intros w x l Hs Hb. apply upd_nth_ext_at. intros n Hn.
    apply (nth_error_nth _ _ []) in Hn. rewrite nb_upsert_back.
    - rewrite Qcplus_0_l. reflexivity.
    - apply back_ok_all; [rewrite <- Hn; apply Hs|rewrite <- Hn; exact Hb]. }
  destruct (Nat.eqb_spec u v) as [->|Hne].
  - destruct (vt_at m v); try reflexivity; f_equal; apply E; assumption.
  - f_equal. unfold upsert_both. rewrite (E u v (adj m) H2 Pu). apply E.
    + intros j. destruct (Nat.eq_dec j u) as [->|Nj].
      * destruct (Nat.lt_ge_cases u (length (adj m))) as [L|L].
        -- rewrite nth_upd_nth_same by exact L. apply nb_upsert_sorted, H2.
        -- rewrite upd_nth_oob by exact L. apply H2.
      * rewrite nth_upd_nth_other by exact Nj. apply H2.
    + rewrite nth_upd_nth_other by congruence. exact Pv.
Qed.

Lemma InvG_add_quadratic_back u v b m :
  InvG m -> u < nvars m -> v < nvars m -> back_pre u v m -> InvG (add_quadratic_back u v b m).
Proof.
  intros HI Hu Hv Hp. rewrite add_quadratic_back_eq by assumption. apply InvG_add_quadratic; assumption.
Qed.

(* ---------- the same statements on Inv ---------- *)
Lemma add_quadratic_back_eq_Inv u v b m :
  Inv m -> back_pre u v m -> add_quadratic_back u v b m = add_quadratic u v b m.
Proof. rewrite Inv_InvG. apply add_quadratic_back_eq. Qed.

(* a call that ignores the ordering promise leaves an unsorted neighbourhood *)
Lemma add_quadratic_back_unordered_breaks :
  exists u v b m, Inv m /\ u < nvars m /\ v < nvars m /\ ~ Inv (add_quadratic_back u v b m).
Proof.
  exists 0, 1, (qc 1 1),
    (add_quadratic 0 2 (qc 1 1)
       (add_variable INTEGER (add_variable INTEGER (add_variable INTEGER empty_qm)))).
  split; [vm_compute; reflexivity|]. split; [unfold lt; vm_compute; repeat constructor|].
  split; [unfold lt; vm_compute; repeat constructor|]. unfold Inv. vm_compute. discriminate.
Qed.

Ltac viaG := rewrite !Inv_InvG.

Theorem Inv_empty : Inv empty_qm.
Proof. apply Inv_InvG, InvG_empty. Qed.
Theorem Inv_add_variable t m : Inv m -> Inv (add_variable t m).
Proof. viaG. apply InvG_add_variable. Qed.
Theorem Inv_add_linear v b m : Inv m -> Inv (add_linear v b m).
Proof. viaG. apply InvG_add_linear. Qed.
Theorem Inv_set_linear v b m : Inv m -> Inv (set_linear v b m).
Proof. viaG. apply InvG_set_linear. Qed.
Theorem Inv_add_offset b m : Inv m -> Inv (Adj.add_offset b m).
Proof. viaG. apply InvG_add_offset. Qed.
Theorem Inv_set_offset b m : Inv m -> Inv (set_offset b m).
Proof. viaG. apply InvG_set_offset. Qed.
Theorem Inv_scale k m : Inv m -> Inv (Adj.scale k m).
Proof. viaG. apply InvG_scale. Qed.
Theorem Inv_add_quadratic u v b m :
  Inv m -> u < nvars m -> v < nvars m -> Inv (add_quadratic u v b m).
Proof. viaG. apply InvG_add_quadratic. Qed.
Theorem Inv_set_quadratic u v b m m' :
  Inv m -> u < nvars m -> v < nvars m -> set_quadratic u v b m = Some m' -> Inv m'.
Proof. viaG. apply InvG_set_quadratic. Qed.
Theorem Inv_add_quadratic_back u v b m :
  Inv m -> u < nvars m -> v < nvars m -> back_pre u v m -> Inv (add_quadratic_back u v b m).
Proof. viaG. apply InvG_add_quadratic_back. Qed.
Theorem Inv_remove_interaction u v m : Inv m -> Inv (fst (remove_interaction u v m)).
Proof. viaG. apply InvG_remove_interaction. Qed.
Theorem Inv_remove_variable v m : Inv m -> v < nvars m -> Inv (remove_variable v m).
Proof. viaG. apply InvG_remove_variable. Qed.
Theorem Inv_resize t k m : Inv m -> Inv (resize t k m).
Proof. viaG. apply InvG_resize. Qed.
Theorem Inv_fix_variable v a m : Inv m -> v < nvars m -> Inv (fix_variable v a m).
Proof. viaG. apply InvG_fix_variable. Qed.
Theorem Inv_substitute_variable v k c m :
  Inv m -> v < nvars m -> Inv (substitute_variable v k c m).
Proof. viaG. apply InvG_substitute_variable. Qed.
