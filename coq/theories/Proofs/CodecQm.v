(* QM files and the expression members of a CQM zip: decode (encode f) = f and prefix safety. *)
From Coq Require Import List NArith ZArith Arith Bool Lia String.
From Dimod Require Import Gen.Gen_Codec Model.Codec Proofs.CodecBase Proofs.CodecFrame Proofs.CodecBqm
  Proofs.CodecBqmTop Proofs.CodecLabel Proofs.CodecJson.
Import ListNotations.
Open Scope nat_scope.
Notation length := List.length (only parsing).

(* ------------------------------------------------------------ composition with positive thresholds *)

(* round trip + prefix safety with some threshold that is positive unless the encoding is empty *)
Definition goodp {A} (d : parser A) (e : bytes) (a : A) : Prop :=
  exists t, good d e a t /\ (0 < length e -> 0 < t).

Lemma goodp_bind : forall {A B} (d1 : parser A) (f : A -> parser B) e1 e2 a b,
  goodp d1 e1 a -> goodp (f a) e2 b -> goodp (bind d1 f) (e1 ++ e2) b.
Proof.
  intros A B d1 f e1 e2 a b [t1 [G1 P1]] [t2 [G2 P2]].
  exists (thr e2 t1 (length e1) t2). split; [apply (good_bind_gen d1 f e1 e2 a b t1 t2); auto|].
  intros Hl. destruct e2 as [|c e2]; unfold thr.
  - rewrite app_nil_r in Hl. auto.
  - assert (0 < t2) by (apply P2; cbn; lia). lia.
Qed.

Lemma goodp_ret : forall {A} (a : A), goodp (ret a) [] a.
Proof. intros A a. exists 0. split; [apply good_nil; reflexivity|cbn; lia]. Qed.

Lemma goodp_bind_ret : forall {A B} (d1 : parser A) (g : A -> B) e1 a,
  goodp d1 e1 a -> goodp (bind d1 (fun x => ret (g x))) e1 (g a).
Proof. intros A B d1 g e1 a [t [G P]]. exists t. split; [now apply good_bind_ret|exact P]. Qed.

Lemma goodp_safe : forall {A} (d : parser A) e a, goodp d e a ->
  (forall rest, d (e ++ rest) = Ok (a, rest)) /\
  (forall k, k < length e -> d (firstn k e) = Err \/ d (firstn k e) = Ok (a, [])).
Proof.
  intros A d e a [t [[R P] _]]. split; [exact R|]. intros k Hk.
  destruct (P k Hk) as [E|[_ E]]; [now left|now right].
Qed.

Lemma goodp_tsection : forall {A} magic nlen (pd : bytes -> option A) p a,
  0 < length magic ->
  (N.of_nat (length p + ALIGN) < 256 ^ N.of_nat nlen)%N ->
  (forall j, pd (p ++ spaces j) = Some a) ->
  (forall k, k < length p -> pd (firstn k p) = None) ->
  goodp (dec_tsection magic nlen pd) (section magic nlen p) a.
Proof.
  intros A magic nlen pd p a Hm Hf H1 H2. exists (length magic + (nlen + length p)). split.
  - split; [now apply tsection_rt|now apply tsection_psafe].
  - lia.
Qed.

Lemma goodp_header : forall {H} prefix (jd : bytes -> option H) json h v,
  (N.of_nat (length json + 1 + ALIGN) < 256 ^ N.of_nat HEADER_LEN_BYTES)%N ->
  (forall ws, forallb is_ws ws = true -> jd (json ++ ws) = Some h) ->
  (forall k, k < length json -> jd (firstn k json) = None) ->
  goodp (dec_header prefix jd) (header prefix v json) (v, h).
Proof.
  intros H prefix jd json h v Hf H1 H2. exists (length prefix + (2 + (HEADER_LEN_BYTES + length json))). split.
  - split; [now apply header_rt|now apply header_psafe].
  - lia.
Qed.

Lemma goodp_rep : forall {A} (p : parser A) (enc : A -> bytes) (xs : list A),
  Forall (fun x => goodp p (enc x) x) xs ->
  goodp (rep_parser (length xs) p) (List.concat (map enc xs)) xs.
Proof.
  intros A p enc xs H. induction H as [|x xs Hx Hxs IH]; cbn [length rep_parser map List.concat].
  - apply goodp_ret.
  - apply (goodp_bind p _ (enc x) _ x); [exact Hx|]. now apply goodp_bind_ret.
Qed.

(* ------------------------------------------------------------ payload decoders *)

Lemma concat_length_fixed : forall sz (cs : list bytes), Forall (fun c => length c = sz) cs ->
  length (List.concat cs) = length cs * sz.
Proof. intros sz cs H. induction H as [|c cs Hc Hcs IH]; cbn; [reflexivity|]. rewrite app_length, IH, Hc. lia. Qed.

Lemma pd_chunks_ok : forall sz cs j, Forall (fun c => length c = sz) cs ->
  pd_chunks (length cs) sz (List.concat cs ++ spaces j) = Some cs.
Proof. intros sz cs j H. unfold pd_chunks. now rewrite (chunks_rt sz cs H). Qed.

Lemma pd_chunks_strict : forall sz cs k, Forall (fun c => length c = sz) cs -> k < length (List.concat cs) ->
  pd_chunks (length cs) sz (firstn k (List.concat cs)) = None.
Proof. intros sz cs k H Hk. unfold pd_chunks. now rewrite (chunks_strict sz cs H k Hk). Qed.

Lemma pd_take_ok : forall w c j, length c = w -> pd_take w (c ++ spaces j) = Some c.
Proof. intros w c j H. unfold pd_take. now rewrite (take_rt w c H). Qed.

Lemma pd_take_strict : forall w c k, length c = w -> k < length c -> pd_take w (firstn k c) = None.
Proof. intros w c k H Hk. unfold pd_take. now rewrite (take_strict w c k H Hk). Qed.

(* varinfo records *)
Definition vinfo_ok (w : nat) (v : N * (bytes * bytes)) : Prop :=
  length (fst (snd v)) = w /\ length (snd (snd v)) = w.

Lemma enc_vinfo_length : forall w v, vinfo_ok w v -> length (enc_vinfo v) = 1 + w + w.
Proof. intros w [t [lb ub]] [H1 H2]. unfold enc_vinfo. cbn [fst snd] in *. cbn [length]. rewrite app_length. lia. Qed.

Lemma dec_enc_vinfo : forall w v, vinfo_ok w v -> dec_vinfo w (enc_vinfo v) = v.
Proof.
  intros w [t [lb ub]] [H1 H2]. unfold dec_vinfo, enc_vinfo. cbn [fst snd hd tl] in *.
  now rewrite (firstn_app_len w lb ub H1), (skipn_app_len w lb ub H1).
Qed.

Lemma map_dec_enc_vinfo : forall w vs, Forall (vinfo_ok w) vs -> map (dec_vinfo w) (map enc_vinfo vs) = vs.
Proof. intros w vs H. induction H as [|v vs Hv Hvs IH]; cbn [map]; [reflexivity|]. now rewrite (dec_enc_vinfo w v Hv), IH. Qed.

Lemma Forall_enc_vinfo : forall w vs, Forall (vinfo_ok w) vs -> Forall (fun c => length c = 1 + w + w) (map enc_vinfo vs).
Proof. intros w vs H. induction H; cbn [map]; constructor; auto. now apply enc_vinfo_length. Qed.

(* NEIG payload *)
Definition nb_ok (w : nat) (nb : list (N * bytes)) : Prop :=
  Forall (rec_ok IDX_BYTES w) nb /\ (N.of_nat (length nb) < N.shiftl 1 63)%N.

Lemma shiftl_63_lt : (N.shiftl 1 63 < 256 ^ N.of_nat NEIG_COUNT_BYTES)%N.
Proof. vm_compute. reflexivity. Qed.

Section Neig.
  Variables (w : nat) (nb : list (N * bytes)).
  Hypothesis Hnb : nb_ok w nb.
  Let recs := map (enc_rec IDX_BYTES) nb.
  Let cnt := le_enc NEIG_COUNT_BYTES (N.of_nat (length nb)).

  Let recs_ok : Forall (fun c => length c = IDX_BYTES + w) recs.
  Proof. apply Forall_enc_rec_length. apply Hnb. Qed.

  Let cnt_len : length cnt = NEIG_COUNT_BYTES.
  Proof. apply le_enc_length. Qed.

  Let cnt_dec : le_dec cnt = N.of_nat (length nb).
  Proof. apply le_decode_encode. destruct Hnb as [_ H]. pose proof shiftl_63_lt. lia. Qed.

  Lemma neig_payload_eq : neig_payload nb = cnt ++ List.concat recs.
  Proof. reflexivity. Qed.

  Lemma pd_neig_ok : forall j, pd_neig w (neig_payload nb ++ spaces j) = Some nb.
  Proof.
    intros j. rewrite neig_payload_eq. unfold pd_neig. rewrite <- app_assoc.
    rewrite app_length, cnt_len.
    replace (NEIG_COUNT_BYTES + length (List.concat recs ++ spaces j) <? NEIG_COUNT_BYTES) with false
      by (symmetry; apply Nat.ltb_ge; lia).
    rewrite (firstn_app_len _ cnt _ cnt_len), (skipn_app_len _ cnt _ cnt_len), cnt_dec.
    destruct Hnb as [Hr Hc].
    replace (N.shiftl 1 63 <=? N.of_nat (length nb))%N with false by (symmetry; apply N.leb_gt; exact Hc).
    rewrite app_length, (concat_length_fixed _ recs recs_ok). unfold recs at 1. rewrite map_length.
    replace (N.of_nat (length nb * (IDX_BYTES + w) + length (spaces j)) <? N.of_nat (length nb) * N.of_nat (IDX_BYTES + w))%N
      with false by (symmetry; apply N.ltb_ge; lia).
    rewrite Nat2N.id. replace (length nb) with (length recs) at 1 by (unfold recs; apply map_length).
    pose proof (pd_chunks_ok _ recs j recs_ok) as X. unfold bytes in *. rewrite X. pose proof (map_dec_enc_rec IDX_BYTES w nb Hr) as Y. unfold recs, bytes in *. now rewrite Y.
  Qed.

  Lemma pd_neig_strict : forall k, k < length (neig_payload nb) -> pd_neig w (firstn k (neig_payload nb)) = None.
  Proof.
    intros k Hk. rewrite neig_payload_eq in *. rewrite app_length, cnt_len in Hk. unfold pd_neig.
    destruct (firstn_app_cases k cnt (List.concat recs)) as [[Hl E]|[Hl E]]; rewrite E.
    - rewrite firstn_length, cnt_len in *.
      replace (Nat.min k NEIG_COUNT_BYTES <? NEIG_COUNT_BYTES) with true by (symmetry; apply Nat.ltb_lt; lia).
      reflexivity.
    - rewrite cnt_len in *. rewrite app_length, cnt_len.
      replace (NEIG_COUNT_BYTES + length (firstn (k - NEIG_COUNT_BYTES) (List.concat recs)) <? NEIG_COUNT_BYTES) with false
        by (symmetry; apply Nat.ltb_ge; lia).
      rewrite (firstn_app_len _ cnt _ cnt_len), (skipn_app_len _ cnt _ cnt_len), cnt_dec.
      destruct Hnb as [Hr Hc].
      replace (N.shiftl 1 63 <=? N.of_nat (length nb))%N with false by (symmetry; apply N.leb_gt; exact Hc).
      rewrite firstn_length. pose proof (concat_length_fixed _ recs recs_ok) as CL.
      unfold recs in CL at 2. rewrite map_length in CL.
      replace (N.of_nat (Nat.min (k - NEIG_COUNT_BYTES) (length (List.concat recs))) <? N.of_nat (length nb) * N.of_nat (IDX_BYTES + w))%N
        with true by (symmetry; apply N.ltb_lt; lia).
      reflexivity.
  Qed.
End Neig.

(* ------------------------------------------------------------ QM header dictionary *)

Definition qm_json_parts (h : qmhdr) : bytes :=
  L "{""dtype"": """ ++ js_dtype (q_dtype h)
  ++ L """, ""itype"": ""int32"", ""shape"": [" ++ (dec_N (q_n h) ++ [44%N]) ++ L " "
  ++ (dec_N (q_m h) ++ [93%N])
  ++ L ", ""type"": ""QuadraticModel"", ""variables"": " ++ js_bool (q_vars h) ++ L "}" ++ [].

Lemma qm_json_eq : forall h, qm_json h = qm_json_parts h.
Proof. intros h. unfold qm_json, qm_json_parts. rewrite <- !app_assoc. rewrite app_nil_r. reflexivity. Qed.

Lemma p_qm_json_rt : forall h, rt p_qm_json (qm_json h) h.
Proof.
  intros h. rewrite qm_json_eq. unfold qm_json_parts, p_qm_json. destruct h as [d n m v]. cbn [q_dtype q_n q_m q_vars].
  apply rt_lit_bind.
  apply (rt_bind _ _ _ _ d); [apply p_dtype_rt|].
  apply rt_lit_bind.
  apply (rt_bind _ _ _ _ n); [apply p_N_until_rt; reflexivity|].
  apply rt_lit_bind.
  apply (rt_bind _ _ _ _ m); [apply p_N_until_rt; reflexivity|].
  apply rt_lit_bind.
  apply (rt_bind _ _ _ _ v); [apply p_bool_rt|].
  apply rt_lit_bind. apply rt_ret_nil.
Qed.

Lemma p_qm_json_strict : forall h, strict p_qm_json (qm_json h).
Proof.
  intros h. rewrite qm_json_eq. unfold qm_json_parts, p_qm_json. destruct h as [d n m v]. cbn [q_dtype q_n q_m q_vars].
  apply strict_lit_bind.
  apply (strict_bind _ _ _ _ d); [apply p_dtype_rt|apply p_dtype_strict|].
  apply strict_lit_bind.
  apply (strict_bind _ _ _ _ n); [apply p_N_until_rt; reflexivity|apply p_N_until_strict|].
  apply strict_lit_bind.
  apply (strict_bind _ _ _ _ m); [apply p_N_until_rt; reflexivity|apply p_N_until_strict|].
  apply strict_lit_bind.
  apply (strict_bind _ _ _ _ v); [apply p_bool_rt|apply p_bool_strict|].
  apply strict_lit_bind. apply strict_nil.
Qed.

Lemma qm_hdr_ok : forall h,
  (forall ws, forallb is_ws ws = true -> qm_jd (qm_json h ++ ws) = Some h) /\
  (forall k, k < length (qm_json h) -> qm_jd (firstn k (qm_json h)) = None).
Proof.
  intros h. split.
  - intros ws Hws. unfold qm_jd, json_doc. rewrite (p_qm_json_rt h ws). now rewrite Hws.
  - intros k Hk. unfold qm_jd, json_doc. now rewrite (p_qm_json_strict h k Hk).
Qed.

(* ------------------------------------------------------------ whole QM files *)

Definition fits32 (n : nat) : Prop := (N.of_nat (n + ALIGN) < 256 ^ N.of_nat 4)%N.

Record QmWF (f : qmfile) : Prop := {
  qw_off : length (qf_off f) = dwidth (qf_dtype f);
  qw_lin : Forall (fun b => length b = dwidth (qf_dtype f)) (qf_lin f);
  qw_vlen : length (qf_vinfo f) = length (qf_lin f);
  qw_vinfo : Forall (vinfo_ok (dwidth (qf_dtype f))) (qf_vinfo f);
  qw_nlen : length (qf_neig f) = length (qf_lin f);
  qw_neig : Forall (nb_ok (dwidth (qf_dtype f))) (qf_neig f);
  qw_labels : forall l, qf_labels f = Some l -> LabelsWF l;
  qw_fit_json : (N.of_nat (length (qm_json (qm_hdr f)) + 1 + ALIGN) < 256 ^ N.of_nat HEADER_LEN_BYTES)%N;
  qw_fit_vinfo : fits32 (length (List.concat (map enc_vinfo (qf_vinfo f))));
  qw_fit_lin : fits32 (length (List.concat (qf_lin f)));
  qw_fit_neig : Forall (fun nb => fits32 (length (neig_payload nb))) (qf_neig f);
  qw_fit_labels : forall l, qf_labels f = Some l -> fits32 (length (pr_labels l))
}.

Lemma magic_pos : 0 < length MAGIC_VTYP /\ 0 < length MAGIC_OFFS /\ 0 < length MAGIC_LINB /\ 0 < length MAGIC_NEIG
  /\ 0 < length MAGIC_VARS /\ 0 < length MAGIC_INDX /\ 0 < length MAGIC_QUAD.
Proof. cbn. lia. Qed.

(* for any header-dictionary parser that inverts the printer on this file's header *)
Theorem qm_goodp_with : forall (jd : bytes -> option qmhdr) f, QmWF f ->
  (forall ws, forallb is_ws ws = true -> jd (qm_json (qm_hdr f) ++ ws) = Some (qm_hdr f)) ->
  (forall k, k < length (qm_json (qm_hdr f)) -> jd (firstn k (qm_json (qm_hdr f))) = None) ->
  goodp (qm_decode_with jd) (qm_encode f) f.
Proof.
  intros jd f W J1 J2. destruct W as [Ho Hl Hvl Hv Hnl Hn HL Fj Fv Fl Fn FL].
  destruct magic_pos as [M1 [M2 [M3 [M4 [M5 _]]]]].
  unfold qm_encode, qm_decode_with.
  apply (goodp_bind _ _ _ _ (QM_WRITE_VERSION, qm_hdr f)); [now apply goodp_header|].
  cbv beta. cbn [fst snd]. change (vlt QM_REJECT_ABOVE QM_WRITE_VERSION) with false. cbv iota.
  unfold qm_hdr at 1 2 3 4 5 6 7. cbn [q_dtype q_n q_m q_vars]. rewrite Nat2N.id.
  set (w := dwidth (qf_dtype f)) in *.
  (* VTYP *)
  apply (goodp_bind _ _ _ _ (map enc_vinfo (qf_vinfo f))).
  { apply goodp_tsection; [exact M1|exact Fv| |].
    - intros j. rewrite <- Hvl. rewrite <- (map_length enc_vinfo (qf_vinfo f)).
      apply pd_chunks_ok. now apply Forall_enc_vinfo.
    - intros k Hk. rewrite <- Hvl. rewrite <- (map_length enc_vinfo (qf_vinfo f)).
      apply pd_chunks_strict; [now apply Forall_enc_vinfo|exact Hk]. }
  (* OFFS *)
  apply (goodp_bind _ _ _ _ (qf_off f)).
  { apply goodp_tsection; [exact M2| | |].
    - unfold fits32 in *. rewrite Ho. destruct (qf_dtype f); vm_compute; reflexivity.
    - intros j. now apply pd_take_ok.
    - intros k Hk. now apply pd_take_strict. }
  (* LINB *)
  apply (goodp_bind _ _ _ _ (qf_lin f)).
  { apply goodp_tsection; [exact M3|exact Fl| |].
    - intros j. now apply pd_chunks_ok.
    - intros k Hk. now apply pd_chunks_strict. }
  (* NEIG x n *)
  apply (goodp_bind _ _ _ _ (qf_neig f)).
  { rewrite <- Hnl. apply (goodp_rep (dec_tsection MAGIC_NEIG NLEN_NEIG (pd_neig w))
                             (fun nb => section MAGIC_NEIG NLEN_NEIG (neig_payload nb))).
    clear Hnl. induction Hn as [|nb nbs Hnb Hnbs IH]; constructor.
    - inversion Fn; subst. apply goodp_tsection; [exact M4|assumption| |].
      + intros j. now apply pd_neig_ok.
      + intros k Hk. now apply pd_neig_strict.
    - inversion Fn; subst. now apply IH. }
  (* VARS *)
  cbv beta. unfold qm_hdr. cbn [q_dtype q_n q_m q_vars]. fold w. rewrite (map_dec_enc_vinfo w (qf_vinfo f) Hv).
  destruct f as [dt m vi off lin neig labs]. cbn [qf_dtype qf_m qf_vinfo qf_off qf_lin qf_neig qf_labels] in *.
  destruct labs as [l|].
  - apply (goodp_bind_ret (bind (dec_tsection MAGIC_VARS NLEN_VARS labels_dec) (fun l0 => ret (Some l0)))
             (fun labs => mkQmFile dt m vi off lin neig labs) _ (Some l)).
    apply (goodp_bind_ret (dec_tsection MAGIC_VARS NLEN_VARS labels_dec) (fun x => Some x)).
    apply goodp_tsection; [exact M5|apply FL; reflexivity| |].
    + intros j. apply label_roundtrip. now apply HL.
    + intros k Hk. apply label_prefix_rejected; [now apply HL|exact Hk].
  - apply (goodp_bind_ret (ret None) (fun labs => mkQmFile dt m vi off lin neig labs) [] None).
    apply goodp_ret.
Qed.

Theorem qm_goodp : forall f, QmWF f -> goodp qm_decode (qm_encode f) f.
Proof.
  intros f W. destruct (qm_hdr_ok (qm_hdr f)) as [J1 J2]. unfold qm_decode. now apply qm_goodp_with.
Qed.

Theorem qm_decode_encode : forall f, QmWF f -> run qm_decode (qm_encode f) = Ok f.
Proof.
  intros f W. destruct (goodp_safe _ _ _ (qm_goodp f W)) as [R _]. specialize (R []). rewrite app_nil_r in R.
  unfold run. now rewrite R.
Qed.

Theorem qm_decode_prefix_safe : forall f k, QmWF f -> k < length (qm_encode f) ->
  run qm_decode (firstn k (qm_encode f)) = Err \/ run qm_decode (firstn k (qm_encode f)) = Ok f.
Proof.
  intros f k W Hk. destruct (goodp_safe _ _ _ (qm_goodp f W)) as [_ P].
  unfold run. destruct (P k Hk) as [E|E]; rewrite E; [now left|now right].
Qed.
