(* Model/PolyCtor.v uses exactly what translators/poly_ctors.py translates from dimod/higherorder/polynomial.py
   (Gen/Gen_PolyCtor.v): the vartype of the parity branch of __init__, the expression from_hubo stores under (),
   the parts from_hising hands to the constructor, the defaults of to_hubo / to_hising.  The translator also pins
   the statement shape of __init__, __setitem__, __getitem__, __contains__, copy, to_hubo, to_hising, asfrozenset. *)
From Coq Require Import List ZArith QArith Qcanon Bool Arith.
From Dimod Require Import Base.Util Model.Poly Model.HPoly Model.HPolyPy Model.Reduce Model.PolyCtor Gen.Gen_PolyCtor
  Proofs.PolyFacts Proofs.HPolyFacts Proofs.CoeffSound Proofs.HPolyPyFacts Proofs.PolyCtorFacts.
Import ListNotations.
Open Scope Qc_scope.

Theorem ctor_key_uses_source vt term :
  ctor_key vt term =
  let fs := dedup term in
  if (length fs <? length term)%nat && vartype_eqb vt gen_init_parity_vartype
  then filter (fun v => Nat.odd (count_occ_nat v term)) fs else fs.
Proof. destruct vt; reflexivity. Qed.

(* from_hubo: the value stored under () is the TRANSLATED expression of the source *)
Theorem from_hubo_py_uses_source H off :
  from_hubo_py H off =
  let poly := poly_init gen_from_hubo_vartype H in
  match off with
  | None => poly
  | Some o => hdict_set poly [] (gen_from_hubo_const (get_default poly []) o)
  end.
Proof. reflexivity. Qed.

(* from_hising: the list given to the constructor consists of the translated parts; their order is immaterial
   (every linear functional of the list is the sum over the parts) *)
Definition hising_part_terms (h : list (label * Qc)) (J : hpoly) (off : option Qc) (p : hising_part) : hpoly :=
  match p with PartH => lin_terms h | PartJ => J | PartOffset => opt_offset off end.

Theorem from_hising_parts_sum phi h J off :
  hmeas phi (flat_map (hising_part_terms h J off) gen_from_hising_parts)
  = hmeas phi (lin_terms h ++ J ++ opt_offset off).
Proof.
  unfold gen_from_hising_parts. cbn [flat_map hising_part_terms]. rewrite !hmeas_app.
  change (hmeas phi []) with 0. ring.
Qed.

Theorem from_hising_py_uses_source h J off k :
  hcoeff (from_hising_py h J off) k
  = hcoeff (poly_init gen_from_hising_vartype (flat_map (hising_part_terms h J off) gen_from_hising_parts)) k.
Proof.
  unfold from_hising_py. rewrite !poly_init_hcoeff, !hcoeff_hmeas.
  assert (G : forall phi a b, (forall psi, hmeas psi a = hmeas psi b) ->
                              hmeas phi (normalise gen_from_hising_vartype a) = hmeas phi (normalise gen_from_hising_vartype b)).
  { intros phi a b Hab. unfold normalise, hmeas. rewrite !map_map. cbn [fst snd].
    exact (Hab (fun t => phi (match gen_from_hising_vartype with SPIN => spin_reduce_vars t | _ => binary_reduce_vars t end))). }
  apply G. intros psi. symmetry. apply from_hising_parts_sum.
Qed.

Theorem to_hubo_py_uses_source p : to_hubo_py p = (filter nonempty_key p, get_default p [] gen_to_hubo_default).
Proof. reflexivity. Qed.

Theorem to_hising_py_uses_source p : to_hising_py p = fold_left to_hising_step p ([], [], gen_to_hising_offset_init).
Proof. reflexivity. Qed.

Theorem exporters_use_source p :
  to_hubo_py p = (filter nonempty_key p, get_default p [] gen_to_hubo_default)
  /\ to_hising_py p = fold_left to_hising_step p ([], [], gen_to_hising_offset_init).
Proof. split; reflexivity. Qed.
