(* C12 - the last step of the reader model: the processed tokens of the text of a model, translated by
   LPLex.to_tokens into the vocabulary of the reference parser, are exactly print_cqm of that model. *)
From Coq Require Import List ZArith NArith QArith Qcanon Bool Arith Lia.
From Dimod Require Import Base.Util Model.Poly Model.LP Model.LPTok Model.LPRead Model.LPLex Gen.Gen_LP
  Proofs.LPFacts Proofs.LPReadFacts Proofs.LPTokFacts Proofs.LPLexFacts.
Import ListNotations.
Open Scope Qc_scope.

Section Items.
  Variables (vn cn : nat -> text) (numw : Qc -> text).
  Variables (names cons : list text).
  (* the variables and constraint labels in use *)
  Variables (Uv Uc : nat -> Prop).

  Definition W_Minimize : text := [77; 105; 110; 105; 109; 105; 122; 101]%N.
  Definition W_obj : text := [111; 98; 106]%N.
  Definition W_Bounds : text := [66; 111; 117; 110; 100; 115]%N.
  Definition W_Binary : text := [66; 105; 110; 97; 114; 121]%N.
  Definition W_General : text := [71; 101; 110; 101; 114; 97; 108]%N.
  Definition W_End : text := [69; 110; 100]%N.

  (* the groups of the text of a model, mirroring LPTok.print_cqm / lp.dump *)
  Definition i_coef (b : Qc) : item := ISigned (Qc_neg b) (numw (Qc_abs b)) (Qc_abs b).
  Definition i_num (q : Qc) : item := if Qc_neg q then INegNum (numw (- q)) (- q) else INum (numw q) q.
  Definition items_lterm (t : lterm) : list item := [i_coef (snd t); IName (vn (fst t))].
  Definition items_qterm (t : qterm) : list item :=
    [i_coef (snd t); IName (vn (fst (fst t))); IStar; IName (vn (snd (fst t)))].
  Definition items_block (close : item) (q : list qterm) : list item :=
    match q with [] => [] | _ => [IOpen] ++ flat_map items_qterm q ++ [close] end.
  Definition items_const (c : Qc) : list item := if Qc_eqb c 0 then [] else [i_coef c].
  Definition items_objective (o : lp_obj) : list item :=
    if obj_empty o then []
    else [ISec1 W_Minimize SEC_OBJMIN; ILabel W_obj] ++ flat_map items_lterm (lo_lin o)
         ++ items_block ICloseHalf (lo_quad2 o) ++ items_const (lo_const o).
  Definition i_sense (s : sense) : item :=
    ICmp (match s with Le => CLeq | Ge => CGeq | Eq => CEq end).
  Definition items_constraint (lc : nat * lp_con) : list item :=
    let c := snd lc in
    [ILabel (cn (fst lc))] ++ flat_map items_lterm (lc_lin c) ++ items_block IClose (lc_quad c)
    ++ [i_sense (lc_sense c); i_num (lc_rhs c)].
  Definition items_bound (b : nat * Qc * Qc) : list item :=
    let '(v, lo, hi) := b in [i_num lo; ICmp CLeq; IName (vn v); ICmp CLeq; i_num hi].
  Definition items_cqm (m : lpmodel) : list item :=
    items_objective (m_obj m)
    ++ [ISubjectTo] ++ flat_map items_constraint (m_cons m)
    ++ [ISec1 W_Bounds SEC_BOUNDS] ++ flat_map items_bound (m_bounds m)
    ++ [ISec1 W_Binary SEC_BIN] ++ map (fun v => IName (vn v)) (m_binary m)
    ++ [ISec1 W_General SEC_GEN] ++ map (fun v => IName (vn v)) (m_general m)
    ++ [ISec1 W_End SEC_END].

  Definition pt (its : list item) : list ptok := flat_map ptok_of its.

  (* the label tables invert the naming *)
  Hypothesis Hvn : forall v, Uv v -> index_of (vn v) names = Some v.
  Hypothesis Hcn : forall l, Uc l -> index_of (cn l) cons = Some l.

  Definition lterms_in (l : list lterm) : Prop := Forall (fun t => Uv (fst t)) l.
  Definition qterms_in (q : list qterm) : Prop := Forall (fun t => Uv (fst (fst t)) /\ Uv (snd (fst t))) q.
  Definition con_in (lc : nat * lp_con) : Prop :=
    Uc (fst lc) /\ lterms_in (lc_lin (snd lc)) /\ qterms_in (lc_quad (snd lc)).
  Definition model_in (m : lpmodel) : Prop :=
    lterms_in (lo_lin (m_obj m)) /\ qterms_in (lo_quad2 (m_obj m)) /\ Forall con_in (m_cons m) /\
    Forall (fun b => Uv (fst (fst b))) (m_bounds m) /\ Forall Uv (m_binary m) /\ Forall Uv (m_general m).

  Notation TT := (to_tokens names cons).

  Definition not_cmp (rest : list ptok) : Prop := match rest with PCmp _ :: _ => False | _ => True end.
  Definition not_half (rest : list ptok) : Prop := match rest with PSlash :: PNum _ :: _ => False | _ => True end.

  Lemma signed_neg_abs b : signed (Qc_neg b) (Qc_abs b) = b.
  Proof. apply signed_abs. Qed.

  Lemma tt_coef sec b rest : not_cmp rest ->
    TT sec false false (pt [i_coef b] ++ rest) =
    option_map (app [TSign (Qc_neg b); TNum (Qc_abs b)]) (TT sec false false rest).
  Proof.
    intros H. unfold pt, i_coef. cbn [flat_map ptok_of app]. rewrite signed_neg_abs.
    cbn [to_tokens]. destruct rest as [|[] rest']; try contradiction; reflexivity.
  Qed.

  Lemma tt_name sec am pc v rest : Uv v ->
    TT sec am pc (pt [IName (vn v)] ++ rest) = option_map (app [TName v]) (TT sec false false rest).
  Proof. intros U. unfold pt. cbn [flat_map ptok_of app to_tokens]. rewrite (Hvn v U). reflexivity. Qed.

  Lemma pt_app a b : pt (a ++ b) = pt a ++ pt b.
  Proof. unfold pt. apply flat_map_app. Qed.

  Lemma pt_cons x l : pt (x :: l) = pt [x] ++ pt l.
  Proof. unfold pt. cbn [flat_map]. rewrite app_nil_r. reflexivity. Qed.

  Lemma pt_cons2 x y l : pt (x :: y :: l) = pt [x] ++ pt [y] ++ pt l.
  Proof. rewrite pt_cons, (pt_cons y). reflexivity. Qed.

  Lemma pt_cons4 x y z w l : pt (x :: y :: z :: w :: l) = pt [x] ++ pt [y] ++ pt [z] ++ pt [w] ++ pt l.
  Proof. rewrite pt_cons2, (pt_cons2 z). reflexivity. Qed.

  Lemma pt_pair x y : pt [x; y] = pt [x] ++ pt [y].
  Proof. rewrite pt_cons. reflexivity. Qed.

  Lemma om_app {A} (a b : list A) x : option_map (app a) (option_map (app b) x) = option_map (app (a ++ b)) x.
  Proof. destruct x; cbn; [rewrite app_assoc|]; reflexivity. Qed.

  Lemma om_nil {A} (x : option (list A)) : x = option_map (app []) x.
  Proof. destruct x; reflexivity. Qed.

  Lemma name_not_cmp v rest : not_cmp (pt [IName (vn v)] ++ rest).
  Proof. exact I. Qed.

  Lemma tt_star sec am pc rest :
    TT sec am pc (pt [IStar] ++ rest) = option_map (app [TStar]) (TT sec false false rest).
  Proof. reflexivity. Qed.

  Lemma tt_lterms sec l : lterms_in l -> forall rest,
    TT sec false false (pt (flat_map items_lterm l) ++ rest) =
    option_map (app (flat_map print_lterm l)) (TT sec false false rest).
  Proof.
    intros Hin. induction Hin as [|t l Ht Hl IH]; intros rest.
    - cbn [flat_map pt app]. apply om_nil.
    - cbn [flat_map]. unfold items_lterm at 1. cbn [app]. rewrite pt_cons2, <- !app_assoc.
      rewrite (tt_coef sec (snd t) _ (name_not_cmp _ _)), (tt_name _ _ _ _ _ Ht), (IH rest), !om_app. reflexivity.
  Qed.

  Lemma tt_qterms sec q : qterms_in q -> forall rest,
    TT sec false false (pt (flat_map items_qterm q) ++ rest) =
    option_map (app (flat_map print_qterm q)) (TT sec false false rest).
  Proof.
    intros Hin. induction Hin as [|t q [Ht1 Ht2] Hq IH]; intros rest.
    - cbn [flat_map pt app]. apply om_nil.
    - cbn [flat_map]. unfold items_qterm at 1. cbn [app].
      rewrite pt_cons4, <- !app_assoc.
      rewrite (tt_coef sec (snd t) _ (name_not_cmp _ _)), (tt_name _ _ _ _ _ Ht1).
      rewrite tt_star, (tt_name _ _ _ _ _ Ht2), (IH rest), !om_app. reflexivity.
  Qed.

  (* ---------- blocks ---------- *)
  Lemma coef_not_cmp b rest : not_cmp (pt [i_coef b] ++ rest).
  Proof. exact I. Qed.

  Lemma tt_open sec rest :
    TT sec false false (pt [IOpen] ++ rest) = option_map (app [TSign false; TLBr]) (TT sec false false rest).
  Proof. reflexivity. Qed.

  Lemma tt_close sec rest : not_half rest ->
    TT sec false false (pt [IClose] ++ rest) = option_map (app [TRBr]) (TT sec false false rest).
  Proof.
    intros H. unfold pt. cbn [flat_map ptok_of app to_tokens].
    destruct rest as [|[] [|[] rest2]]; try contradiction; reflexivity.
  Qed.

  Lemma tt_closehalf sec rest :
    TT sec false false (pt [ICloseHalf] ++ rest) = option_map (app [TRBrHalf]) (TT sec false false rest).
  Proof. reflexivity. Qed.

  Lemma close_not_cmp rest : not_cmp (pt [IClose] ++ rest).
  Proof. exact I. Qed.
  Lemma closehalf_not_cmp rest : not_cmp (pt [ICloseHalf] ++ rest).
  Proof. exact I. Qed.

  Lemma tt_block_half sec q rest : qterms_in q ->
    TT sec false false (pt (items_block ICloseHalf q) ++ rest) =
    option_map (app (print_block TRBrHalf q)) (TT sec false false rest).
  Proof.
    intros Hq. destruct q as [|t q]; [cbn [items_block print_block pt flat_map app]; apply om_nil|].
    unfold items_block, print_block. rewrite !pt_app, <- !app_assoc.
    rewrite tt_open, (tt_qterms sec (t :: q) Hq _), tt_closehalf, !om_app, <- !app_assoc. reflexivity.
  Qed.

  Lemma tt_block_plain sec q rest : qterms_in q -> not_half rest ->
    TT sec false false (pt (items_block IClose q) ++ rest) =
    option_map (app (print_block TRBr q)) (TT sec false false rest).
  Proof.
    intros Hq H. destruct q as [|t q]; [cbn [items_block print_block pt flat_map app]; apply om_nil|].
    unfold items_block, print_block. rewrite !pt_app, <- !app_assoc.
    rewrite tt_open, (tt_qterms sec (t :: q) Hq _), (tt_close sec rest H), !om_app, <- !app_assoc. reflexivity.
  Qed.

  Lemma tt_const sec c rest : not_cmp rest ->
    TT sec false false (pt (items_const c) ++ rest) = option_map (app (print_const c)) (TT sec false false rest).
  Proof.
    intros H. unfold items_const, print_const. destruct (Qc_eqb c 0).
    - cbn [pt flat_map app]. apply om_nil.
    - apply tt_coef. exact H.
  Qed.

  (* ---------- numerals after / before a comparison ---------- *)
  Lemma i_num_ptok q : pt [i_num q] = [PNum q].
  Proof.
    unfold i_num, pt. destruct (Qc_neg q); cbn [flat_map ptok_of app signed]; [|reflexivity].
    rewrite Qcopp_involutive. reflexivity.
  Qed.

  Lemma tt_num_after_cmp sec q rest :
    TT sec false true (pt [i_num q] ++ rest) = option_map (app [TNum q]) (TT sec false false rest).
  Proof. rewrite i_num_ptok. reflexivity. Qed.

  Lemma tt_num_before_cmp sec q c rest :
    TT sec false false (pt [i_num q] ++ PCmp c :: rest) =
    option_map (app [TNum q]) (TT sec false false (PCmp c :: rest)).
  Proof. rewrite i_num_ptok. reflexivity. Qed.

  (* ---------- sections, labels, comparisons ---------- *)
  Lemma tt_minimize rest :
    TT SEC_NONE false false (pt [ISec1 W_Minimize SEC_OBJMIN] ++ rest) =
    option_map (app [TMinimize]) (TT SEC_OBJMIN true false rest).
  Proof. reflexivity. Qed.

  Lemma tt_obj rest :
    TT SEC_OBJMIN true false (pt [ILabel W_obj] ++ rest) = option_map (app [TObj]) (TT SEC_OBJMIN false false rest).
  Proof. reflexivity. Qed.

  Lemma tt_subject_to s rest :
    TT s false false (pt [ISubjectTo] ++ rest) = option_map (app [TSubjectTo]) (TT SEC_CON false false rest).
  Proof. reflexivity. Qed.

  Lemma tt_sec s w k t rest :
    In (k, t) [(SEC_BOUNDS, TBounds); (SEC_BIN, TBinary); (SEC_GEN, TGeneral)] ->
    TT s false false (pt [ISec1 w k] ++ rest) = option_map (app [t]) (TT k false false rest).
  Proof. intros [E|[E|[E|[]]]]; inversion E; subst; reflexivity. Qed.

  Lemma tt_end s w : TT s false false (pt [ISec1 w SEC_END]) = Some [TEnd].
  Proof. reflexivity. Qed.

  Lemma tt_label l rest : Uc l ->
    TT SEC_CON false false (pt [ILabel (cn l)] ++ rest) = option_map (app [TLabel l]) (TT SEC_CON false false rest).
  Proof. intros U. unfold pt. cbn [flat_map ptok_of app to_tokens]. rewrite (Hcn l U). reflexivity. Qed.

  Lemma tt_sense s rest :
    TT SEC_CON false false (pt [i_sense s] ++ rest) = option_map (app [TSense s]) (TT SEC_CON false true rest).
  Proof. destruct s; reflexivity. Qed.

  Lemma tt_le pc rest :
    TT SEC_BOUNDS false pc (pt [ICmp CLeq] ++ rest) = option_map (app [TLe]) (TT SEC_BOUNDS false true rest).
  Proof. reflexivity. Qed.

  Lemma sense_not_half s rest : not_half (pt [i_sense s] ++ rest).
  Proof. destruct s; exact I. Qed.

  Lemma tt_num_before_le sec q rest :
    TT sec false false (pt [i_num q] ++ pt [ICmp CLeq] ++ rest) =
    option_map (app [TNum q]) (TT sec false false (pt [ICmp CLeq] ++ rest)).
  Proof. exact (tt_num_before_cmp sec q CLeq rest). Qed.

  (* ---------- the parts of the file ---------- *)
  Lemma tt_objective o rest : lterms_in (lo_lin o) -> qterms_in (lo_quad2 o) ->
    TT SEC_NONE false false (pt (items_objective o) ++ pt [ISubjectTo] ++ rest) =
    option_map (app (print_objective o ++ [TSubjectTo])) (TT SEC_CON false false rest).
  Proof.
    intros Hl Hq. unfold items_objective, print_objective. destruct (obj_empty o).
    - cbn [pt flat_map app]. rewrite tt_subject_to. reflexivity.
    - rewrite !pt_app, pt_pair, <- !app_assoc.
      rewrite tt_minimize, tt_obj, (tt_lterms _ _ Hl), (tt_block_half _ _ _ Hq).
      rewrite (tt_const SEC_OBJMIN (lo_const o) (pt [ISubjectTo] ++ rest) I), tt_subject_to, !om_app, <- !app_assoc. reflexivity.
  Qed.

  Lemma tt_constraint lc rest : con_in lc ->
    TT SEC_CON false false (pt (items_constraint lc) ++ rest) =
    option_map (app (print_constraint lc)) (TT SEC_CON false false rest).
  Proof.
    intros [Hc [Hl Hq]]. unfold items_constraint, print_constraint. rewrite !pt_app, <- !app_assoc.
    rewrite (tt_label _ _ Hc), (tt_lterms _ _ Hl). rewrite pt_pair, <- !app_assoc.
    rewrite (tt_block_plain SEC_CON _ _ Hq (sense_not_half _ _)), tt_sense, tt_num_after_cmp, !om_app, <- !app_assoc.
    reflexivity.
  Qed.

  Lemma tt_constraints cs : Forall con_in cs -> forall rest,
    TT SEC_CON false false (pt (flat_map items_constraint cs) ++ rest) =
    option_map (app (flat_map print_constraint cs)) (TT SEC_CON false false rest).
  Proof.
    intros Hin. induction Hin as [|c cs Hc Hcs IH]; intros rest; [cbn [flat_map pt app]; apply om_nil|].
    cbn [flat_map]. rewrite pt_app, <- app_assoc, (tt_constraint _ _ Hc), IH, om_app. reflexivity.
  Qed.

  Lemma tt_bound b rest : Uv (fst (fst b)) ->
    TT SEC_BOUNDS false false (pt (items_bound b) ++ rest) =
    option_map (app (print_bound b)) (TT SEC_BOUNDS false false rest).
  Proof.
    destruct b as [[v lo] hi]. cbn [fst]. intros U. unfold items_bound, print_bound.
    rewrite pt_cons4, <- !app_assoc.
    rewrite tt_num_before_le, tt_le, (tt_name _ _ _ _ _ U), tt_le, tt_num_after_cmp, !om_app. reflexivity.
  Qed.

  Lemma tt_bounds bs : Forall (fun b => Uv (fst (fst b))) bs -> forall rest,
    TT SEC_BOUNDS false false (pt (flat_map items_bound bs) ++ rest) =
    option_map (app (flat_map print_bound bs)) (TT SEC_BOUNDS false false rest).
  Proof.
    intros Hin. induction Hin as [|b bs Hb Hbs IH]; intros rest; [cbn [flat_map pt app]; apply om_nil|].
    cbn [flat_map]. rewrite pt_app, <- app_assoc, (tt_bound _ _ Hb), IH, om_app. reflexivity.
  Qed.

  Lemma tt_names sec vs : Forall Uv vs -> forall rest,
    TT sec false false (pt (map (fun v => IName (vn v)) vs) ++ rest) =
    option_map (app (map TName vs)) (TT sec false false rest).
  Proof.
    intros Hin. induction Hin as [|v vs Hv Hvs IH]; intros rest; [cbn [map pt flat_map app]; apply om_nil|].
    cbn [map]. rewrite pt_cons, <- app_assoc, (tt_name _ _ _ _ _ Hv), IH, om_app. reflexivity.
  Qed.

  (* the processed tokens of the text of m, translated for the reference parser, are print_cqm m *)
  Theorem to_tokens_items_cqm m : model_in m ->
    to_tokens names cons SEC_NONE false false (pt (items_cqm m)) = Some (print_cqm m).
  Proof.
    intros [H1 [H2 [H3 [H4 [H5 H6]]]]]. unfold items_cqm, print_cqm. rewrite !pt_app.
    rewrite (tt_objective _ _ H1 H2), (tt_constraints _ H3).
    rewrite (tt_sec SEC_CON W_Bounds SEC_BOUNDS TBounds _ (or_introl eq_refl)), (tt_bounds _ H4).
    rewrite (tt_sec SEC_BOUNDS W_Binary SEC_BIN TBinary _ (or_intror (or_introl eq_refl))), (tt_names _ _ H5).
    rewrite (tt_sec SEC_BIN W_General SEC_GEN TGeneral _ (or_intror (or_intror (or_introl eq_refl)))), (tt_names _ _ H6).
    rewrite tt_end. cbn [option_map]. rewrite <- !app_assoc. reflexivity.
  Qed.
End Items.

(* ================================================================== *)
(* THE ROUND TRIP AT CHARACTER LEVEL (reader model): the text of a model - its groups written word by
   word with a blank behind each word, lines broken by _WidthLimitedFile at any column - goes through
   the reader's tokenizer, its keyword stage, the translation into the reference parser's vocabulary
   and the reference parser back to the model *)
Theorem chars_to_model vn cn numw names cons (Uv Uc : nat -> Prop) tbl m :
  (forall v, Uv v -> index_of (vn v) names = Some v) -> (forall l, Uc l -> index_of (cn l) cons = Some l) ->
  model_in Uv Uc m ->
  let its := items_cqm vn cn numw m in
  Forall (item_ok tbl) its -> Forall item_lex_ok its ->
  Forall (fun p => no_blank (fst p)) (flat_map words_of its) ->
  let text := wrap (word_writes (map fst (flat_map words_of its))) in
  read_tokens tbl names cons text = Some (print_cqm m) /\
  match read_tokens tbl names cons text with Some toks => parse_tokens toks | None => None end = Some m.
Proof.
  intros Hvn Hcn Hin its Hok Hlex Hnb text.
  assert (R : read_tokens tbl names cons text = Some (print_cqm m)).
  { unfold read_tokens, text. pose proof (chars_to_processed tbl its Hok Hlex Hnb) as C.
    destruct (lex_text _) as [raws|]; [|discriminate]. rewrite C.
    apply (to_tokens_items_cqm vn cn numw names cons Uv Uc Hvn Hcn m Hin). }
  split; [exact R|]. rewrite R. apply parse_print_cqm.
Qed.

(* ------------------------------------------------------------------ *)
(* the hypotheses of the round trip, from conditions on the names, labels and numerals only *)

Lemma Qc_neg_false_iff b : Qc_neg b = false <-> 0 <= b.
Proof. unfold Qc_neg. rewrite negb_false_iff. exact (Qle_bool_Qcle 0 b). Qed.

Lemma Qc_abs_nonneg b : 0 <= Qc_abs b.
Proof.
  unfold Qc_abs. destruct (Qc_neg b) eqn:E.
  - assert (L : ~ 0 <= b) by (intros H; apply Qc_neg_false_iff in H; congruence).
    apply Qcnot_le_lt in L. apply Qclt_le_weak in L. apply Qcopp_le_compat in L.
    replace (- 0) with 0 in L by reflexivity. exact L.
  - apply Qc_neg_false_iff. exact E.
Qed.

Lemma Qc_neg_opp_nonneg q : Qc_neg q = true -> 0 <= - q.
Proof. intros H. pose proof (Qc_abs_nonneg q) as A. unfold Qc_abs in A. rewrite H in A. exact A. Qed.

Lemma Qc_nonneg_of_not_neg q : Qc_neg q = false -> 0 <= q.
Proof. intros H. pose proof (Qc_abs_nonneg q) as A. unfold Qc_abs in A. rewrite H in A. exact A. Qed.

(* the numbers written in the file of m *)
Definition obj_nums (o : lp_obj) : list Qc := map snd (lo_lin o) ++ map snd (lo_quad2 o) ++ [lo_const o].
Definition con_nums (c : lp_con) : list Qc := map snd (lc_lin c) ++ map snd (lc_quad c) ++ [lc_rhs c].
Definition model_nums (m : lpmodel) : list Qc :=
  obj_nums (m_obj m) ++ flat_map (fun lc => con_nums (snd lc)) (m_cons m)
  ++ flat_map (fun b => [snd (fst b); snd b]) (m_bounds m).

Section ItemsOk.
  Variables (vn cn : nat -> text) (numw : Qc -> text) (tbl : numtable) (Uv Uc : nat -> Prop).
  Definition P (it : item) : Prop := item_ok tbl it /\ item_lex_ok it.
  (* the numeral written for the magnitude of b is a decimal word whose value the reader gets right *)
  Definition numeral_ok (b : Qc) : Prop :=
    num_value tbl (numw (Qc_abs b)) = Some (Qc_abs b) /\ decimal_word (numw (Qc_abs b)).
  Hypothesis HV : forall v, Uv v -> P (IName (vn v)).
  Hypothesis HC : forall l, Uc l -> P (ILabel (cn l)).

  Lemma Forall_flat {A} (Q : A -> Prop) (f : A -> list item) l :
    (forall x, Q x -> Forall P (f x)) -> Forall Q l -> Forall P (flat_map f l).
  Proof.
    intros H HQ. induction HQ as [|x l Hx Hl IH]; [constructor|]. cbn [flat_map].
    apply Forall_app. split; [apply H; exact Hx | exact IH].
  Qed.

  Lemma P_coef b : numeral_ok b -> P (i_coef numw b).
  Proof. intros [A B]. split; [exact A | exact B]. Qed.

  Lemma P_num q : numeral_ok q -> P (i_num numw q).
  Proof. unfold numeral_ok, Qc_abs, i_num. intros [A B]. destruct (Qc_neg q); split; assumption. Qed.

  Lemma Forall_and2 {A} (Q R : A -> Prop) l : Forall Q l -> Forall R l -> Forall (fun x => Q x /\ R x) l.
  Proof. intros HQ. induction HQ; intros HR; inversion HR; subst; constructor; auto. Qed.

  Lemma P_lterms l : lterms_in Uv l -> Forall numeral_ok (map snd l) -> Forall P (flat_map (items_lterm vn numw) l).
  Proof.
    intros Hin H. rewrite Forall_map in H. pose proof (Forall_and2 _ _ _ Hin H) as HH.
    apply (Forall_flat (fun t => Uv (fst t) /\ numeral_ok (snd t))); [|exact HH].
    intros t [U Ht]. unfold items_lterm. constructor; [apply P_coef; exact Ht | constructor; [apply HV; exact U | constructor]].
  Qed.

  Lemma P_qterms q : qterms_in Uv q -> Forall numeral_ok (map snd q) -> Forall P (flat_map (items_qterm vn numw) q).
  Proof.
    intros Hin H. rewrite Forall_map in H. pose proof (Forall_and2 _ _ _ Hin H) as HH.
    apply (Forall_flat (fun t => (Uv (fst (fst t)) /\ Uv (snd (fst t))) /\ numeral_ok (snd t))); [|exact HH].
    intros t [[U1 U2] Ht]. unfold items_qterm. constructor; [apply P_coef; exact Ht|]. constructor; [apply HV; exact U1|].
    constructor; [split; exact I|]. constructor; [apply HV; exact U2 | constructor].
  Qed.

  Lemma P_block close q : P close -> qterms_in Uv q -> Forall numeral_ok (map snd q) -> Forall P (items_block vn numw close q).
  Proof.
    intros Hc Hin Hq. destruct q as [|t q]; [constructor|]. unfold items_block.
    apply Forall_app. split; [constructor; [split; exact I | constructor]|].
    apply Forall_app. split; [apply P_qterms; [exact Hin | exact Hq] | constructor; [exact Hc | constructor]].
  Qed.

  Lemma P_sec w k :
    negb (memN SPACE (lower_text w)) && negb (memN MINUSC (lower_text w))
    && negb (in_texts (lower_text w) [w_subject; w_such; w_semi]) = true ->
    section_of (lower_text w) = Some k -> In (w, [RStr w]) fixed_words -> P (ISec1 w k).
  Proof. intros A B C. exact (sec1_ok tbl w k A B C). Qed.

  Lemma P_obj : P (ILabel W_obj).
  Proof.
    split; [split; [apply lone_b; vm_compute; reflexivity | vm_compute; reflexivity]|].
    split; vm_compute; reflexivity.
  Qed.

  Theorem items_cqm_ok m :
    model_in Uv Uc m -> Forall numeral_ok (model_nums m) ->
    Forall (item_ok tbl) (items_cqm vn cn numw m) /\ Forall item_lex_ok (items_cqm vn cn numw m).
  Proof.
    intros [I1 [I2 [I3 [I4 [I5 I6]]]]] HM. unfold model_nums in HM.
    apply Forall_app in HM. destruct HM as [HO HM]. apply Forall_app in HM. destruct HM as [HCs HB].
    assert (F : Forall P (items_cqm vn cn numw m)).
    { unfold items_cqm. repeat (apply Forall_app; split).
      - unfold items_objective. destruct (obj_empty (m_obj m)); [constructor|].
        unfold obj_nums in HO. apply Forall_app in HO. destruct HO as [H1 HO].
        apply Forall_app in HO. destruct HO as [H2 H3].
        repeat (apply Forall_app; split).
        + constructor; [apply P_sec; [vm_compute; reflexivity | vm_compute; reflexivity | left; reflexivity]|].
          constructor; [apply P_obj | constructor].
        + apply P_lterms; [exact I1 | exact H1].
        + apply P_block; [split; exact I | exact I2 | exact H2].
        + unfold items_const. destruct (Qc_eqb _ 0); [constructor|].
          constructor; [apply P_coef; inversion H3; assumption | constructor].
      - constructor; [split; exact I | constructor].
      - apply (Forall_flat (fun lc => con_in Uv Uc lc /\ Forall numeral_ok (con_nums (snd lc)))).
        + intros lc [[J1 [J2 J3]] Hlc]. unfold con_nums in Hlc. apply Forall_app in Hlc. destruct Hlc as [H1 Hlc].
          apply Forall_app in Hlc. destruct Hlc as [H2 H3].
          unfold items_constraint. repeat (apply Forall_app; split).
          * constructor; [apply HC; exact J1 | constructor].
          * apply P_lterms; [exact J2 | exact H1].
          * apply P_block; [split; exact I | exact J3 | exact H2].
          * constructor; [|constructor; [apply P_num; inversion H3; assumption | constructor]].
            split; destruct (lc_sense (snd lc)); cbn; tauto.
        + apply Forall_and2; [exact I3|].
          clear - HCs. induction (m_cons m) as [|lc l IH]; [constructor|]. cbn [flat_map] in HCs.
          apply Forall_app in HCs. destruct HCs as [A B]. constructor; [exact A | exact (IH B)].
      - constructor; [apply P_sec; [vm_compute; reflexivity | vm_compute; reflexivity | do 4 right; left; reflexivity] | constructor].
      - apply (Forall_flat (fun b => Uv (fst (fst b)) /\ (numeral_ok (snd (fst b)) /\ numeral_ok (snd b)))).
        + intros [[v lo] hi] [U [Hlo Hhi]]. cbn [fst snd] in *. unfold items_bound.
          constructor; [apply P_num; exact Hlo|]. constructor; [split; cbn; tauto|]. constructor; [apply HV; exact U|].
          constructor; [split; cbn; tauto|]. constructor; [apply P_num; exact Hhi | constructor].
        + apply Forall_and2; [exact I4|].
          clear - HB. induction (m_bounds m) as [|b l IH]; [constructor|]. cbn [flat_map app] in HB.
          inversion HB as [|? ? A HB1]; subst. inversion HB1 as [|? ? B HB2]; subst.
          constructor; [split; assumption | exact (IH HB2)].
      - constructor; [apply P_sec; [vm_compute; reflexivity | vm_compute; reflexivity | do 5 right; left; reflexivity] | constructor].
      - apply Forall_forall. intros it Hin. apply in_map_iff in Hin. destruct Hin as [v [<- Hv]]. apply HV.
        exact (proj1 (Forall_forall _ _) I5 v Hv).
      - constructor; [apply P_sec; [vm_compute; reflexivity | vm_compute; reflexivity | do 6 right; left; reflexivity] | constructor].
      - apply Forall_forall. intros it Hin. apply in_map_iff in Hin. destruct Hin as [v [<- Hv]]. apply HV.
        exact (proj1 (Forall_forall _ _) I6 v Hv).
      - constructor; [apply P_sec; [vm_compute; reflexivity | vm_compute; reflexivity | do 7 right; left; reflexivity] | constructor]. }
    split; eapply Forall_impl; try exact F; intros it [A B]; assumption.
  Qed.
End ItemsOk.

(* ================================================================== *)
(* the property on the models, from the characters: writer conventions, text, reader model (tokenizer,
   keyword stage, translation, reference parser), reader conventions *)
Theorem lp_chars_roundtrip vn cn numw names cons (Uv Uc : nat -> Prop) tbl (c : cqm) :
  (forall v, Uv v -> index_of (vn v) names = Some v) -> (forall l, Uc l -> index_of (cn l) cons = Some l) ->
  (forall v, Uv v -> P tbl (IName (vn v))) -> (forall l, Uc l -> P tbl (ILabel (cn l))) ->
  model_in Uv Uc (lpmodel_of_cqm c) ->
  Forall (numeral_ok numw tbl) (model_nums (lpmodel_of_cqm c)) ->
  let its := items_cqm vn cn numw (lpmodel_of_cqm c) in
  Forall (fun p => no_blank (fst p)) (flat_map words_of its) ->
  NoDup (map vi_label (q_vars c)) -> Forall var_wf (q_vars c) ->
  let text := wrap (word_writes (map fst (flat_map words_of its))) in
  exists toks m,
    read_tokens tbl names cons text = Some toks /\ parse_tokens toks = Some m /\
    let c' := cqm_of_lpmodel (map vi_label (q_vars c)) m in
    q_vars c' = q_vars c /\
    q_cons c' = map (fun lc => (fst lc, read_constraint (write_constraint (snd lc)))) (q_cons c) /\
    (forall s, energy (q_obj c') s = energy (q_obj c) s).
Proof.
  intros Hvn Hcn HV HC Hin HN its Hnb Hnd Hwf text.
  destruct (items_cqm_ok vn cn numw tbl Uv Uc HV HC (lpmodel_of_cqm c) Hin HN) as [Hok Hlex].
  destruct (chars_to_model vn cn numw names cons Uv Uc tbl (lpmodel_of_cqm c) Hvn Hcn Hin Hok Hlex Hnb) as [R Pm].
  exists (print_cqm (lpmodel_of_cqm c)), (lpmodel_of_cqm c).
  split; [exact R|]. split; [apply parse_print_cqm|].
  destruct (cqm_lpmodel_roundtrip c Hnd Hwf) as [A [_ [B C]]]. repeat split; assumption.
Qed.
