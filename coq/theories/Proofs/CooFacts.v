(* C11 - COO lines: loads (dumps bqm) has the vartype and the energy (minus the offset) of bqm *)
From Coq Require Import List ZArith NArith QArith Qcanon Bool Arith Lia.
From Dimod Require Import Base.Util Model.Poly Model.Ser Model.Coo Proofs.PolyFacts Proofs.CoeffSound
  Proofs.LPFacts Proofs.SerVec.
Import ListNotations.
Open Scope Qc_scope.

Definition line_val (s : sample) (t : coo_line) : Qc :=
  let '(u, v, b) := t in if (u =? v)%nat then b * s u else b * s u * s v.

Lemma coo_build_off ls : p_off (coo_build ls) = 0.
Proof.
  induction ls as [|[[a c] d] r IH]; [reflexivity|].
  cbn [coo_build]. destruct (a =? c)%nat; reflexivity.
Qed.

Lemma coo_build_energy ls s : energy (coo_build ls) s = qsum (map (line_val s) ls).
Proof.
  induction ls as [|[[u v] b] r IH].
  - unfold energy, lin_energy, quad_energy. cbn [coo_build p_off p_lin p_quad map qsum]. ring.
  - cbn [map qsum line_val]. rewrite <- IH. cbn [coo_build].
    pose proof (coo_build_off r) as O. unfold energy.
    destruct (u =? v)%nat; cbn [p_off p_lin p_quad]; rewrite O.
    + rewrite lin_energy_cons. cbn [fst snd]. ring.
    + rewrite quad_energy_cons. cbn [fst snd]. ring.
Qed.

Lemma entry_val p u v s :
  qsum (map (line_val s) (coo_entry p u v))
  = if (u =? v)%nat then lin_coeff (p_lin p) u * s u else quad_coeff (p_quad p) u v * s u * s v.
Proof.
  unfold coo_entry. destruct (u =? v)%nat eqn:E.
  - destruct (Qc_eqb (lin_coeff (p_lin p) u) 0) eqn:Z.
    + apply Qc_eqb_true in Z. rewrite Z. cbn [map qsum]. ring.
    + cbn [map qsum line_val]. rewrite Nat.eqb_refl. ring.
  - destruct (has_pair (p_quad p) u v) eqn:H.
    + cbn [map qsum line_val]. rewrite E. ring.
    + rewrite (has_pair_false_coeff _ _ _ H). cbn [map qsum]. ring.
Qed.

Lemma qsum_flat_map_lines {A} (F : A -> list coo_line) l s :
  qsum (map (line_val s) (flat_map F l)) = qsum (map (fun x => qsum (map (line_val s) (F x))) l).
Proof.
  induction l as [|x l IH]; [reflexivity|].
  cbn [flat_map map qsum]. rewrite map_app, qsum_app, IH. reflexivity.
Qed.

Lemma tail_sum_as_indicator (g : nat -> Qc) u n : (u < n)%nat ->
  qsum (map g (seq (S u) (n - S u))) = qsum (map (fun v => ind (u <? v)%nat (g v)) (seq 0 n)).
Proof.
  intros H. replace n with (S u + (n - S u))%nat at 2 by lia.
  rewrite seq_app, map_app, qsum_app. cbn [plus].
  rewrite (qsum_map_ind_false (fun v => (u <? v)%nat) g (seq 0 (S u))).
  - rewrite (qsum_map_ind_true (fun v => (u <? v)%nat) g). ring.
    intros v Hv. apply in_seq in Hv. apply Nat.ltb_lt. lia.
  - intros v Hv. apply in_seq in Hv. apply Nat.ltb_ge. lia.
Qed.

Theorem coo_lines_energy n p s :
  labels_below n p -> no_selfloops p ->
  energy (coo_build (coo_lines (coo_dumps false BINARY n p))) s = energy p s - p_off p.
Proof.
  intros Hb Hn. rewrite coo_build_energy, (energy_grouped n p s Hb).
  unfold coo_dumps. cbn [coo_lines]. rewrite qsum_flat_map_lines.
  transitivity (qsum (map (fun u => lin_coeff (p_lin p) u * s u
      + qsum (map (fun v => ind (u <? v)%nat (quad_coeff (p_quad p) u v * s u * s v)) (seq 0 n))) (seq 0 n))).
  - apply qsum_map_ext_in. intros u Hu. apply in_seq in Hu.
    rewrite qsum_flat_map_lines.
    replace (n - u)%nat with (S (n - S u)) by lia. cbn [seq map qsum].
    rewrite entry_val, Nat.eqb_refl. f_equal.
    rewrite <- (tail_sum_as_indicator (fun v => quad_coeff (p_quad p) u v * s u * s v) u n) by lia.
    apply qsum_map_ext_in. intros v Hv. apply in_seq in Hv.
    rewrite entry_val. rewrite (proj2 (Nat.eqb_neq u v)) by lia. reflexivity.
  - rewrite qsum_map_add.
    rewrite (pair_sum_swap (fun u v => quad_coeff (p_quad p) u v * s u * s v)).
    + assert (E : qsum (map (fun u => qsum (map (fun v => quad_coeff (p_quad p) u v * s u * s v) (seq 0 (S u)))) (seq 0 n))
                = qsum (map (fun u => qsum (map (fun v => quad_coeff (p_quad p) u v * s u * s v) (seq 0 u))) (seq 0 n))).
      { apply qsum_map_ext_in. intros u _. rewrite seq_S. cbn [plus].
        rewrite map_app, qsum_app. cbn [map qsum]. rewrite (no_selfloops_diag p u Hn). ring. }
      rewrite E. ring.
    + intros u v. rewrite (quad_coeff_sym (p_quad p) u v). ring.
Qed.

(* coo_roundtrip_nonzero: the vartype (from the header, or from the argument when the header is
   not written) and every non-zero bias come back; the offset is not part of the format *)
Theorem coo_roundtrip_nonzero (header : bool) vt n p :
  labels_below n p -> no_selfloops p ->
  exists q, coo_loads (if header then None else Some vt) (coo_dumps header vt n p) = Some (vt, q) /\
            forall s, energy q s = energy p s - p_off p.
Proof.
  intros Hb Hn. exists (coo_build (coo_lines (coo_dumps false BINARY n p))). split.
  - unfold coo_loads, coo_dumps. destruct header; reflexivity.
  - intros s. apply coo_lines_energy; assumption.
Qed.

(* a header that contradicts the argument, or no vartype at all, is refused *)
Theorem coo_loads_refusals t a h :
  (coo_header t = None -> coo_loads None t = None) /\
  (coo_header t = Some h -> vartype_eqb h a = false -> coo_loads (Some a) t = None).
Proof.
  split; intros H; unfold coo_loads; rewrite H; [reflexivity|]. intros E. rewrite E. reflexivity.
Qed.
