(* C17: magic_square - the construction generated from the source (Gen/Gen_Magic.v, Model/MagicGen.v) is the mirror *)
From Coq Require Import List ZArith QArith Qcanon Bool Arith Lia.
From Dimod Require Import Base.Util Model.Poly Model.Knap Model.Gates Model.Magic Gen.Gen_Magic Model.MagicGen Proofs.GatesFacts.
Import ListNotations.
Open Scope Qc_scope.

Lemma flat_map_flat_map' {A B C} (f : A -> list B) (g : B -> list C) l :
  flat_map g (flat_map f l) = flat_map (fun a => flat_map g (f a)) l.
Proof. induction l as [|a l IH]; [reflexivity|]. cbn [flat_map]. rewrite flat_map_app, IH. reflexivity. Qed.

Theorem gm_uniq_quad_is_source n : gm_uniq_quad n = p_quad (uniq_poly n).
Proof.
  unfold uniq_poly, cell_pairs, gm_uniq_quad. cbn [p_quad].
  rewrite flat_map_flat_map'. apply flat_map_ext. intros i.
  rewrite flat_map_flat_map'. apply flat_map_ext. intros j.
  rewrite flat_map_flat_map'. apply flat_map_ext. intros k.
  rewrite flat_map_flat_map'. apply flat_map_ext. intros l.
  unfold gm_pair_guard. destruct ((i <? k)%nat && (l =? j)%nat || (j <? l)%nat); [|reflexivity].
  cbn [flat_map fst snd app]. unfold gm_pair_terms, gm_cell, mcell.
  repeat f_equal; apply Qc_is_canon; reflexivity.
Qed.

(* n^4 - n^2 is even, so the float division of the source is the integer division of the mirror *)
Lemma even_n4_n2 (n : nat) : exists m : nat, (n * n * n * n - n * n = 2 * m)%nat.
Proof.
  destruct (Nat.Even_or_Odd n) as [[h ->]|[h ->]].
  - exists (2 * h * h * (2 * h * 2 * h) - 2 * h * h)%nat. nia.
  - exists ((2 * h + 1) * (2 * h + 1) * (2 * h * h + 2 * h))%nat. nia.
Qed.

Theorem magicg_uniq_rhs_is_source n : magicg_uniq_rhs n = uniq_rhs n.
Proof.
  unfold magicg_uniq_rhs, uniq_rhs, gm_uniq_rhs_num, gm_uniq_rhs_den.
  destruct (even_n4_n2 n) as [m Hm]. rewrite Hm.
  replace (2 * m / 2)%nat with m by (rewrite Nat.mul_comm, Nat.div_mul; lia).
  replace (Z.of_nat n ^ 4 - Z.of_nat n ^ 2)%Z with (2 * Z.of_nat m)%Z by nia.
  rewrite z2q_mul. field. intros H. apply z2q_inj0 in H. discriminate H.
Qed.

(* TIE: for the two powers the source accepts, the generated construction IS the hand-written mirror, for every n *)
Theorem magicg_constraints_is_source n power : power = 1%nat \/ power = 2%nat ->
  magicg_constraints n power = magic_constraints n power.
Proof.
  intros [-> | ->]; unfold magicg_constraints, magic_constraints;
    rewrite magicg_uniq_rhs_is_source, gm_uniq_quad_is_source; reflexivity.
Qed.

(* hence the theorems about the mirror hold of the generated construction *)
Theorem magicg_feasible_is_source n power (x : sample) : power = 1%nat \/ power = 2%nat ->
  forallb (fun c => qcon_satb c x) (magicg_constraints n power) = magic_feasibleb n power x.
Proof. intros H. unfold magic_feasibleb. rewrite (magicg_constraints_is_source n power H). reflexivity. Qed.
