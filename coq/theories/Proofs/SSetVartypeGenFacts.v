(* Model/SSetVartype.v uses exactly the sample maps, the widening rule and the statement order that
   translators/sampleset_vartype.py extracts from SampleSet.change_vartype (Gen/Gen_SSetVartype.v).
   Unfolding only: a changed literal / order in sampleset.py breaks this file. *)
From Coq Require Import List ZArith QArith Qcanon Qround Bool Arith.
From Dimod Require Import Base.Util Model.Poly Model.SSet Model.SSetVartype Gen.Gen_SSetVartype.
Import ListNotations.
Open Scope Qc_scope.

Theorem to_spin_value_uses_source_constants x :
  to_spin_value x = fst gen_ss_to_spin * x + snd gen_ss_to_spin.
Proof. reflexivity. Qed.

Theorem to_binary_value_uses_source_constants x :
  (* floor_div2 y = floor (y * half) and half is the inverse of the generated divisor *)
  to_binary_value x = floor_div2 (x + fst gen_ss_to_binary) /\ half = / snd gen_ss_to_binary.
Proof. split; reflexivity. Qed.

(* every sample value is exact in the model, which is the behaviour of the code exactly when bool and unsigned
   storage are widened before 2*x-1 (otherwise -1 wraps around) *)
Theorem storage_is_widened : gen_ss_widens_bool = true /\ gen_ss_widens_unsigned = true.
Proof. split; reflexivity. Qed.

(* the model shifts the energies first, as the source does *)
Theorem energy_shift_order target off s :
  gen_ss_energy_shift_first = true /\
  (forall s', ss_change_vartype target off s = Fail s' -> s' = ss_shift_energy off s) /\
  (vartype_eqb target (vt s) = true -> ss_change_vartype target off s = Ok (ss_shift_energy off s)).
Proof.
  split; [reflexivity|]. unfold ss_change_vartype. split.
  - intros s'. destruct (vartype_eqb target (vt (ss_shift_energy off s))); [discriminate|].
    destruct target, (vt (ss_shift_energy off s)); intros H; inversion H; reflexivity.
  - intros E. assert (V : vt (ss_shift_energy off s) = vt s).
    { unfold ss_shift_energy. destruct (Qc_eqb off 0); reflexivity. }
    rewrite V, E. reflexivity.
Qed.

Print Assumptions to_spin_value_uses_source_constants.
Print Assumptions to_binary_value_uses_source_constants.
Print Assumptions energy_shift_order.
