From Coq Require Import List ZArith QArith Qcanon Bool Arith Lia.
From Dimod Require Import Base.Util Model.Poly Model.Samples Model.SSet Model.Heap Proofs.PolyFacts.
Import ListNotations.
Open Scope Qc_scope.

(* ---------- what each copy-producing call returns ---------- *)
Fixpoint s2b_sample (vs : list label) (x : sample) : sample :=
  match vs with [] => x | v :: r => let y := s2b_sample r x in upd y v (two * y v - 1) end.
Fixpoint b2s_sample (vs : list label) (x : sample) : sample :=
  match vs with [] => x | v :: r => let y := b2s_sample r x in upd y v ((y v + 1) * half) end.

Lemma s2b_energy vs : forall p x, energy (s2b vs p) x = energy p (s2b_sample vs x).
Proof.
  induction vs as [|v r IH]; intros p x; [reflexivity|].
  unfold s2b. cbn [fold_left]. fold (s2b r (spin_to_binary v p)).
  rewrite IH, spin_to_binary_energy. reflexivity.
Qed.

Lemma b2s_energy vs : forall p x, energy (b2s vs p) x = energy p (b2s_sample vs x).
Proof.
  induction vs as [|v r IH]; intros p x; [reflexivity|].
  unfold b2s. cbn [fold_left]. fold (b2s r (binary_to_spin v p)).
  rewrite IH, binary_to_spin_energy. reflexivity.
Qed.

(* the documented result of every model-level copy-producing call, as a statement about energies *)
Theorem cop_model_result K h c p o' :
  apply_cop K h c (OModel p) = Some o' ->
  exists q, o' = OModel q /\
    match c with
    | CCopy => q = p
    | CRelabel f => forall s, energy q s = energy p (fun v => s (f v))
    | CSpinToBinary vs => forall x, energy q x = energy p (s2b_sample vs x)
    | CBinaryToSpin vs => forall s, energy q s = energy p (b2s_sample vs s)
    | CFix fs => forall s, energy q s = energy p (fold_right (fun f acc => upd acc (fst f) (snd f)) s fs)
    | CScale k => forall s, energy q s = k * energy p s
    | CNeg => forall s, energy q s = - energy p s
    | CAddConst c0 => forall s, energy q s = energy p s + c0
    | CAdd j => exists b, model_of h j = Some b /\ forall s, energy q s = energy p s + energy b s
    | CSub j => exists b, model_of h j = Some b /\ forall s, energy q s = energy p s - energy b s
    | CSet _ | CConcat _ => False
    end.
Proof.
  destruct c; cbn [apply_cop]; intros H; try discriminate;
    try (inversion H; subst o'; eexists; split; [reflexivity|]).
  - reflexivity.
  - intros s. apply energy_relabel.
  - intros x. apply s2b_energy.
  - intros s. apply b2s_energy.
  - intros s. apply fix_variables_energy.
  - intros s. apply energy_scale.
  - intros s. apply energy_pneg.
  - intros s. apply energy_add_offset.
  - destruct (model_of h other) as [b|] eqn:E; [|discriminate]. inversion H; subst o'.
    eexists; split; [reflexivity|]. exists b. split; [reflexivity|]. intros s. apply energy_padd.
  - destruct (model_of h other) as [b|] eqn:E; [|discriminate]. inversion H; subst o'.
    eexists; split; [reflexivity|]. exists b. split; [reflexivity|]. intros s. apply energy_psub.
Qed.

(* sample sets: the result IS the SSet.v function of the receiver (so every C14 theorem applies) *)
Theorem cop_set_result K h c s o' :
  apply_cop K h c (OSet s) = Some o' ->
  match c with
  | CCopy => o' = OSet s
  | CSet o => exists s', apply K o s = Ok s' /\ o' = OSet s'
  | CConcat js => exists l s', sets_of h js = Some l /\ concat_ss l s = Ok s' /\ o' = OSet s'
  | _ => False
  end.
Proof.
  destruct c; cbn [apply_cop]; intros H; try discriminate.
  - inversion H. reflexivity.
  - destruct (apply K o s) as [s'|s'] eqn:E; [|discriminate]. inversion H. exists s'. split; reflexivity.
  - destruct (sets_of h others) as [l|] eqn:E1; [|discriminate].
    destruct (concat_ss l s) as [s'|s'] eqn:E2; [|discriminate]. inversion H. exists l, s'. repeat split; assumption.
Qed.

(* ---------- heap facts ---------- *)
Lemma hset_other (h : heap) : forall i j o, i <> j -> nth_error (hset h i o) j = nth_error h j.
Proof.
  induction h as [|x r IH]; intros i j o H; [destruct i; reflexivity|].
  destruct i as [|i], j as [|j]; cbn; try reflexivity; [congruence|]. apply IH. congruence.
Qed.

Lemma hset_same (h : heap) : forall i o, (i < length h)%nat -> nth_error (hset h i o) i = Some o.
Proof.
  induction h as [|x r IH]; intros i o H; [cbn in H; lia|].
  destruct i as [|i]; cbn; [reflexivity|]. apply IH. cbn in H. lia.
Qed.

Lemma hset_length (h : heap) : forall i o, length (hset h i o) = length h.
Proof. induction h as [|x r IH]; intros [|i] o; cbn; auto. Qed.

Lemma hstep_length_mono K h o : (length h <= length (hstep K h o))%nat.
Proof.
  destruct o as [x|src c|i e]; cbn [hstep].
  - rewrite app_length. lia.
  - destruct (nth_error h src) as [x|]; [|lia]. destruct (apply_cop K h c x); [rewrite app_length; lia|lia].
  - destruct (nth_error h i); [rewrite hset_length; lia|lia].
Qed.

(* a copy-producing call never touches an existing cell - in particular not its receiver *)
Theorem copy_receiver_unchanged K h src c j :
  (j < length h)%nat -> nth_error (hstep K h (HCopy src c)) j = nth_error h j.
Proof.
  intros Hj. cbn [hstep]. destruct (nth_error h src) as [x|]; [|reflexivity].
  destruct (apply_cop K h c x); [apply nth_error_app1; assumption|reflexivity].
Qed.

(* ... and the new cell holds the documented result *)
Theorem copy_new_cell K h src c x y :
  nth_error h src = Some x -> apply_cop K h c x = Some y ->
  hstep K h (HCopy src c) = h ++ [y] /\ nth_error (hstep K h (HCopy src c)) (length h) = Some y.
Proof.
  intros Hx Hy. cbn [hstep]. rewrite Hx, Hy. split; [reflexivity|].
  rewrite nth_error_app2 by lia. rewrite Nat.sub_diag. reflexivity.
Qed.

(* a raising copy-producing call changes nothing at all *)
Theorem copy_raises_unchanged K h src c x :
  nth_error h src = Some x -> apply_cop K h c x = None -> hstep K h (HCopy src c) = h.
Proof. intros Hx Hy. cbn [hstep]. rewrite Hx, Hy. reflexivity. Qed.

(* an in-place call rewrites its own cell only *)
Theorem edit_frame K h i e j : i <> j -> nth_error (hstep K h (HEdit i e)) j = nth_error h j.
Proof. intros H. cbn [hstep]. destruct (nth_error h i); [apply hset_other; assumption|reflexivity]. Qed.

Theorem edit_own_cell K h i e x :
  nth_error h i = Some x -> nth_error (hstep K h (HEdit i e)) i = Some (apply_iop K e x).
Proof.
  intros H. cbn [hstep]. rewrite H. apply hset_same. apply nth_error_Some. congruence.
Qed.

(* inplace=False is "copy, then the in-place call on the copy" *)
Theorem inplace_false_is_copy_then_inplace K h src c e x y :
  inplace_of c = Some e -> nth_error h src = Some x -> apply_cop K h c x = Some y ->
  hstep K (hstep K h (HCopy src CCopy)) (HEdit (length h) e) = hstep K h (HCopy src c).
Proof.
  intros Hc Hx Hy.
  destruct (copy_new_cell K h src c x y Hx Hy) as [-> _].
  assert (hstep K h (HCopy src CCopy) = h ++ [x]) as -> by (cbn [hstep apply_cop]; rewrite Hx; reflexivity).
  cbn [hstep]. rewrite nth_error_app2 by lia. rewrite Nat.sub_diag. cbn [nth_error].
  assert (apply_iop K e x = y) as ->.
  { destruct c; inversion Hc; subst e; destruct x as [p|s]; cbn [apply_cop apply_iop] in *; try discriminate;
      try (inversion Hy; reflexivity).
    destruct (apply K o s); [inversion Hy; reflexivity|discriminate]. }
  clear. induction h as [|a r IH]; cbn [app length hset]; [reflexivity|]. f_equal. exact IH.
Qed.

(* ---------- arbitrary histories ---------- *)
Definition edits_cell (j : nat) (o : hop) : Prop := match o with HEdit i _ => i = j | _ => False end.

(* reachability / frame over any history of creations, copies and edits: a cell that no in-place
   call of the history goes through is, afterwards, exactly what it was *)
Theorem history_frame K ops : forall h j,
  (j < length h)%nat -> (forall o, In o ops -> ~ edits_cell j o) ->
  nth_error (hrun K h ops) j = nth_error h j.
Proof.
  induction ops as [|o r IH]; intros h j Hj H; [reflexivity|].
  unfold hrun. cbn [fold_left]. fold (hrun K (hstep K h o) r).
  rewrite IH.
  - destruct o as [x|src c|i e].
    + cbn [hstep]. apply nth_error_app1. assumption.
    + apply copy_receiver_unchanged. assumption.
    + apply edit_frame. intros E. apply (H (HEdit i e)); [left; reflexivity|exact E].
  - pose proof (hstep_length_mono K h o). lia.
  - intros o' Ho'. apply H. right. assumption.
Qed.

(* after a copy-producing call: whatever is later done in place to other objects (the receiver
   included) never shows through the new object, and whatever is done to the new object never
   shows through the receiver or any older object *)
Theorem copy_then_history_independent K h src c x y ops :
  nth_error h src = Some x -> apply_cop K h c x = Some y ->
  let h1 := hstep K h (HCopy src c) in
  ((forall o, In o ops -> ~ edits_cell (length h) o) -> nth_error (hrun K h1 ops) (length h) = Some y)
  /\ (forall j, (j < length h)%nat -> (forall o, In o ops -> ~ edits_cell j o) ->
        nth_error (hrun K h1 ops) j = nth_error h j).
Proof.
  intros Hx Hy. cbn zeta. destruct (copy_new_cell K h src c x y Hx Hy) as [E1 E2]. split.
  - intros H. rewrite history_frame; [assumption| |assumption]. rewrite E1, app_length. cbn. lia.
  - intros j Hj H. rewrite history_frame; [apply copy_receiver_unchanged; assumption| |assumption].
    rewrite E1, app_length. cbn. lia.
Qed.
