From Coq Require Import List ZArith QArith Qcanon Bool Arith Lia.
From Dimod Require Import Base.Util Model.Poly Model.Samples Model.SSet Model.Store Model.Heap Model.CopyApi Gen.Gen_Copy
  Proofs.PolyFacts Proofs.StoreFacts.
Import ListNotations.
Open Scope Qc_scope.

(* ---------- what each copy-producing call returns ---------- *)
Fixpoint s2b_sample (vs : list label) (x : sample) : sample :=
  match vs with [] => x | v :: r => let y := s2b_sample r x in upd y v (two * y v - 1) end.
Fixpoint b2s_sample (vs : list label) (x : sample) : sample :=
  match vs with [] => x | v :: r => let y := b2s_sample r x in upd y v ((y v + 1) * half) end.

Lemma s2b_energy vs : forall p x, energy (s2b vs p) x = energy p (s2b_sample vs x).
Proof.
  induction vs as [|v r IH]; intros p x; [reflexivity|].
  unfold s2b. cbn [fold_left]. fold (s2b r (spin_to_binary v p)).
  rewrite IH, spin_to_binary_energy. reflexivity.
Qed.

Lemma b2s_energy vs : forall p x, energy (b2s vs p) x = energy p (b2s_sample vs x).
Proof.
  induction vs as [|v r IH]; intros p x; [reflexivity|].
  unfold b2s. cbn [fold_left]. fold (b2s r (binary_to_spin v p)).
  rewrite IH, binary_to_spin_energy. reflexivity.
Qed.

(* the documented result of every model-level copy-producing call, as a statement about energies *)
Theorem cop_model_result K h c p o' :
  apply_cop K h c (OModel p) = Some o' ->
  match c with CGiven x => o' = x | _ =>
  exists q, o' = OModel q /\
    match c with
    | CCopy => q = p
    | CRelabel f => forall s, energy q s = energy p (fun v => s (f v))
    | CSpinToBinary vs => forall x, energy q x = energy p (s2b_sample vs x)
    | CBinaryToSpin vs => forall s, energy q s = energy p (b2s_sample vs s)
    | CFix fs => forall s, energy q s = energy p (fold_right (fun f acc => upd acc (fst f) (snd f)) s fs)
    | CScale k => forall s, energy q s = k * energy p s
    | CNeg => forall s, energy q s = - energy p s
    | CAddConst c0 => forall s, energy q s = energy p s + c0
    | CAdd j => exists b, model_of h j = Some b /\ forall s, energy q s = energy p s + energy b s
    | CSub j => exists b, model_of h j = Some b /\ forall s, energy q s = energy p s - energy b s
    | CSet _ | CConcat _ | CGiven _ => False
    end
  end.
Proof.
  destruct c; cbn [apply_cop]; intros H; try discriminate;
    try (inversion H; subst o'; eexists; split; [reflexivity|]).
  - reflexivity.
  - intros s. apply energy_relabel.
  - intros x. apply s2b_energy.
  - intros s. apply b2s_energy.
  - intros s. apply fix_variables_energy.
  - intros s. apply energy_scale.
  - intros s. apply energy_pneg.
  - intros s. apply energy_add_offset.
  - destruct (model_of h other) as [b|] eqn:E; [|discriminate]. inversion H; subst o'.
    eexists; split; [reflexivity|]. exists b. split; [reflexivity|]. intros s. apply energy_padd.
  - destruct (model_of h other) as [b|] eqn:E; [|discriminate]. inversion H; subst o'.
    eexists; split; [reflexivity|]. exists b. split; [reflexivity|]. intros s. apply energy_psub.
  - inversion H. reflexivity.
Qed.

(* sample sets: the result IS the SSet.v function of the receiver (so every C14 theorem applies) *)
Theorem cop_set_result K h c s o' :
  apply_cop K h c (OSet s) = Some o' ->
  match c with
  | CCopy => o' = OSet s
  | CSet o => exists s', apply K o s = Ok s' /\ o' = OSet s'
  | CConcat js => exists l s', sets_of h js = Some l /\ concat_ss l s = Ok s' /\ o' = OSet s'
  | CGiven x => o' = x
  | _ => False
  end.
Proof.
  destruct c; cbn [apply_cop]; intros H; try discriminate.
  - inversion H. reflexivity.
  - destruct (apply K o s) as [s'|s'] eqn:E; [|discriminate]. inversion H. exists s'. split; reflexivity.
  - destruct (sets_of h others) as [l|] eqn:E1; [|discriminate].
    destruct (concat_ss l s) as [s'|s'] eqn:E2; [|discriminate]. inversion H. exists l, s'. repeat split; assumption.
  - inversion H. reflexivity.
Qed.

(* ---------- heap facts ---------- *)
Lemma hset_other (h : heap) : forall i j o, i <> j -> nth_error (hset h i o) j = nth_error h j.
Proof.
  induction h as [|x r IH]; intros i j o H; [destruct i; reflexivity|].
  destruct i as [|i], j as [|j]; cbn; try reflexivity; [congruence|]. apply IH. congruence.
Qed.

Lemma hset_same (h : heap) : forall i o, (i < length h)%nat -> nth_error (hset h i o) i = Some o.
Proof.
  induction h as [|x r IH]; intros i o H; [cbn in H; lia|].
  destruct i as [|i]; cbn; [reflexivity|]. apply IH. cbn in H. lia.
Qed.

Lemma hset_length (h : heap) : forall i o, length (hset h i o) = length h.
Proof. induction h as [|x r IH]; intros [|i] o; cbn; auto. Qed.

Lemma hstep_length_mono K h o : (length h <= length (hstep K h o))%nat.
Proof.
  destruct o as [x|src c|i e|ci mi lbl copy|ci mi]; cbn [hstep].
  - rewrite app_length. lia.
  - destruct (nth_error h src) as [x|]; [|lia]. destruct (apply_cop K h c x); [rewrite app_length; lia|lia].
  - destruct (nth_error h i); [rewrite hset_length; lia|lia].
  - destruct (nth_error h ci) as [[p|s|ob cs|vl|oid]|]; try lia. destruct (nth_error h mi) as [[p|s|ob' cs'|vl'|oid']|]; try lia.
    destruct copy; rewrite ?hset_length; lia.
  - destruct (nth_error h ci) as [[p|s|ob cs|vl|oid]|]; try lia. destruct (nth_error h mi) as [[p|s|ob' cs'|vl'|oid']|]; try lia.
    rewrite hset_length. lia.
Qed.

(* a copy-producing call never touches an existing cell - in particular not its receiver *)
Theorem copy_receiver_unchanged K h src c j :
  (j < length h)%nat -> nth_error (hstep K h (HCopy src c)) j = nth_error h j.
Proof.
  intros Hj. cbn [hstep]. destruct (nth_error h src) as [x|]; [|reflexivity].
  destruct (apply_cop K h c x); [apply nth_error_app1; assumption|reflexivity].
Qed.

(* ... and the new cell holds the documented result *)
Theorem copy_new_cell K h src c x y :
  nth_error h src = Some x -> apply_cop K h c x = Some y ->
  hstep K h (HCopy src c) = h ++ [y] /\ nth_error (hstep K h (HCopy src c)) (length h) = Some y.
Proof.
  intros Hx Hy. cbn [hstep]. rewrite Hx, Hy. split; [reflexivity|].
  rewrite nth_error_app2 by lia. rewrite Nat.sub_diag. reflexivity.
Qed.

(* a raising copy-producing call changes nothing at all *)
Theorem copy_raises_unchanged K h src c x :
  nth_error h src = Some x -> apply_cop K h c x = None -> hstep K h (HCopy src c) = h.
Proof. intros Hx Hy. cbn [hstep]. rewrite Hx, Hy. reflexivity. Qed.

(* an in-place call rewrites its own cell only *)
Theorem edit_frame K h i e j : i <> j -> nth_error (hstep K h (HEdit i e)) j = nth_error h j.
Proof. intros H. cbn [hstep]. destruct (nth_error h i); [apply hset_other; assumption|reflexivity]. Qed.

Theorem edit_own_cell K h i e x :
  nth_error h i = Some x -> nth_error (hstep K h (HEdit i e)) i = Some (apply_iop K e x).
Proof.
  intros H. cbn [hstep]. rewrite H. apply hset_same. apply nth_error_Some. congruence.
Qed.

(* inplace=False is "copy, then the in-place call on the copy" *)
Theorem inplace_false_is_copy_then_inplace K h src c e x y :
  inplace_of c = Some e -> nth_error h src = Some x -> apply_cop K h c x = Some y ->
  hstep K (hstep K h (HCopy src CCopy)) (HEdit (length h) e) = hstep K h (HCopy src c).
Proof.
  intros Hc Hx Hy.
  destruct (copy_new_cell K h src c x y Hx Hy) as [-> _].
  assert (hstep K h (HCopy src CCopy) = h ++ [x]) as -> by (cbn [hstep apply_cop]; rewrite Hx; reflexivity).
  cbn [hstep]. rewrite nth_error_app2 by lia. rewrite Nat.sub_diag. cbn [nth_error].
  assert (apply_iop K e x = y) as ->.
  { destruct c; inversion Hc; subst e; destruct x as [p|s|ob cs|vl|oid]; cbn [apply_cop apply_iop] in *; try discriminate;
      try (inversion Hy; reflexivity).
    destruct (apply K o s); [inversion Hy; reflexivity|discriminate]. }
  clear. induction h as [|a r IH]; cbn [app length hset]; [reflexivity|]. f_equal. exact IH.
Qed.

(* ---------- arbitrary histories ---------- *)
Definition edits_cell (j : nat) (o : hop) : Prop :=
  match o with
  | HEdit i _ => i = j
  | HAddConstraint ci mi _ copy => ci = j \/ (copy = false /\ mi = j)
  | HSetObjective ci _ => ci = j
  | _ => False
  end.

(* ---------- handing a model to a CQM ---------- *)
Theorem add_constraint_cells K h ci mi lbl copy ob cs p :
  nth_error h ci = Some (OCqm ob cs) -> nth_error h mi = Some (OModel p) ->
  let h' := hstep K h (HAddConstraint ci mi lbl copy) in
  nth_error h' ci = Some (OCqm ob (cs ++ [(lbl, p)]))
  /\ nth_error h' mi = Some (OModel (if copy then p else pzero))
  /\ (forall j, j <> ci -> j <> mi -> nth_error h' j = nth_error h j).
Proof.
  intros Hc Hm. cbn zeta. cbn [hstep]. rewrite Hc, Hm.
  assert (ci <> mi) as Hne by (intros E; subst; congruence).
  assert (ci < length h)%nat as Lc by (apply nth_error_Some; congruence).
  assert (mi < length h)%nat as Lm by (apply nth_error_Some; congruence).
  destruct copy.
  - split; [apply hset_same; assumption|]. split; [rewrite hset_other by assumption; assumption|].
    intros j H1 H2. apply hset_other. congruence.
  - split; [rewrite hset_other by congruence; apply hset_same; assumption|].
    split; [apply hset_same; rewrite hset_length; assumption|].
    intros j H1 H2. rewrite !hset_other by congruence. reflexivity.
Qed.

(* a moved-from model is the empty model: every energy is 0, and it is an ordinary cell again *)
Theorem moved_from_is_empty s : energy pzero s = 0.
Proof. apply energy_pzero. Qed.

Theorem set_objective_cells K h ci mi ob cs p :
  nth_error h ci = Some (OCqm ob cs) -> nth_error h mi = Some (OModel p) ->
  let h' := hstep K h (HSetObjective ci mi) in
  nth_error h' ci = Some (OCqm p cs) /\ (forall j, j <> ci -> nth_error h' j = nth_error h j).
Proof.
  intros Hc Hm. cbn zeta. cbn [hstep]. rewrite Hc, Hm.
  split; [apply hset_same, nth_error_Some; congruence|]. intros j H. apply hset_other. congruence.
Qed.

(* the expression "views" of a CQM are functions of the CQM's own cell: whatever happens, they show
   what that cell holds *)
Theorem cqm_views_read_parent h ci ob cs :
  nth_error h ci = Some (OCqm ob cs) ->
  cqm_objective h ci = Some ob
  /\ forall lbl, cqm_constraint h ci lbl = option_map snd (find (fun c => (fst c =? lbl)%nat) cs).
Proof. intros H. unfold cqm_objective, cqm_constraint. rewrite H. split; [reflexivity|intros; reflexivity]. Qed.

(* reachability / frame over any history of creations, copies, edits and CQM hand-overs: a cell that
   no in-place call of the history goes through is, afterwards, exactly what it was *)
Theorem history_frame K ops : forall h j,
  (j < length h)%nat -> (forall o, In o ops -> ~ edits_cell j o) ->
  nth_error (hrun K h ops) j = nth_error h j.
Proof.
  induction ops as [|o r IH]; intros h j Hj H; [reflexivity|].
  unfold hrun. cbn [fold_left]. fold (hrun K (hstep K h o) r).
  rewrite IH.
  - assert (~ edits_cell j o) as Ho by (apply H; left; reflexivity).
    destruct o as [x|src c|i e|ci mi lbl copy|ci mi].
    + cbn [hstep]. apply nth_error_app1. assumption.
    + apply copy_receiver_unchanged. assumption.
    + apply edit_frame. intros E. apply Ho. exact E.
    + cbn [edits_cell] in Ho. cbn [hstep].
      destruct (nth_error h ci) as [[p|s|ob cs|vl|oid]|] eqn:Ec; try reflexivity.
      destruct (nth_error h mi) as [[p|s|ob' cs'|vl'|oid']|] eqn:Em; try reflexivity.
      destruct copy.
      * apply hset_other. intros E. apply Ho. left. exact E.
      * rewrite !hset_other; [reflexivity| |].
        -- intros E. apply Ho. left. exact E.
        -- intros E. apply Ho. right. split; [reflexivity|exact E].
    + cbn [edits_cell] in Ho. cbn [hstep].
      destruct (nth_error h ci) as [[p|s|ob cs|vl|oid]|] eqn:Ec; try reflexivity.
      destruct (nth_error h mi) as [[p|s|ob' cs'|vl'|oid']|] eqn:Em; try reflexivity.
      apply hset_other. exact Ho.
  - pose proof (hstep_length_mono K h o). lia.
  - intros o' Ho'. apply H. right. assumption.
Qed.

(* the constraint stored in the CQM is independent of the caller's model from then on, copy or move *)
Theorem stored_constraint_independent K h ci mi lbl copy ob cs p ops :
  nth_error h ci = Some (OCqm ob cs) -> nth_error h mi = Some (OModel p) ->
  (forall o, In o ops -> ~ edits_cell ci o) ->
  nth_error (hrun K (hstep K h (HAddConstraint ci mi lbl copy)) ops) ci = Some (OCqm ob (cs ++ [(lbl, p)])).
Proof.
  intros Hc Hm H. destruct (add_constraint_cells K h ci mi lbl copy ob cs p Hc Hm) as (E1 & _ & _).
  rewrite history_frame; [exact E1| |assumption].
  pose proof (hstep_length_mono K h (HAddConstraint ci mi lbl copy)).
  assert (ci < length h)%nat by (apply nth_error_Some; congruence). lia.
Qed.

(* ... and with copy=True the caller's model is untouched and stays so as long as nobody edits IT *)
Theorem copied_model_independent K h ci mi lbl ob cs p ops :
  nth_error h ci = Some (OCqm ob cs) -> nth_error h mi = Some (OModel p) ->
  (forall o, In o ops -> ~ edits_cell mi o) ->
  nth_error (hrun K (hstep K h (HAddConstraint ci mi lbl true)) ops) mi = Some (OModel p).
Proof.
  intros Hc Hm H. destruct (add_constraint_cells K h ci mi lbl true ob cs p Hc Hm) as (_ & E2 & _).
  rewrite history_frame; [exact E2| |assumption].
  pose proof (hstep_length_mono K h (HAddConstraint ci mi lbl true)).
  assert (mi < length h)%nat by (apply nth_error_Some; congruence). lia.
Qed.

(* ---------- arithmetic with a neutral operand: equal contents, but a NEW object ---------- *)
Lemma add_offset_zero p : add_offset 0 p = p.
Proof. destruct p as [o l q]. unfold add_offset. cbn [p_off p_lin p_quad]. f_equal. ring. Qed.

Lemma scale_one p : scale 1 p = p.
Proof.
  destruct p as [o l q]. unfold scale. cbn [p_off p_lin p_quad]. f_equal; [ring| |].
  - rewrite <- (map_id l) at 2. apply map_ext. intros [v b]. cbn [fst snd]. f_equal. ring.
  - rewrite <- (map_id q) at 2. apply map_ext. intros [[u v] b]. cbn [fst snd]. f_equal. ring.
Qed.

(* 0 + a, 0.0 + a, a + 0, a - 0, sum([a])  and  1 * a, a * 1, a / 1 *)
Theorem neutral_operand_is_a_fresh_equal_object K h src p :
  nth_error h src = Some (OModel p) ->
  hstep K h (HCopy src (CAddConst 0)) = h ++ [OModel p]
  /\ hstep K h (HCopy src (CScale 1)) = h ++ [OModel p]
  /\ length h <> src.
Proof.
  intros H. cbn [hstep apply_cop]. rewrite H, add_offset_zero, scale_one.
  repeat split. assert (src < length h)%nat by (apply nth_error_Some; congruence). lia.
Qed.

(* after a copy-producing call: whatever is later done in place to other objects (the receiver
   included) never shows through the new object, and whatever is done to the new object never
   shows through the receiver or any older object *)
Theorem copy_then_history_independent K h src c x y ops :
  nth_error h src = Some x -> apply_cop K h c x = Some y ->
  let h1 := hstep K h (HCopy src c) in
  ((forall o, In o ops -> ~ edits_cell (length h) o) -> nth_error (hrun K h1 ops) (length h) = Some y)
  /\ (forall j, (j < length h)%nat -> (forall o, In o ops -> ~ edits_cell j o) ->
        nth_error (hrun K h1 ops) j = nth_error h j).
Proof.
  intros Hx Hy. cbn zeta. destruct (copy_new_cell K h src c x y Hx Hy) as [E1 E2]. split.
  - intros H. rewrite history_frame; [assumption| |assumption]. rewrite E1, app_length. cbn. lia.
  - intros j Hj H. rewrite history_frame; [apply copy_receiver_unchanged; assumption| |assumption].
    rewrite E1, app_length. cbn. lia.
Qed.

(* ---------- spin / binary views (Model/Store.v instantiated with real model states) ---------- *)
(* whatever step is taken - an edit through the parent, through the view, a copy, a new object - the
   view shows the vartype conversion of what its parent holds now, and that conversion evaluates as
   the parent does on the converted sample *)
Theorem spin_binary_views_track_parent (s : store mstate) o v p w :
  wf mstate s -> nth_error s v = Some (View p w) ->
  read mstate model_viewfn (step mstate model_viewfn s o) v
  = option_map (model_viewfn w) (own_state mstate (step mstate model_viewfn s o) p).
Proof. apply views_track_parent. Qed.

Theorem view_energy (m : mstate) x :
  energy (snd (model_viewfn 0 m)) x = energy (snd m) (b2s_sample (fst m) x)
  /\ energy (snd (model_viewfn 1 m)) x = energy (snd m) (s2b_sample (fst m) x).
Proof. cbn [model_viewfn snd fst]. split; [apply b2s_energy|apply s2b_energy]. Qed.

(* ---------- tie to the source ---------- *)
Theorem copy_api_matches :
  gen_copy_api = modeled_copy_api /\ gen_copy_constructors = modeled_copy_constructors
  /\ gen_sampleset_functions = modeled_sampleset_functions.
Proof. repeat split; reflexivity. Qed.
