From Coq Require Import List ZArith QArith Qcanon Bool Arith Lia.
From Dimod Require Import Base.Util Model.Poly Model.View Proofs.PolyFacts.
Import ListNotations.
Open Scope Qc_scope.

Lemma half_two : half * two = 1.
Proof. rewrite Qcmult_comm. apply two_half. Qed.

Lemma quarter_four : quarter * four = 1.
Proof.
  unfold quarter, four. transitivity ((half * two) * (half * two)); [ring|].
  rewrite half_two. ring.
Qed.

(* a write of b*x_v through the view adds b * (view value of v) to the base energy *)
Theorem view_add_linear_energy d v b base y :
  energy (view_add_linear d v b base) y = energy base y + b * view_value d (y v).
Proof.
  destruct d; unfold view_add_linear, view_value; cbn [gen_add_linear];
    rewrite energy_add_offset, energy_add_linear; ring.
Qed.

Lemma energy_addq u v k p y :
  energy (mkPoly (p_off p) (p_lin p) ((u, v, k) :: p_quad p)) y = energy p y + k * y u * y v.
Proof. unfold energy; cbn [p_off p_lin p_quad]. rewrite quad_energy_cons. cbn [fst snd]. ring. Qed.

Theorem view_add_quadratic_energy d u v b base y :
  energy (view_add_quadratic d u v b base) y
  = energy base y + b * view_value d (y u) * view_value d (y v).
Proof.
  destruct d; unfold view_add_quadratic, view_value; cbn [gen_add_quadratic];
    rewrite energy_add_offset, !energy_add_linear, energy_addq.
  - transitivity (energy base y + b * quarter * ((y u + 1) * (y v + 1))); [ring|].
    unfold quarter. ring.
  - unfold four. ring.
Qed.

(* the offset shown by the view is the base energy where every view variable is 0 *)
Lemma lin_energy_const (l : list lterm) c : lin_energy l (fun _ => c) = c * qsum (map snd l).
Proof.
  induction l as [|t l IH]; [unfold lin_energy; cbn [map qsum]; ring|].
  rewrite lin_energy_cons, IH. cbn [map qsum]. ring.
Qed.

Lemma quad_energy_const (l : list qterm) c : quad_energy l (fun _ => c) = c * c * qsum (map snd l).
Proof.
  induction l as [|t l IH]; [unfold quad_energy; cbn [map qsum]; ring|].
  rewrite quad_energy_cons, IH. cbn [map qsum]. ring.
Qed.

Theorem view_offset_is_energy_at_zero d base :
  view_offset d base = energy base (fun _ => match d with BinOverSpin => - (1) | SpinOverBin => half end).
Proof.
  destruct d; unfold view_offset, energy, sum_lin, sum_quad;
    rewrite lin_energy_const, quad_energy_const; unfold quarter; ring.
Qed.

Lemma view_value_zero d : view_value d (match d with BinOverSpin => - (1) | SpinOverBin => half end) = 0.
Proof.
  destruct d; unfold view_value.
  - ring.
  - rewrite two_half. ring.
Qed.
