(* Refinement M -> S for the index-level expression operations (Model/Expr.v):
   each operation preserves ExprInv and the polynomial the expression stands
   for changes exactly as the plain-polynomial operation of Poly.v does -
   syntactically where the two coincide, otherwise as a function of the sample
   (equal energy at every sample, which by Proofs/CoeffSound.v is equality of
   all coefficients). *)
From Coq Require Import List ZArith QArith Qcanon Bool Arith Lia.
From Dimod Require Import Base.Util Model.Poly Model.Expr Model.ExprOps Proofs.PolyFacts Proofs.ExprFacts Proofs.ExprViewFacts.
Import ListNotations.
Open Scope Qc_scope.

Definition LinE (vars : list nat) (lin : list Qc) (s : sample) : Qc := lin_energy (combine vars lin) s.
Definition QuadE (vars : list nat) (quad : list lqterm) (s : sample) : Qc := quad_energy (map (to_model vars) quad) s.

Lemma energy_abs : forall e s,
  energy (abs_expr e) s = e_off e + LinE (e_vars e) (e_lin e) s + QuadE (e_vars e) (e_quad e) s.
Proof. intros e s. reflexivity. Qed.

Lemma upd_nth_length : forall {A} (f : A -> A) l i, length (upd_nth i f l) = length l.
Proof.
  intros A f l. induction l as [|x r IH]; intros i; [destruct i; reflexivity|].
  destruct i; cbn [upd_nth length]; [reflexivity|]. rewrite IH. reflexivity.
Qed.

Lemma LinE_upd_nth : forall vars lin i f s, (i < length lin)%nat -> (i < length vars)%nat ->
  LinE vars (upd_nth i f lin) s = LinE vars lin s + (f (nth i lin 0) - nth i lin 0) * s (nth i vars 0%nat).
Proof.
  induction vars as [|a r IH]; intros lin i f s H1 H2; cbn [length] in H2; [lia|].
  destruct lin as [|b lr]; cbn [length] in H1; [lia|].
  destruct i as [|i']; cbn [upd_nth nth]; unfold LinE; cbn [combine]; rewrite !lin_energy_cons; cbn [fst snd].
  - ring.
  - fold (LinE r (upd_nth i' f lr) s). fold (LinE r lr s). rewrite IH by lia. ring.
Qed.

Lemma LinE_app_zero : forall vars lin v s, length vars = length lin ->
  LinE (vars ++ [v]) (lin ++ [0]) s = LinE vars lin s.
Proof.
  intros vars lin v s H. unfold LinE. rewrite combine_app_one by exact H. rewrite lin_energy_app.
  unfold lin_energy at 2. cbn [map qsum]. unfold lterm_val. cbn [fst snd]. ring.
Qed.

Lemma QuadE_app : forall vars quad v s,
  Forall (fun t : lqterm => (fst (fst t) < length vars)%nat /\ (snd (fst t) < length vars)%nat) quad ->
  QuadE (vars ++ [v]) quad s = QuadE vars quad s.
Proof.
  intros vars quad v s QD. unfold QuadE. f_equal. apply map_ext_in. intros t Ht.
  rewrite Forall_forall in QD. destruct (QD t Ht) as [H1 H2]. unfold to_model.
  rewrite !nth_app_lt by assumption. reflexivity.
Qed.

(* replacing the linear biases keeps the invariant *)
Definition with_lin (e : mexpr) (l : list Qc) : mexpr := mkE (e_vars e) (e_idx e) l (e_quad e) (e_off e).

Lemma with_lin_inv : forall n e l, ExprInv n e -> length l = length (e_vars e) -> ExprInv n (with_lin e l).
Proof. intros n e l [ND LT LEN QD IDX] H. constructor; cbn [with_lin e_vars e_idx e_lin e_quad]; assumption. Qed.

(* ---------- enforce_variable ---------- *)
Lemma enforce_energy : forall n e v s, ExprInv n e -> energy (abs_expr (fst (enforce v e))) s = energy (abs_expr e) s.
Proof.
  intros n e v s I. destruct (in_dec Nat.eq_dec v (e_vars e)) as [Hin|Hn].
  - rewrite (enforce_abs_present n e v I Hin). reflexivity.
  - rewrite (enforce_abs_fresh n e v I Hn). unfold energy. cbn [p_off p_lin p_quad].
    rewrite lin_energy_app. unfold lin_energy at 2. cbn [map qsum]. unfold lterm_val. cbn [fst snd]. ring.
Qed.

Lemma enforce_keeps_positions : forall n e v j x, ExprInv n e ->
  nth_error (e_vars e) j = Some x -> nth_error (e_vars (fst (enforce v e))) j = Some x.
Proof.
  intros n e v j x I H. destruct (in_dec Nat.eq_dec v (e_vars e)) as [Hin|Hn].
  - rewrite (enforce_abs_present n e v I Hin). exact H.
  - rewrite (enforce_absent n e v I Hn). cbn [fst e_vars]. rewrite nth_error_app1; [exact H|].
    apply nth_error_Some. congruence.
Qed.

Lemma enforce_vars : forall n e v u, ExprInv n e ->
  In u (e_vars (fst (enforce v e))) <-> In u (e_vars e) \/ u = v.
Proof.
  intros n e v u I. destruct (in_dec Nat.eq_dec v (e_vars e)) as [Hin|Hn].
  - rewrite (enforce_abs_present n e v I Hin). split; [tauto|]. intros [H|H]; [exact H|subst; exact Hin].
  - rewrite (enforce_absent n e v I Hn). cbn [fst e_vars]. rewrite in_app_iff. cbn [In]. split.
    + intros [H|[H|[]]]; [left; exact H|right; congruence].
    + intros [H|H]; [left; exact H|right; left; congruence].
Qed.

(* ---------- add_linear / set_linear ---------- *)
Lemma nth_error_nth_nat : forall (l : list nat) i x, nth_error l i = Some x -> nth i l 0%nat = x.
Proof. intros l i x H. apply nth_error_nth. exact H. Qed.

Theorem add_linear_inv : forall n e v b, ExprInv n e -> (v < n)%nat -> ExprInv n (m_add_linear v b e).
Proof.
  intros n e v b I Hv. unfold m_add_linear. pose proof (enforce_inv n e v I Hv) as I1.
  destruct (enforce v e) as [e1 i]. cbn [fst] in I1.
  apply (with_lin_inv n e1); [exact I1|]. rewrite upd_nth_length. exact (inv_len _ _ I1).
Qed.

Theorem add_linear_sim : forall n e v b s, ExprInv n e -> (v < n)%nat ->
  energy (abs_expr (m_add_linear v b e)) s = energy (add_linear v b (abs_expr e)) s.
Proof.
  intros n e v b s I Hv. rewrite energy_add_linear, <- (enforce_energy n e v s I).
  unfold m_add_linear. pose proof (enforce_inv n e v I Hv) as I1. pose proof (enforce_index n e v I Hv) as Hi.
  destruct (enforce v e) as [e1 i]. cbn [fst snd] in *.
  assert (Hlt : (i < length (e_vars e1))%nat) by (apply nth_error_Some; congruence).
  rewrite !energy_abs. cbn [e_off e_vars e_lin e_quad].
  rewrite LinE_upd_nth; [|rewrite (inv_len _ _ I1); exact Hlt|exact Hlt].
  rewrite (nth_error_nth_nat _ _ _ Hi). ring.
Qed.

Theorem add_linear_vars : forall n e v b u, ExprInv n e ->
  In u (e_vars (m_add_linear v b e)) <-> In u (e_vars e) \/ u = v.
Proof.
  intros n e v b u I. unfold m_add_linear. pose proof (enforce_vars n e v u I) as H.
  destruct (enforce v e) as [e1 i]. exact H.
Qed.

Theorem set_linear_inv : forall n e v b, ExprInv n e -> (v < n)%nat -> ExprInv n (m_set_linear v b e).
Proof.
  intros n e v b I Hv. unfold m_set_linear. pose proof (enforce_inv n e v I Hv) as I1.
  destruct (enforce v e) as [e1 i]. cbn [fst] in I1.
  apply (with_lin_inv n e1); [exact I1|]. rewrite upd_nth_length. exact (inv_len _ _ I1).
Qed.

(* energy of Poly.set_linear: the old coefficient of v is replaced *)
Lemma lin_energy_filter_out : forall v (l : list lterm) s,
  lin_energy (filter (fun t => negb (fst t =? v)%nat) l) s = lin_energy l s - lin_coeff l v * s v.
Proof.
  intros v l s. induction l as [|t r IH].
  - unfold lin_energy, lin_coeff. cbn. ring.
  - cbn [filter]. unfold lin_coeff in *. cbn [filter]. destruct (Nat.eqb_spec (fst t) v) as [E|E]; cbn [negb].
    + rewrite IH, lin_energy_cons. cbn [map qsum]. rewrite E. ring.
    + rewrite !lin_energy_cons, IH. ring.
Qed.

Lemma energy_set_linear : forall v b p s,
  energy (set_linear v b p) s = energy p s + (b - lin_coeff (p_lin p) v) * s v.
Proof.
  intros v b p s. unfold energy, set_linear. cbn [p_off p_lin p_quad].
  rewrite lin_energy_cons, lin_energy_filter_out. cbn [fst snd]. ring.
Qed.

Lemma lin_coeff_cons' : forall x b (l : list lterm) v,
  lin_coeff ((x, b) :: l) v = (if (x =? v)%nat then b else 0) + lin_coeff l v.
Proof.
  intros x b l v. unfold lin_coeff. cbn [filter fst]. destruct (x =? v)%nat; cbn [map qsum snd]; ring.
Qed.

Lemma lin_coeff_notin : forall (vars : list nat) (lin : list Qc) v, ~ In v vars -> lin_coeff (combine vars lin) v = 0.
Proof.
  induction vars as [|a r IH]; intros lin v Hn; [reflexivity|]. destruct lin as [|b lr]; [reflexivity|].
  cbn [combine]. rewrite lin_coeff_cons'. destruct (Nat.eqb_spec a v) as [->|_]; [exfalso; apply Hn; left; reflexivity|].
  rewrite IH; [ring|]. intros H. apply Hn. right. exact H.
Qed.

Lemma lin_coeff_combine : forall (vars : list nat) (lin : list Qc) i v, NoDup vars -> length lin = length vars ->
  nth_error vars i = Some v -> lin_coeff (combine vars lin) v = nth i lin 0.
Proof.
  induction vars as [|a r IH]; intros lin i v ND LEN Hi; [destruct i; discriminate|].
  inversion ND as [|? ? Hn ND']; subst. destruct lin as [|b lr]; [discriminate|].
  cbn [length] in LEN. cbn [combine]. rewrite lin_coeff_cons'.
  destruct i as [|i']; cbn [nth_error nth] in *.
  - injection Hi as ->. rewrite Nat.eqb_refl, lin_coeff_notin by exact Hn. ring.
  - assert (E : (a =? v)%nat = false).
    { apply Nat.eqb_neq. intros ->. apply Hn. eapply nth_error_In. exact Hi. }
    rewrite E, (IH lr i' v ND'); [ring|lia|exact Hi].
Qed.

Lemma lin_coeff_app_zero : forall (l : list lterm) v w, lin_coeff (l ++ [(v, 0)]) w = lin_coeff l w.
Proof.
  intros l v w. induction l as [|[x b] r IH].
  - cbn [app]. rewrite lin_coeff_cons'. unfold lin_coeff. cbn. destruct (v =? w)%nat; ring.
  - cbn [app]. rewrite !lin_coeff_cons', IH. reflexivity.
Qed.

Theorem set_linear_sim : forall n e v b s, ExprInv n e -> (v < n)%nat ->
  energy (abs_expr (m_set_linear v b e)) s = energy (set_linear v b (abs_expr e)) s.
Proof.
  intros n e v b s I Hv. rewrite energy_set_linear.
  assert (C : lin_coeff (p_lin (abs_expr (fst (enforce v e)))) v = lin_coeff (p_lin (abs_expr e)) v).
  { destruct (in_dec Nat.eq_dec v (e_vars e)) as [Hin|Hn].
    - rewrite (enforce_abs_present n e v I Hin). reflexivity.
    - rewrite (enforce_abs_fresh n e v I Hn). cbn [p_lin]. apply lin_coeff_app_zero. }
  rewrite <- C, <- (enforce_energy n e v s I). clear C.
  unfold m_set_linear. pose proof (enforce_inv n e v I Hv) as I1. pose proof (enforce_index n e v I Hv) as Hi.
  destruct (enforce v e) as [e1 i]. cbn [fst snd] in *.
  assert (Hlt : (i < length (e_vars e1))%nat) by (apply nth_error_Some; congruence).
  rewrite !energy_abs. cbn [e_off e_vars e_lin e_quad].
  rewrite LinE_upd_nth; [|rewrite (inv_len _ _ I1); exact Hlt|exact Hlt].
  rewrite (nth_error_nth_nat _ _ _ Hi).
  unfold abs_expr at 1. cbn [p_lin].
  rewrite (lin_coeff_combine (e_vars e1) (e_lin e1) i v (inv_nodup _ _ I1) (inv_len _ _ I1) Hi). ring.
Qed.

(* ---------- add_offset / offset := ---------- *)
Theorem add_offset_inv : forall n e b, ExprInv n e -> ExprInv n (m_add_offset b e).
Proof. intros n e b [ND LT LEN QD IDX]. constructor; assumption. Qed.

Theorem add_offset_abs : forall e b, abs_expr (m_add_offset b e) = add_offset b (abs_expr e).
Proof. intros e b. reflexivity. Qed.

(* ---------- add_quadratic ---------- *)
Theorem add_quadratic_inv : forall n vt e u v b, ExprInv n e -> (u < n)%nat -> (v < n)%nat ->
  ExprInv n (m_add_quadratic vt u v b e).
Proof.
  intros n vt e u v b I Hu Hv. unfold m_add_quadratic.
  pose proof (enforce_inv n e v I Hv) as I1. pose proof (enforce_index n e v I Hv) as Hj.
  destruct (enforce v e) as [e1 j]. cbn [fst snd] in *.
  pose proof (enforce_inv n e1 u I1 Hu) as I2. pose proof (enforce_index n e1 u I1 Hu) as Hi.
  pose proof (enforce_keeps_positions n e1 u j v I1 Hj) as Hj2.
  destruct (enforce u e1) as [e2 i]. cbn [fst snd] in *.
  assert (Hli : (i < length (e_vars e2))%nat) by (apply nth_error_Some; congruence).
  assert (Hlj : (j < length (e_vars e2))%nat) by (apply nth_error_Some; congruence).
  assert (Q : forall a c, (a < length (e_vars e2))%nat -> (c < length (e_vars e2))%nat ->
              ExprInv n (mkE (e_vars e2) (e_idx e2) (e_lin e2) ((a, c, b) :: e_quad e2) (e_off e2))).
  { intros a c Ha Hc. destruct I2 as [ND LT LEN QD IDX]. constructor; cbn [e_vars e_idx e_lin e_quad]; try assumption.
    constructor; [cbn [fst snd]; split; assumption|exact QD]. }
  unfold base_add_quadratic. destruct (i =? j)%nat.
  - destruct (vt (nth i (e_vars e2) 0%nat)).
    + apply (with_lin_inv n e2); [exact I2|]. rewrite upd_nth_length. exact (inv_len _ _ I2).
    + destruct I2 as [ND LT LEN QD IDX]. constructor; assumption.
    + apply Q; assumption.
    + apply Q; assumption.
  - apply Q; assumption.
Qed.

Lemma energy_quad_cons_M : forall e a c b s,
  energy (abs_expr (mkE (e_vars e) (e_idx e) (e_lin e) ((a, c, b) :: e_quad e) (e_off e))) s
  = energy (abs_expr e) s + b * s (nth a (e_vars e) 0%nat) * s (nth c (e_vars e) 0%nat).
Proof.
  intros e a c b s. rewrite !energy_abs. cbn [e_off e_vars e_lin e_quad]. unfold QuadE. cbn [map].
  rewrite quad_energy_cons. unfold to_model. cbn [fst snd]. ring.
Qed.

Lemma energy_quad_cons_S : forall p x y b s,
  energy (mkPoly (p_off p) (p_lin p) ((x, y, b) :: p_quad p)) s = energy p s + b * s x * s y.
Proof.
  intros p x y b s. unfold energy. cbn [p_off p_lin p_quad]. rewrite quad_energy_cons. cbn [fst snd]. ring.
Qed.

Theorem add_quadratic_sim : forall n vt e u v b s, ExprInv n e -> (u < n)%nat -> (v < n)%nat ->
  energy (abs_expr (m_add_quadratic vt u v b e)) s = energy (spec_add_quadratic vt u v b (abs_expr e)) s.
Proof.
  intros n vt e u v b s I Hu Hv. unfold m_add_quadratic.
  pose proof (enforce_inv n e v I Hv) as I1. pose proof (enforce_index n e v I Hv) as Hj.
  pose proof (enforce_energy n e v s I) as E1.
  destruct (enforce v e) as [e1 j]. cbn [fst snd] in *.
  pose proof (enforce_inv n e1 u I1 Hu) as I2. pose proof (enforce_index n e1 u I1 Hu) as Hi.
  pose proof (enforce_keeps_positions n e1 u j v I1 Hj) as Hj2.
  pose proof (enforce_energy n e1 u s I1) as E2.
  destruct (enforce u e1) as [e2 i]. cbn [fst snd] in *.
  assert (Hli : (i < length (e_vars e2))%nat) by (apply nth_error_Some; congruence).
  assert (Hij : (i =? j)%nat = (u =? v)%nat).
  { destruct (Nat.eqb_spec i j) as [->|Hne]; destruct (Nat.eqb_spec u v) as [->|Hne']; try reflexivity.
    - congruence.
    - exfalso. apply Hne. pose proof (nth_index_of _ _ _ (inv_nodup _ _ I2) Hi) as P1.
      pose proof (nth_index_of _ _ _ (inv_nodup _ _ I2) Hj2) as P2. congruence. }
  assert (Base : energy (abs_expr e2) s = energy (add_linear v 0 (add_linear u 0 (abs_expr e))) s).
  { rewrite !energy_add_linear, E2, E1. ring. }
  unfold spec_add_quadratic, add_quadratic, base_add_quadratic. rewrite Hij.
  rewrite (nth_error_nth_nat _ _ _ Hi).
  destruct (u =? v)%nat eqn:Euv.
  - destruct (vt u).
    + rewrite energy_add_linear, <- Base, !energy_abs. cbn [e_off e_vars e_lin e_quad].
      rewrite LinE_upd_nth; [|rewrite (inv_len _ _ I2); exact Hli|exact Hli].
      rewrite (nth_error_nth_nat _ _ _ Hi). ring.
    + rewrite energy_add_offset, <- Base, !energy_abs. cbn [e_off e_vars e_lin e_quad]. ring.
    + rewrite energy_quad_cons_M, energy_quad_cons_S, (nth_error_nth_nat _ _ _ Hi), Base. reflexivity.
    + rewrite energy_quad_cons_M, energy_quad_cons_S, (nth_error_nth_nat _ _ _ Hi), Base. reflexivity.
  - rewrite energy_quad_cons_M, energy_quad_cons_S, (nth_error_nth_nat _ _ _ Hi), (nth_error_nth_nat _ _ _ Hj2), Base.
    reflexivity.
Qed.

(* ---------- remove_interaction ---------- *)
From Dimod Require Import Model.CQMSpec Proofs.RefineFacts.

Lemma filter_all : forall {A} (f : A -> bool) l, (forall x, In x l -> f x = true) -> filter f l = l.
Proof.
  intros A f l. induction l as [|a r IH]; intros H; [reflexivity|]. cbn [filter].
  rewrite (H a (or_introl eq_refl)). f_equal. apply IH. intros x Hx. apply H. right. exact Hx.
Qed.

Theorem remove_interaction_inv : forall n e u v, ExprInv n e -> ExprInv n (m_remove_interaction u v e).
Proof.
  intros n e u v I. unfold m_remove_interaction.
  destruct (idx_find u (e_idx e)); [|exact I]. destruct (idx_find v (e_idx e)); [|exact I].
  destruct I as [ND LT LEN QD IDX]. constructor; cbn [e_vars e_idx e_lin e_quad]; try assumption.
  rewrite Forall_forall in *. intros t Ht. apply filter_In in Ht. apply QD. exact (proj1 Ht).
Qed.

Theorem remove_interaction_abs : forall n e u v, ExprInv n e ->
  abs_expr (m_remove_interaction u v e) = remove_interaction u v (abs_expr e).
Proof.
  intros n e u v [ND LT LEN QD IDX]. unfold m_remove_interaction. rewrite (IDX u), (IDX v).
  assert (Absent : forall w, index_of w (e_vars e) = None ->
            forall t, In t (map (to_model (e_vars e)) (e_quad e)) -> (w =? fst (fst t))%nat = false /\ (w =? snd (fst t))%nat = false).
  { intros w Hw t Ht. apply index_of_None in Hw. apply in_map_iff in Ht. destruct Ht as [[[a b] x] [<- Hin]].
    rewrite Forall_forall in QD. destruct (QD _ Hin) as [Ha Hb]. cbn [fst snd] in Ha, Hb. unfold to_model. cbn [fst snd].
    split; apply Nat.eqb_neq; intros ->; apply Hw; apply nth_In; assumption. }
  assert (NoOp : forall (P : forall t, In t (map (to_model (e_vars e)) (e_quad e)) ->
                          same_pair u v (fst (fst t)) (snd (fst t)) = false),
            abs_expr e = remove_interaction u v (abs_expr e)).
  { intros P. unfold remove_interaction, abs_expr. cbn [p_off p_lin p_quad]. f_equal. symmetry.
    apply filter_all. intros t Ht. apply negb_true_iff. apply P. exact Ht. }
  destruct (index_of u (e_vars e)) as [i|] eqn:Fu.
  2:{ apply NoOp. intros t Ht. destruct (Absent u Fu t Ht) as [E1 E2]. unfold same_pair. rewrite E1, E2. reflexivity. }
  destruct (index_of v (e_vars e)) as [j|] eqn:Fv.
  2:{ apply NoOp. intros t Ht. destruct (Absent v Fv t Ht) as [E1 E2]. unfold same_pair. rewrite E1, E2.
      rewrite !andb_false_r. reflexivity. }
  apply index_of_nth in Fu. apply index_of_nth in Fv.
  unfold remove_interaction, abs_expr. cbn [e_vars e_lin e_quad e_off p_off p_lin p_quad]. f_equal.
  change (map (to_model (e_vars e)) (filter (fun t : lqterm => negb ((fst (fst t) =? i)%nat && (snd (fst t) =? j)%nat || (fst (fst t) =? j)%nat && (snd (fst t) =? i)%nat)) (e_quad e))
          = filter (fun t : qterm => negb (same_pair u v (fst (fst t)) (snd (fst t)))) (map (to_model (e_vars e)) (e_quad e))).
  rewrite filter_map_comm. apply map_filter_agree; [|reflexivity].
  intros [[a b] w] Ht. rewrite Forall_forall in QD. destruct (QD _ Ht) as [Ha Hb]. cbn [fst snd] in *.
  unfold same_pair, to_model. cbn [fst snd]. f_equal.
  rewrite !(Nat.eqb_sym u), !(Nat.eqb_sym v).
  rewrite (nth_eq_iff _ i u a ND Fu Ha), (nth_eq_iff _ i u b ND Fu Hb),
          (nth_eq_iff _ j v a ND Fv Ha), (nth_eq_iff _ j v b ND Fv Hb).
  rewrite (andb_comm (b =? i)%nat (a =? j)%nat). reflexivity.
Qed.

(* ---------- substitute_variable ---------- *)
Definition sub_step (i : nat) (m c : Qc) (acc : list Qc * Qc) (t : lqterm) : list Qc * Qc :=
  let '(a, b, w) := t in
  if (a =? i)%nat && (b =? i)%nat then (upd_nth i (fun x => x + two * w * m * c) (fst acc), snd acc + w * c * c)
  else if (a =? i)%nat then (upd_nth b (fun x => x + w * c) (fst acc), snd acc)
  else if (b =? i)%nat then (upd_nth a (fun x => x + w * c) (fst acc), snd acc)
  else acc.

Lemma base_substitute_eq : forall i m c e,
  base_substitute i m c e =
  let r := fold_left (sub_step i m c) (e_quad e) (upd_nth i (fun x => x * m) (e_lin e), e_off e + nth i (e_lin e) 0 * c) in
  mkE (e_vars e) (e_idx e) (fst r) (map (subst_q i m c) (e_quad e)) (snd r).
Proof.
  intros i m c e. unfold base_substitute. cbn zeta.
  change (fun (acc : list Qc * Qc) (t : lqterm) =>
            let '(a, b, w) := t in
            if (a =? i)%nat && (b =? i)%nat then (upd_nth i (fun x => x + two * w * m * c) (fst acc), snd acc + w * c * c)
            else if (a =? i)%nat then (upd_nth b (fun x => x + w * c) (fst acc), snd acc)
            else if (b =? i)%nat then (upd_nth a (fun x => x + w * c) (fst acc), snd acc)
            else acc) with (sub_step i m c).
  destruct (fold_left (sub_step i m c) (e_quad e) _). reflexivity.
Qed.

Lemma aff_nth : forall vars i v a s m c, NoDup vars -> nth_error vars i = Some v -> (a < length vars)%nat ->
  aff s v m c (nth a vars 0%nat) = if (a =? i)%nat then m * s v + c else s (nth a vars 0%nat).
Proof.
  intros vars i v a s m c ND Hi Ha. pose proof (nth_eq_iff vars i v a ND Hi Ha) as E.
  destruct (a =? i)%nat.
  - apply Nat.eqb_eq in E. rewrite E. apply aff_same.
  - apply Nat.eqb_neq in E. apply aff_other. exact E.
Qed.

Lemma sub_fold : forall vars i v m c s, NoDup vars -> nth_error vars i = Some v ->
  forall quad linacc offacc,
  Forall (fun t : lqterm => (fst (fst t) < length vars)%nat /\ (snd (fst t) < length vars)%nat) quad ->
  length linacc = length vars ->
  let r := fold_left (sub_step i m c) quad (linacc, offacc) in
  length (fst r) = length vars /\
  snd r + LinE vars (fst r) s + QuadE vars (map (subst_q i m c) quad) s
  = offacc + LinE vars linacc s + QuadE vars quad (aff s v m c).
Proof.
  intros vars i v m c s ND Hi. induction quad as [|[[a b] w] r IH]; intros linacc offacc QD LEN.
  - cbn. split; [exact LEN|]. unfold QuadE. cbn. reflexivity.
  - inversion QD as [|? ? [Ha Hb] QD']; subst. cbn [fst snd] in Ha, Hb. cbn [fold_left].
    assert (Hlt : (i < length vars)%nat) by (apply nth_error_Some; congruence).
    assert (Step : length (fst (sub_step i m c (linacc, offacc) (a, b, w))) = length vars /\
                   snd (sub_step i m c (linacc, offacc) (a, b, w)) + LinE vars (fst (sub_step i m c (linacc, offacc) (a, b, w))) s
                   + snd (subst_q i m c (a, b, w)) * s (nth a vars 0%nat) * s (nth b vars 0%nat)
                   = offacc + LinE vars linacc s + w * aff s v m c (nth a vars 0%nat) * aff s v m c (nth b vars 0%nat)).
    { rewrite (aff_nth vars i v a s m c ND Hi Ha), (aff_nth vars i v b s m c ND Hi Hb).
      pose proof (nth_eq_iff vars i v a ND Hi Ha) as Ea. pose proof (nth_eq_iff vars i v b ND Hi Hb) as Eb.
      unfold sub_step, subst_q. cbn [fst snd].
      destruct (a =? i)%nat eqn:E1; destruct (b =? i)%nat eqn:E2; cbn [andb orb fst snd].
      - apply Nat.eqb_eq in Ea. apply Nat.eqb_eq in Eb. rewrite upd_nth_length. split; [exact LEN|].
        rewrite LinE_upd_nth by lia. rewrite (nth_error_nth_nat _ _ _ Hi), Ea, Eb. unfold two. ring.
      - apply Nat.eqb_eq in Ea. rewrite upd_nth_length. split; [exact LEN|].
        rewrite LinE_upd_nth by lia. rewrite Ea. ring.
      - apply Nat.eqb_eq in Eb. rewrite upd_nth_length. split; [exact LEN|].
        rewrite LinE_upd_nth by lia. rewrite Eb. ring.
      - split; [exact LEN|]. ring. }
    destruct Step as [SL SE].
    destruct (sub_step i m c (linacc, offacc) (a, b, w)) as [lin' off'] eqn:Est. cbn [fst snd] in SL, SE.
    destruct (IH lin' off' QD' SL) as [IL IE]. split; [exact IL|].
    unfold QuadE in *. cbn [map]. rewrite !quad_energy_cons.
    assert (T1 : fst (fst (to_model vars (subst_q i m c (a, b, w)))) = nth a vars 0%nat
              /\ snd (fst (to_model vars (subst_q i m c (a, b, w)))) = nth b vars 0%nat).
    { unfold subst_q. destruct ((a =? i)%nat && (b =? i)%nat); [split; reflexivity|].
      destruct ((a =? i)%nat || (b =? i)%nat); split; reflexivity. }
    destruct T1 as [T1 T2]. rewrite T1, T2.
    assert (T3 : snd (to_model vars (subst_q i m c (a, b, w))) = snd (subst_q i m c (a, b, w))) by reflexivity.
    rewrite T3.
    change (snd (to_model vars (a, b, w))) with w.
    change (snd (fst (to_model vars (a, b, w)))) with (nth b vars 0%nat).
    change (fst (fst (to_model vars (a, b, w)))) with (nth a vars 0%nat).
    set (A := snd (fold_left _ r _)) in *. set (B := LinE vars (fst (fold_left _ r _)) s) in *.
    set (Q1 := quad_energy (map (to_model vars) (map (subst_q i m c) r)) s) in *.
    set (Q2 := quad_energy (map (to_model vars) r) (aff s v m c)) in *.
    set (S1 := snd (subst_q i m c (a, b, w)) * s (nth a vars 0%nat) * s (nth b vars 0%nat)) in *.
    set (W := w * aff s v m c (nth a vars 0%nat) * aff s v m c (nth b vars 0%nat)) in *.
    set (L' := LinE vars lin' s) in *. set (L := LinE vars linacc s) in *.
    transitivity (A + B + Q1 + S1); [ring|]. rewrite IE.
    transitivity (off' + L' + S1 + Q2); [ring|]. rewrite SE. ring.
Qed.

Lemma LinE_upd_sample : forall vars lin i v x s, NoDup vars -> length lin = length vars -> nth_error vars i = Some v ->
  LinE vars lin (upd s v x) = LinE vars lin s + nth i lin 0 * (x - s v).
Proof.
  induction vars as [|a r IH]; intros lin i v x s ND LEN Hi; [destruct i; discriminate|].
  inversion ND as [|? ? Hn ND']; subst. destruct lin as [|b lr]; [discriminate|]. cbn [length] in LEN.
  unfold LinE. cbn [combine]. rewrite !lin_energy_cons. cbn [fst snd]. fold (LinE r lr (upd s v x)). fold (LinE r lr s).
  destruct i as [|i']; cbn [nth_error nth] in *.
  - injection Hi as ->. assert (E : LinE r lr (upd s v x) = LinE r lr s).
    { unfold LinE. clear - Hn. revert lr. induction r as [|y r' IH']; intros lr; [reflexivity|]. destruct lr as [|z lr']; [reflexivity|].
      cbn [combine]. rewrite !lin_energy_cons. cbn [fst snd]. rewrite IH' by (intros H; apply Hn; right; exact H).
      unfold upd. destruct (Nat.eqb_spec y v) as [->|_]; [exfalso; apply Hn; left; reflexivity|reflexivity]. }
    rewrite E. unfold upd. rewrite Nat.eqb_refl. ring.
  - rewrite (IH lr i' v x s ND') by (try lia; exact Hi).
    unfold upd at 1. destruct (Nat.eqb_spec a v) as [->|_]; [exfalso; apply Hn; eapply nth_error_In; exact Hi|]. ring.
Qed.

Lemma energy_abs_ext : forall n e s s', ExprInv n e -> (forall u, In u (e_vars e) -> s u = s' u) ->
  energy (abs_expr e) s = energy (abs_expr e) s'.
Proof.
  intros n e s s' [ND LT LEN QD IDX] H. unfold energy, abs_expr. cbn [p_off p_lin p_quad]. f_equal; [f_equal|].
  - unfold lin_energy. f_equal. apply map_ext_in. intros [u b] Hin. apply in_combine_l in Hin.
    unfold lterm_val. cbn [fst snd]. rewrite (H u Hin). reflexivity.
  - unfold quad_energy. f_equal. rewrite !map_map. apply map_ext_in. intros [[a b] w] Hin.
    rewrite Forall_forall in QD. destruct (QD _ Hin) as [Ha Hb]. cbn [fst snd] in *.
    unfold qterm_val. cbn [fst snd]. rewrite (H _ (nth_In _ _ Ha)), (H _ (nth_In _ _ Hb)). reflexivity.
Qed.

Theorem substitute_inv : forall n e v m c, ExprInv n e -> ExprInv n (m_substitute v m c e).
Proof.
  intros n e v m c I. unfold m_substitute. pose proof I as [ND LT LEN QD IDX]. rewrite (IDX v).
  destruct (index_of v (e_vars e)) as [i|] eqn:F; [|exact I]. apply index_of_nth in F.
  rewrite base_substitute_eq. cbn zeta.
  destruct (sub_fold (e_vars e) i v m c (fun _ => 0) ND F (e_quad e)
              (upd_nth i (fun x => x * m) (e_lin e)) (e_off e + nth i (e_lin e) 0 * c) QD) as [HL _].
  { rewrite upd_nth_length. exact LEN. }
  constructor; cbn [e_vars e_idx e_lin e_quad]; try assumption.
  rewrite Forall_forall in *. intros t Ht. apply in_map_iff in Ht. destruct Ht as [[[a b] w] [<- Hin]].
  specialize (QD _ Hin). cbn [fst snd] in QD. unfold subst_q.
  destruct ((a =? i)%nat && (b =? i)%nat); [exact QD|]. destruct ((a =? i)%nat || (b =? i)%nat); exact QD.
Qed.

(* the affine substitution x_v := m * x_v + c, as a function of the sample (C02/C03 at index level) *)
Theorem substitute_sim : forall n e v m c s, ExprInv n e ->
  energy (abs_expr (m_substitute v m c e)) s = energy (substitute v m c (abs_expr e)) s.
Proof.
  intros n e v m c s I. rewrite energy_substitute. unfold m_substitute. pose proof I as [ND LT LEN QD IDX]. rewrite (IDX v).
  destruct (index_of v (e_vars e)) as [i|] eqn:F.
  - apply index_of_nth in F. rewrite base_substitute_eq. cbn zeta.
    assert (Hlt : (i < length (e_vars e))%nat) by (apply nth_error_Some; congruence).
    destruct (sub_fold (e_vars e) i v m c s ND F (e_quad e)
                (upd_nth i (fun x => x * m) (e_lin e)) (e_off e + nth i (e_lin e) 0 * c) QD) as [_ HE].
    { rewrite upd_nth_length. exact LEN. }
    rewrite !energy_abs. cbn [e_off e_vars e_lin e_quad]. rewrite HE.
    rewrite LinE_upd_nth by lia. rewrite (nth_error_nth_nat _ _ _ F).
    unfold aff at 2. rewrite (LinE_upd_sample (e_vars e) (e_lin e) i v _ s ND LEN F). ring.
  - apply index_of_None in F. apply (energy_abs_ext n e s (aff s v m c) I).
    intros u Hu. symmetry. apply aff_other. intros ->. contradiction.
Qed.

(* ---------- fix_variable = substitute_variable(v, 0, a); remove_variable(v) ---------- *)
Lemma energy_remove_variable_zero : forall v p s, energy (remove_variable v p) s = energy p (upd s v 0).
Proof.
  intros v p s. unfold energy, remove_variable. cbn [p_off p_lin p_quad]. f_equal; [f_equal|].
  - induction (p_lin p) as [|t l IH]; [reflexivity|]. cbn [filter].
    destruct (Nat.eqb_spec (fst t) v) as [E|E]; cbn [negb]; rewrite ?lin_energy_cons, IH; unfold upd at 2.
    + rewrite E, Nat.eqb_refl. ring.
    + destruct (Nat.eqb_spec (fst t) v); [contradiction|]. reflexivity.
  - induction (p_quad p) as [|t l IH]; [reflexivity|]. cbn [filter].
    destruct (mentions v t) eqn:E; cbn [negb]; rewrite ?quad_energy_cons, IH.
    + unfold mentions in E. apply orb_true_iff in E. unfold upd at 2 3.
      destruct E as [E|E]; rewrite E; ring.
    + unfold mentions in E. apply orb_false_iff in E. destruct E as [E1 E2]. unfold upd at 2 3.
      rewrite E1, E2. reflexivity.
Qed.

Definition m_fix (v : nat) (a : Qc) (e : mexpr) : mexpr := m_reindex v (m_substitute v 0 a e).

Theorem fix_inv : forall n e v a, ExprInv n e -> (v < n)%nat -> ExprInv (pred n) (m_fix v a e).
Proof. intros n e v a I Hv. apply reindex_inv; [apply substitute_inv; exact I|exact Hv]. Qed.

(* the fixed expression at any assignment of the remaining (re-indexed) variables is the original at
   that assignment extended by v := a *)
Theorem fix_energy : forall n e v a s, ExprInv n e ->
  energy (abs_expr (m_fix v a e)) s = energy (abs_expr e) (upd (fun u => s (shift v u)) v a).
Proof.
  intros n e v a s I. unfold m_fix. rewrite (reindex_abs n _ v (substitute_inv n e v 0 a I)).
  rewrite energy_relabel, energy_remove_variable_zero, (substitute_sim n e v 0 a _ I), energy_substitute.
  apply energy_ext. intros w. unfold aff, upd. destruct (w =? v)%nat; [|reflexivity]. rewrite Nat.eqb_refl. ring.
Qed.

Theorem fix_sim : forall n e v a s, ExprInv n e ->
  energy (abs_expr (m_fix v a e)) s = energy (relabel (shift v) (fix_variable v a (abs_expr e))) s.
Proof.
  intros n e v a s I. rewrite (fix_energy n e v a s I), energy_relabel, energy_fix_variable. reflexivity.
Qed.
