(* C17: multiplication_circuit - the wiring generated from the source is the hand-written mirror (Model/MultCircuit.v) *)
From Coq Require Import List ZArith Bool Arith Lia.
From Dimod Require Import Base.Util Model.Comb Model.Gates Model.MultCircuit Gen.Gen_MultWiring Model.MultWiring Proofs.MultAll.
Import ListNotations.

Theorem gw_AND_is_source n m i j : gw_AND n m i j = AND_ i j.
Proof. destruct i, j; reflexivity. Qed.

Theorem gw_SUM_is_source n m i j : gw_SUM n m i j = SUM_ n i j.
Proof. reflexivity. Qed.

Theorem gw_CARRY_is_source n m i j : gw_CARRY n m i j = CARRY_ n m i j.
Proof. reflexivity. Qed.

(* which gate is placed at (i, j): kind per position *)
Definition kind_of (g : ginst) : nat := match g with IAnd _ _ _ => 0 | IHalf _ _ _ _ => 1 | IFull _ _ _ _ _ => 2 end.

(* TIE per position: the gates of gate(i, j), with all their wires *)
Theorem mult_gate_is_source n m i j : mw_gate n m i j = gate_ij n m i j.
Proof.
  unfold mw_gate, gate_ij, gw_and_args, gw_inputs, gw_outputs, gw_init, gw_appended.
  rewrite !gw_AND_is_source, !gw_SUM_is_source, !gw_CARRY_is_source.
  cbn [nth app].
  destruct (0 <? i); destruct (j <? m - 1); destruct (1 <? i); destruct (0 <? j); reflexivity.
Qed.

Theorem mult_gate_kind_is_source n m i j : map kind_of (mw_gate n m i j) = map kind_of (gate_ij n m i j).
Proof. rewrite mult_gate_is_source. reflexivity. Qed.

Lemma flat_map_map' {A B C} (f : A -> B) (g : B -> list C) l : flat_map g (map f l) = flat_map (fun a => g (f a)) l.
Proof. induction l as [|a l IH]; [reflexivity|]. cbn [map flat_map]. rewrite IH. reflexivity. Qed.

Lemma flat_map_flat_map'' {A B C} (f : A -> list B) (g : B -> list C) l :
  flat_map g (flat_map f l) = flat_map (fun a => flat_map g (f a)) l.
Proof. induction l as [|a l IH]; [reflexivity|]. cbn [flat_map]. rewrite flat_map_app, IH. reflexivity. Qed.

(* TIE: the whole circuit, for all n, m *)
Theorem mult_wiring_is_source n m : mw_circuit n m = circuit n m.
Proof.
  unfold mw_circuit, circuit, gw_positions. rewrite flat_map_flat_map''.
  apply flat_map_ext. intros i. rewrite flat_map_map'. apply flat_map_ext. intros j. cbn [fst snd].
  apply mult_gate_is_source.
Qed.

(* the documented relation over the GENERATED wiring, all n, m >= 2 *)
Theorem multiplication_circuit_generated n m : (2 <= n)%nat -> (2 <= m)%nat ->
    (forall a : wassign, (0 <= circuit_energy (mw_circuit n m) a)%Z) /\
    (forall a : wassign, circuit_energy (mw_circuit n m) a = 0%Z ->
       bits_val (prod_bits n m a) = (bits_val (a_bits n a) * bits_val (b_bits m a))%Z) /\
    (forall a : wassign,
       bits_val (prod_bits n m a) <> (bits_val (a_bits n a) * bits_val (b_bits m a))%Z ->
       (1 <= circuit_energy (mw_circuit n m) a)%Z) /\
    (forall abits bbits, length abits = n -> length bbits = m ->
       exists a : wassign, a_bits n a = abits /\ b_bits m a = bbits /\ circuit_energy (mw_circuit n m) a = 0%Z).
Proof. intros Hn Hm. rewrite mult_wiring_is_source. apply multiplication_circuit_all; assumption. Qed.
