(* C16: the slack construction written with the generated rules only (plan_inequality_g) is the
   plan_inequality / plan_inequality_cz the theorems are proved about *)
From Coq Require Import List ZArith Bool Arith Lia.
From Dimod Require Import Model.Comb Model.Penalty Proofs.CombFacts Proofs.PenaltySlack.
Import ListNotations.
Local Open Scope Z_scope.

Lemma slack_coeffs_g_eq U : 0 < U -> slack_coeffs_g U = slack_coeffs U.
Proof.
  intros HU. unfold slack_coeffs_g, slack_coeffs, gen_num_slack, gen_pow_coeff, gen_rest_guard, gen_rest_coeff.
  pose proof (Z.log2_nonneg U) as Hn. pose proof (Z.log2_spec U HU) as [Hlo _].
  rewrite Z2Nat.id by exact Hn.
  destruct (Z.leb_spec 0 (U - 2 ^ Z.log2 U)) as [_|Hbad]; [|lia].
  reflexivity.
Qed.

Theorem plan_inequality_g_eq cz a const lb ub :
  plan_inequality_g cz a const lb ub = plan_inequality_cz cz a const lb ub.
Proof.
  unfold plan_inequality_g, plan_inequality_cz, plan_inequality, lbc_of.
  unfold gen_ubc, gen_lbc, gen_always_feasible, gen_infeasible, gen_slack_ub, gen_is_equality,
         gen_eq_constant, gen_slack_constant, gen_cz_outer, gen_cz_inner, gen_cz_coeff.
  set (tu := sum_pos a). set (tl := sum_neg a).
  set (ubc := Z.min tu (ub - const)). set (lbc := Z.max tl (lb - const)).
  destruct ((tu <=? ubc) && (lbc <=? tl)); [reflexivity|].
  destruct (Z.ltb_spec ubc lbc) as [|Hge]; [reflexivity|].
  destruct (Z.eqb_spec (ubc - lbc) 0) as [|Hne]; [rewrite Z.opp_involutive; reflexivity|].
  rewrite Z.opp_involutive. rewrite slack_coeffs_g_eq by lia.
  replace (ubc - (ubc - lbc)) with lbc by lia.
  destruct cz; cbn [andb].
  - destruct (Z.ltb_spec 0 lbc) as [Hp|Hn]; cbn [orb andb].
    + reflexivity.
    + rewrite andb_false_r. rewrite app_nil_r. reflexivity.
  - rewrite app_nil_r. reflexivity.
Qed.

Corollary plan_inequality_g_plain a const lb ub :
  plan_inequality_g false a const lb ub = plan_inequality a const lb ub.
Proof. rewrite plan_inequality_g_eq. apply plan_inequality_cz_off. Qed.
