(* Bridge from the label list of the CQM model to C13's model of dimod.variables.Variables
   (Model/Vars.v, Proofs/VarsFacts.v - read only): a mapping accepted by iter_safe_relabels
   (CQMSpec.relabel_ok) relabels a duplicate-free label list into a duplicate-free label list.
   The CQM-level relabel theorem therefore no longer assumes this. *)
From Coq Require Import List ZArith Bool Arith Lia.
From Dimod Require Import Model.Vars Proofs.VarsFacts Model.CQMSpec.
Import ListNotations.

(* the embedding of the CQM model's labels (nat) into Variables labels: atoms *)
Definition emb (l : nat) : lab := LA l.
Lemma emb_inj : forall a b, emb a = emb b -> a = b.
Proof. intros a b H. injection H as H. exact H. Qed.

Definition emb_map (mp : list (nat * nat)) : list (lab * lab) := map (fun p => (emb (fst p), emb (snd p))) mp.

Lemma In_emb : forall l ls, In (emb l) (map emb ls) <-> In l ls.
Proof.
  intros l ls. rewrite in_map_iff. split.
  - intros [x [E H]]. apply emb_inj in E. subst. exact H.
  - intros H. exists l. split; [reflexivity|exact H].
Qed.

Lemma NoDup_emb : forall ls, NoDup (map emb ls) <-> NoDup ls.
Proof.
  intros ls. split.
  - apply NoDup_map_inv.
  - intros H. induction H as [|a r Ha Hr IH]; cbn [map]; constructor; [|exact IH]. rewrite In_emb. exact Ha.
Qed.

Lemma subst_emb : forall mp l, subst_lab (emb_map mp) (emb l) = emb (relabel_fun mp l).
Proof.
  intros mp l. unfold subst_lab, relabel_fun. induction mp as [|[a b] r IH]; [reflexivity|].
  cbn [emb_map map fst snd lget assoc]. fold (emb_map r). unfold emb at 1 2. cbn [lab_eqb].
  rewrite (Nat.eqb_sym l a). destruct (a =? l)%nat; [reflexivity|exact IH].
Qed.

(* a Variables object standing for any duplicate-free label list *)
Lemma vars_of_list : forall ls v, wf v -> NoDup ls -> (forall l, In l ls -> ~ In l (to_list v)) ->
  exists v', wf v' /\ to_list v' = to_list v ++ ls.
Proof.
  induction ls as [|l r IH]; intros v Hwf ND Hd.
  - exists v. split; [exact Hwf|]. rewrite app_nil_r. reflexivity.
  - inversion ND as [|? ? Hn ND']; subst.
    assert (Hc : count v l = false).
    { destruct (count v l) eqn:E; [|reflexivity]. apply (count_spec _ _ Hwf) in E. exfalso. exact (Hd l (or_introl eq_refl) E). }
    destruct (append_new v l false Hwf Hc) as [_ [Hl Hw]].
    destruct (IH (store v l) Hw ND') as [v' [Hw' Hl']].
    + intros x Hx Hin. rewrite Hl in Hin. apply in_app_iff in Hin. destruct Hin as [Hin|[E|[]]].
      * exact (Hd x (or_intror Hx) Hin).
      * subst. contradiction.
    + exists v'. split; [exact Hw'|]. rewrite Hl', Hl, <- app_assoc. reflexivity.
Qed.

Lemma memb_In : forall x l, memb x l = true <-> In x l.
Proof.
  intros x l. unfold memb. rewrite existsb_exists. split.
  - intros [y [Hy E]]. apply Nat.eqb_eq in E. subst. exact Hy.
  - intros H. exists x. split; [exact H|apply Nat.eqb_refl].
Qed.

Lemma distinct_NoDup : forall l, distinct l = true -> NoDup l.
Proof.
  induction l as [|a r IH]; intros H; [constructor|]. cbn [distinct] in H. apply andb_true_iff in H. destruct H as [Ha Hr].
  constructor; [|apply IH; exact Hr]. intros Hin. apply memb_In in Hin. rewrite Hin in Ha. discriminate.
Qed.

(* iter_safe_relabels accepted the mapping  =>  the relabelled list has no duplicate *)
Theorem relabel_ok_nodup : forall mp labels,
  NoDup labels -> NoDup (map fst mp) -> relabel_ok mp labels = true -> NoDup (map (relabel_fun mp) labels).
Proof.
  intros mp labels ND NDk OK. unfold relabel_ok in OK. apply andb_true_iff in OK. destruct OK as [OK1 OK2].
  destruct (vars_of_list (map emb labels) empty wf_empty) as [v [Hwf Hl]].
  { apply NoDup_emb. exact ND. }
  { intros l _ H. destruct H. }
  change (to_list empty) with (@nil lab) in Hl. cbn [app] in Hl.
  assert (Hfst : map fst (emb_map mp) = map emb (map fst mp)) by (unfold emb_map; rewrite !map_map; reflexivity).
  assert (Hsnd : map snd (emb_map mp) = map emb (map snd mp)) by (unfold emb_map; rewrite !map_map; reflexivity).
  destruct (relabel v (emb_map mp)) as [v'|] eqn:R.
  - destruct (VarsFacts.relabel_ok v (emb_map mp) v' Hwf R) as [Hwf' Hto].
    rewrite Hfst in Hto. specialize (Hto (proj2 (NoDup_emb _) NDk)).
    pose proof (wf_nodup v' Hwf') as N. rewrite Hto, Hl, map_map in N.
    assert (E : map (fun x => subst_lab (emb_map mp) (emb x)) labels = map emb (map (relabel_fun mp) labels)).
    { rewrite map_map. apply map_ext. intros x. apply subst_emb. }
    rewrite E in N. apply NoDup_emb in N. exact N.
  - exfalso. apply (relabel_err_iff v (emb_map mp) Hwf) in R. destruct R as [R|[n [Hn [Hv Hk]]]].
    + apply R. rewrite Hsnd. apply NoDup_emb. apply distinct_NoDup. exact OK1.
    + rewrite Hsnd in Hn. rewrite Hl in Hv. rewrite Hfst in Hk.
      apply in_map_iff in Hn. destruct Hn as [t [<- Ht]]. rewrite In_emb in Hv, Hk.
      rewrite forallb_forall in OK2. specialize (OK2 t Ht). apply negb_true_iff in OK2.
      apply andb_false_iff in OK2. destruct OK2 as [O|O].
      * apply memb_In in Hv. congruence.
      * apply negb_false_iff in O. apply memb_In in O. contradiction.
Qed.
