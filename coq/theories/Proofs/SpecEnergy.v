(* S level (Model/CQMSpec.v): the effect of every energy-relevant operation on the energy of
   the objective and of every constraint's left-hand side, as a function of the sample. *)
From Coq Require Import List ZArith QArith Qcanon Bool Arith Lia.
From Dimod Require Import Base.Util Model.Poly Model.CQMSpec Proofs.PolyFacts Proofs.ExprSim Proofs.CqmSim.
Import ListNotations.
Open Scope Qc_scope.

(* the objective followed by the constraints' left-hand sides *)
Definition exprs (q : scqm) : list poly := q_obj q :: map k_p (q_cons q).
Definition energies (q : scqm) (s : sample) : list Qc := map (fun p => energy p s) (exprs q).

Lemma exprs_map_exprs : forall f q, exprs (map_exprs f q) = map f (exprs q).
Proof. intros f q. unfold exprs, map_exprs. cbn [q_obj q_cons map]. rewrite !map_map. reflexivity. Qed.

Lemma exprs_marks : forall vs p ks (g : scon -> scon), (forall k, k_p (g k) = k_p k) ->
  exprs (mkCqm vs p (map g ks)) = exprs (mkCqm vs p ks).
Proof.
  intros vs p ks g H. unfold exprs. cbn [q_obj q_cons]. f_equal. rewrite map_map. apply map_ext. exact H.
Qed.

Lemma energies_map : forall f q s (s' : sample), (forall p, energy (f p) s = energy p s') ->
  map (fun p => energy p s) (map f (exprs q)) = energies q s'.
Proof. intros f q s s' H. unfold energies. rewrite map_map. apply map_ext. exact H. Qed.

(* fix_variable(l, a): every expression is evaluated at the assignment extended by l := a (C03) *)
Theorem fix_variable_energies : forall l a q q', fix_one l a q = (q', XNone) ->
  forall s, energies q' s = energies q (upd s l a).
Proof.
  intros l a q q' H s. unfold fix_one in H. destruct (find_var l (q_vars q)) as [x|]; [|discriminate].
  injection H as <-. unfold energies, set_vars. 
  match goal with |- map _ (exprs (mkCqm _ (q_obj ?m) (q_cons ?m))) = _ =>
    change (mkCqm _ (q_obj m) (q_cons m)) with (mkCqm (del_var l (q_vars m)) (q_obj m) (q_cons m)) end.
  assert (E : forall vs m, exprs (mkCqm vs (q_obj m) (q_cons m)) = exprs m) by reflexivity.
  rewrite E, exprs_map_exprs.
  destruct (is_binary (v_vt x) && negb (Qc_eqb a 0)).
  - unfold set_cons. rewrite (exprs_marks (q_vars q) (q_obj q) (q_cons q)).
    + change (exprs (mkCqm (q_vars q) (q_obj q) (q_cons q))) with (exprs q).
      apply energies_map. intros p. apply energy_fix_variable.
    + intros k. destruct (k_mark k && pmentions (k_p k) l); reflexivity.
  - apply energies_map. intros p. apply energy_fix_variable.
Qed.

(* flip_variable: s_l -> -s_l (SPIN), x_l -> 1 - x_l (BINARY) *)
Theorem flip_variable_energies : forall l q q' x, find_var l (q_vars q) = Some x -> flip l q = (q', XNone) ->
  forall s, energies q' s = energies q (upd s l (match v_vt x with BINARY => 1 - s l | _ => - s l end)).
Proof.
  intros l q q' x Hf H s. unfold flip in H. rewrite Hf in H.
  assert (G : forall c, exprs (mkCqm (q_vars q) (substitute l (- (1)) c (q_obj q))
                 (map (fun k => let k1 := con_set_p k (substitute l (- (1)) c (k_p k)) in
                                if is_discrete (q_vars q) k && pmentions (k_p k) l then con_set_mark k1 false else k1) (q_cons q)))
                = map (substitute l (- (1)) c) (exprs q)).
  { intros c. unfold exprs. cbn [q_obj q_cons map]. f_equal. rewrite !map_map. apply map_ext. intros k.
    cbv zeta. destruct (is_discrete (q_vars q) k && pmentions (k_p k) l); reflexivity. }
  destruct (v_vt x); try discriminate; injection H as <-; unfold energies; rewrite G; apply energies_map; intros p.
  - apply flip_binary_energy.
  - apply flip_spin_energy.
Qed.

(* change_vartype / spin_to_binary: the C02 substitutions *)
Theorem change_vartype_energies : forall vt l q q' x, find_var l (q_vars q) = Some x ->
  change_vartype vt l q = (q', XNone) ->
  forall s, energies q' s =
            energies q (match v_vt x, vt with
                        | SPIN, BINARY | SPIN, INTEGER => upd s l (two * s l - 1)
                        | BINARY, SPIN => upd s l ((s l + 1) * half)
                        | _, _ => s
                        end).
Proof.
  intros vt l q q' x Hf H s. unfold change_vartype in H. rewrite Hf in H.
  assert (E : forall vs m, exprs (mkCqm vs (q_obj m) (q_cons m)) = exprs m) by reflexivity.
  assert (S2B : forall s0, map (fun p => energy p s0) (exprs (spin_to_binary_one l q))
                           = energies q (upd s0 l (two * s0 l - 1))).
  { intros s0. unfold spin_to_binary_one, set_info, set_vars. rewrite E, exprs_map_exprs.
    apply energies_map. intros p. apply spin_to_binary_energy. }
  destruct (v_vt x); destruct vt; try discriminate; injection H as <-.
  - reflexivity.
  - unfold energies, set_info, set_vars. rewrite E, exprs_map_exprs. apply energies_map. intros p. apply binary_to_spin_energy.
  - unfold energies, set_info, set_vars. rewrite E. reflexivity.
  - exact (S2B s).
  - reflexivity.
  - unfold energies, set_info, set_vars. rewrite E. exact (S2B s).
  - reflexivity.
  - reflexivity.
Qed.

(* relabel_variables: the sample is read through the relabelling *)
Theorem relabel_variables_energies : forall mp q q', relabel_vars mp q = (q', XNone) ->
  forall s, energies q' s = energies q (fun v => s (relabel_fun mp v)).
Proof.
  intros mp q q' H s. unfold relabel_vars in H. destruct (negb (relabel_ok mp (map v_lbl (q_vars q)))); [discriminate|].
  injection H as <-. unfold energies, set_vars.
  assert (E : forall vs m, exprs (mkCqm vs (q_obj m) (q_cons m)) = exprs m) by reflexivity.
  rewrite E, exprs_map_exprs. apply energies_map. intros p. apply energy_relabel.
Qed.

(* remove_variable: every expression is evaluated with the removed variable at 0 *)
Theorem remove_variable_energies : forall l q s,
  energies (remove_var_raw l q) s = energies q (upd s l 0).
Proof.
  intros l q s. unfold energies, remove_var_raw, set_vars.
  assert (E : forall vs m, exprs (mkCqm vs (q_obj m) (q_cons m)) = exprs m) by reflexivity.
  rewrite E, exprs_map_exprs. apply energies_map. intros p. apply energy_remove_variable_zero.
Qed.

(* edits through the objective view: only the objective changes, by the edited term *)
Theorem view_objective_energy : forall f q q' e, on_target TObj f q = (q', e) ->
  q_obj q' = f (q_obj q) /\ q_cons q' = q_cons q /\ q_vars q' = q_vars q.
Proof. intros f q q' e H. injection H as <- _. repeat split. Qed.

Theorem view_add_linear_energy : forall v b p s, energy (add_linear v b p) s = energy p s + b * s v.
Proof. intros. apply energy_add_linear. Qed.

Theorem view_set_linear_energy : forall v b p s,
  energy (set_linear v b p) s = energy p s + (b - lin_coeff (p_lin p) v) * s v.
Proof. intros. apply energy_set_linear. Qed.

Theorem view_add_quadratic_energy : forall vt u v b p s,
  energy (s_addq vt u v b p) s =
  energy p s + (if (u =? v)%nat then match vt u with BINARY => b * s u | SPIN => b | _ => b * s u * s u end
                else b * s u * s v).
Proof.
  intros vt u v b p s. unfold s_addq. rewrite energy_add_quadratic_raw, !energy_add_linear. ring.
Qed.

Theorem view_remove_interaction_energy : forall u v p s,
  energy (remove_interaction u v p) s = energy p s - quad_coeff (p_quad p) u v * s u * s v.
Proof. intros. apply energy_remove_interaction. Qed.

Theorem view_remove_variable_energy : forall v p s, energy (remove_variable v p) s = energy p (upd s v 0).
Proof. intros. apply energy_remove_variable_zero. Qed.

Theorem view_set_offset_energy : forall b p s, energy (set_offset b p) s = energy p s - p_off p + b.
Proof. intros b p s. unfold energy, set_offset. cbn [p_off p_lin p_quad]. ring. Qed.

(* set_objective / add_constraint from a model: the energy of the stored expression is that of the
   given model (offset + linear + quadratic terms, squares folded per vartype) *)
Theorem desc_poly_energy : forall vt d s,
  energy (desc_poly vt d) s =
  d_off d + lin_energy (d_lin d) s
  + qsum (map (fun t : qterm => let '(u, v, b) := t in
                 if (u =? v)%nat then match vt u with BINARY => b * s u | SPIN => b | _ => b * s u * s u end
                 else b * s u * s v) (d_quad d)).
Proof.
  intros vt d s. unfold desc_poly.
  assert (G : forall l p, energy (fold_left (fun p t => s_addq vt (fst (fst t)) (snd (fst t)) (snd t) p) l p) s
              = energy p s + qsum (map (fun t : qterm => let '(u, v, b) := t in
                 if (u =? v)%nat then match vt u with BINARY => b * s u | SPIN => b | _ => b * s u * s u end
                 else b * s u * s v) l)).
  { induction l as [|[[u v] b] r IH]; intros p; cbn [fold_left map qsum]; [ring|].
    rewrite IH, view_add_quadratic_energy. cbn [fst snd]. ring. }
  rewrite G. unfold energy at 1. cbn [p_off p_lin p_quad]. unfold quad_energy. cbn [map qsum]. ring.
Qed.
