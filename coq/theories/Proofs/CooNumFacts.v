(* C11 - float('%f' % b) = b for every bias with at most six decimals *)
From Coq Require Import ZArith String List DecimalString DecimalZ DecimalFacts Lia.
From Dimod Require Import Model.CooNum.
Import ListNotations.
Local Open Scope Z_scope.

Lemma frac_roundtrip fp : 0 <= fp < MICRO -> frac_value (frac_digits fp) = fp.
Proof.
  unfold MICRO, frac_value, frac_digits. cbn [fold_left]. intros H.
  Z.to_euclidean_division_equations. lia.
Qed.

Lemma to_int_not_nil z : Z.to_int z <> Decimal.Pos Decimal.Nil /\ Z.to_int z <> Decimal.Neg Decimal.Nil.
Proof.
  destruct z as [|p|p]; cbn [Z.to_int]; split; intros E; try discriminate; inversion E as [E'];
    exact (DecimalPos.Unsigned.to_uint_nonnil p E').
Qed.

Lemma int_string_roundtrip z : NilZero.int_of_string (NilZero.string_of_int (Z.to_int z)) = Some (Z.to_int z).
Proof. destruct (to_int_not_nil z) as [A B]. apply NilZero.isi; assumption. Qed.

(* the bias m / 10^6 is read back exactly *)
Theorem fmt_f_roundtrip m : read_f (fmt_f m) = Some m.
Proof.
  unfold read_f, fmt_f. cbn [f_neg f_int f_frac].
  rewrite int_string_roundtrip, DecimalZ.of_to.
  assert (Hm : 0 < MICRO) by (unfold MICRO; lia).
  pose proof (Z.mod_pos_bound (Z.abs m) MICRO Hm) as Hb.
  rewrite (frac_roundtrip _ Hb).
  rewrite (Z.mul_comm _ MICRO), <- (Z.div_mod (Z.abs m) MICRO) by lia.
  destruct (m <? 0) eqn:E.
  - apply Z.ltb_lt in E. f_equal. lia.
  - apply Z.ltb_ge in E. f_equal. lia.
Qed.

(* what is printed: six fraction digits, each a decimal digit *)
Theorem fmt_f_shape m :
  length (f_frac (fmt_f m)) = 6%nat /\ Forall (fun d => 0 <= d <= 9) (f_frac (fmt_f m)).
Proof.
  unfold fmt_f, frac_digits. cbn [f_frac]. split; [reflexivity|].
  repeat constructor; try (apply Z.mod_pos_bound; lia);
    match goal with |- _ mod 10 <= 9 => pose proof (Z.mod_pos_bound (_ : Z) 10) | _ => idtac end;
    try (assert (H10 : 0 < 10) by lia;
         match goal with |- ?x mod 10 <= 9 => pose proof (Z.mod_pos_bound x 10 H10); lia end).
Qed.
