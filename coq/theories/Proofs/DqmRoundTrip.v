(* C20 - cyDiscreteQuadraticModel._from_numpy_vectors(to_numpy_vectors()): the rebuilt object satisfies the invariant.
   Part 1: rebuilding adj_ from the case neighbourhoods of ANY case-level BQM whose interactions are among the old ones
   gives a well-formed adjacency that covers them.  Part 2: the COO dump + add_quadratic_from_coo rebuild is such a BQM. *)
From Coq Require Import List ZArith QArith Qcanon Bool Arith Lia Sorted.
From Dimod Require Import Base.Util Model.Poly Model.Adj Model.AdjMore Model.DqmNative
  Proofs.AdjNb Proofs.AdjInv Proofs.AdjMoreInv Proofs.AdjMoreBqm Proofs.DqmNativeFacts.
Import ListNotations.
Local Open Scope nat_scope.

Definition keys (m : qm) (ci : nat) : list nat := map fst (nb m ci).

Definition afc (st : list nat) (n : nat) (m : qm) : list (list nat) :=
  map (fun u => sort_nat (nodup Nat.eq_dec
                   (flat_map (fun ci => map (fun e => vof st (fst e)) (nb m ci))
                             (seq (nth u st 0) (nth (S u) st 0 - nth u st 0)))))
      (seq 0 n).

Lemma adj_from_cases_afc d m : adj_from_cases d m = afc (d_st d) (d_nvars d) m.
Proof. reflexivity. Qed.

Lemma range_exists r : forall e0 ci,
  starts_ok (e0 :: r) = true -> e0 <= ci -> ci < last (e0 :: r) 0 ->
  exists u, u < length r /\ nth u (e0 :: r) 0 <= ci /\ ci < nth (S u) (e0 :: r) 0.
Proof.
  induction r as [|e1 r' IH]; intros e0 ci HS Hlo Hhi.
  - cbn [last] in Hhi. lia.
  - rewrite starts_ok_eq in HS. apply sorted_cons in HS. destruct HS as [HS HA].
    destruct (Nat.lt_ge_cases ci e1) as [L|G].
    + exists 0. cbn [length nth]. repeat split; lia.
    + destruct (IH e1 ci) as [u [Hu [A B]]].
      * rewrite starts_ok_eq. exact HS.
      * exact G.
      * change (last (e0 :: e1 :: r') 0) with (last (e1 :: r') 0) in Hhi. exact Hhi.
      * exists (S u). cbn [length]. split; [lia|]. split.
        -- change (nth (S u) (e0 :: e1 :: r') 0) with (nth u (e1 :: r') 0). exact A.
        -- change (nth (S (S u)) (e0 :: e1 :: r') 0) with (nth (S u) (e1 :: r') 0). exact B.
Qed.

Lemma vof_range st n N ci :
  length st = S n -> hd 1 st = 0 -> starts_ok st = true -> last st 0 = N -> ci < N ->
  vof st ci < n /\ nth (vof st ci) st 0 <= ci /\ ci < nth (S (vof st ci)) st 0.
Proof.
  intros HL H0 HS HN Hci. destruct st as [|e0 r]; [discriminate|]. cbn [hd] in H0. subst e0.
  cbn [length] in HL. assert (Hr : length r = n) by lia.
  destruct (range_exists r 0 ci HS ltac:(lia) ltac:(rewrite HN; exact Hci)) as [u [Hu [A B]]].
  destruct (st_facts (0 :: r) n N ltac:(cbn [length]; lia) HS HN u (ci - nth u (0 :: r) 0) ltac:(lia) ltac:(lia)) as [_ E].
  replace (nth u (0 :: r) 0 + (ci - nth u (0 :: r) 0)) with ci in E by lia.
  rewrite E. repeat split; [lia|exact A|exact B].
Qed.

Lemma afc_length st n m : length (afc st n m) = n.
Proof. unfold afc. rewrite map_length, seq_length. reflexivity. Qed.

Lemma nth_map_seq {A} (f : nat -> A) n u d : u < n -> nth u (map f (seq 0 n)) d = f u.
Proof.
  intros H. rewrite (nth_indep _ d (f 0)) by (rewrite map_length, seq_length; exact H).
  rewrite map_nth. rewrite seq_nth by exact H. reflexivity.
Qed.

Lemma afc_row st n m u : u < n ->
  nth u (afc st n m) [] =
  sort_nat (nodup Nat.eq_dec (flat_map (fun ci => map (fun e => vof st (fst e)) (nb m ci))
                                       (seq (nth u st 0) (nth (S u) st 0 - nth u st 0)))).
Proof. intros Hu. unfold afc. rewrite nth_map_seq by exact Hu. reflexivity. Qed.

Lemma afc_row_In st n m u v : u < n ->
  (In v (nth u (afc st n m) []) <->
   exists ci w, nth u st 0 <= ci /\ ci < nth u st 0 + (nth (S u) st 0 - nth u st 0) /\ In w (keys m ci) /\ v = vof st w).
Proof.
  intros Hu. rewrite afc_row by exact Hu. rewrite sort_nat_In, nodup_In, in_flat_map. split.
  - intros [ci [Hci Hv]]. apply in_seq in Hci. apply in_map_iff in Hv. destruct Hv as [e [<- He]].
    exists ci, (fst e). repeat split; try lia. unfold keys. apply in_map. exact He.
  - intros [ci [w [A [B [Hw ->]]]]]. exists ci. split; [apply in_seq; lia|].
    unfold keys in Hw. apply in_map_iff in Hw. destruct Hw as [e [<- He]]. apply in_map_iff. exists e. split; [reflexivity|exact He].
Qed.

Lemma afc_row_sorted st n m u : u < n -> sorted_nat (nth u (afc st n m) []) = true.
Proof.
  intros Hu. rewrite afc_row by exact Hu. apply sorted_nat_iff. apply sort_nat_sorted. apply NoDup_nodup.
Qed.

(* Part 1 *)
Theorem rebuild_DInvR b st ad m :
  DInvR b st ad -> Inv m -> forallb (vartype_eqb BINARY) (vts m) = true -> nvars m = nvars b ->
  (forall ci w, In w (keys m ci) -> In w (keys b ci)) ->
  DInvR m st (afc st (length ad) m).
Proof.
  intros [H1 [H2 [H3 [H4 [H5 [H6 [H7 H8]]]]]]] Im Vm Nm Sub.
  set (n := length ad) in *.
  assert (IP : InvP m) by (apply inv_b_iff; exact Im). destruct IP as [P1 [P2 [P3 [P4 [P5 P6]]]]].
  assert (KB : forall ci w, ci < nvars m -> In w (keys m ci) -> w < nvars m).
  { intros ci w Hci Hw. unfold keys in Hw. apply in_map_iff in Hw. destruct Hw as [[w' x] [E He]]. cbn [fst] in E. subst w'.
    apply (P4 ci w x Hci He). }
  assert (KS : forall ci w, ci < nvars m -> In w (keys m ci) -> In ci (keys m w)).
  { intros ci w Hci Hw. unfold keys in Hw. apply in_map_iff in Hw. destruct Hw as [[w' x] [E He]]. cbn [fst] in E. subst w'.
    pose proof (P5 ci w x Hci He) as G. apply nb_get_In_1 in G. unfold keys. apply in_map_iff. exists (ci, x). split; [reflexivity|exact G]. }
  assert (KL : forall ci w, In w (keys m ci) -> ci < nvars m).
  { intros ci w Hw. destruct (Nat.lt_ge_cases ci (nvars m)) as [L|G]; [exact L|].
    unfold keys, nb in Hw. rewrite nth_overflow in Hw by (rewrite P1; exact G). destruct Hw. }
  assert (VR : forall ci, ci < (nvars b) -> vof st ci < n /\ nth (vof st ci) st 0 <= ci /\ ci < nth (S (vof st ci)) st 0).
  { intros ci Hci. apply (vof_range st n (nvars b) ci); assumption. }
  assert (InRow : forall ci w, In w (keys m ci) -> In (vof st w) (nth (vof st ci) (afc st n m) [])).
  { intros ci w Hw. pose proof (KL ci w Hw) as Hci. rewrite Nm in Hci. destruct (VR ci Hci) as [A [B C]].
    apply afc_row_In; [exact A|]. exists ci, w. repeat split; [exact B|lia|exact Hw]. }
  unfold DInvR. split; [exact Im|]. split; [exact Vm|]. split; [rewrite afc_length; exact H3|].
  split; [exact H4|]. split; [exact H5|]. split; [rewrite Nm; exact H6|]. split.
  - (* AdjWf *)
    intros u Hu. rewrite afc_length in Hu. split; [apply afc_row_sorted; exact Hu|].
    intros v Hv. apply afc_row_In in Hv; [|exact Hu]. destruct Hv as [ci [w [A [B [Hw ->]]]]].
    pose proof (KL ci w Hw) as Hci. pose proof (KB ci w Hci Hw) as Hwb.
    assert (Eu : vof st ci = u).
    { destruct (st_facts st n (nvars b) H3 H5 H6 u (ci - nth u st 0) Hu ltac:(lia)) as [_ E].
      replace (nth u st 0 + (ci - nth u st 0)) with ci in E by lia. exact E. }
    rewrite afc_length. split; [rewrite Nm in Hwb; apply (VR w Hwb)|]. split.
    + destruct (H8 ci w ltac:(rewrite <- Nm; exact Hci) (Sub ci w Hw)) as [Ne _]. rewrite Eu in Ne. congruence.
    + rewrite <- Eu. apply InRow. apply KS; assumption.
  - (* ConnR *)
    intros ci w Hci Hw. fold (keys m ci) in Hw. split.
    + apply (H8 ci w); [rewrite <- Nm; exact Hci|apply Sub; exact Hw].
    + rewrite Nm in Hci. destruct (VR ci Hci) as [A _].
      apply lb_has_In; [apply afc_row_sorted; exact A|]. apply InRow. exact Hw.
Qed.


(* ---------- Part 2: the rebuilt case-level BQM ---------- *)
Lemma lower_prefix_in ci n t :
  In t (lower_prefix ci n) -> fst (fst t) = ci /\ snd (fst t) < ci /\ In (snd (fst t), snd t) n.
Proof.
  induction n as [|[w x] r IH]; cbn [lower_prefix]; [intros []|].
  destruct (Nat.ltb_spec w ci) as [L|L]; [|intros []].
  intros [<-|H]; cbn [fst snd].
  - repeat split; [exact L|left; reflexivity].
  - destruct (IH H) as [A [B C]]. repeat split; [exact A|exact B|right; exact C].
Qed.

Lemma to_coo_in b t :
  In t (to_coo b) -> fst (fst t) < nvars b /\ snd (fst t) < fst (fst t) /\ In (snd (fst t)) (keys b (fst (fst t))).
Proof.
  unfold to_coo. rewrite in_flat_map. intros [ci [Hci Ht]]. apply in_seq in Hci.
  apply lower_prefix_in in Ht. destruct Ht as [A [B C]]. rewrite A. repeat split; [lia|exact B|].
  unfold keys. apply in_map_iff. exists (snd (fst t), snd t). split; [reflexivity|exact C].
Qed.

(* what a COO list can add to the neighbourhoods *)
Definition coo_ok (K : nat) (l : list (nat * nat * Qc)) : Prop :=
  forall t, In t l -> fst (fst t) < K /\ snd (fst t) < K /\ fst (fst t) <> snd (fst t).

Lemma keys_add_quadratic u v x m ci w :
  Inv m -> u < nvars m -> v < nvars m -> u <> v ->
  In w (keys (add_quadratic u v x m) ci) -> In w (keys m ci) \/ (ci = u /\ w = v) \/ (ci = v /\ w = u).
Proof.
  intros HI Hu Hv Hne. unfold add_quadratic. destruct (Nat.eqb_spec u v) as [E|_]; [contradiction|].
  unfold keys, nb. cbn [adj].
  assert (HL : length (adj m) = nvars m) by (apply inv_b_iff in HI; destruct HI as [HL _]; exact HL).
  apply upsert_both_keys; [exact Hne|rewrite HL; exact Hu|rewrite HL; exact Hv].
Qed.

Lemma keys_coo l : forall m,
  Inv m -> coo_ok (nvars m) l ->
  forall ci w, In w (keys (add_quadratic_coo l m) ci) ->
    In w (keys m ci) \/ exists t, In t l /\ ((ci = fst (fst t) /\ w = snd (fst t)) \/ (ci = snd (fst t) /\ w = fst (fst t))).
Proof.
  unfold add_quadratic_coo. induction l as [|t l IH]; intros m HI Hok ci w Hw; cbn [fold_left] in Hw; [left; exact Hw|].
  destruct (Hok t (or_introl eq_refl)) as [Hu [Hv Hne]].
  destruct (IH (add_quadratic (fst (fst t)) (snd (fst t)) (snd t) m)) with (ci := ci) (w := w) as [H|[t' [Ht' H]]].
  - apply Inv_add_quadratic; assumption.
  - rewrite nvars_add_quadratic. intros t' Ht'. apply Hok. right. exact Ht'.
  - exact Hw.
  - apply keys_add_quadratic in H; [|assumption..]. destruct H as [H|H]; [left; exact H|].
    right. exists t. split; [left; reflexivity|exact H].
  - right. exists t'. split; [right; exact Ht'|exact H].
Qed.

Lemma coo_max_lt K l : 0 < K -> (forall t, In t l -> fst (fst t) < K /\ snd (fst t) < K) -> coo_max l < K.
Proof.
  intros HK. unfold coo_max. induction l as [|t l IH]; intros H; cbn [map fold_right]; [exact HK|].
  destruct (H t (or_introl eq_refl)) as [A B]. assert (G := IH (fun t' Ht' => H t' (or_intror Ht'))). lia.
Qed.

Lemma keys_resize_grow t k m ci : nvars m <= k -> length (adj m) = nvars m -> keys (resize t k m) ci = keys m ci.
Proof.
  intros Hk HL. unfold resize. destruct (Nat.ltb_spec k (nvars m)) as [L|L]; [lia|].
  unfold keys, nb. cbn [adj]. rewrite nth_app_repeat. reflexivity.
Qed.

Lemma vts_resize_grow t k m : nvars m <= k -> vts (resize t k m) = vts m ++ repeat t (k - nvars m).
Proof. intros Hk. unfold resize. destruct (Nat.ltb_spec k (nvars m)) as [L|L]; [lia|]. reflexivity. Qed.

Lemma forallb_repeat {A} (f : A -> bool) x k : f x = true -> forallb f (repeat x k) = true.
Proof. intros H. induction k as [|k IH]; [reflexivity|]. cbn [repeat forallb]. rewrite H, IH. reflexivity. Qed.

(* the invariant-relevant summary of a rebuilt model *)
Definition Sub (b m : qm) : Prop :=
  Inv m /\ forallb (vartype_eqb BINARY) (vts m) = true /\ (forall ci w, In w (keys m ci) -> In w (keys b ci)).

Lemma Sub_same_adj b m m' : Sub b m -> length (lin m') = length (lin m) -> adj m' = adj m -> vts m' = vts m -> Sub b m'.
Proof.
  intros [I [V K]] El Ea Ev. split; [|split].
  - apply Inv_InvG. apply Inv_InvG in I. revert I. apply InvG_same; assumption.
  - rewrite Ev. exact V.
  - intros ci w Hw. apply K. unfold keys, nb in *. rewrite Ea in Hw. exact Hw.
Qed.

Lemma Sub_set_linear_fold b (f : nat -> Qc) l : forall m, Sub b m ->
  Sub b (fold_left (fun acc ci => set_linear ci (f ci) acc) l m)
  /\ nvars (fold_left (fun acc ci => set_linear ci (f ci) acc) l m) = nvars m.
Proof.
  induction l as [|ci l IH]; intros m HS; cbn [fold_left]; [split; [exact HS|reflexivity]|].
  destruct (IH (set_linear ci (f ci) m)) as [A B].
  - apply (Sub_same_adj b m); [exact HS|cbn [set_linear lin]; apply upd_nth_length|reflexivity|reflexivity].
  - split; [exact A|]. rewrite B. unfold nvars. cbn [set_linear lin]. apply upd_nth_length.
Qed.

Theorem round_trip_bqm_ok d :
  DInv d -> Sub (d_b d) (d_b (round_trip d)) /\ nvars (d_b (round_trip d)) = nvars (d_b d).
Proof.
  intros HD. apply DInv_iff in HD. destruct HD as [HI [HV [H3 [H4 [H5 [H6 [H7 H8]]]]]]].
  set (b := d_b d) in *. set (N := nvars b).
  assert (IP : InvP b) by (apply inv_b_iff; exact HI). destruct IP as [P1 [P2 [P3 [P4 [P5 P6]]]]].
  assert (KS : forall ci w, ci < nvars b -> In w (keys b ci) -> In ci (keys b w)).
  { intros ci w Hci Hw. unfold keys in Hw. apply in_map_iff in Hw. destruct Hw as [[w' x] [E He]]. cbn [fst] in E. subst w'.
    pose proof (P5 ci w x Hci He) as G. apply nb_get_In_1 in G. unfold keys. apply in_map_iff. exists (ci, x). split; [reflexivity|exact G]. }
  assert (CO : forall t, In t (to_coo b) -> fst (fst t) < N /\ snd (fst t) < N /\ fst (fst t) <> snd (fst t)).
  { intros t Ht. apply to_coo_in in Ht. destruct Ht as [A [B C]]. unfold N. repeat split; lia. }
  (* m0 *)
  assert (M0 : Sub b (add_quadratic_coo_bqm BINARY (to_coo b) empty_qm)
               /\ nvars (add_quadratic_coo_bqm BINARY (to_coo b) empty_qm) <= N).
  { unfold add_quadratic_coo_bqm. destruct (to_coo b) as [|t0 l0] eqn:EC.
    - split; [|cbn; lia]. split; [apply Inv_empty|]. split; [reflexivity|]. intros ci w Hw. unfold keys, nb in Hw. cbn [empty_qm adj] in Hw.
      destruct ci; destruct Hw.
    - set (l := t0 :: l0) in *. change (nvars empty_qm) with 0. cbn [Nat.leb].
      set (ms := resize BINARY (S (coo_max l)) empty_qm).
      assert (Ims : Inv ms) by (apply Inv_resize, Inv_empty).
      assert (Nms : nvars ms = S (coo_max l)) by apply nvars_resize.
      assert (HN : 0 < N) by (destruct (CO t0 (or_introl eq_refl)) as [A _]; lia).
      assert (Hmx : coo_max l < N) by (apply coo_max_lt; [exact HN|intros t Ht; destruct (CO t Ht) as [A [B _]]; split; assumption]).
      assert (Hok : coo_ok (nvars ms) l).
      { intros t Ht. destruct (CO t Ht) as [_ [_ C]]. pose proof (coo_max_bound l) as G. unfold coo_in_range in G.
        rewrite Forall_forall in G. destruct (G t Ht) as [A B]. rewrite Nms. repeat split; assumption. }
      destruct (Inv_add_quadratic_coo l ms Ims) as [I1 [N1 V1]].
      { rewrite Nms. apply coo_max_bound. }
      split; [|rewrite N1, Nms; lia]. split; [exact I1|]. split.
      + rewrite V1. unfold ms. rewrite vts_resize_grow by (cbn; lia). cbn [empty_qm vts app]. apply forallb_repeat. reflexivity.
      + intros ci w Hw. apply (keys_coo l ms Ims Hok) in Hw. destruct Hw as [Hw|[t [Ht Hw]]].
        * unfold ms in Hw. rewrite keys_resize_grow in Hw by (cbn; lia || reflexivity).
          unfold keys, nb in Hw. cbn [empty_qm adj] in Hw. destruct ci; destruct Hw.
        * pose proof (to_coo_in b t) as G. rewrite EC in G. destruct (G Ht) as [A [B C]].
          destruct Hw as [[-> ->]|[-> ->]]; [exact C|apply KS; [exact A|exact C]]. }
  destruct M0 as [S0 L0]. set (m0 := add_quadratic_coo_bqm BINARY (to_coo b) empty_qm) in *.
  (* m1 *)
  assert (M1 : exists m1, m1 = (if nvars m0 <? N then resize BINARY N m0 else m0) /\ Sub b m1 /\ nvars m1 = N).
  { eexists. split; [reflexivity|]. destruct (Nat.ltb_spec (nvars m0) N) as [L|L].
    - destruct S0 as [I0 [V0 K0]]. split; [|apply nvars_resize]. split; [apply Inv_resize; exact I0|]. split.
      + rewrite vts_resize_grow by lia. rewrite forallb_app, V0. apply forallb_repeat. reflexivity.
      + intros ci w Hw. rewrite keys_resize_grow in Hw; [apply K0; exact Hw|lia|].
        apply inv_b_iff in I0. destruct I0 as [HL _]. exact HL.
    - split; [exact S0|lia]. }
  destruct M1 as [m1 [E1 [S1 N1]]].
  unfold round_trip. fold b. fold N. cbv zeta. fold m0. rewrite <- E1. cbn [d_b].
  destruct (Sub_set_linear_fold b (fun ci => linear b ci) (seq 0 N) m1 S1) as [S2 N2].
  split.
  - apply (Sub_same_adj b _ _ S2); reflexivity.
  - unfold nvars at 1. cbn [set_offset lin]. fold (nvars (fold_left (fun acc ci => set_linear ci (linear b ci) acc) (seq 0 N) m1)).
    rewrite N2. exact N1.
Qed.

Theorem round_trip_preserves_DInv d : DInv d -> DInv (round_trip d).
Proof.
  intros HD. destruct (round_trip_bqm_ok d HD) as [[I [V K]] Nn].
  pose proof HD as HP. apply DInv_iff in HP.
  assert (R : DInvR (d_b d) (d_st d) (d_adj d)).
  { destruct HP as [H1 [H2 [H3 [H4 [H5 [H6 [H7 H8]]]]]]].
    exact (conj H1 (conj H2 (conj H3 (conj H4 (conj H5 (conj H6 (conj H7 H8))))))). }
  pose proof (rebuild_DInvR (d_b d) (d_st d) (d_adj d) (d_b (round_trip d)) R I V Nn K) as G.
  apply DInv_iff.
  assert (E : round_trip d = mkD (d_b (round_trip d)) (d_st d) (afc (d_st d) (length (d_adj d)) (d_b (round_trip d)))).
  { unfold round_trip. cbv zeta. cbn [d_b]. rewrite adj_from_cases_afc. reflexivity. }
  rewrite E. destruct G as [G1 [G2 [G3 [G4 [G5 [G6 [G7 G8]]]]]]].
  exact (conj G1 (conj G2 (conj G3 (conj G4 (conj G5 (conj G6 (conj G7 G8))))))).
Qed.

Print Assumptions rebuild_DInvR.
Print Assumptions round_trip_bqm_ok.
Print Assumptions round_trip_preserves_DInv.

(* ---------- every modelled call preserves the invariant ---------- *)
Theorem dstep_preserves_DInv_all d o : DInv d -> dop_ok d o = true -> DInv (dstep d o).
Proof.
  intros HD Hok. destruct o; try (apply dstep_preserves_DInv_all_but_round_trip; [reflexivity|exact HD|exact Hok]).
  apply round_trip_preserves_DInv. exact HD.
Qed.

Fixpoint run_all (d : dqm) (ops : list dop) : option dqm :=
  match ops with
  | [] => Some d
  | o :: r => if dop_ok d o then run_all (dstep d o) r else None
  end.

Theorem DInv_reachable_all : forall ops d, run_all d_empty ops = Some d -> DInv d.
Proof.
  intros ops. assert (G : forall d0 d, DInv d0 -> run_all d0 ops = Some d -> DInv d).
  { induction ops as [|o r IH]; intros d0 d H0 HR; cbn [run_all] in HR.
    - injection HR as <-. exact H0.
    - destruct (dop_ok d0 o) eqn:E; [|discriminate]. apply (IH (dstep d0 o)); [|exact HR].
      apply dstep_preserves_DInv_all; assumption. }
  intros d. apply G, DInv_empty.
Qed.

(* after the rebuild adj_ is exactly the projection of the case interactions (pairs recorded by an all-zero dense
   set_quadratic are gone) *)
Theorem round_trip_adj_exact d u v :
  u < d_nvars d ->
  (In v (d_nb (round_trip d) u) <->
   exists ci w, d_start d u <= ci /\ ci < d_start d u + d_ncases d u /\ In w (keys (d_b (round_trip d)) ci) /\ v = var_of d w).
Proof.
  intros Hu.
  assert (E : d_nb (round_trip d) u = nth u (afc (d_st d) (d_nvars d) (d_b (round_trip d))) []).
  { unfold round_trip, d_nb. cbv zeta. cbn [d_adj d_b]. rewrite adj_from_cases_afc. reflexivity. }
  rewrite E. apply afc_row_In. exact Hu.
Qed.

Print Assumptions dstep_preserves_DInv_all.
Print Assumptions DInv_reachable_all.
Print Assumptions round_trip_adj_exact.
