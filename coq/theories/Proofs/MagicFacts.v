(* C17: magic_square - the "uniqueness" constraint is necessary for distinct entries (all sizes)
   but not sufficient (witness) *)
From Coq Require Import List ZArith QArith Qcanon Bool Arith Lia.
From Dimod Require Import Base.Util Model.Poly Model.Knap Model.Gates Model.Magic
  Proofs.PolyFacts Proofs.GatesFacts Proofs.KnapFacts.
Import ListNotations.

(* over Z: pairwise distinct integers have squared differences >= 1 each *)
Theorem sqdiff_sum_distinct (v : nat -> Z) pairs :
  all_distinct_on v pairs -> (Z.of_nat (length pairs) <= sqdiff_sum v pairs)%Z.
Proof.
  induction pairs as [|p r IH]; intros H; [cbn; lia|].
  cbn [length sqdiff_sum fold_right]. fold (sqdiff_sum v r).
  assert (Hp : v (fst p) <> v (snd p)) by (apply H; left; reflexivity).
  assert (IH' : (Z.of_nat (length r) <= sqdiff_sum v r)%Z) by (apply IH; intros q Hq; apply H; right; exact Hq).
  assert (1 <= (v (fst p) - v (snd p)) * (v (fst p) - v (snd p)))%Z by nia.
  lia.
Qed.

Open Scope Qc_scope.

(* the uniqueness polynomial at an integer assignment is that sum *)
Theorem uniq_poly_energy n (v : nat -> Z) :
  energy (uniq_poly n) (fun c => z2q (v c)) = z2q (sqdiff_sum v (cell_pairs n)).
Proof.
  unfold energy, uniq_poly. cbn [p_off p_lin p_quad lin_energy map qsum].
  generalize (cell_pairs n). intros pairs.
  replace (0 + 0 + quad_energy (flat_map (fun p => [(fst p, fst p, 1); (snd p, snd p, 1); (fst p, snd p, - two)]) pairs)
                     (fun c => z2q (v c)))
    with (quad_energy (flat_map (fun p => [(fst p, fst p, 1); (snd p, snd p, 1); (fst p, snd p, - two)]) pairs)
                     (fun c => z2q (v c))) by ring.
  induction pairs as [|p r IH]; cbn [flat_map sqdiff_sum fold_right].
  - unfold quad_energy. cbn [map qsum]. rewrite z2q_0. reflexivity.
  - fold (sqdiff_sum v r). change ([(fst p, fst p, 1); (snd p, snd p, 1); (fst p, snd p, - two)] ++
       flat_map (fun p0 => [(fst p0, fst p0, 1); (snd p0, snd p0, 1); (fst p0, snd p0, - two)]) r)
      with ((fst p, fst p, 1) :: (snd p, snd p, 1) :: (fst p, snd p, - two) ::
       flat_map (fun p0 => [(fst p0, fst p0, 1); (snd p0, snd p0, 1); (fst p0, snd p0, - two)]) r).
    rewrite !quad_energy_cons, IH. cbn [fst snd].
    rewrite z2q_add, z2q_mul.
    replace (v (fst p) - v (snd p))%Z with (v (fst p) + - v (snd p))%Z by lia.
    rewrite z2q_add. replace (- v (snd p))%Z with ((-1) * v (snd p))%Z by lia. rewrite z2q_mul.
    assert (E : z2q (-1) = - (1)) by (apply Qc_is_canon; reflexivity). rewrite E. unfold two. ring.
Qed.

(* distinct integer entries satisfy the uniqueness constraint (bound = number of pairs) *)
Theorem magic_uniqueness_necessary n (v : nat -> Z) :
  all_distinct_on v (cell_pairs n) ->
  z2q (Z.of_nat (length (cell_pairs n))) <= energy (uniq_poly n) (fun c => z2q (v c)).
Proof.
  intros H. rewrite uniq_poly_energy. apply z2q_le. apply sqdiff_sum_distinct. exact H.
Qed.

(* the bound used by the generator is that number of pairs (sizes 1..6 by computation) *)
Lemma uniq_rhs_is_pair_count :
  forallb (fun n => (length (cell_pairs n) =? (n * n * n * n - n * n) / 2)%nat) [1; 2; 3; 4; 5; 6]%nat = true.
Proof. vm_compute. reflexivity. Qed.

(* NOT sufficient: a Latin square (every entry three times) with sum 6 satisfies every constraint
   of magic_square(3), the "uniqueness" constraint included *)
Definition latin3 : list Z := [1; 3; 2; 3; 2; 1; 2; 1; 3; 6]%Z.
Theorem magic_uniqueness_not_sufficient_refuted :
  magic_feasibleb 3 1 (zsample latin3) = true /\ nth 0 latin3 0%Z = nth 5 latin3 0%Z.
Proof. vm_compute. split; reflexivity. Qed.

(* the Lo Shu square is accepted, a wrong sum is not *)
Example magic_lo_shu :
  magic_feasibleb 3 1 (zsample [2; 7; 6; 9; 5; 1; 4; 3; 8; 15]%Z) = true /\
  magic_feasibleb 3 1 (zsample [2; 7; 6; 9; 5; 1; 4; 3; 8; 14]%Z) = false.
Proof. vm_compute. split; reflexivity. Qed.
