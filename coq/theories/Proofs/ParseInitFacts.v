(* Initialized.parse_initial_states on the code-shaped model: what infer_vartype decides, the
   energies are the problem's, and every value of every returned row lies in the model's domain. *)
From Coq Require Import List ZArith QArith Qcanon Bool Arith Lia.
From Dimod Require Import Base.Util Model.Poly Model.Samples Model.Solve Model.ParseInit
     Proofs.PolyFacts Proofs.SolveEnum Proofs.SolveSamplers.
Import ListNotations.
Open Scope Qc_scope.

Lemma qeqb_iff a b : Qc_eqb a b = true <-> a = b.
Proof.
  unfold Qc_eqb. rewrite Qeq_bool_iff. split.
  - apply Qc_is_canon.
  - intros ->. reflexivity.
Qed.

Lemma one_neq_zero : (1 : Qc) <> 0.
Proof. intro H. discriminate H. Qed.
Lemma one_neq_mone : (1 : Qc) <> - (1).
Proof. intro H. discriminate H. Qed.

Lemma xor_one_iff (c x : Qc) : 1 <> c ->
  xorb (Qc_eqb x 1) (Qc_eqb x c) = true <-> x = c \/ x = 1.
Proof.
  intros Hc. destruct (Qc_eqb x 1) eqn:E1, (Qc_eqb x c) eqn:Ec; cbn [xorb].
  - apply qeqb_iff in E1. apply qeqb_iff in Ec. exfalso. apply Hc. congruence.
  - apply qeqb_iff in E1. split; [intros _; right; exact E1 | reflexivity].
  - apply qeqb_iff in Ec. split; [intros _; left; exact Ec | reflexivity].
  - split; [discriminate|]. intros [H|H]; apply qeqb_iff in H; congruence.
Qed.

Lemma forallb_false_witness {A} (f : A -> bool) l :
  forallb f l = false <-> exists x, In x l /\ f x = false.
Proof.
  induction l as [|y l IH]; cbn [forallb].
  - split; [discriminate | intros [x [[] _]]].
  - destruct (f y) eqn:E; cbn [andb].
    + rewrite IH. split; intros [x [Hx Hn]]; exists x.
      * split; [right; exact Hx | exact Hn].
      * destruct Hx as [<- | Hx]; [congruence|]. split; assumption.
    + split; [|reflexivity]. intros _. exists y. split; [left; reflexivity | exact E].
Qed.

(* what infer_vartype decides, exactly *)
Theorem infer_vartype_spec rows :
  let flat := concat rows in
  (infer_vartype rows = Some None <-> forall x, In x flat -> x = 1) /\
  (infer_vartype rows = Some (Some VBinary) <->
     (exists x, In x flat /\ x <> 1) /\ forall x, In x flat -> in_vt VBinary x) /\
  (infer_vartype rows = Some (Some VSpin) <->
     (exists x, In x flat /\ x <> 0 /\ x <> 1) /\ forall x, In x flat -> in_vt VSpin x) /\
  (infer_vartype rows = None <->
     (exists x, In x flat /\ x <> 0 /\ x <> 1) /\ (exists x, In x flat /\ x <> - (1) /\ x <> 1)).
Proof.
  cbv zeta. unfold infer_vartype. set (flat := concat rows).
  assert (Hones : forallb (fun x => Qc_eqb x 1) flat = true <-> forall x, In x flat -> x = 1).
  { rewrite forallb_forall. split; intros H x Hx; apply qeqb_iff; apply H; exact Hx. }
  assert (Hbin : forallb (fun x => xorb (Qc_eqb x 1) (Qc_eqb x 0)) flat = true <->
                 forall x, In x flat -> in_vt VBinary x).
  { rewrite forallb_forall. split; intros H x Hx; apply (xor_one_iff 0 x one_neq_zero); apply H; exact Hx. }
  assert (Hspin : forallb (fun x => xorb (Qc_eqb x 1) (Qc_eqb x (- (1)))) flat = true <->
                  forall x, In x flat -> in_vt VSpin x).
  { rewrite forallb_forall. split; intros H x Hx; apply (xor_one_iff (- (1)) x one_neq_mone); apply H; exact Hx. }
  (* negations as witnesses *)
  assert (Nones : forallb (fun x => Qc_eqb x 1) flat = false <-> exists x, In x flat /\ x <> 1).
  { rewrite forallb_false_witness. split; intros [x [Hx Hn]]; exists x; (split; [exact Hx|]).
    - intro Hy. apply qeqb_iff in Hy. congruence.
    - destruct (Qc_eqb x 1) eqn:E; [|reflexivity]. apply qeqb_iff in E. contradiction. }
  assert (Nbin : forallb (fun x => xorb (Qc_eqb x 1) (Qc_eqb x 0)) flat = false <->
                 exists x, In x flat /\ x <> 0 /\ x <> 1).
  { rewrite forallb_false_witness. split; intros [x [Hx Hn]]; exists x; (split; [exact Hx|]).
    - split; intro Hy; assert (X : xorb (Qc_eqb x 1) (Qc_eqb x 0) = true)
        by (apply (xor_one_iff 0 x one_neq_zero); tauto); congruence.
    - destruct (xorb _ _) eqn:E; [|reflexivity]. apply (xor_one_iff 0 x one_neq_zero) in E. tauto. }
  assert (Nspin : forallb (fun x => xorb (Qc_eqb x 1) (Qc_eqb x (- (1)))) flat = false <->
                  exists x, In x flat /\ x <> - (1) /\ x <> 1).
  { rewrite forallb_false_witness. split; intros [x [Hx Hn]]; exists x; (split; [exact Hx|]).
    - split; intro Hy; assert (X : xorb (Qc_eqb x 1) (Qc_eqb x (- (1))) = true)
        by (apply (xor_one_iff (- (1)) x one_neq_mone); tauto); congruence.
    - destruct (xorb _ _) eqn:E; [|reflexivity]. apply (xor_one_iff (- (1)) x one_neq_mone) in E. tauto. }
  destruct (forallb (fun x => Qc_eqb x 1) flat) eqn:E1.
  { pose proof (proj1 Hones eq_refl) as A.
    repeat split; try discriminate; try (intros _; exact A); try reflexivity.
    - intros [[x [Hx Hn]] _]. exfalso. apply Hn, A, Hx.
    - intros [[x [Hx [_ Hn]]] _]. exfalso. apply Hn, A, Hx.
    - intros [[x [Hx [_ Hn]]] _]. exfalso. apply Hn, A, Hx. }
  pose proof (proj1 Nones eq_refl) as W1.
  destruct (forallb (fun x => xorb (Qc_eqb x 1) (Qc_eqb x 0)) flat) eqn:E2.
  { pose proof (proj1 Hbin eq_refl) as A.
    repeat split; try discriminate; try reflexivity; try exact W1; try exact A.
    - intros H. destruct W1 as [x [Hx Hn]]. exfalso. apply Hn, H, Hx.
    - intros [[x [Hx [H0 H1]]] _]. exfalso. destruct (A x Hx); tauto.
    - intros [[x [Hx [H0 H1]]] _]. exfalso. destruct (A x Hx); tauto. }
  pose proof (proj1 Nbin eq_refl) as W2.
  destruct (forallb (fun x => xorb (Qc_eqb x 1) (Qc_eqb x (- (1)))) flat) eqn:E3.
  { pose proof (proj1 Hspin eq_refl) as A.
    repeat split; try discriminate; try reflexivity; try exact W2; try exact A.
    - intros H. destruct W1 as [x [Hx Hn]]. exfalso. apply Hn, H, Hx.
    - intros [_ H]. destruct W2 as [x [Hx [H0 H1]]]. exfalso. destruct (H x Hx); tauto.
    - intros [_ [x [Hx [H0 H1]]]]. exfalso. destruct (A x Hx); tauto. }
  pose proof (proj1 Nspin eq_refl) as W3.
  repeat split; try discriminate; try reflexivity; try exact W2; try exact W3.
  - intros H. destruct W1 as [x [Hx Hn]]. exfalso. apply Hn, H, Hx.
  - intros [_ H]. destruct W2 as [x [Hx [H0 H1]]]. exfalso. destruct (H x Hx); tauto.
  - intros [_ H]. destruct W3 as [x [Hx [H0 H1]]]. exfalso. destruct (H x Hx); tauto.
Qed.

(* the energies are the problem's, whatever was given *)
Theorem parse_honest g num_reads e bqm_vt vars init extra r :
  parse_initial_states g num_reads e bqm_vt vars init extra = Some r -> honest e r.
Proof.
  unfold parse_initial_states. destruct init as [i|].
  - destruct (states_vartype bqm_vt (i_declared i) (i_rows i)); [|discriminate]. apply identity_honest.
  - apply identity_honest.
Qed.

(* the conversion maps values of the states' vartype to values of the model's *)
Lemma match_vartype_in_vt from to row x :
  (forall y, In y row -> in_vt from y) -> In x (match_vartype from to row) -> in_vt to x.
Proof.
  intros H Hx. destruct from, to; cbn [match_vartype] in Hx.
  - apply H, Hx.
  - unfold row_to_spin in Hx. apply in_map_iff in Hx. destruct Hx as [y [<- Hy]].
    destruct (H y Hy) as [-> | ->]; cbn [in_vt]; [left | right]; unfold two; ring.
  - unfold row_to_binary in Hx. apply in_map_iff in Hx. destruct Hx as [y [<- Hy]].
    destruct (H y Hy) as [-> | ->]; cbn [in_vt]; [left; ring | right].
    change (1 + 1) with two. apply two_half.
  - apply H, Hx.
Qed.

Lemma in_concat_repeat {A} (l : list A) k x : In x (concat (repeat l k)) -> In x l.
Proof.
  induction k as [|k IH]; cbn [repeat concat]; [intros []|].
  rewrite in_app_iff. intros [H|H]; [exact H | exact (IH H)].
Qed.

Lemma identity_rows_subset g n init extra rows row :
  identity_rows g n init extra = Some rows -> In row rows -> In row init \/ In row extra.
Proof.
  unfold identity_rows. destruct g.
  - destruct (_ <? n)%nat; [discriminate|]. intros [= <-] H. left; exact H.
  - destruct (_ <? 1)%nat; [discriminate|]. destruct (n <=? _)%nat; intros [= <-] H.
    + left; exact H.
    + unfold tile_rows in H. rewrite in_app_iff in H. destruct H as [H|H].
      * left. exact (in_concat_repeat _ _ _ H).
      * left. exact (in_firstn_in _ _ _ H).
  - intros [= <-] H. apply in_app_iff in H. exact H.
Qed.

Lemma identity_sample_rows_subset g num_reads e vars ls conv init extra r row :
  identity_sample g num_reads e vars ls conv init extra = Some r ->
  In row (r_rows r) -> In row (map conv init) \/ In row extra.
Proof.
  unfold identity_sample. destruct (negb _); [discriminate|].
  destruct (_ <? 1)%nat; [discriminate|].
  destruct (identity_rows _ _ _ _) as [rows|] eqn:E; [|discriminate].
  intros [= <-]. unfold from_samples_bqm.
  destruct (firstn _ rows) as [|r0 rest] eqn:F; cbn [r_rows]; [intros []|].
  intros H. rewrite <- F in H. apply in_firstn_in in H.
  eapply identity_rows_subset; eassumption.
Qed.

(* every value of every returned row lies in the model's domain: the given states are read in
   the vartype their VALUES show (raw states - nothing to assume) or their SampleSet declares
   (assumed to hold its own vartype's values) and converted; drawn rows are the generator's *)
Theorem parse_values_in_domain g num_reads e bqm_vt vars init extra r :
  parse_initial_states g num_reads e bqm_vt vars init extra = Some r ->
  (forall i v, init = Some i -> i_declared i = Some v ->
               forall row x, In row (i_rows i) -> In x row -> in_vt v x) ->
  (forall row x, In row extra -> In x row -> in_vt bqm_vt x) ->
  forall row x, In row (r_rows r) -> In x row -> in_vt bqm_vt x.
Proof.
  unfold parse_initial_states. intros Hp Hdecl Hextra row x Hrow Hx.
  destruct init as [i|].
  - destruct (states_vartype bqm_vt (i_declared i) (i_rows i)) as [ivt|] eqn:Esv; [|discriminate].
    destruct (identity_sample_rows_subset _ _ _ _ _ _ _ _ _ _ Hp Hrow) as [H|H].
    + apply in_map_iff in H. destruct H as [row0 [<- Hrow0]].
      apply (match_vartype_in_vt ivt bqm_vt row0 x); [|exact Hx].
      intros y Hy. unfold states_vartype in Esv.
      destruct (i_declared i) as [v|] eqn:Ed.
      * injection Esv as <-. eapply Hdecl; [reflexivity | exact Ed | exact Hrow0 | exact Hy].
      * assert (Hflat : In y (concat (i_rows i))) by (apply in_concat; exists row0; split; assumption).
        destruct (infer_vartype_spec (i_rows i)) as [S0 [S1 [S2 _]]]. cbv zeta in S0, S1, S2.
        destruct (infer_vartype (i_rows i)) as [[v|]|] eqn:Ei; [| |discriminate].
        -- injection Esv as <-. destruct v.
           ++ apply (proj2 (proj1 S1 eq_refl)), Hflat.
           ++ apply (proj2 (proj1 S2 eq_refl)), Hflat.
        -- injection Esv as <-. rewrite (proj1 S0 eq_refl y Hflat). destruct bqm_vt; right; reflexivity.
    + eapply Hextra; eassumption.
  - destruct (identity_sample_rows_subset _ _ _ _ _ _ _ _ _ _ Hp Hrow) as [H|H].
    + destruct H.
    + eapply Hextra; eassumption.
Qed.

(* ambiguous raw states (empty, or all ones) are read in the model's vartype and not converted;
   raw states with a value outside {-1,0,1}, or with both a 0 and a -1, are rejected *)
Theorem parse_rejects_unknown_values g num_reads e bqm_vt vars ls rows extra :
  (exists x, In x (concat rows) /\ x <> 0 /\ x <> 1) ->
  (exists x, In x (concat rows) /\ x <> - (1) /\ x <> 1) ->
  parse_initial_states g num_reads e bqm_vt vars (Some (mkInit None ls rows)) extra = None.
Proof.
  intros H0 H1. unfold parse_initial_states, states_vartype. cbn [i_declared i_rows].
  destruct (infer_vartype_spec rows) as [_ [_ [_ S3]]]. cbv zeta in S3.
  rewrite (proj2 S3 (conj H0 H1)). reflexivity.
Qed.

(* ------------------------------------------------------------------ *)
(* SimulatedAnnealingSampler's argument tests *)
Theorem sa_validate_spec num_reads beta_range num_sweeps :
  sa_validate num_reads beta_range num_sweeps = true <->
  (1 <= num_reads)%Z /\ (1 <= num_sweeps)%Z /\
  match beta_range with
  | None => True
  | Some l => length l = 2%nat /\ forall b, In b l -> (0 < b)%Qc
  end.
Proof.
  unfold sa_validate. destruct (num_reads <? 1)%Z eqn:En.
  - apply Z.ltb_lt in En. split; [discriminate | intros [H _]; lia].
  - apply Z.ltb_ge in En. rewrite andb_true_iff, negb_true_iff, Z.leb_gt.
    destruct beta_range as [l|].
    + destruct (existsb (fun b : Qc => Qc_leb b 0) l) eqn:Eb.
      * split; [intros [H _]; discriminate|]. intros [_ [_ [_ Hpos]]]. exfalso.
        apply existsb_exists in Eb. destruct Eb as [b [Hb Hle]].
        unfold Qc_leb in Hle. apply Qle_bool_iff in Hle. specialize (Hpos b Hb).
        unfold Qclt in Hpos. apply (Qlt_not_le _ _ Hpos). exact Hle.
      * destruct (length l =? 2)%nat eqn:El; cbn [negb].
        -- apply Nat.eqb_eq in El. split.
           ++ intros [_ Hs]. repeat split; try lia. intros b Hb.
              destruct (Qlt_le_dec 0 b) as [Hlt|Hle]; [exact Hlt|]. exfalso.
              assert (X : existsb (fun b : Qc => Qc_leb b 0) l = true).
              { apply existsb_exists. exists b. split; [exact Hb|]. unfold Qc_leb. apply Qle_bool_iff. exact Hle. }
              congruence.
           ++ intros [_ [Hs _]]. split; [reflexivity | lia].
        -- apply Nat.eqb_neq in El. split; [intros [H _]; discriminate|]. intros [_ [_ [Hl _]]]. contradiction.
    + split; [intros [_ Hs]; repeat split; lia | intros [_ [Hs _]]; split; [reflexivity|lia]].
Qed.

Lemma existsb_map_q {A} (f : Qc -> bool) (g : A -> Qc) l :
  existsb f (map g l) = existsb (fun x => f (g x)) l.
Proof. induction l as [|x l IH]; [reflexivity|]. cbn [map existsb]. rewrite IH. reflexivity. Qed.

(* the typed outcome: accepted exactly when every argument has the right type and the value
   tests of sa_validate pass; a TypeError exactly when the FIRST failing test is a type test *)
Definition bitem_q (b : bitem) : Qc := match b with BNum q => q | BNotNum => 0 end.

Theorem sa_outcome_accept_iff num_reads beta_range num_sweeps :
  sa_outcome num_reads beta_range num_sweeps = Accept <->
  exists r s, num_reads = AInt r /\ num_sweeps = AInt s /\
    (beta_range <> BNotSeq) /\
    (forall items, beta_range = BSeq items -> forallb bitem_is_num items = true) /\
    sa_validate r (match beta_range with BSeq items => Some (map bitem_q items) | _ => None end) s = true.
Proof.
  unfold sa_outcome, sa_validate. split.
  - destruct num_reads as [r|]; [|discriminate].
    destruct (r <? 1)%Z eqn:Er; [discriminate|].
    destruct beta_range as [|items|].
    + destruct num_sweeps as [s|]; [|discriminate]. destruct (s <=? 0)%Z eqn:Es; [discriminate|].
      intros _. exists r, s. repeat split; try discriminate. rewrite Er, Es. reflexivity.
    + destruct (forallb bitem_is_num items) eqn:Ef; cbn [negb]; [|discriminate].
      destruct (existsb bitem_nonpos items) eqn:Ee; [discriminate|].
      destruct (length items =? 2)%nat eqn:El; cbn [negb]; [|discriminate].
      destruct num_sweeps as [s|]; [|discriminate]. destruct (s <=? 0)%Z eqn:Es; [discriminate|].
      intros _. exists r, s. repeat split; try discriminate.
      * intros items' [= <-]. exact Ef.
      * rewrite Er, Es, map_length, El. cbn [negb].
        assert (X : existsb (fun b : Qc => Qc_leb b 0) (map bitem_q items) = false).
        { rewrite existsb_map_q. clear -Ef Ee. induction items as [|b l IH]; [reflexivity|].
          cbn [forallb existsb] in *. apply andb_true_iff in Ef. destruct Ef as [Hb Hl].
          apply orb_false_iff in Ee. destruct Ee as [Eb El]. rewrite (IH Hl El).
          destruct b; [cbn [bitem_nonpos bitem_q] in *; rewrite Eb; reflexivity | discriminate]. }
        rewrite X. reflexivity.
    + discriminate.
  - intros [r [s [-> [-> [Hns [Hnum Hv]]]]]].
    destruct (r <? 1)%Z; [discriminate|].
    destruct beta_range as [|items|]; [| |congruence].
    + apply andb_true_iff in Hv. destruct Hv as [_ Hs]. apply negb_true_iff in Hs. rewrite Hs. reflexivity.
    + rewrite (Hnum items eq_refl). cbn [negb].
      rewrite map_length in Hv.
      assert (X : existsb bitem_nonpos items = existsb (fun b : Qc => Qc_leb b 0) (map bitem_q items)).
      { rewrite existsb_map_q. specialize (Hnum items eq_refl). clear -Hnum.
        induction items as [|b l IH]; [reflexivity|]. cbn [forallb existsb] in *.
        apply andb_true_iff in Hnum. destruct Hnum as [Hb Hl]. rewrite (IH Hl).
        destruct b; [reflexivity|discriminate]. }
      rewrite X. destruct (existsb _ (map bitem_q items)); [discriminate|].
      destruct (length items =? 2)%nat; cbn [negb] in *; [|discriminate].
      apply andb_true_iff in Hv. destruct Hv as [_ Hs]. apply negb_true_iff in Hs. rewrite Hs. reflexivity.
Qed.
