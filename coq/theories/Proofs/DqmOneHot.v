(* C20 - cyDiscreteQuadraticModel.energies is the case-level polynomial at the one-hot encoding of the sample:
   d_energy d s = energy (abs (d_b d)) (onehot d s), where abs is the plain polynomial of the case-level BQM
   (Model/Adj.v) and onehot puts 1 on the chosen case of every variable and 0 elsewhere. *)
From Coq Require Import List ZArith QArith Qcanon Bool Arith Lia Sorted.
From Dimod Require Import Base.Util Model.Poly Model.Adj Model.AdjMore Model.DqmNative
  Proofs.AdjNb Proofs.AdjInv Proofs.AdjRW Proofs.AdjEnergy Proofs.DqmNativeFacts Proofs.DqmRoundTrip Proofs.DqmReads
  Proofs.DqmRoundTripId Proofs.DqmEnergyFull.
Import ListNotations.
Local Open Scope nat_scope.

Definition chosen (d : dqm) (s : list nat) (u : nat) : nat := cs d u (nth u s 0).
Definition onehot (d : dqm) (s : list nat) : nat -> Qc :=
  fun ci => if ci =? chosen d s (var_of d ci) then 1%Qc else 0%Qc.

Lemma SS_map_seq (g : nat -> nat) : forall k a,
  (forall x y, a <= x -> x < y -> y < a + k -> g x < g y) -> StronglySorted lt (map g (seq a k)).
Proof.
  induction k as [|k IH]; intros a H; [constructor|]. cbn [seq map]. constructor.
  - apply IH. intros x y Hx Hxy Hy. apply H; lia.
  - apply Forall_forall. intros z Hz. apply in_map_iff in Hz. destruct Hz as [x [<- Hx]]. apply in_seq in Hx.
    apply H; lia.
Qed.

Section OneHot.
  Variable d : dqm.
  Variable s : list nat.
  Hypothesis HD : DInv d.
  Hypothesis HV : valid_sample d s.

  Let b := d_b d.
  Let n := d_nvars d.
  Let N := nvars (d_b d).

  Lemma DP : Inv b /\ length (d_st d) = S n /\ hd 1 (d_st d) = 0 /\ starts_ok (d_st d) = true /\ last (d_st d) 0 = N.
  Proof. pose proof HD as HP. apply DInv_iff in HP. destruct HP as [H1 [_ [H3 [H4 [H5 [H6 _]]]]]]. auto. Qed.

  Lemma chosen_facts u : u < n ->
    chosen d s u < N /\ var_of d (chosen d s u) = u /\ d_start d u <= chosen d s u /\ chosen d s u < d_start d (S u).
  Proof.
    intros Hu. destruct DP as [_ [H3 [_ [H5 H6]]]].
    destruct (st_facts (d_st d) n N H3 H5 H6 u (nth u s 0) Hu (HV u Hu)) as [A B].
    pose proof (HV u Hu) as C. unfold d_ncases in C. unfold chosen, cs. repeat split; try assumption; unfold d_start in *; lia.
  Qed.

  Lemma start_mono u v : u <= v -> v <= n -> d_start d u <= d_start d v.
  Proof.
    intros Huv Hv. destruct DP as [_ [H3 [_ [H5 _]]]]. destruct (Nat.eq_dec u v) as [->|Ne]; [lia|].
    rewrite starts_ok_eq in H5. apply sorted_nat_iff in H5.
    pose proof (SS_nth_lt (d_st d) H5 u v ltac:(lia) ltac:(lia)). unfold d_start. lia.
  Qed.

  Lemma chosen_mono u v : u < v -> v < n -> chosen d s u < chosen d s v.
  Proof.
    intros Huv Hv. destruct (chosen_facts u ltac:(lia)) as [_ [_ [_ A]]]. destruct (chosen_facts v Hv) as [_ [_ [B _]]].
    pose proof (start_mono (S u) v ltac:(lia) ltac:(lia)). lia.
  Qed.

  Lemma chosen_sorted k : k <= n -> StronglySorted lt (map (chosen d s) (seq 0 k)).
  Proof. intros Hk. apply SS_map_seq. intros x y _ Hxy Hy. apply chosen_mono; lia. Qed.

  Lemma onehot_chosen u : u < n -> onehot d s (chosen d s u) = 1%Qc.
  Proof. intros Hu. unfold onehot. destruct (chosen_facts u Hu) as [_ [E _]]. rewrite E, Nat.eqb_refl. reflexivity. Qed.

  (* a case that carries a 1 is the chosen case of its variable *)
  Lemma onehot_nonzero ci : ci < N -> onehot d s ci <> 0%Qc -> exists u, u < n /\ ci = chosen d s u.
  Proof.
    intros Hci H. unfold onehot in H. destruct (Nat.eqb_spec ci (chosen d s (var_of d ci))) as [E|_]; [|congruence].
    exists (var_of d ci). split; [|exact E]. destruct DP as [_ [H3 [H4 [H5 H6]]]].
    apply (vof_range (d_st d) n N ci H3 H4 H5 H6 Hci).
  Qed.

  Lemma onehot_zero ci k : ci < N -> k <= n -> ~ In ci (map (chosen d s) (seq 0 k)) ->
    (forall u, k <= u -> u < n -> ci <> chosen d s u) -> onehot d s ci = 0%Qc.
  Proof.
    intros Hci Hk Hn Hhi. destruct (Qc_eq_dec (onehot d s ci) 0) as [E|E]; [exact E|]. exfalso.
    destruct (onehot_nonzero ci Hci E) as [u [Hu ->]]. destruct (Nat.lt_ge_cases u k) as [L|G].
    - apply Hn. apply in_map. apply in_seq. lia.
    - apply (Hhi u G Hu). reflexivity.
  Qed.

  Local Open Scope Qc_scope.

  Lemma walk_energy_zero (sg : nat -> Qc) u nbr : sg u = 0 -> walk_energy sg u nbr = 0.
  Proof.
    intros H. induction nbr as [|[w x] r IH]; [reflexivity|]. cbn [walk_energy]. destruct (u <? w)%nat; [reflexivity|].
    rewrite IH, H. ring.
  Qed.

  (* the walk from the chosen case of u picks up exactly the chosen cases of the variables below u *)
  Lemma walk_chosen u : (u < n)%nat ->
    walk_energy (onehot d s) (chosen d s u) (nb b (chosen d s u))
    = qsum (map (fun v => quadratic b (chosen d s u) (chosen d s v)) (seq 0 u)).
  Proof.
    intros Hu. destruct DP as [HI _]. set (cu := chosen d s u).
    pose proof (Inv_sorted b cu HI) as KS.
    rewrite (walk_energy_sum _ _ _ KS). pose proof (onehot_chosen u Hu) as OC. fold cu in OC. rewrite OC.
    set (G := fun w => quadratic b cu w * onehot d s w).
    assert (KF : ksorted (filter (fun e => (fst e <=? cu)%nat) (nb b cu))).
    { unfold ksorted in *. induction (nb b cu) as [|e r IH]; [constructor|]. cbn [filter].
      apply StronglySorted_inv in KS. destruct KS as [KS F]. destruct (fst e <=? cu)%nat.
      - cbn [map]. constructor; [apply IH; exact KS|]. apply Forall_forall. intros x Hx. apply in_map_iff in Hx.
        destruct Hx as [e' [<- He']]. apply filter_In in He'. destruct He' as [He' _].
        rewrite Forall_forall in F. apply F. apply in_map. exact He'.
      - apply IH. exact KS. }
    transitivity (qsum (map G (map fst (filter (fun e => (fst e <=? cu)%nat) (nb b cu))))).
    { rewrite map_map. apply qsum_map_ext_in. intros [w x] He. apply filter_In in He. destruct He as [He _].
      unfold G, quadratic. cbn [fst snd]. rewrite (nb_get_In_2 w (nb b cu) x KS He). ring. }
    rewrite (qsum_sorted_fill G (S cu) 0%nat).
    - rewrite <- (qsum_sorted_fill G (S cu) 0%nat (map (chosen d s) (seq 0 u))).
      + rewrite map_map. apply qsum_map_ext_in. intros v Hv. apply in_seq in Hv. unfold G.
        rewrite (onehot_chosen v) by lia. ring.
      + apply chosen_sorted. lia.
      + intros x Hx. apply in_map_iff in Hx. destruct Hx as [v [<- Hv]]. apply in_seq in Hv.
        pose proof (chosen_mono v u ltac:(lia) Hu). fold cu in H. lia.
      + intros w Hw Hn. unfold G. destruct (Nat.eq_dec w cu) as [->|Ne].
        * unfold quadratic. apply Inv_InvG in HI. destruct HI as [_ [_ [_ [_ [_ SL]]]]].
          unfold nb. rewrite SL; [ring|]. apply DInv_iff in HD. destruct HD as [_ [V _]].
          rewrite (vt_at_binary b cu V). reflexivity.
        * rewrite (onehot_zero w u); [ring| | |exact Hn|].
          -- destruct (chosen_facts u Hu) as [A _]. fold cu in A. unfold N in *. lia.
          -- lia.
          -- intros v Hv1 Hv2 E. destruct (Nat.eq_dec v u) as [->|Nv]; [contradiction|].
             pose proof (chosen_mono u v ltac:(lia) Hv2). fold cu in H. lia.
    - exact KF.
    - intros x Hx. apply in_map_iff in Hx. destruct Hx as [e [<- He]]. apply filter_In in He. destruct He as [_ He].
      apply Nat.leb_le in He. lia.
    - intros w Hw Hn. unfold G, quadratic. destruct (nb_get w (nb b cu)) as [x|] eqn:E; [|ring].
      exfalso. apply Hn. apply nb_get_In_1 in E. apply in_map_iff. exists (w, x). split; [reflexivity|].
      apply filter_In. split; [exact E|]. apply Nat.leb_le. cbn [fst]. lia.
  Qed.

  Theorem d_energy_onehot : d_energy d s = energy (abs b) (onehot d s).
  Proof.
    destruct DP as [HI _]. rewrite <- (energy_adj_abs b (onehot d s) HI). rewrite (d_energy_full d s HD HV).
    unfold energy_adj. fold b. f_equal.
    set (f := fun ci => nth ci (lin b) 0 * onehot d s ci + walk_energy (onehot d s) ci (nb b ci)).
    change (qsum (map (fun u0 => nth u0 (lin b) 0 * onehot d s u0 + walk_energy (onehot d s) u0 (nb b u0)) (seq 0 (nvars b))))
      with (qsum (map f (seq 0 (nvars b)))).
    rewrite <- (qsum_sorted_fill f (nvars b) 0%nat (map (chosen d s) (seq 0 n))).
    - rewrite map_map. apply qsum_map_ext_in. intros u Hu. apply in_seq in Hu. unfold f.
      rewrite (onehot_chosen u) by lia. rewrite (walk_chosen u) by lia. unfold linear, chosen. fold b. ring.
    - apply chosen_sorted. lia.
    - intros x Hx. apply in_map_iff in Hx. destruct Hx as [u [<- Hu]]. apply in_seq in Hu.
      destruct (chosen_facts u ltac:(lia)) as [A _]. unfold N, b in *. lia.
    - intros ci Hci Hn. unfold f. rewrite (onehot_zero ci n); [|unfold N, b in *; lia|lia|exact Hn|intros; lia].
      rewrite walk_energy_zero; [ring|].
      apply (onehot_zero ci n); [unfold N, b in *; lia|lia|exact Hn|intros; lia].
  Qed.
End OneHot.

Print Assumptions d_energy_onehot.

(* ---------- unconditional form: on every state reachable from the empty DQM by accepted calls ---------- *)
Theorem reachable_round_trip_loses_nothing ops d :
  run_all d_empty ops = Some d ->
  d_b (dstep d DRoundTrip) = d_b d /\ d_st (dstep d DRoundTrip) = d_st d
  /\ (forall s, valid_sample d s -> d_energy (dstep d DRoundTrip) s = d_energy d s)
  /\ (forall u v l, u < d_nvars d -> get_quadratic (dstep d DRoundTrip) u v = Some l -> get_quadratic d u v = Some l).
Proof.
  intros HR. pose proof (DInv_reachable_all ops d HR) as HD. cbn [dstep]. split; [|split; [|split]].
  - apply round_trip_b_identity. exact HD.
  - reflexivity.
  - intros s HV. apply round_trip_energy; assumption.
  - intros u v l Hu. apply round_trip_get_quadratic; assumption.
Qed.

Print Assumptions reachable_round_trip_loses_nothing.
