(* Loading a file restores the WHOLE adjacency structure (both directions, neighbourhood order),
   not only the file-level record: decode, then replay the add_quadratic_back calls of the loader. *)
From Coq Require Import List NArith Arith Bool Lia.
From Dimod Require Import Gen.Gen_Codec Model.Codec Model.Rebuild Proofs.CodecBase Proofs.CodecFrame Proofs.CodecBqm
  Proofs.CodecBqmTop Proofs.CodecLabel Proofs.CodecJson Proofs.CodecBqmFull Proofs.CodecQm Proofs.RebuildFacts Proofs.RebuildUpsert
  Gen.Gen_Loaders Model.Loaders.
Import ListNotations.

Definition nb_nat (nb : list (N * bytes)) : list (nat * bytes) := map (fun e => (N.to_nat (fst e), snd e)) nb.
Definition nb_N (nb : list (nat * bytes)) : list (N * bytes) := map (fun e => (N.of_nat (fst e), snd e)) nb.

Lemma nb_nat_N : forall nb, nb_nat (nb_N nb) = nb.
Proof.
  induction nb as [|[k b] r IH]; cbn; [reflexivity|]. unfold nb_nat, nb_N in *. cbn [fst snd]. now rewrite Nat2N.id, IH.
Qed.

Lemma map_nb_nat_N : forall a, map nb_nat (map nb_N a) = a.
Proof. induction a as [|x r IH]; cbn; [reflexivity|]. now rewrite nb_nat_N, IH. Qed.

(* no variable interacts with itself (BINARY / SPIN: every BQM) *)
Definition NoSelf {B} (a : list (list (nat * B))) : Prop := forall x, x < length a -> get x (nth x a []) = None.

(* the loaders as the source has them (primitive and cut taken from Gen_Loaders) restore the adjacency *)
Theorem qm_load_adjacency_restores : forall {B} (add : B -> B -> B) (add0 : B -> B) (a : list (list (nat * B))),
  AdjWF a -> qm_load_adjacency add add0 (lowers a) = a.
Proof. intros B add add0 a W. exact (rebuild_lowers a W). Qed.

Theorem bqm_load_adjacency_restores : forall {B} (add : B -> B -> B) (a : list (list (nat * B))),
  AdjWF a -> NoSelf a -> bqm_load_adjacency add (fun b => b) a = a.
Proof. intros B add a W NS. exact (rebuild_upsert_lowers add a W NS). Qed.

(* QM: to_file stores the lower triangles of the adjacency a; from_file decodes them and replays
   add_quadratic_back in file order; the result is a itself *)
Theorem qm_load_restores_adjacency : forall (add : bytes -> bytes -> bytes) (add0 : bytes -> bytes) f
  (a : list (list (nat * bytes))),
  QmWF f -> AdjWF a -> qf_neig f = map nb_N (lowers a) ->
  exists g, run qm_decode (qm_encode f) = Ok g /\ qm_load_adjacency add add0 (map nb_nat (qf_neig g)) = a.
Proof.
  intros add add0 f a W Wa E. exists f. split; [now apply qm_decode_encode|].
  rewrite E, map_nb_nat_N. now apply qm_load_adjacency_restores.
Qed.

(* BQM: to_file stores the full neighbourhoods; from_file cuts each at searchsorted(.., v, 'right') and adds the
   entries with add_quadratic (lower_bound + insert-if-absent + `+=`): every such call appends (RebuildUpsert.v).
   `0 + bias` is taken to be `bias` (exact for every float except -0.0, which comes back as +0.0). *)
Theorem bqm_load_restores_adjacency : forall (add : bytes -> bytes -> bytes) f (a : list (list (nat * bytes))),
  BqmWFL f -> AdjWF a -> NoSelf a -> bf_adj f = map nb_N a ->
  exists g, run bqm_decode (bqm_encode f) = Ok g
            /\ bqm_load_adjacency add (fun b => b) (map nb_nat (bf_adj g)) = a.
Proof.
  intros add f a W Wa NS E. exists f. split; [now apply bqm_decode_encode_full|].
  rewrite E, map_nb_nat_N. now apply bqm_load_adjacency_restores.
Qed.
(* add_quadratic (lower_bound, insert if absent, +=) on a neighbourhood whose keys are all smaller
   appends: this is why the BQM loader may be replayed with add_quadratic_back *)
Lemma upsert_at_end : forall {B} (add : B -> B -> B) (add0 : B -> B) k b (l : list (nat * B)),
  Forall (fun e => fst e < k) l -> upsert add add0 k b l = l ++ [(k, add0 b)].
Proof.
  intros B add add0 k b l H. induction H as [|[k' b'] r Hk Hr IH]; cbn [upsert app]; [reflexivity|].
  cbn [fst] in Hk. replace (k' <? k) with true by (symmetry; apply Nat.ltb_lt; lia). now rewrite IH.
Qed.
