(* C17 - knapsack / multi-knapsack / bin packing generators
   (generators/knapsack.py, multi_knapsack.py, binpacking.py) as linear CQMs over
   numbered binary variables.  Numbering used by the correspondence:
     knapsack        x_i      -> i
     multi_knapsack  x_i_j    -> i * b + j            (b knapsacks)
     bin_packing     y_j      -> j ,  x_i_j -> n + i * n + j   (n items, n bins)
   Executable; no proofs here. *)
From Coq Require Import List ZArith QArith Qcanon Bool Arith.
From Dimod Require Import Base.Util Model.Poly.
Import ListNotations.
Open Scope Qc_scope.

Inductive sense := SLe | SGe | SEq.
Definition sense_eqb (a b : sense) : bool :=
  match a, b with SLe, SLe | SGe, SGe | SEq, SEq => true | _, _ => false end.

(* a linear constraint   sum lin + const  (sense)  0 *)
Record lincon := mkLC { lc_lin : list lterm; lc_const : Qc; lc_sense : sense }.

Definition qleb (a b : Qc) : bool := Qle_bool a b.
Definition lc_value (c : lincon) (x : sample) : Qc := lin_energy (lc_lin c) x + lc_const c.
Definition lc_satb (c : lincon) (x : sample) : bool :=
  match lc_sense c with
  | SLe => qleb (lc_value c x) 0
  | SGe => qleb 0 (lc_value c x)
  | SEq => Qc_eqb (lc_value c x) 0
  end.

Record lcqm := mkLCQM { q_obj : poly; q_cons : list lincon }.
Definition feasibleb (m : lcqm) (x : sample) : bool := forallb (fun c => lc_satb c x) (q_cons m).

Definition wt (w : list Qc) (i : nat) : Qc := nth i w 0.
Definition range_sum (n : nat) (f : nat -> Qc) : Qc := qsum (map f (seq 0 n)).
Definition lin_of (n : nat) (idx : nat -> label) (coef : nat -> Qc) : list lterm :=
  map (fun i => (idx i, coef i)) (seq 0 n).

(* ---------- knapsack(values, weights, capacity) ---------- *)
Definition knapsack_model (values weights : list Qc) (capacity : Qc) : lcqm :=
  let n := length values in
  mkLCQM (mkPoly 0 (lin_of n (fun i => i) (fun i => - wt values i)) [])
         [mkLC (lin_of n (fun i => i) (wt weights)) (- capacity) SLe].

(* documented quantities *)
Definition ks_weight (weights : list Qc) (n : nat) (x : sample) : Qc := range_sum n (fun i => wt weights i * x i).
Definition ks_value (values : list Qc) (n : nat) (x : sample) : Qc := range_sum n (fun i => wt values i * x i).

(* ---------- multi_knapsack(values, weights, capacities) ---------- *)
Definition mk_idx (b i j : nat) : label := (i * b + j)%nat.
Definition mk_model (values weights capacities : list Qc) : lcqm :=
  let n := length values in
  let b := length capacities in
  mkLCQM (mkPoly 0 (flat_map (fun i => lin_of b (mk_idx b i) (fun _ => - wt values i)) (seq 0 n)) [])
         (map (fun i => mkLC (lin_of b (mk_idx b i) (fun _ => 1)) (- (1)) SLe) (seq 0 n)
          ++ map (fun j => mkLC (lin_of n (fun i => mk_idx b i j) (wt weights)) (- wt capacities j) SLe) (seq 0 b)).

Definition mk_count (b : nat) (x : sample) (i : nat) : Qc := range_sum b (fun j => x (mk_idx b i j)).
Definition mk_load (weights : list Qc) (n b : nat) (x : sample) (j : nat) : Qc :=
  range_sum n (fun i => wt weights i * x (mk_idx b i j)).
Definition mk_value (values : list Qc) (n b : nat) (x : sample) : Qc :=
  range_sum n (fun i => wt values i * mk_count b x i).

(* ---------- bin_packing(weights, capacity) ---------- *)
Definition bp_y (j : nat) : label := j.
Definition bp_x (n i j : nat) : label := (n + i * n + j)%nat.
Definition bp_model (weights : list Qc) (capacity : Qc) : lcqm :=
  let n := length weights in
  mkLCQM (mkPoly 0 (lin_of n bp_y (fun _ => 1)) [])
         (map (fun i => mkLC (lin_of n (bp_x n i) (fun _ => 1)) (- (1)) SEq) (seq 0 n)
          ++ map (fun j => mkLC (lin_of n (fun i => bp_x n i j) (wt weights) ++ [(bp_y j, - capacity)]) 0 SLe) (seq 0 n)).

Definition bp_count (n : nat) (x : sample) (i : nat) : Qc := range_sum n (fun j => x (bp_x n i j)).
Definition bp_load (weights : list Qc) (n : nat) (x : sample) (j : nat) : Qc :=
  range_sum n (fun i => wt weights i * x (bp_x n i j)).
Definition bp_open_bins (n : nat) (x : sample) : Qc := range_sum n (fun j => x (bp_y j)).

(* ---------- the stated conditions as booleans (evaluated on the implementation's answers) ---------- *)
Definition ks_ok (weights : list Qc) (capacity : Qc) (n : nat) (x : sample) : bool :=
  qleb (ks_weight weights n x) capacity.
Definition mk_ok (weights capacities : list Qc) (n b : nat) (x : sample) : bool :=
  forallb (fun i => qleb (mk_count b x i) 1) (seq 0 n)
  && forallb (fun j => qleb (mk_load weights n b x j) (wt capacities j)) (seq 0 b).
Definition bp_ok (weights : list Qc) (capacity : Qc) (n : nat) (x : sample) : bool :=
  forallb (fun i => Qc_eqb (bp_count n x i) 1) (seq 0 n)
  && forallb (fun j => qleb (bp_load weights n x j) (capacity * x (bp_y j))) (seq 0 n).
