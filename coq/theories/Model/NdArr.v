(* C11 - serialize_ndarray / deserialize_ndarray bookkeeping for 1-d and 2-d arrays
   (serialization/utils.py): the document carries the elements in C order - as a nested list
   (tolist) or as the bytes of the C-order buffer (tobytes) - plus dtype name and shape; reading
   decodes the elements and reshapes.  Elements and their fixed-width byte codec are abstract.
   No proofs in this file. *)
From Coq Require Import List Arith.
From Dimod Require Import Model.Comb.
Import ListNotations.

Section NdArr.
  Variables (A B : Type).
  Variable width : nat.                   (* dtype.itemsize *)
  Variable encb : A -> list B.            (* the bytes of one element *)
  Variable decb : list B -> A.            (* np.frombuffer on one item *)

  Inductive payload :=
  | PList1 (xs : list A)                  (* tolist of a 1-d array *)
  | PList2 (rows : list (list A))         (* tolist of a 2-d array *)
  | PBytes (bs : list B).                 (* tobytes(order='C') *)

  Record ndoc := mkDoc { d_payload : payload; d_shape : list nat }.

  Definition flatten2 (rows : list (list A)) : list A := concat rows.
  (* reshape((r, c)) of a flat C-order sequence *)
  Definition reshape2 (r c : nat) (flat : list A) : list (list A) := chunks c r flat.

  Definition tobytes (flat : list A) : list B := concat (map encb flat).
  Definition frombuffer (count : nat) (bs : list B) : list A := map decb (chunks width count bs).

  Definition serialize1 (use_bytes : bool) (xs : list A) : ndoc :=
    mkDoc (if use_bytes then PBytes (tobytes xs) else PList1 xs) [length xs].

  Definition serialize2 (use_bytes : bool) (r c : nat) (rows : list (list A)) : ndoc :=
    mkDoc (if use_bytes then PBytes (tobytes (flatten2 rows)) else PList2 rows) [r; c].

  (* deserialize_ndarray: decode, then reshape(shape) *)
  Definition deserialize1 (d : ndoc) : option (list A) :=
    match d_payload d, d_shape d with
    | PList1 xs, [n] => Some xs
    | PBytes bs, [n] => Some (frombuffer n bs)
    | _, _ => None
    end.

  Definition deserialize2 (d : ndoc) : option (list (list A)) :=
    match d_payload d, d_shape d with
    | PList2 rows, [r; c] => Some (reshape2 r c (flatten2 rows))
    | PBytes bs, [r; c] => Some (reshape2 r c (frombuffer (r * c) bs))
    | _, _ => None
    end.
End NdArr.
