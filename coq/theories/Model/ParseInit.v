(* Initialized.parse_initial_states (IdentitySampler, RandomSampler), code-shaped: the vartype the
   given states are read in (a SampleSet's own, else sampleset.infer_vartype on the values, else
   the model's), the conversion to the model's vartype, then Model/Solve.v's identity_sample
   (label test, num_reads, generator, truncation, from_samples_bqm).  NO proofs here. *)
From Coq Require Import List ZArith QArith Qcanon Bool Arith.
From Dimod Require Import Base.Util Model.Poly Model.Samples Model.Solve.
Import ListNotations.
Open Scope Qc_scope.

Inductive vt2 := VBinary | VSpin.

(* sampleset.infer_vartype on a raw samples-like:
     ones_mask = (samples == 1)
     if ones_mask.all(): return None                       (empty or all ones: ambiguous)
     if (ones_mask ^ (samples == 0)).all(): return BINARY
     if (ones_mask ^ (samples == -1)).all(): return SPIN
     raise ValueError
   outer None = ValueError *)
Definition infer_vartype (rows : list (list Qc)) : option (option vt2) :=
  let flat := concat rows in
  let ones := fun x : Qc => Qc_eqb x 1 in
  if forallb ones flat then Some None
  else if forallb (fun x => xorb (ones x) (Qc_eqb x 0)) flat then Some (Some VBinary)
  else if forallb (fun x => xorb (ones x) (Qc_eqb x (- (1)))) flat then Some (Some VSpin)
  else None.

(* initial_states_vartype: `initial_states.vartype` for a SampleSet, else
   `infer_vartype(initial_states) or bqm.vartype` *)
Definition states_vartype (bqm_vt : vt2) (declared : option vt2) (rows : list (list Qc)) : option vt2 :=
  match declared with
  | Some v => Some v
  | None => match infer_vartype rows with
            | None => None
            | Some None => Some bqm_vt
            | Some (Some v) => Some v
            end
  end.

(* "match the vartype of the initial_states to the bqm": SPIN->BINARY `+= 1; //= 2`,
   BINARY->SPIN `*= 2; -= 1` (on spins, (s+1)//2 = (s+1)/2) *)
Definition match_vartype (from to : vt2) : list Qc -> list Qc :=
  match from, to with
  | VSpin, VBinary => row_to_binary
  | VBinary, VSpin => row_to_spin
  | _, _ => fun r => r
  end.

Record init_states := mkInit { i_declared : option vt2; i_labels : list label; i_rows : list (list Qc) }.

(* None = ValueError *)
Definition parse_initial_states (g : isg) (num_reads : option nat) (e : sample -> Qc) (bqm_vt : vt2)
           (vars : list label) (init : option init_states) (extra : list (list Qc)) : option result :=
  match init with
  | None =>
      (* initial_states is None: an empty array over bqm.variables, of the model's vartype *)
      identity_sample g num_reads e vars vars (fun r => r) [] extra
  | Some i =>
      match states_vartype bqm_vt (i_declared i) (i_rows i) with
      | None => None
      | Some ivt => identity_sample g num_reads e vars (i_labels i) (match_vartype ivt bqm_vt) (i_rows i) extra
      end
  end.

(* a value of the given vartype *)
Definition in_vt (v : vt2) (x : Qc) : Prop :=
  match v with VBinary => x = 0 \/ x = 1 | VSpin => x = - (1) \/ x = 1 end.

(* ------------------------------------------------------------------ *)
(* SimulatedAnnealingSampler.sample / ising_simulated_annealing: the argument tests that raise
   ValueError (num_reads < 1; a beta <= 0; len(beta_range) != 2; num_sweeps <= 0), in source order.
   true = accepted *)
Definition sa_validate (num_reads : Z) (beta_range : option (list Qc)) (num_sweeps : Z) : bool :=
  if (num_reads <? 1)%Z then false
  else match beta_range with
       | None => true
       | Some l => if existsb (fun b : Qc => Qc_leb b 0) l then false
                   else if negb (length l =? 2)%nat then false else true
       end && negb (num_sweeps <=? 0)%Z.

(* the same tests with the TYPE tests in front of them (TypeError), on arguments of any Python type:
   an int, or something that is not an int (float, str, numpy integer, None);
   beta_range: None, a tuple/list of items that are numbers (int / float) or not, or another object *)
Inductive iarg := AInt (z : Z) | ANotInt.
Inductive bitem := BNum (q : Qc) | BNotNum.
Inductive barg := BDefault | BSeq (items : list bitem) | BNotSeq.
Inductive outcome := Accept | RaiseValueError | RaiseTypeError.

Definition bitem_is_num (b : bitem) : bool := match b with BNum _ => true | BNotNum => false end.
Definition bitem_nonpos (b : bitem) : bool := match b with BNum q => Qc_leb q 0 | BNotNum => false end.

(* SimulatedAnnealingSampler.sample, then ising_simulated_annealing for the first read, in source order *)
Definition sa_outcome (num_reads : iarg) (beta_range : barg) (num_sweeps : iarg) : outcome :=
  match num_reads with
  | ANotInt => RaiseTypeError                                  (* not isinstance(num_reads, int) *)
  | AInt r =>
      if (r <? 1)%Z then RaiseValueError
      else
        let after_beta :=
          match num_sweeps with
          | ANotInt => RaiseTypeError                            (* not isinstance(num_sweeps, int) *)
          | AInt s => if (s <=? 0)%Z then RaiseValueError else Accept
          end in
        match beta_range with
        | BDefault => after_beta
        | BNotSeq => RaiseTypeError                              (* not a tuple / list *)
        | BSeq items =>
            if negb (forallb bitem_is_num items) then RaiseTypeError
            else if existsb bitem_nonpos items then RaiseValueError
            else if negb (length items =? 2)%nat then RaiseValueError
            else after_beta
        end
  end.
