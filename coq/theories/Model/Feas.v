(* C08 - feasibility / violation reports of a CQM.  Specification and two code-shaped
   paths (constrained.py per-sample path, sampleset.py vectorised path).  No proofs here. *)
From Coq Require Import List ZArith QArith Qcanon Bool Arith.
From Dimod Require Import Base.Util Model.Poly.
(* <=, abs, max(., 0) and every formula of the two code paths come from the source, through
   translators/feas_formulas.py; only the SPECIFICATION below is written by hand *)
From Dimod Require Export Gen.Gen_Feas.
Import ListNotations.
Open Scope Qc_scope.

Inductive sense := Le | Ge | Eq.
Inductive penalty := PLinear | PQuadratic.

Record constraint := mkCon {
  c_lhs : poly; c_sense : sense; c_rhs : Qc;
  c_soft : option (Qc * penalty) }.          (* None = hard (weight inf) *)

Record cqm := mkCqm { m_obj : poly; m_cons : list constraint }.

Definition is_soft (k : constraint) : bool := match c_soft k with Some _ => true | None => false end.
Definition is_hard (k : constraint) : bool := negb (is_soft k).

(* ------------------------------------------------------------------ *)
(* the one definition *)

Definition activity (k : constraint) (s : sample) : Qc := energy (c_lhs k) s - c_rhs k.

Definition violation (k : constraint) (s : sample) : Qc :=
  match c_sense k with
  | Eq => qabs (activity k s)
  | Le => activity k s
  | Ge => - activity k s
  end.

Definition tolerance (atol rtol : Qc) (k : constraint) : Qc := atol + rtol * qabs (c_rhs k).

Definition satisfied (atol rtol : Qc) (k : constraint) (s : sample) : bool :=
  Qc_leb (violation k s) (tolerance atol rtol k).

Definition feasible (atol rtol : Qc) (m : cqm) (s : sample) : bool :=
  forallb (fun k => satisfied atol rtol k s) (filter is_hard (m_cons m)).

Definition soft_penalty (atol rtol : Qc) (k : constraint) (s : sample) : Qc :=
  match c_soft k with
  | None => 0
  | Some (w, pen) =>
      if satisfied atol rtol k s then 0
      else match pen with
           | PLinear => w * violation k s
           | PQuadratic => w * (violation k s * violation k s)
           end
  end.

Definition spec_energy (atol rtol : Qc) (m : cqm) (s : sample) : Qc :=
  energy (m_obj m) s + qsum (map (fun k => soft_penalty atol rtol k s) (m_cons m)).

(* ------------------------------------------------------------------ *)
(* constrained.py: iter_constraint_data -> iter_violations / violations / check_feasible *)

Record datum := mkDatum {
  d_lhs : Qc; d_rhs : Qc; d_sense : sense; d_activity : Qc; d_violation : Qc }.

Definition constraint_datum (k : constraint) (s : sample) : datum :=
  let lhs := energy (c_lhs k) s in
  let rhs := c_rhs k in
  let act := gen_ps_activity lhs rhs in
  mkDatum lhs rhs (c_sense k) act
    (match c_sense k with
     | Eq => gen_ps_violation_eq act | Ge => gen_ps_violation_ge act | Le => gen_ps_violation_le act
     end).

Definition iter_constraint_data (m : cqm) (s : sample) : list datum :=
  map (fun k => constraint_datum k s) (m_cons m).

(* labels are positions; skip_satisfied uses `violation > 0`, no tolerance *)
Definition iter_violations (m : cqm) (s : sample) (skip_satisfied clip : bool) : list (nat * Qc) :=
  let data := combine (seq 0 (length (m_cons m))) (iter_constraint_data m s) in
  if skip_satisfied then
    map (fun id => (fst id, gen_ps_skip_value (d_violation (snd id))))
        (filter (fun id => gen_ps_skip_keeps (d_violation (snd id))) data)
  else if clip then map (fun id => (fst id, gen_ps_clip (d_violation (snd id)))) data
  else map (fun id => (fst id, gen_ps_plain (d_violation (snd id)))) data.

(* all(...) over EVERY constraint datum, soft ones included *)
Definition check_feasible (m : cqm) (s : sample) (rtol atol : Qc) : bool :=
  forallb (fun d => Qc_leb (d_violation d) (gen_ps_tolerance atol rtol (d_rhs d))) (iter_constraint_data m s).

(* ------------------------------------------------------------------ *)
(* sampleset.py: SampleSet.from_samples_cqm, column by column.
   `is_satisfied` starts as np.empty; `is_satisfied.all()` therefore looks at the columns
   filled so far AND at uninitialised memory: garb i says whether that memory happened to
   be all-true at step i. *)

Definition col_violation (k : constraint) (s : sample) : Qc :=
  let lhs := energy (c_lhs k) s in
  let rhs := c_rhs k in
  match c_sense k with
  | Eq => gen_vec_violation_eq lhs rhs | Ge => gen_vec_violation_ge lhs rhs | Le => gen_vec_violation_le lhs rhs
  end.

Definition column (atol rtol : Qc) (k : constraint) (samples : list sample) : list bool :=
  map (fun s => Qc_leb (col_violation k s) (gen_vec_tolerance atol rtol (c_rhs k))) samples.

Definition add_penalty (k : constraint) (col : list bool) (samples : list sample) (energies : list Qc) : list Qc :=
  match c_soft k with
  | None => energies
  | Some (w, pen) =>
      map (fun ecs : Qc * (bool * sample) => let '(e, (sat, s)) := ecs in
                      e + match pen with
                          | PLinear => gen_vec_penalty_linear w (if sat then 0 else 1) (col_violation k s)
                          | PQuadratic => gen_vec_penalty_quadratic w (if sat then 0 else 1) (col_violation k s)
                          end)
          (combine energies (combine col samples))
  end.

(* returns (energies, per constraint: was it put in the `soft` set) *)
Fixpoint vec_loop (atol rtol : Qc) (cons : list constraint) (garb : list bool) (prev_all : bool)
                  (samples : list sample) (energies : list Qc) : list Qc * list bool :=
  match cons with
  | [] => (energies, [])
  | k :: r =>
      let col := column atol rtol k samples in
      let all_now := prev_all && forallb (fun b => b) col in
      let mark := is_soft k && negb (all_now && hd true garb) in
      let energies' := if mark then add_penalty k col samples energies else energies in
      let res := vec_loop atol rtol r (tl garb) all_now samples energies' in
      (fst res, mark :: snd res)
  end.

Record vec_result := mkVec {
  v_energy : list Qc;
  v_is_satisfied : list (list bool);     (* one row per sample *)
  v_is_feasible : list bool }.

Definition from_samples_cqm (atol rtol : Qc) (m : cqm) (samples : list sample) (garb : list bool) : vec_result :=
  let res := vec_loop atol rtol (m_cons m) garb true samples (map (energy (m_obj m)) samples) in
  let marks := snd res in
  let sat_row := fun s => map (fun k => Qc_leb (col_violation k s) (gen_vec_tolerance atol rtol (c_rhs k))) (m_cons m) in
  mkVec (fst res) (map sat_row samples)
    (if existsb (fun b => b) marks
     then map (fun s => forallb (fun km => snd km || Qc_leb (col_violation (fst km) s) (gen_vec_tolerance atol rtol (c_rhs (fst km))))
                                (combine (m_cons m) marks)) samples
     else map (fun s => forallb (fun b => b) (sat_row s)) samples).

(* ExactCQMSolver.sample_cqm = from_samples_cqm on the enumerated cases *)
Definition exact_cqm_solver (atol rtol : Qc) (m : cqm) (cases : list sample) (garb : list bool) : vec_result :=
  from_samples_cqm atol rtol m cases garb.
