(* Expression::remove_variables(first, last) - the bulk path - code shaped:
     to_remove = sorted local indices of the given model variables that the expression tracks;
     variables_ compacted by utils::remove_by_index (Model/AdjMore.v, the mirror of the
       remove_if predicate that consumes the sorted index list in order);
     the base model's remove_variables on the same indices (linear biases compacted the same
       way; interactions with a removed end point dropped, the others re-numbered);
     indices_ rebuilt from scratch.
   Executable; no proofs in this file. *)
From Coq Require Import List ZArith QArith Qcanon Bool Arith.
From Dimod Require Import Base.Util Model.Poly Model.Adj Model.AdjMore Model.Expr.
Import ListNotations.

(* new label of local index a: the number of kept indices below it *)
Definition relocal (is_ : list nat) (a : nat) : nat := (a - length (filter (fun i => (i <? a)%nat) is_))%nat.

Definition bulk_remove_local (is_ : list nat) (e : mexpr) : mexpr :=
  let vars1 := AdjMore.remove_by_index 0 (e_vars e) is_ in
  mkE vars1 (rebuild_idx vars1)
      (AdjMore.remove_by_index 0 (e_lin e) is_)
      (map (fun t => (relocal is_ (fst (fst t)), relocal is_ (snd (fst t)), snd t))
           (filter (fun t => negb (existsb (fun i => lmentions i t) is_)) (e_quad e)))
      (e_off e).

Definition lookup_all (vs : list nat) (e : mexpr) : list nat :=
  flat_map (fun v => match idx_find v (e_idx e) with Some i => [i] | None => [] end) vs.

Definition m_remove_variables_code (vs : list nat) (e : mexpr) : mexpr :=
  bulk_remove_local (AdjMore.sort_nat (lookup_all vs e)) e.

(* iterated single removal, highest local index first *)
Definition iter_remove (is_ : list nat) (e : mexpr) : mexpr :=
  fold_right (fun i acc => m_remove_variable (nth i (e_vars e) 0%nat) acc) e is_.
