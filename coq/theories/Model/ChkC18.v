(* C18 correspondence and oracle: what is_equal / is_almost_equal returned (or that it
   raised) for an ordered pair of observed objects, against the code-shaped model and
   against the specification evaluated on the observed coefficients. *)
From Coq Require Import List ZArith QArith Qcanon Bool Arith.
From Dimod Require Import Base.Util Model.Poly Model.Equal.
Import ListNotations.

Record case := mkCase {
  c_n : nat;                          (* variable labels are 0..n-1 *)
  c_k : nat;                          (* constraint labels are 0..k-1 *)
  c_a : obj;                          (* receiver *)
  c_b : obj;
  c_ab : option bool;                 (* a.is_equal(b); None = it raised *)
  c_ba : option (option bool);        (* b.is_equal(a) when b has that method *)
  c_almost : list (nat * option bool) (* (places, a.is_almost_equal(b, places)) *)
}.

Definition code_out (a b : obj) : option out :=
  match a with
  | OModel m => Some (is_equal_code m b)
  | OCqm c => Some (cqm_is_equal_code c b)
  | _ => None
  end.

Definition agrees (o : out) (r : option bool) : bool :=
  match o, r with
  | Val x, Some y => Bool.eqb x y
  | Raise _, None => true
  | _, _ => false
  end.

Definition model_spec (pl : option nat) (n : nat) (a b : emdl) : bool :=
  match pl with None => same_model_b n a b | Some p => almost_model_b p n a b end.

Definition num_spec (pl : option nat) (x y : Qc) : bool :=
  match pl with None => Qc_eqb x y | Some p => almost_eqb p x y end.

Definition constr_spec (pl : option nat) (n : nat) (x y : option constr) : bool :=
  match x, y with
  | None, None => true
  | Some c0, Some c1 => sense_eqb (k_sense c0) (k_sense c1) && model_spec pl n (k_lhs c0) (k_lhs c1)
                        && num_spec pl (k_rhs c0) (k_rhs c1)
  | _, _ => false
  end.

(* the documented meaning of equality for every kind of pair *)
Definition spec (pl : option nat) (n k : nat) (a b : obj) : bool :=
  match a, b with
  | OModel x, OModel y => model_spec pl n x y
  | OModel x, ONumber q => match e_vars x with [] => true | _ => false end && num_spec pl (e_off x) q
  | OCqm c, OCqm d =>
      model_spec pl n (q_obj c) (q_obj d)
      && forallb (fun l => constr_spec pl n (assoc (q_cons c) l) (assoc (q_cons d) l)) (seq 0 k)
  | _, _ => false
  end.

Definition is_some {A} (o : option A) : bool := match o with Some _ => true | None => false end.

(* totality: nothing raised *)
Definition check_total (c : case) : bool :=
  is_some (c_ab c) && match c_ba c with Some None => false | _ => true end
  && forallb (fun pr => is_some (snd pr)) (c_almost c).

(* the code-shaped model predicts the observation (including a raise) *)
Definition check_corr (c : case) : bool :=
  match code_out (c_a c) (c_b c) with Some o => agrees o (c_ab c) | None => true end
  && match c_ba c, code_out (c_b c) (c_a c) with
     | Some r, Some o => agrees o r
     | _, _ => true
     end.

(* the observation is what the specification says, in both directions *)
Definition check_spec (c : case) : bool :=
  match c_ab c with Some r => Bool.eqb r (spec None (c_n c) (c_k c) (c_a c) (c_b c)) | None => true end
  && match c_ba c with Some (Some r) => Bool.eqb r (spec None (c_n c) (c_k c) (c_b c) (c_a c)) | _ => true end
  && match c_ab c, c_ba c with Some r, Some (Some r') => Bool.eqb r r' | _, _ => true end.

(* the code-shaped model of is_almost_equal decides the observation as well *)
Definition code_almost (p : nat) (a b : obj) : option out :=
  match a with
  | OModel m => Some (is_almost_equal_code p m b)
  | OCqm c => Some (cqm_is_almost_equal_code p c b)
  | _ => None
  end.

Definition check_almost_code (c : case) : bool :=
  forallb (fun pr => match code_almost (fst pr) (c_a c) (c_b c) with
                     | Some o => agrees o (snd pr)
                     | None => true
                     end) (c_almost c).

(* observations of real models are well formed (distinct labels, one interaction per pair) *)
Definition obj_wf (o : obj) : bool :=
  match o with
  | OModel m => wf_b m
  | OCqm c => wf_b (q_obj c) && forallb (fun lc => wf_b (k_lhs (snd lc))) (q_cons c)
               && nodup_b Nat.eqb (map fst (q_cons c))
  | _ => true
  end.

Definition check_wf (c : case) : bool := obj_wf (c_a c) && obj_wf (c_b c).

Definition check_almost (c : case) : bool :=
  forallb (fun pr => match snd pr with
                     | Some r => Bool.eqb r (spec (Some (fst pr)) (c_n c) (c_k c) (c_a c) (c_b c))
                     | None => true
                     end) (c_almost c).

Definition check (c : case) : bool :=
  check_total c && check_corr c && check_spec c && check_almost c && check_almost_code c && check_wf c.
