(* C01, code-shaped models of two of the five evaluation loops.

   (1) dimod/cyqmbase/cyqmbase_template.pyx.pxi : cyQMBase._energies
         for si in range(self.num_variables()):
             qm_to_sample[si] = labels.index(self.variables.at(si))        -> index_all
         for si in range(num_samples):
             energies[si] = self.base.offset()
             for ui in range(self.num_variables()):
                 energies[si] += self.base.linear(ui) * samples[si, qm_to_sample[ui]]
                 it = cbegin_neighborhood(ui)
                 while it != end and deref(it).v <= ui:
                     energies[si] += deref(it).bias * samples[si, qm_to_sample[ui]] * samples[si, qm_to_sample[vi]]
       which is the same walk as dimod/include/dimod/abc.h : QuadraticModelBase::energy
             en = offset(); for u: u_val = sample[u]; en += u_val*linear(u);
                 for term in adj[u]: if (term.v > u) break; en += term.bias*u_val*sample[term.v]
       -> energy_loop (accumulator form, literally the loop).

   (2) dimod/constrained/cyexpression.pyx : _energies  and  dimod/include/dimod/expression.h : Expression::energy
         reindex[i] = labels.index(self.parent.variables.at(expression.variables()[i]))
         subsamples = samples[:, reindex]
         if subsamples.shape[1]:  energies[si] = expression.QuadraticModelBase::energy(subsamples[si])
         else:                    energies[si] = expression.offset()          (as repaired)
       and   Expression::energy(sample_start):  subsample.push_back(sample_start[v]) for v in variables_ ;
             return base_type::energy(subsample.begin())

   The model is over the detailed adjacency structure Adj.qm.  Executable; no proofs here. *)
From Coq Require Import List ZArith QArith Qcanon Bool Arith.
From Dimod Require Import Base.Util Model.Poly Model.Samples.
From Dimod Require Model.Adj Model.Expr.
Import ListNotations.
Open Scope Qc_scope.

(* cyVariables.index(v): position of a label; None = ValueError (unknown variable) *)
Fixpoint index_opt (v : label) (ls : list label) : option nat :=
  match ls with
  | [] => None
  | x :: r => if (x =? v)%nat then Some 0%nat else option_map S (index_opt v r)
  end.

(* the loop filling qm_to_sample / reindex: the first missing label raises *)
Fixpoint index_all (vs ls : list label) : option (list nat) :=
  match vs with
  | [] => Some []
  | v :: r =>
      match index_opt v ls with
      | None => None
      | Some i => match index_all r ls with Some is_ => Some (i :: is_) | None => None end
      end
  end.

(* while it != end and it->v <= ui : acc += bias * val ui * val vi   (abc.h: if (term.v > u) break) *)
Fixpoint walk_loop (val : nat -> Qc) (ui : nat) (n : Adj.nbh) (acc : Qc) : Qc :=
  match n with
  | [] => acc
  | (vi, b) :: r => if (vi <=? ui)%nat then walk_loop val ui r (acc + b * val ui * val vi) else acc
  end.

(* one row: en = offset; for ui: en += linear(ui)*val ui; walk *)
Definition energy_loop (m : Adj.qm) (val : nat -> Qc) : Qc :=
  fold_left (fun acc ui => walk_loop val ui (Adj.nb m ui) (acc + Adj.linear m ui * val ui))
            (seq 0 (Adj.nvars m)) (Adj.off m).

(* cyQMBase._energies: vars = self.variables (index -> label), ls = labels of the sample matrix *)
Definition energies_cy (m : Adj.qm) (vars ls : list label) (rows : list (list Qc)) : option (list Qc) :=
  match index_all vars ls with
  | None => None
  | Some q2s => Some (map (fun row => energy_loop m (fun ui => nth (nth ui q2s 0%nat) row 0)) rows)
  end.

(* ---------- expressions ---------- *)
(* variables_ (local index -> model index) and the base QuadraticModelBase over local indices *)
Record xexpr := mkX { x_vars : list nat; x_base : Adj.qm }.

(* expression.h Expression::energy: the sample is indexed by MODEL index *)
Definition xexpr_energy (e : xexpr) (s : nat -> Qc) : Qc :=
  let subsample := map s (x_vars e) in
  energy_loop (x_base e) (fun i => nth i subsample 0).

(* cyexpression.pyx _energies: pvars = parent.variables (model index -> label) *)
Definition xexpr_labels (e : xexpr) (pvars : list label) : list label :=
  map (fun v => nth v pvars 0%nat) (x_vars e).

Definition xexpr_energies_cy (e : xexpr) (pvars ls : list label) (rows : list (list Qc)) : option (list Qc) :=
  match index_all (xexpr_labels e pvars) ls with
  | None => None
  | Some reindex =>
      Some (map (fun row =>
                   let sub := map (fun j => nth j row 0) reindex in        (* samples[:, reindex] *)
                   if (length reindex =? 0)%nat then Adj.off (x_base e)    (* subsamples.shape[1] == 0 *)
                   else energy_loop (x_base e) (fun i => nth i sub 0)) rows)
  end.

(* the polynomial of an expression over model indices / over labels *)
Definition xexpr_poly (e : xexpr) : poly := relabel (fun i => nth i (x_vars e) 0%nat) (Adj.abs (x_base e)).
Definition xexpr_poly_labels (e : xexpr) (pvars : list label) : poly :=
  relabel (fun v => nth v pvars 0%nat) (xexpr_poly e).

(* the polynomial a cyQMBase object stands for, over labels *)
Definition qm_poly_labels (m : Adj.qm) (vars : list label) : poly :=
  relabel (fun i => nth i vars 0%nat) (Adj.abs m).

(* Expr.v keeps the base of an expression as a bag of local terms: its local polynomial *)
Definition local_poly (e : Expr.mexpr) : poly :=
  mkPoly (Expr.e_off e) (combine (seq 0 (length (Expr.e_lin e))) (Expr.e_lin e)) (Expr.e_quad e).

(* ---------- building the adjacency structure from reported raw data (for the check) ---------- *)
(* lin: linear biases by index; quad: lower-triangle interactions (u, v, bias), any order *)
Definition qm_of_raw (vts : list vartype) (lin : list Qc) (quad : list (nat * nat * Qc)) (off : Qc) : Adj.qm :=
  let m0 := fold_left (fun m t => Adj.add_variable t m) vts Adj.empty_qm in
  let m1 := fold_left (fun m ib => Adj.set_linear (fst ib) (snd ib) m) (combine (seq 0 (length lin)) lin) m0 in
  let m2 := fold_left (fun m t => match Adj.set_quadratic (fst (fst t)) (snd (fst t)) (snd t) m with
                                  | Some m' => m' | None => m end) quad m1 in
  Adj.set_offset off m2.
