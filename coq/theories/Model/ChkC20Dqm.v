(* C20 correspondence for the native state of cyDiscreteQuadraticModel: the worker runs a history of VALID calls on a
   real DiscreteQuadraticModel (through the Python wrapper or on the Cython object directly) and records after every
   call: adj (the raw adj_ vectors), the case starts, the case-level BQM as dumped by to_numpy_vectors (neighbourhoods
   rebuilt in emission order), num_case_interactions, num_variable_interactions, every degree, get_quadratic(u, v) for
   every ordered pair of variables (None = "no interaction" ValueError), energies of a few samples.  `dcheck` runs the
   same calls on Model/DqmNative.v and compares everything exactly, and evaluates the invariant on the model state
   and on the OBSERVED state. *)
From Coq Require Import List ZArith QArith Qcanon Bool Arith.
From Dimod Require Import Base.Util Model.Poly Model.Adj Model.AdjMore Model.DqmNative.
Import ListNotations.
Open Scope Qc_scope.

Record dobs := mkDO {
  do_st : list nat; do_adj : list (list nat); do_b : qm;
  do_ni : nat; do_nvi : nat; do_deg : list nat;
  do_gq : list (nat * nat * option (list (nat * nat * Qc)));
  do_en : list (list nat * Qc) }.

Definition dnbh_eqb : nbh -> nbh -> bool := list_eqb (pair_eqb Nat.eqb Qc_eqb).
Definition bqm_eqb (a b : qm) : bool :=
  list_eqb Qc_eqb (lin a) (lin b) && list_eqb dnbh_eqb (adj a) (adj b) && Qc_eqb (off a) (off b)
  && list_eqb vartype_eqb (vts a) (vts b).
Definition item_eqb : (nat * nat * Qc) -> (nat * nat * Qc) -> bool := pair_eqb (pair_eqb Nat.eqb Nat.eqb) Qc_eqb.

Definition dagrees (d : dqm) (o : dobs) : bool :=
  list_eqb Nat.eqb (d_st d) (do_st o)
  && list_eqb (list_eqb Nat.eqb) (d_adj d) (do_adj o)
  && bqm_eqb (d_b d) (do_b o)
  && Nat.eqb (num_interactions (d_b d)) (do_ni o)
  && Nat.eqb (num_variable_interactions d) (do_nvi o)
  && list_eqb Nat.eqb (map (@length nat) (d_adj d)) (do_deg o)
  && forallb (fun g => option_eqb (list_eqb item_eqb) (get_quadratic d (fst (fst g)) (snd (fst g))) (snd g)) (do_gq o)
  && forallb (fun se => Qc_eqb (d_energy d (fst se)) (snd se)) (do_en o)
  && dinv_b d
  (* oracle: the invariant on what the implementation showed *)
  && dinv_b (mkD (do_b o) (do_st o) (do_adj o)).

Definition dstep_obs := (dop * dobs)%type.
Definition dcase := list dstep_obs.

Fixpoint drun (d : dqm) (steps : dcase) : bool :=
  match steps with
  | [] => true
  | (o, seen) :: rest =>
      dop_ok d o && (let d' := dstep d o in dagrees d' seen && drun d' rest)
  end.

Definition dcheck (c : dcase) : bool := drun d_empty c.

(* diagnostics for harness/dbg.py *)
Fixpoint dfirst_bad (d : dqm) (steps : dcase) (i : nat) : option nat :=
  match steps with
  | [] => None
  | (o, seen) :: rest =>
      if dop_ok d o && dagrees (dstep d o) seen then dfirst_bad (dstep d o) rest (S i) else Some i
  end.
Definition dwhere_bad (c : dcase) : option nat := dfirst_bad d_empty c 0.
Definition dstate_after (c : dcase) (k : nat) : dqm := fold_left (fun d s => dstep d (fst s)) (firstn k c) d_empty.
