(* C02 correspondence: spin<->binary conversions and edits through live views. *)
From Coq Require Import List ZArith QArith Qcanon Bool Arith.
From Dimod Require Import Base.Util Model.Poly Model.HPoly Model.View Model.Penalty Model.ViewOps Model.HPolyPy.
From Dimod Require Model.Adj Model.AdjSubstAll Model.IsingQubo Model.SSet Model.SSetVartype Model.PyBqm Gen.Gen_PyBQM Model.Expr Model.VartypeOps Model.IsingQuboGen Model.FlipMarks Gen.Gen_VartypeLoops Model.VartypeLoopsGen.
Import ListNotations.
Open Scope Qc_scope.

Inductive dir := S2B | B2S.   (* the variables listed are re-expressed spin->binary / binary->spin *)

Definition inv_dir (d : dir) : dir := match d with S2B => B2S | B2S => S2B end.

Definition convert (d : dir) (vars : list label) (p : poly) : poly :=
  match d with
  | S2B => substitute_many vars two (- (1)) p
  | B2S => substitute_many vars half half p
  end.

(* value of the old variable given the value of the new one *)
Definition back_value (d : dir) (x : Qc) : Qc :=
  match d with S2B => two * x - 1 | B2S => (x + 1) * half end.

Inductive vop :=
| VAddLin (v : label) (b : Qc) | VSetLin (v : label) (b : Qc)
| VAddQuad (u v : label) (b : Qc) | VSetQuad (u v : label) (b : Qc)
| VSetOff (b : Qc) | VScale (k : Qc)
| VAddEq (terms : list lterm) (lam c : Qc)
| VRemove (v : label).                        (* remove_variable(v) / remove_variable() = pop of the last variable *)   (* add_linear_equality_constraint, distinct labels *)

(* vartype of the object the edit is issued on: the view shows the converted variables *)
Definition view_vt (d : dir) : vartype := match d with S2B => BINARY | B2S => SPIN end.

Definition apply_vop (d : dir) (o : vop) (p : poly) : poly :=
  match o with
  | VAddLin v b => add_linear v b p
  | VSetLin v b => set_linear v b p
  | VAddQuad u v b => mkPoly (p_off p) (p_lin p) ((u, v, b) :: p_quad p)
  | VSetQuad u v b => set_quadratic u v b p
  | VSetOff b => mkPoly b (p_lin p) (p_quad p)
  | VScale k => scale k p
  | VAddEq terms lam c => add_eq_cy (view_vt d) terms lam c p
  | VRemove v => remove_variable v p
  end.

Inductive case :=
| Conv (n : nat) (d : dir) (vars : list label) (before after : obs)
       (samples : list (list (label * Qc)))      (* assignments in the domain of `after` *)
| HConv (d : dir) (before after : hpoly)
| ViewRead (n : nat) (d : dir) (vars : list label) (base view : obs)
| ViewWrite (n : nat) (d : dir) (vars : list label) (base_before : obs) (o : vop) (base_after view_after : obs)
(* binary_quadratic_model.h change_vartype = abc.h substitute_variables on the RAW adjacency structure
   (_ilinear / _ineighborhood of the cyBQM before and after) *)
| AdjConv (target : vartype) (before after : Adj.qm)
(* utilities.py ising_to_qubo / qubo_to_ising run on the very dicts given (insertion order kept) and compared
   key by key, in order, with the dicts returned *)
| IQ (h : IsingQubo.hdict) (J : IsingQubo.qdict) (off : Qc) (Qobs : IsingQubo.qdict) (offobs : Qc)
| QI (Q : IsingQubo.qdict) (off : Qc) (hobs : IsingQubo.hdict) (Jobs : IsingQubo.qdict) (offobs : Qc)
(* SampleSet.change_vartype: rows, energies, occurrences, labels before and after *)
| SSConv (target : vartype) (off : Qc) (before after : SSet.sset)
(* SampleSet.change_vartype to a vartype it cannot convert to: the call raised ValueError; `after` is the state the
   receiver was left in.  The model (which mirrors the code: energies are shifted BEFORE the vartype test) says
   Fail; rows, labels, vartype, occurrences must be untouched; for the energies both the code's present behaviour
   (already shifted by the offset) and an atomic failure (unchanged) are accepted - the property text does not
   promise atomicity, the worker records which one was seen *)
| SSFail (target : vartype) (off : Qc) (before after : SSet.sset)
(* pybqm.py pyBQM.change_vartype (dict back-end, multipliers generated from the source) on the observed _adj dicts *)
| PyConv (t : Gen_PyBQM.pb_target) (before after : PyBqm.pybqm)
(* quadratic_model.h change_vartype(vartype, v) / quadratic_model.py spin_to_binary on the raw QM state
   (adjacency structure + varinfo); after = None when the call raised *)
| QmCv (target : vartype) (v : nat) (before : VartypeOps.qmi) (after : option VartypeOps.qmi)
| QmS2B (before after : VartypeOps.qmi)
(* constrained_quadratic_model.h change_vartype / constrained.py spin_to_binary on the raw CQM state *)
| CqmCv (target : vartype) (v : nat) (before : Expr.mcqm) (after : option Expr.mcqm)
| CqmS2B (before after : Expr.mcqm)
(* VartypeView.energies: rows in the VIEW's domain (given as labelled arrays of any integer / bool / unsigned dtype) with
   the energies the view returned; each must be the BASE model's energy at the converted row *)
| ViewEn (d : dir) (vars : list label) (base : obs) (samples : list (list (label * Qc))) (seen : list Qc)
(* quadratic_model.py / binary_quadratic_model.py flip_variable (the python loops over the neighbourhood) on the reported
   coefficients; vt = vartype of v *)
| Flip (n : nat) (vt : vartype) (v : label) (before after : obs)
(* constrained.py / cyconstrained.pyx flip_variable on the raw CQM state (markers as is_discrete); None = ValueError *)
| CqmFlip (v : nat) (before : Expr.mcqm) (after : option Expr.mcqm).

Definition raw_nbh_eqb : Adj.nbh -> Adj.nbh -> bool := list_eqb (pair_eqb Nat.eqb Qc_eqb).
Definition raw_qm_eqb (a b : Adj.qm) : bool :=
  list_eqb Qc_eqb (Adj.lin a) (Adj.lin b) && list_eqb raw_nbh_eqb (Adj.adj a) (Adj.adj b)
  && Qc_eqb (Adj.off a) (Adj.off b) && list_eqb vartype_eqb (Adj.vts a) (Adj.vts b).

Definition old_sample (d : dir) (vars : list label) (s : list (label * Qc)) : sample :=
  fun v => let x := sample_of_list s v in
           if existsb (Nat.eqb v) vars then back_value d x else x.

Definition vdir_of (d : dir) : vdir := match d with S2B => BinOverSpin | B2S => SpinOverBin end.

(* the formula-level model of vartypeview.py for the writes it translates itself *)
Definition formula_ok (n : nat) (d : dir) (vars : list label) (o : vop) (before after : obs) : bool :=
  match vars with
  | [] => true        (* view and base share the vartype: plain delegation *)
  | _ =>
      match o with
      | VAddLin v b => poly_coeff_eqb n (view_add_linear (vdir_of d) v b (obs_poly before)) (obs_poly after)
      | VAddQuad u v b => poly_coeff_eqb n (view_add_quadratic (vdir_of d) u v b (obs_poly before)) (obs_poly after)
      (* the delta-based writes, composed as vartypeview.py composes them (Model/ViewOps.v) *)
      | VSetLin v b => poly_coeff_eqb n (view_set_linear (vdir_of d) v b (obs_poly before)) (obs_poly after)
      | VSetQuad u v b =>
          (u =? v)%nat || poly_coeff_eqb n (view_set_quadratic (vdir_of d) u v b (obs_poly before)) (obs_poly after)
      | VSetOff b => poly_coeff_eqb n (view_set_offset (vdir_of d) b (obs_poly before)) (obs_poly after)
      | VRemove v => poly_coeff_eqb n (view_remove_variable (vdir_of d) v (obs_poly before)) (obs_poly after)
      | _ => true
      end
  end.

(* what the view reports (offset getter, get_linear, iter_quadratic over the generated read factors) *)
Definition reads_ok (n : nat) (d : dir) (vars : list label) (base view : obs) : bool :=
  match vars with
  | [] => true
  | _ => poly_coeff_eqb n (view_poly (vdir_of d) (obs_poly base)) (obs_poly view)
  end.

(* the raw marker marked_discrete_ is not observable; lhs.is_discrete() = marked_discrete() && is_onehot() is:
   the model's marks are put in that form before the comparison *)
Definition norm_marks (q : Expr.mcqm) : Expr.mcqm :=
  Expr.mkM (Expr.m_info q) (Expr.m_obj q)
    (map (fun k => Expr.mkMC (Expr.mc_e k) (Expr.mc_sense k) (Expr.mc_rhs k) (Expr.mc_weight k) (Expr.mc_pen k)
                    (Expr.mc_mark k && VartypeOps.vo_is_onehot (VartypeOps.cq_vartype q) k)) (Expr.m_cons q)).

Definition opt_eqb {A} (f : A -> A -> bool) (a b : option A) : bool :=
  match a, b with Some x, Some y => f x y | None, None => true | _, _ => false end.

Definition check (c : case) : bool :=
  match c with
  | Conv n d vars before after samples =>
      poly_coeff_eqb n (convert d vars (obs_poly before)) (obs_poly after)
      && forallb (fun s => Qc_eqb (energy (obs_poly after) (sample_of_list s))
                                  (energy (obs_poly before) (old_sample d vars s))) samples
  | HConv d before after =>
      hpoly_eqb (match d with S2B => h_spin_to_binary before | B2S => h_binary_to_spin before end) after
      (* the python loops of polynomial.py (powerset, accumulating dict), items in insertion order *)
      && hdict_items_ordered_eqb (match d with S2B => to_binary_py before | B2S => to_spin_py before end) after
  | ViewRead n d vars base view =>
      poly_coeff_eqb n (convert d vars (obs_poly base)) (obs_poly view)
      && reads_ok n d vars base view
  | ViewWrite n d vars base_before o base_after view_after =>
      poly_coeff_eqb n (convert (inv_dir d) vars (apply_vop d o (convert d vars (obs_poly base_before))))
                     (obs_poly base_after)
      && poly_coeff_eqb n (convert d vars (obs_poly base_after)) (obs_poly view_after)
      && formula_ok n d vars o base_before base_after
      && reads_ok n d vars base_after view_after
  | AdjConv target before after =>
      Adj.inv_b before && Adj.inv_b after
      && raw_qm_eqb (AdjSubstAll.bqm_change_vartype target before) after
  (* evaluated over the factors generated from utilities.py (IsingQuboGen; proved equal to IsingQubo) *)
  | IQ h J off Qobs offobs => IsingQuboGen.ising_to_qubo_g_matches h J off Qobs offobs
  | QI Q off hobs Jobs offobs => IsingQuboGen.qubo_to_ising_g_matches Q off hobs Jobs offobs
  | SSConv target off before after =>
      SSetVartype.ss_change_vartype_matches target off before (SSet.Ok after)
  | SSFail target off before after =>
      match SSetVartype.ss_change_vartype target off before with
      | SSet.Fail m => SSet.sset_eqb m after || SSet.sset_eqb before after
      | SSet.Ok _ => false
      end
  | PyConv t before after =>
      PyBqm.pb_wfb before && PyBqm.pb_obs_eqb (PyBqm.pb_change_vartype t before) after
  | QmCv target v before after =>
      Adj.inv_b (VartypeOps.q_m before)
      && opt_eqb VartypeOps.qmi_eqb (VartypeOps.qm_change_vartype target v before) after
  | QmS2B before after =>
      Adj.inv_b (VartypeOps.q_m before)
      && opt_eqb VartypeOps.qmi_eqb (VartypeOps.qm_spin_to_binary before) (Some after)
      (* the same loop over the domain / vartypes generated from quadratic_model.py *)
      && opt_eqb VartypeOps.qmi_eqb (VartypeLoopsGen.qm_stb_loop Gen_VartypeLoops.gen_qm_stb_loop before) (Some after)
  | CqmCv target v before after =>
      opt_eqb VartypeOps.vo_cqm_eqb (option_map norm_marks (VartypeOps.cqm_change_vartype target v before)) after
  | CqmS2B before after =>
      opt_eqb VartypeOps.vo_cqm_eqb (option_map norm_marks (VartypeOps.cqm_spin_to_binary before)) (Some after)
      (* the same loop over the domain / vartypes generated from constrained.py *)
      && opt_eqb VartypeOps.vo_cqm_eqb
           (option_map norm_marks (VartypeLoopsGen.cqm_stb_loop Gen_VartypeLoops.gen_cqm_stb_loop before)) (Some after)
  | ViewEn d vars base samples seen =>
      list_eqb Qc_eqb (map (fun s => energy (obs_poly base) (old_sample d vars s)) samples) seen
  | Flip n vt v before after =>
      match FlipMarks.py_flip_variable vt v (obs_poly before) with
      | Some p => poly_coeff_eqb n p (obs_poly after)
      | None => false
      end
  | CqmFlip v before after =>
      opt_eqb VartypeOps.vo_cqm_eqb (option_map norm_marks (VartypeOps.py_cqm_flip_variable v before)) after
  end.
