(* samples_like normalisation (sampleset.py:as_samples) at the level that matters
   for C01/C14: a row of values with a list of labels; re-ordering of later rows
   to the label order of the first.  Executable; no proofs here. *)
From Coq Require Import List ZArith QArith Qcanon Bool Arith.
From Dimod Require Import Base.Util Model.Poly.
Import ListNotations.
Open Scope Qc_scope.

Fixpoint idx_of (v : label) (ls : list label) : nat :=
  match ls with
  | [] => 0
  | x :: r => if (x =? v)%nat then 0 else S (idx_of v r)
  end.

(* the value a labelled row assigns to v *)
Definition row_value (ls : list label) (row : list Qc) (v : label) : Qc := nth (idx_of v ls) row 0.

Definition row_sample (ls : list label) (row : list Qc) : sample := row_value ls row.

(* _as_samples_iterator: samples[:, [labels.index(v) for v in first_labels]] *)
Definition reindex_row (first ls : list label) (row : list Qc) : list Qc :=
  map (fun v => nth (idx_of v ls) row 0) first.

Definition same_label_set (a b : list label) : bool :=
  forallb (fun v => existsb (Nat.eqb v) b) a && forallb (fun v => existsb (Nat.eqb v) a) b.

(* list of (labels, row) pairs -> (first labels, rows) ; None = ValueError *)
Fixpoint stack_rows (first : list label) (rest : list (list label * list Qc)) : option (list (list Qc)) :=
  match rest with
  | [] => Some []
  | (ls, row) :: r =>
      if same_label_set ls first then
        match stack_rows first r with
        | Some rows => Some (reindex_row first ls row :: rows)
        | None => None
        end
      else None
  end.

Definition as_samples_dicts (ds : list (list label * list Qc)) : option (list label * list (list Qc)) :=
  match ds with
  | [] => Some ([], [])
  | (first, row0) :: r =>
      match stack_rows first r with
      | Some rows => Some (first, row0 :: rows)
      | None => None
      end
  end.

(* energies of a model for labelled rows; None when a model variable is missing *)
Definition covers (ls : list label) (vars : list label) : bool :=
  forallb (fun v => existsb (Nat.eqb v) ls) vars.

Definition energies (p : poly) (vars ls : list label) (rows : list (list Qc)) : option (list Qc) :=
  if covers ls vars then Some (map (fun row => energy p (row_sample ls row)) rows) else None.

(* DQM: variable v has num_cases v cases; a sample gives a case per variable.
   The model is a polynomial over (variable, case) pairs, coded as label = v * stride + case *)
Definition dqm_case_ok (ncases : list (label * nat)) (row : list (label * Z)) : bool :=
  forallb (fun vn => match find (fun vc => (fst vc =? fst vn)%nat) row with
                     | Some vc => (0 <=? snd vc)%Z && (snd vc <? Z.of_nat (snd vn))%Z
                     | None => false
                     end) ncases.

Definition dqm_sample (stride : nat) (row : list (label * Z)) : sample :=
  fun l => if existsb (fun vc => (l =? fst vc * stride + Z.to_nat (snd vc))%nat && (0 <=? snd vc)%Z) row
           then 1 else 0.

Definition dqm_energy (p : poly) (stride : nat) (ncases : list (label * nat)) (row : list (label * Z)) : option Qc :=
  if dqm_case_ok ncases row then Some (energy p (dqm_sample stride row)) else None.
