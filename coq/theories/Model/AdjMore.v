(* Remaining pieces of the index level model of abc.h / binary_quadratic_model.h /
   quadratic_model.h / utils.h that Model/Adj.v does not have: bulk removal
   (utils.h remove_by_index + the reindex table of remove_variables), filtered
   removal, dense and COO construction, substitute_variables, change_vartype,
   clear.  Executable, no proofs here.  Faithful to the code as it is. *)
From Coq Require Import List ZArith QArith Qcanon Bool Arith.
From Dimod Require Import Base.Util Model.Poly Model.Adj.
Import ListNotations.
Open Scope Qc_scope.

(* ---------- utils.h remove_by_index ----------
   pred(value) = (it != ilast && *it == loc) ? (++loc, ++it, true) : (++loc, false)
   the index list is consumed strictly in order *)
Fixpoint remove_by_index {A} (loc : nat) (l : list A) (idx : list nat) : list A :=
  match l with
  | [] => []
  | x :: r =>
      match idx with
      | i :: idx' => if (i =? loc)%nat then remove_by_index (S loc) r idx'
                     else x :: remove_by_index (S loc) r idx
      | [] => x :: remove_by_index (S loc) r []
      end
  end.

(* std::sort on the index vector *)
Fixpoint insert_nat (x : nat) (l : list nat) : list nat :=
  match l with
  | [] => [x]
  | y :: r => if (x <=? y)%nat then x :: l else y :: insert_nat x r
  end.
Definition sort_nat (l : list nat) : list nat := fold_right insert_nat [] l.

Fixpoint sorted_natb (l : list nat) : bool :=
  match l with
  | [] => true
  | x :: r => match r with [] => true | y :: _ => (x <=? y)%nat && sorted_natb r end
  end.

(* the reindex table: reindex[v] = -1 for every v of the list, the others are
   numbered consecutively *)
Fixpoint reindex_tbl (loc label n : nat) (vars : list nat) : list (option nat) :=
  match n with
  | O => []
  | S n' => if existsb (Nat.eqb loc) vars then None :: reindex_tbl (S loc) label n' vars
            else Some label :: reindex_tbl (S loc) (S label) n' vars
  end.

(* n.erase(remove_if(pred)) with pred = drop when reindex[term.v] == -1, else relabel *)
Definition nb_reindex (tbl : list (option nat)) (n : nbh) : nbh :=
  flat_map (fun e => match nth (fst e) tbl None with None => [] | Some k => [(k, snd e)] end) n.

Definition remove_variables_sorted (vs : list nat) (m : qm) : qm :=
  match vs with
  | [] => m
  | _ =>
      let tbl := reindex_tbl 0 0 (length (adj m)) vs in
      mkQM (remove_by_index 0 (lin m) vs)
           (map (nb_reindex tbl) (remove_by_index 0 (adj m) vs))
           (off m)
           (remove_by_index 0 (vts m) vs)
  end.

(* remove_variables: an unsorted argument is copied and sorted first *)
Definition remove_variables (vars : list nat) (m : qm) : qm :=
  remove_variables_sorted (if sorted_natb vars then vars else sort_nat vars) m.

(* the same compaction on a parallel vector (QuadraticModel::varinfo_ bounds) *)
Definition remove_variables_vec {A} (vars : list nat) (l : list A) : list A :=
  match vars with
  | [] => l
  | _ => remove_by_index 0 l (if sorted_natb vars then vars else sort_nat vars)
  end.

(* ---------- remove_interactions(filter) ----------
   every erased entry counts 1, an erased self-loop (stored once) counts 2;
   the call returns half of the total = the number of interactions removed *)
Definition remove_interactions (f : nat -> nat -> Qc -> bool) (m : qm) : qm * nat :=
  let rows := combine (seq 0 (length (adj m))) (adj m) in
  let a' := map (fun r => filter (fun e => negb (f (fst r) (fst e) (snd e))) (snd r)) rows in
  let removed := fold_right Nat.add 0%nat
                   (map (fun r => fold_right Nat.add 0%nat
                                    (map (fun e => if (fst e =? fst r)%nat then 2%nat else 1%nat)
                                         (filter (fun e => f (fst r) (fst e) (snd e)) (snd r)))) rows) in
  (mkQM (lin m) a' (off m) (vts m), (removed / 2)%nat).

(* ---------- add_quadratic_from_dense ---------- *)
Definition dense_at (d : list Qc) (n i j : nat) : Qc := nth (i * n + j) d 0.

Definition dense_terms (n : nat) (d : list Qc) : list (nat * nat * Qc) :=
  flat_map (fun u =>
              (u, u, dense_at d n u u) ::
              flat_map (fun v => let q := dense_at d n u v + dense_at d n v u in
                                 if Qc_eqb q 0 then [] else [(u, v, q)])
                       (seq (S u) (n - S u)))
           (seq 0 n).

(* the ordering test is made once, before anything is added *)
Definition add_quadratic_from_dense (n : nat) (d : list Qc) (m : qm) : qm :=
  let f := if is_linear m then add_quadratic_back else add_quadratic in
  fold_left (fun acc t => f (fst (fst t)) (snd (fst t)) (snd t) acc) (dense_terms n d) m.

(* ---------- COO iterators ---------- *)
Definition add_quadratic_coo (l : list (nat * nat * Qc)) (m : qm) : qm :=
  fold_left (fun acc t => add_quadratic (fst (fst t)) (snd (fst t)) (snd t) acc) l m.

(* BinaryQuadraticModel::add_quadratic(row, col, bias, length) grows itself first *)
Definition coo_max (l : list (nat * nat * Qc)) : nat :=
  fold_right Nat.max 0%nat (map (fun t => Nat.max (fst (fst t)) (snd (fst t))) l).
Definition add_quadratic_coo_bqm (t : vartype) (l : list (nat * nat * Qc)) (m : qm) : qm :=
  match l with
  | [] => m
  | _ => let mx := coo_max l in
         add_quadratic_coo l (if (nvars m <=? mx)%nat then resize t (S mx) m else m)
  end.

(* ---------- substitute_variables(multiplier, offset) ----------
   every stored entry contributes offset^2/2 * bias to the offset and
   multiplier*offset*bias to its row's linear bias (a self-loop is stored once) *)
Definition substitute_variables (k c : Qc) (m : qm) : qm :=
  let quad_mp := k * k in
  let lin_quad_mp := k * c in
  let quad_offset_mp := c * c * half in
  let off1 := fold_left (fun o b => o + b * c) (lin m) (off m) in
  let off2 := fold_left (fun o n => fold_left (fun o' e => o' + quad_offset_mp * snd e) n o) (adj m) off1 in
  let lin2 := map (fun r => fold_left (fun b e => b + lin_quad_mp * snd e) (snd r) (fst r * k))
                  (combine (lin m) (adj m ++ repeat [] (length (lin m) - length (adj m)))) in
  mkQM lin2 (map (map (fun e => (fst e, snd e * quad_mp))) (adj m)) off2 (vts m).

(* BinaryQuadraticModel::change_vartype; Some false = std::logic_error *)
Definition bqm_change_vartype (cur target : vartype) (m : qm) : qm * vartype * bool :=
  if vartype_eqb cur target then (m, cur, true)
  else match target with
       | SPIN => let m' := substitute_variables half half m in
                 (mkQM (lin m') (adj m') (off m') (map (fun _ => SPIN) (vts m')), SPIN, true)
       | BINARY => let m' := substitute_variables two (- (1)) m in
                   (mkQM (lin m') (adj m') (off m') (map (fun _ => BINARY) (vts m')), BINARY, true)
       | _ => (m, cur, false)
       end.

Definition bounds := (Qc * Qc)%type.
Definition int_max : Qc := qc 9007199254740991 1.                    (* 2^53 - 1 *)
Definition real_max : Qc := qc 1000000000000000019884624838656 1.    (* (double) 1e30 *)
Definition default_bounds (t : vartype) : bounds :=
  match t with
  | BINARY => (0, 1)
  | SPIN => (- (1), 1)
  | INTEGER => (0, int_max)
  | REAL => (0, real_max)
  end.

Definition set_vt (v : nat) (t : vartype) (m : qm) : qm :=
  mkQM (lin m) (adj m) (off m) (upd_nth v (fun _ => t) (vts m)).

(* QuadraticModel::change_vartype(vartype, v) *)
Definition qm_change_vartype (t : vartype) (v : nat) (m : qm) (b : list bounds) : qm * list bounds * bool :=
  let src := vt_at m v in
  if vartype_eqb src t then (m, b, true)
  else match src, t with
       | SPIN, BINARY =>
           (set_vt v BINARY (substitute_variable v two (- (1)) m), upd_nth v (fun _ => (0, 1)) b, true)
       | BINARY, SPIN =>
           (set_vt v SPIN (substitute_variable v half half m), upd_nth v (fun _ => (- (1), 1)) b, true)
       | SPIN, INTEGER =>
           (set_vt v INTEGER (substitute_variable v two (- (1)) m), upd_nth v (fun _ => (0, 1)) b, true)
       | BINARY, INTEGER => (set_vt v INTEGER m, b, true)
       | _, _ => (m, b, false)
       end.

(* clear(): no variables, offset 0 *)
Definition clear_qm : qm := empty_qm.
