(* Code-shaped models of three pure-Python loops over higher-order polynomials.

   A BinaryPolynomial stores `_terms : dict frozenset -> bias`.  A frozenset key is modelled by the
   SORTED list of its variables (`HPoly.sort_nats`), a dict by an association list in insertion
   order (`hpoly`), key equality by `HPoly.nats_eqb`.  The input polynomial is the list of
   `self.items()` in iteration order; the variables of a term are listed in the iteration order
   of the frozenset (any order; a frozenset has no repeated variable - the models below keep a
   repeated variable as it is, see the remarks at each function).
   Coefficients are exact rationals (Qc).  Executable; no proofs here (Proofs/HPolyPyFacts.v). *)
From Coq Require Import List ZArith QArith Qcanon Bool Arith.
From Dimod Require Import Base.Util Model.Poly Model.HPoly.
Import ListNotations.
Open Scope Qc_scope.

(* ---------------------------------------------------------------------------------------------
   dimod/higherorder/polynomial.py

     def powerset(iterable):
         return itertools.chain.from_iterable(itertools.combinations(iterable, r)
                                              for r in range(len(iterable)+1))

   itertools.combinations(l, r): the r-length subsequences of l, in lexicographic order of the
   POSITIONS (so: all those starting with l[0] first).  powerset: by increasing size r = 0..len.
   The order only decides the insertion order of the accumulating dict. *)
Fixpoint combinations_py (l : list label) (r : nat) : list (list label) :=
  match l with
  | [] => match r with O => [[]] | S _ => [] end
  | x :: xs =>
      match r with
      | O => [[]]
      | S r' => map (cons x) (combinations_py xs r') ++ combinations_py xs r
      end
  end.

Definition powerset_py (l : list label) : list (list label) :=
  flat_map (combinations_py l) (seq 0 (S (length l))).

(*   if t in new:
         new[t] += newbias
     else:
         new[t] = newbias
   (an existing key keeps its position; a new key goes to the end).  `k` must already be the
   canonical (sorted) form of the key. *)
Fixpoint hdict_add (d : hpoly) (k : list label) (b : Qc) : hpoly :=
  match d with
  | [] => [(k, b)]
  | (k', v) :: r => if nats_eqb k' k then (k', v + b) :: r else (k', v) :: hdict_add r k b
  end.

(* dict lookup (None = absent) *)
Fixpoint hdict_get (d : hpoly) (k : list label) : option Qc :=
  match d with
  | [] => None
  | (k', v) :: r => if nats_eqb k' k then Some v else hdict_get r k
  end.

(* ---------------------------------------------------------------------------------------------
   BinaryPolynomial.to_binary (vartype SPIN)

     new = BinaryPolynomial({}, Vartype.BINARY)
     # s = 2x - 1
     for term, bias in self.items():
         for t in map(frozenset, powerset(term)):
             newbias = bias * 2**len(t) * (-1)**(len(term) - len(t))
             if t in new:
                 new[t] += newbias
             else:
                 new[t] = newbias
     return new

   `frozenset(t)` = sort_nats t (t is a subsequence of a duplicate-free term; were a variable
   repeated in `term` the real frozenset(t) would collapse it - not reachable, terms are
   frozensets).  len(term) - len(t) is a natural subtraction (never negative: t is a subset). *)
Definition to_binary_newbias (term : list label) (bias : Qc) (t : list label) : Qc :=
  bias * Qcpower two (length t) * Qcpower (- (1)) (length term - length t).

Definition to_binary_term (new : hpoly) (term : list label) (bias : Qc) : hpoly :=
  fold_left (fun new t => hdict_add new (sort_nats t) (to_binary_newbias term bias t))
            (powerset_py term) new.

Definition to_binary_py (p : hpoly) : hpoly :=
  fold_left (fun new tb => to_binary_term new (fst tb) (snd tb)) p [].

(* ---------------------------------------------------------------------------------------------
   BinaryPolynomial.to_spin (vartype BINARY)

     new = BinaryPolynomial({}, Vartype.SPIN)
     # x = (s + 1) / 2
     for term, bias in self.items():
         newbias = bias / (2**len(term))
         for t in map(frozenset, powerset(term)):
             if t in new:
                 new[t] += newbias
             else:
                 new[t] = newbias
     return new *)
Definition to_spin_newbias (term : list label) (bias : Qc) : Qc :=
  bias / Qcpower two (length term).

Definition to_spin_term (new : hpoly) (term : list label) (bias : Qc) : hpoly :=
  fold_left (fun new t => hdict_add new (sort_nats t) (to_spin_newbias term bias))
            (powerset_py term) new.

Definition to_spin_py (p : hpoly) : hpoly :=
  fold_left (fun new tb => to_spin_term new (fst tb) (snd tb)) p [].

(* ---------------------------------------------------------------------------------------------
   dimod/reference/composites/higherordercomposites.py (as repaired)

     def fix_variables(poly, fixed_variables):
         # the constant term, if any, is picked up by the loop below
         offset = 0.0
         poly_copy = defaultdict(float)
         for k, v in poly.items():
             k = set(k)
             for var, value in fixed_variables.items():
                 if var in k:
                     k -= {var}
                     v *= value
             k = frozenset(k)
             if len(k) > 0:
                 poly_copy[k] += v
             else:
                 offset += v
         poly_copy[()] = offset
         return BinaryPolynomial(poly_copy, poly.vartype)

   `fixed` = fixed_variables.items() in iteration order (a dict: unique keys; a repeated key in
   the list is harmless here, its later occurrences are no longer `in k`).  `k = set(k)`: k is
   a frozenset already, so the list is kept as it is (`k -= {var}` removes every occurrence).
   `poly_copy[k] += v` on a defaultdict(float): 0.0 + v when absent = hdict_add.
   `poly_copy[()] = offset`: the tuple () is not yet a key (only non-empty frozensets were
   stored, and () != frozenset() anyway), so it is appended - ALSO when offset is 0.
   The final BinaryPolynomial(...) re-aggregates by asfrozenset(key); all keys are distinct
   (() becomes frozenset(), which no other key is), so it is the identity on the items. *)
Fixpoint fix_term_py (fixed : list (label * Qc)) (k : list label) (v : Qc) : list label * Qc :=
  match fixed with
  | [] => (k, v)
  | (var, value) :: r =>
      if existsb (Nat.eqb var) k
      then fix_term_py r (filter (fun w => negb (w =? var)%nat) k) (v * value)
      else fix_term_py r k v
  end.

(* one iteration of the outer loop; state = (poly_copy, offset) *)
Definition fix_step_py (fixed : list (label * Qc)) (st : hpoly * Qc) (t : mono) : hpoly * Qc :=
  let '(k, v) := fix_term_py fixed (fst t) (snd t) in
  match k with
  | [] => (fst st, snd st + v)
  | _ :: _ => (hdict_add (fst st) (sort_nats k) v, snd st)
  end.

Definition fix_loop_py (fixed : list (label * Qc)) (p : hpoly) : hpoly * Qc :=
  fold_left (fix_step_py fixed) p ([], 0).

Definition fix_variables_py (fixed : list (label * Qc)) (p : hpoly) : hpoly :=
  let st := fix_loop_py fixed p in fst st ++ [([], snd st)].

(* ---------------------------------------------------------------------------------------------
   comparison hooks for a correspondence check.
   `hpoly_eqb model observed` (HPoly) compares coefficient-wise, zero entries ignored.
   `hdict_items_eqb model observed` compares the two dicts as sets of (key, value) items
   (same number of items, and every model item is an observed item); observed keys may be given
   in any variable order (they are sorted here).  It does see a `(): 0.0` item. *)
Definition hdict_items_eqb (a b : hpoly) : bool :=
  (length a =? length b)%nat &&
  forallb (fun kv => existsb (fun kv' => nats_eqb (fst kv) (sort_nats (fst kv')) &&
                                         Qc_eqb (snd kv) (snd kv')) b) a.

(* same, insertion order included *)
Definition hdict_items_ordered_eqb (a b : hpoly) : bool :=
  list_eqb (fun kv kv' => nats_eqb (fst kv) (sort_nats (fst kv')) && Qc_eqb (snd kv) (snd kv')) a b.

(* every term is duplicate-free (what a frozenset key guarantees) *)
Fixpoint nodupb (l : list label) : bool :=
  match l with [] => true | x :: xs => negb (existsb (Nat.eqb x) xs) && nodupb xs end.
Definition hterms_nodupb (p : hpoly) : bool := forallb (fun t => nodupb (fst t)) p.
