(* C17(b) - structure of the random generators, with every PRNG draw an ORACLE parameter.
   Sources: dimod/generators/fcl.py (frustrated_loop: accumulation over loops, the R cut-off),
            dimod/generators/random.py (doped, gnm_random_bqm, gnp_random_bqm),
            dimod/generators/chimera.py (chimera_anticluster).
   Executable definitions only; the theorems are in Proofs/RandStructFacts.v. *)
From Coq Require Import List ZArith Bool Arith.
From Dimod Require Import Model.FrustLoop.
Import ListNotations.
Open Scope Z_scope.

(* ------------------------------------------------------------------------------------------------ *)
(* unordered pairs of variables (bqm.adj[u][v] is symmetric): the key is the sorted pair             *)
Definition edge := (nat * nat)%type.
Definition enorm (u v : nat) : edge := if (u <=? v)%nat then (u, v) else (v, u).
Definition edge_eqb (e f : edge) : bool := Nat.eqb (fst e) (fst f) && Nat.eqb (snd e) (snd f).
Definition emem (e : edge) (l : list edge) : bool := existsb (edge_eqb e) l.
Fixpoint enodupb (l : list edge) : bool :=
  match l with [] => true | e :: t => negb (emem e t) && enodupb t end.

(* bqm.add_interactions_from(items) on the coupling table J: EVERY item adds to its edge *)
Definition coef (lp : list (edge * Z)) (e : edge) : Z :=
  fl_zsum (map snd (filter (fun p => edge_eqb e (fst p)) lp)).
Definition addJ (J : edge -> Z) (lp : list (edge * Z)) : edge -> Z := fun e => J e + coef lp e.
Definition zeroJ : edge -> Z := fun _ => 0.

(* ------------------------------------------------------------------------------------------------ *)
(* 1. frustrated_loop (fcl.py 124-151)                                                               *)

(* (cycle[i-1], cycle[i]) for i in range(len(cycle)) *)
Definition cyc_prev (c : list nat) : list nat :=
  match c with [] => [] | _ :: _ => last c 0%nat :: removelast c end.
Definition cycle_edges (c : list nat) : list edge :=
  map (fun p => enorm (fst p) (snd p)) (combine (cyc_prev c) c).

(* plant_solution=True (138-140): all -1, edge idx becomes +1 *)
Definition loop_plant (c : list nat) (idx : nat) : list (edge * Z) :=
  combine (cycle_edges c) (planted_J (length c) idx).

(* plant_solution=False (143-144), values in dict order: the L-1 edges (cycle[i], cycle[i+1]) get -1, then
   cycle_J[(cycle[-1], cycle[0])] = (1 - 2*(len(cycle_J) & 1)) * prod(cycle_J.values()) *)
Definition noplant_values (L : nat) : list Z :=
  let first := repeat (-1) (L - 1) in
  first ++ [(1 - 2 * (Z.of_nat (length first) mod 2)) * fl_zprod first].
(* the same values listed in the order of cycle_edges (closing edge first) *)
Definition noplant_J (L : nat) : list Z :=
  let v := noplant_values L in last v 0 :: removelast v.
Definition loop_noplant (c : list nat) : list (edge * Z) := combine (cycle_edges c) (noplant_J (length c)).

(* one pass of the while loop.  What the PRNG did is the candidate: _random_cycle returned None, or a cycle
   (with the later r.randint(len(cycle)) = idx and the verdict of the user predicates).
   _random_cycle walks only along adj, never steps straight back, and stops at the first revisited vertex, so
   the edges of a returned cycle are pairwise distinct edges still present in adj: `walkable`. *)
Inductive cand := CNone | CCycle (c : list nat) (idx : nat) (preds_ok : bool).

Record fl_st := { stJ : edge -> Z; stAlive : edge -> bool; stGood : nat; stFailed : nat;
                  stAcc : list (list (edge * Z)) }.

Definition walkable (alive : edge -> bool) (c : list nat) : bool :=
  (3 <=? length c)%nat && forallb alive (cycle_edges c) && enodupb (cycle_edges c).

(* R = Rn / Rd (Rd > 0); R is typed float in the signature.  abs(bqm.adj[u][v]) >= R (149) *)
Definition hot (Rn Rd : Z) (J : edge -> Z) (e : edge) : bool := Rn <=? Rd * Z.abs (J e).

Definition fl_body (Rn Rd : Z) (plant : bool) (st : fl_st) (cd : cand) : fl_st :=
  match cd with
  | CNone => {| stJ := stJ st; stAlive := stAlive st; stGood := stGood st; stFailed := S (stFailed st);
                stAcc := stAcc st |}
  | CCycle c idx ok =>
      if walkable (stAlive st) c && ok then
        let lp := if plant then loop_plant c idx else loop_noplant c in
        let J' := addJ (stJ st) lp in
        {| stJ := J';
           stAlive := fun e => stAlive st e && negb (emem e (map fst lp) && hot Rn Rd J' e);
           stGood := S (stGood st); stFailed := stFailed st; stAcc := stAcc st ++ [lp] |}
      else {| stJ := stJ st; stAlive := stAlive st; stGood := stGood st; stFailed := S (stFailed st);
              stAcc := stAcc st |}
  end.

(* while good_cycles < num_cycles and failed_cycles < max_failed_cycles (126) *)
Definition fl_step (Rn Rd : Z) (plant : bool) (num maxfail : nat) (st : fl_st) (cd : cand) : fl_st :=
  if (stGood st <? num)%nat && (stFailed st <? maxfail)%nat then fl_body Rn Rd plant st cd else st.

Definition fl_init (G : list edge) : fl_st :=
  {| stJ := zeroJ; stAlive := fun e => emem e G; stGood := 0; stFailed := 0; stAcc := [] |}.

Definition fl_run (Rn Rd : Z) (plant : bool) (num maxfail : nat) (G : list edge) (cds : list cand) : fl_st :=
  fold_left (fl_step Rn Rd plant num maxfail) cds (fl_init G).

(* ------------------------------------------------------------------------------------------------ *)
(* 2. doped (random.py 490-504): per edge  J = rnd.choice([1, -1], p=[p, 1-p]); bqm.add_interaction(u, v, J) *)
Definition doped_items (edges : list (nat * nat)) (draws : list Z) : list (edge * Z) :=
  combine (map (fun uv => enorm (fst uv) (snd uv)) edges) draws.
Definition doped_J (edges : list (nat * nat)) (draws : list Z) : edge -> Z := addJ zeroJ (doped_items edges draws).
(* set_linear(u, 0); set_linear(v, 0) per edge: the variables are the endpoints of edges, in order *)
Definition doped_vars (edges : list (nat * nat)) : list nat := flat_map (fun uv => [fst uv; snd uv]) edges.
Definition doped_linear (edges : list (nat * nat)) (v : nat) : Z := 0.
Definition doped_offset : Z := 0.
(* p as a class: 0, strictly inside, 1; `if not fm: p = 1 - p`; choice never returns a value of probability 0 *)
Inductive pclass := P0 | Pmid | P1.
Definition pflip (p : pclass) : pclass := match p with P0 => P1 | Pmid => Pmid | P1 => P0 end.
Definition doped_allowed (p : pclass) (fm : bool) (x : Z) : Prop :=
  match (if fm then p else pflip p) with P0 => x = -1 | Pmid => x = 1 \/ x = -1 | P1 => x = 1 end.

(* ------------------------------------------------------------------------------------------------ *)
(* 3a. gnm_random_bqm (random.py 116-131): the selection loop; draws[t] = random_state.randint(m - t) *)
Definition gnm_adv (n ui vi : nat) : nat * nat :=
  if Nat.eqb (S vi) n then (S ui, S (S ui)) else (ui, S vi).

(* returns the (ui, vi, k) of every set_quadratic(labels[ui], labels[vi], qbias[k]) *)
Fixpoint gnm_loop (n m : nat) (draws : list Z) (ui vi k : nat) : list (nat * nat * nat) :=
  match draws with
  | [] => []
  | d :: rest =>
      if d <? Z.of_nat m - Z.of_nat k then
        (ui, vi, k) ::
        (if Nat.eqb (S k) m then []
         else let '(ui', vi') := gnm_adv n ui vi in gnm_loop n m rest ui' vi' (S k))
      else let '(ui', vi') := gnm_adv n ui vi in gnm_loop n m rest ui' vi' k
  end.
Definition gnm_sets (n m : nat) (draws : list Z) : list (nat * nat * nat) :=
  match m with O => [] | _ => gnm_loop n m draws 0 1 0 end.

(* the first m pairs of the upper triangle in row-major order, numbered from k *)
Fixpoint gnm_prefix (n cnt ui vi k : nat) : list (nat * nat * nat) :=
  match cnt with
  | O => []
  | S c => (ui, vi, k) :: (let '(ui', vi') := gnm_adv n ui vi in gnm_prefix n c ui' vi' (S k))
  end.

(* draws[t] in range(m - t) for t = t0, t0+1, ... *)
Fixpoint gnm_draws_ok (m t : nat) (draws : list Z) : Prop :=
  match draws with
  | [] => True
  | d :: rest => 0 <= d < Z.of_nat m - Z.of_nat t /\ gnm_draws_ok m (S t) rest
  end.

(* 3b. gnp_random_bqm (random.py 200-217): exists v j = (uniform < p) for row v, column v+1+j *)
Definition gnp_row (n : nat) (ex : nat -> nat -> bool) (v : nat) : list (nat * nat) :=
  map (fun j => (v, (v + 1 + j)%nat)) (filter (ex v) (seq 0 (n - v - 1))).
Definition gnp_edges (n : nat) (ex : nat -> nat -> bool) : list (nat * nat) :=
  flat_map (gnp_row n ex) (seq 0 n).
Definition gnp_num_interactions (n : nat) (ex : nat -> nat -> bool) : nat :=
  fold_right Nat.add 0%nat (map (fun v => length (filter (ex v) (seq 0 (n - v - 1)))) (seq 0 n)).

(* ------------------------------------------------------------------------------------------------ *)
(* 4. chimera_anticluster (chimera.py): qdata = r.choice((-1., 1.), size=len(inrow)+len(outrow));
      qdata[len(inrow):] *= multiplier; ldata = zeros; offset 0.0 *)
Definition anti_qdata (n_in : nat) (mult : Z) (signs : list Z) : list Z :=
  firstn n_in signs ++ map (fun x => x * mult) (skipn n_in signs).
Definition anti_linear (v : nat) : Z := 0.
Definition anti_offset : Z := 0.

(* _iter_chimera_tile_edges *)
Definition srange (a b step : nat) : list nat :=   (* range(a, b, step), step > 0 *)
  map (fun q => (a + q * step)%nat) (seq 0 ((b - a + step - 1) / step)).
Definition tile_edges (m n t : nat) : list (nat * nat) :=
  let hoff := (2 * t)%nat in let voff := (n * hoff)%nat in let mi := (m * voff)%nat in let ni := (n * hoff)%nat in
  flat_map (fun i => flat_map (fun j => flat_map (fun k0 => map (fun k1 => (k0, k1)) (seq (j + t) t)) (seq j t))
                              (srange i mi voff)) (srange 0 ni hoff).

(* gnm: bqm.set_quadratic(labels[ui], labels[vi], qbias[k]) with qbias = bias_generator(num_interactions) *)
Definition gnm_quadratic (n m : nat) (draws qbias : list Z) : list ((nat * nat) * Z) :=
  map (fun x => (fst x, nth (snd x) qbias 0)) (gnm_sets n m draws).

(* _iter_chimera_intertile_edges: horizontal (k, k + hoff), then vertical (k, k + voff) *)
Definition intertile_edges (m n t : nat) : list (nat * nat) :=
  let hoff := (2 * t)%nat in let voff := (n * hoff)%nat in let mi := (m * voff)%nat in let ni := (n * hoff)%nat in
  flat_map (fun i => flat_map (fun j => map (fun k => (k, (k + hoff)%nat)) (srange j mi voff))
                              (srange i (ni - hoff) hoff)) (seq t t)
  ++
  flat_map (fun i => flat_map (fun j => map (fun k => (k, (k + voff)%nat)) (srange j (mi - voff) voff))
                              (srange i ni hoff)) (seq 0 t).
