(* C12 - the bundled reader's tokenizer AS CODE, on the characters of the whole file
   (extern/filereaderlp/reader.cpp):
     lex_raw     Reader::readnexttoken, repeated to the end of the file: the single-character switch,
                 blanks, line-discarding characters, strtod's span, identifiers up to a delimiter
     process     the keyword stage of Reader::processtokens: one/two/three-word section keywords,
                 `name:` constraint identifiers, free / infinity, signs folded into constants,
                 `+ [`, comparison operators made of one or two characters
     to_tokens   the processed tokens in the vocabulary of the reference parser (Model/LPTok.v), with
                 names looked up in the label tables of the model
   Tables (single-character tokens, delimiters, line-discarding characters, blanks, keywords) are the
   generated ones of Gen/Gen_LP.v.  Numerals: the characters strtod consumes are modelled for decimal
   floating literals (digits [. digits] [e [sign] digits]) and for the words inf / infinity / nan;
   hexadecimal literals (0x...) make the model refuse.  The VALUE of a numeral is its exact decimal
   value (dec_value); a numeral whose decimal value is not a double is looked up in a table supplied
   by the caller (the rounding of strtod is not modelled).  No proofs in this file. *)
From Coq Require Import List ZArith NArith QArith Qcanon Bool Arith.
From Dimod Require Import Base.Util Model.Poly Model.LP Model.LPTok Model.LPRead Gen.Gen_LP.
Import ListNotations.
Open Scope Qc_scope.

(* ------------------------------------------------------------------ *)
(* raw tokens: RawTokenType *)

Inductive rawtok :=
| RBrkOp | RBrkCl | RLess | RGreater | REqual | RColon | RPlus | RHat | RSlash | RAsterisk | RMinus
| RCons (w : text)          (* the characters strtod consumed *)
| RStr (w : text).

(* the switch of readnexttoken: which character gives which token is GENERATED from reader.cpp
   (Gen_LP.SINGLE_CHAR_KINDS); here only the names of the RawTokenType values *)
Definition kind_tok (k : rawkind) : rawtok :=
  match k with
  | RK_BRKOP => RBrkOp | RK_BRKCL => RBrkCl | RK_LESS => RLess | RK_GREATER => RGreater
  | RK_EQUAL => REqual | RK_COLON => RColon | RK_PLUS => RPlus | RK_HAT => RHat
  | RK_SLASH => RSlash | RK_ASTERISK => RAsterisk | RK_MINUS => RMinus
  end.

Definition single_table : list (N * rawtok) := map (fun p => (fst p, kind_tok (snd p))) SINGLE_CHAR_KINDS.

Definition single_tok (c : N) : option rawtok :=
  match find (fun p => N.eqb (fst p) c) single_table with
  | Some p => Some (snd p)
  | None => None
  end.

(* ---------- the span of strtod ---------- *)

Fixpoint span_digits (s : text) : nat :=
  match s with
  | c :: r => if is_digitN c then S (span_digits r) else O
  | [] => O
  end.

Definition is_e (c : N) : bool := N.eqb c 101 || N.eqb c 69.
Definition is_sign (c : N) : bool := N.eqb c 43 || N.eqb c 45.

(* e [sign] digits, consumed only when at least one digit follows *)
Definition span_exponent (s : text) : nat :=
  match s with
  | c :: r =>
      if is_e c then
        match r with
        | d :: r2 =>
            if is_sign d then (match span_digits r2 with O => O | k => S (S k) end)
            else (match span_digits r with O => O | k => S k end)
        | [] => O
        end
      else O
  | [] => O
  end.

Fixpoint after_digits (s : text) : text :=
  match s with
  | c :: r => if is_digitN c then after_digits r else s
  | [] => []
  end.

(* digits [. digits] with at least one digit, then the exponent *)
Definition span_decimal (s : text) : nat :=
  let i := span_digits s in
  let a := after_digits s in
  let '(m, a2) := match a with
                  | c :: r => if N.eqb c 46 then
                                match i, span_digits r with
                                | O, O => (O, a)
                                | _, j => ((i + 1 + j)%nat, after_digits r)
                                end
                              else (i, a)
                  | [] => (i, a)
                  end in
  match m with
  | O => O
  | _ => (m + span_exponent a2)%nat
  end.

Definition w_inf : text := [105; 110; 102]%N.
Definition w_infinity : text := [105; 110; 102; 105; 110; 105; 116; 121]%N.
Definition w_nan : text := [110; 97; 110]%N.

Definition is_hex_start (s : text) : bool :=
  match s with
  | a :: b :: _ => N.eqb a 48 && (N.eqb b 120 || N.eqb b 88)
  | _ => false
  end.

(* how many characters strtod takes at the start of s (no leading blank or sign can occur here:
   the switch has taken them) *)
Definition strtod_span (s : text) : nat :=
  let l := lower_text (firstn 8 s) in
  if prefixb w_infinity l then 8%nat
  else if prefixb w_inf l then 3%nat
  else if prefixb w_nan l then 3%nat
  else span_decimal s.

(* ---------- readnexttoken over the whole file ---------- *)

Fixpoint drop_line (s : text) : text :=
  match s with
  | [] => []
  | c :: r => if N.eqb c NL then r else drop_line r
  end.

(* where the reader is: k more characters of the token just emitted (0 = at a token start), or
   discarding the rest of the line *)
Inductive lmode := LTok (k : nat) | LDrop.

(* blanks for the reader: end of line, space, tab *)
Definition rblank (c : N) : bool := N.eqb c NL || memN c BLANK_CHARS.

(* None: a hexadecimal literal (not modelled) or the final lpassert(false).
   The result carries the mode at the end of the text. *)
Fixpoint lx (m : lmode) (s : text) {struct s} : option (list rawtok * lmode) :=
  match s with
  | [] => Some ([], m)
  | c :: r =>
      let emit (t : rawtok) (m' : lmode) :=
        match lx m' r with Some (x, e) => Some (t :: x, e) | None => None end in
      match m with
      | LDrop => lx (if N.eqb c NL then LTok 0 else LDrop) r
      | LTok (S k) => lx (LTok k) r
      | LTok O =>
          if N.eqb c NL then lx (LTok 0) r                       (* getline: next line *)
          else if memN c SKIP_LINE_CHARS then lx LDrop r
          else match single_tok c with
               | Some t => emit t (LTok 0)
               | None =>
                   if memN c BLANK_CHARS then lx (LTok 0) r
                   else if is_hex_start s then None
                   else
                     match strtod_span s with
                     | S k => emit (RCons (firstn (S k) s)) (LTok k)
                     | O =>
                         match fst (take_ident s) with
                         | [] => None
                         | (_ :: w') as w => emit (RStr w) (LTok (length w'))
                         end
                     end
               end
      end
  end.

Definition lex_text (s : text) : option (list rawtok) := option_map fst (lx (LTok 0) s).

(* ------------------------------------------------------------------ *)
(* the value of a numeral *)

Fixpoint digits_val (acc : Z) (s : text) : Z :=
  match s with
  | c :: r => if is_digitN c then digits_val (10 * acc + Z.of_N (c - 48)) r else acc
  | [] => acc
  end.

Definition pow10 (k : nat) : positive := Pos.pow 10 (Pos.of_nat k).

(* the exact value of `digits [. digits] [e [sign] digits]`, None when w is not wholly of that form *)
Definition dec_value (w : text) : option Qc :=
  let i := span_digits w in
  let ip := digits_val 0 (firstn i w) in
  let r1 := skipn i w in
  let '(mant, fdigits, r2) :=
    match r1 with
    | c :: r => if N.eqb c 46 then
                  let j := span_digits r in
                  (digits_val ip (firstn j r), j, skipn j r)
                else (ip, O, r1)
    | [] => (ip, O, r1)
    end in
  let ndig := (i + fdigits)%nat in
  let '(eneg, e, r3) :=
    match r2 with
    | c :: r =>
        if is_e c then
          match r with
          | d :: rr =>
              if is_sign d then (N.eqb d 45, Z.to_nat (digits_val 0 (firstn (span_digits rr) rr)),
                                 match span_digits rr with O => r2 | k => skipn k rr end)
              else (false, Z.to_nat (digits_val 0 (firstn (span_digits r) r)),
                    match span_digits r with O => r2 | k => skipn k r end)
          | [] => (false, O, r2)
          end
        else (false, O, r2)
    | [] => (false, O, r2)
    end in
  match ndig, r3 with
  | O, _ => None
  | _, [] =>
      let base := Q2Qc (mant # (match fdigits with O => 1 | _ => pow10 fdigits end)) in
      let scale := match e with
                   | O => Q2Qc 1
                   | _ => if eneg then Q2Qc (1 # pow10 e) else Q2Qc (Zpos (pow10 e) # 1)
                   end in
      Some (base * scale)
  | _, _ => None
  end.

(* q is a double: an odd (or zero) numerator of at most 53 bits over a power of two; range
   2^-1074 .. 2^1024 *)
Fixpoint pos_is_pow2 (p : positive) : bool :=
  match p with xH => true | xO q => pos_is_pow2 q | xI _ => false end.

Fixpoint strip_zeros (p : positive) : positive :=
  match p with xO q => strip_zeros q | _ => p end.

Definition is_double (q : Qc) : bool :=
  let n := Qnum (this q) in
  let d := Qden (this q) in
  match n with
  | Z0 => true
  | Zpos p | Zneg p =>
      pos_is_pow2 d
      && Nat.leb (Pos.size_nat (strip_zeros p)) 53
      && Nat.leb (Pos.size_nat d) 1075
      && Nat.leb (Pos.size_nat p) (1024 + (Pos.size_nat d - 1))
      (* subnormals: at most 1074 fractional bits in all *)
  end.

(* numerals whose decimal value is not a double: (word, the double strtod gave), by the caller *)
Definition numtable := list (text * Qc).

Definition num_value (tbl : numtable) (w : text) : option Qc :=
  match dec_value w with
  | Some q => if is_double q then Some q
              else match find (fun p => text_eqb (fst p) w) tbl with
                   | Some p => Some (snd p)
                   | None => None
                   end
  | None => None                 (* inf / nan: not a finite numeral *)
  end.

(* ------------------------------------------------------------------ *)
(* processtokens: the keyword stage *)

Inductive cmp := CLeq | CL | CGeq | CG | CEq.

Inductive ptok :=
| PSec (s : lpsection) | PConId (w : text) | PFree | PInf | PVarId (w : text) | PNum (q : Qc)
| PBrkOp | PBrkCl | PSlash | PAsterisk | PHat | PCmp (c : cmp).

Definition section_of (w : text) : option lpsection :=
  match find (fun p => text_eqb (fst p) w) SECTION_KEYWORDS with
  | Some p => Some (snd p)
  | None => None
  end.

Definition MINUSC : N := 45%N.

Definition is_signtok (t : rawtok) : option bool :=      (* Some neg *)
  match t with RPlus => Some false | RMinus => Some true | _ => None end.

(* what follows one or two signs; neg = the product of the signs.  The flag says whether the first
   of the remaining raw tokens is consumed (a constant, `[`) or left for the next round (a name) *)
Definition after_sign (tbl : numtable) (neg : bool) (ts : list rawtok) : option (list ptok * bool) :=
  match ts with
  | RCons w :: _ =>
      match num_value tbl w with
      | Some q => Some ([PNum (signed neg q)], true)
      | None => None
      end
  | RBrkOp :: _ => if neg then None else Some ([PBrkOp], true)
  | RStr _ :: _ => Some ([PNum (signed neg 1)], false)
  | _ => None
  end.

Definition three_word (la : text) (rest : list rawtok) : option lpsection :=
  match rest with
  | RMinus :: RStr b :: _ => section_of (la ++ [MINUSC] ++ lower_text b)
  | _ => None
  end.

Definition two_word (la : text) (rest : list rawtok) : option lpsection :=
  match rest with
  | RStr b :: _ => section_of (la ++ [SPACE] ++ lower_text b)
  | _ => None
  end.

Definition ident_tok (a : text) : ptok :=
  let la := lower_text a in
  if in_texts la KEYWORD_FREE then PFree else if in_texts la KEYWORD_INF then PInf else PVarId a.

Fixpoint process (tbl : numtable) (ts : list rawtok) {struct ts} : option (list ptok) :=
  match ts with
  | [] => Some []
  | RSlash :: RAsterisk :: _ => None                 (* block comments: not modelled *)
  | RStr a :: rest =>
      let la := lower_text a in
      match three_word la rest with
      | Some k => match rest with
                  | _ :: _ :: rest3 => option_map (cons (PSec k)) (process tbl rest3)
                  | _ => None
                  end
      | None =>
          match two_word la rest with
          | Some k => match rest with
                      | _ :: rest2 => option_map (cons (PSec k)) (process tbl rest2)
                      | _ => None
                      end
          | None =>
              match section_of la with
              | Some k => option_map (cons (PSec k)) (process tbl rest)
              | None =>
                  match rest with
                  | RColon :: RColon :: _ => None                  (* SOS: not modelled *)
                  | RColon :: rest2 => option_map (cons (PConId a)) (process tbl rest2)
                  | _ => option_map (cons (ident_tok a)) (process tbl rest)
                  end
              end
          end
      end
  | (RPlus | RMinus) as s1 :: rest =>
      let neg1 := match s1 with RMinus => true | _ => false end in
      match rest with
      | s2 :: rest2 =>
          match is_signtok s2 with
          | Some n2 =>
              match after_sign tbl (xorb neg1 n2) rest2 with
              | Some (out, true) => match rest2 with
                                    | _ :: r3 => option_map (app out) (process tbl r3)
                                    | [] => None
                                    end
              | Some (out, false) => option_map (app out) (process tbl rest2)
              | None => None
              end
          | None =>
              match after_sign tbl neg1 rest with
              | Some (out, true) => option_map (app out) (process tbl rest2)
              | Some (out, false) => option_map (app out) (process tbl rest)
              | None => None
              end
          end
      | [] => None
      end
  | RCons _ :: RBrkOp :: _ => None
  | RCons w :: rest =>
      match num_value tbl w with
      | Some q => option_map (cons (PNum q)) (process tbl rest)
      | None => None
      end
  | RBrkOp :: rest => option_map (cons PBrkOp) (process tbl rest)
  | RBrkCl :: rest => option_map (cons PBrkCl) (process tbl rest)
  | RSlash :: rest => option_map (cons PSlash) (process tbl rest)
  | RAsterisk :: rest => option_map (cons PAsterisk) (process tbl rest)
  | RHat :: rest => option_map (cons PHat) (process tbl rest)
  | RLess :: REqual :: rest => option_map (cons (PCmp CLeq)) (process tbl rest)
  | RLess :: rest => option_map (cons (PCmp CL)) (process tbl rest)
  | RGreater :: REqual :: rest => option_map (cons (PCmp CGeq)) (process tbl rest)
  | RGreater :: rest => option_map (cons (PCmp CG)) (process tbl rest)
  | REqual :: rest => option_map (cons (PCmp CEq)) (process tbl rest)
  | RColon :: _ => None
  end.

Definition process_all (tbl : numtable) (ts : list rawtok) : option (list ptok) := process tbl ts.

(* ------------------------------------------------------------------ *)
(* the processed tokens in the vocabulary of the reference parser *)

Fixpoint index_of (w : text) (l : list text) : option nat :=
  match l with
  | [] => None
  | x :: r => if text_eqb x w then Some O
              else match index_of w r with Some k => Some (S k) | None => None end
  end.

Definition sense_of (c : cmp) : option sense :=
  match c with CLeq => Some Le | CGeq => Some Ge | CEq => Some Eq | _ => None end.

Definition is_two (q : Qc) : bool := Qc_eqb q (Q2Qc 2).

(* sec: the section we are in; prev_cmp: the previous processed token was a comparison *)
Fixpoint to_tokens (names cons : list text) (sec : lpsection) (after_min prev_cmp : bool)
  (ps : list ptok) : option (list token) :=
  match ps with
  | [] => Some []
  | p :: rest =>
      let go sec' am pc out := option_map (app out) (to_tokens names cons sec' am pc rest) in
      match p with
      | PSec SEC_OBJMIN => go SEC_OBJMIN true false [TMinimize]
      | PSec SEC_CON => go SEC_CON false false [TSubjectTo]
      | PSec SEC_BOUNDS => go SEC_BOUNDS false false [TBounds]
      | PSec SEC_BIN => go SEC_BIN false false [TBinary]
      | PSec SEC_GEN => go SEC_GEN false false [TGeneral]
      | PSec SEC_END => go SEC_END false false [TEnd]
      | PSec _ => None
      | PConId w =>
          if after_min then go sec false false [TObj]
          else match index_of w cons with
               | Some k => go sec false false [TLabel k]
               | None => None
               end
      | PVarId w =>
          match index_of w names with
          | Some k => go sec false false [TName k]
          | None => None
          end
      | PNum q =>
          let next_is_cmp := match rest with PCmp _ :: _ => true | _ => false end in
          if prev_cmp || next_is_cmp then go sec false false [TNum q]
          else go sec false false [TSign (Qc_neg q); TNum (Qc_abs q)]
      | PBrkOp => go sec false false [TSign false; TLBr]
      | PBrkCl =>
          match rest with
          | PSlash :: PNum q :: rest2 =>
              if is_two q then option_map (app [TRBrHalf]) (to_tokens names cons sec false false rest2)
              else None
          | _ => go sec false false [TRBr]
          end
      | PAsterisk => go sec false false [TStar]
      | PCmp c =>
          match sec with
          | SEC_BOUNDS => match c with CLeq => go sec false true [TLe] | _ => None end
          | SEC_CON => match sense_of c with Some s => go sec false true [TSense s] | None => None end
          | _ => None
          end
      | PSlash | PHat | PFree | PInf => None
      end
  end.

(* the whole front end: characters -> tokens of the reference parser *)
Definition read_tokens (tbl : numtable) (names cons : list text) (s : text) : option (list token) :=
  match lex_text s with
  | Some raw =>
      match process_all tbl raw with
      | Some ps => to_tokens names cons SEC_NONE false false ps
      | None => None
      end
  | None => None
  end.

(* every entry of the caller's table is consistent with the decimal reader where that one is exact *)
Definition numtable_ok (tbl : numtable) : bool :=
  forallb (fun p => match dec_value (fst p) with
                    | Some q => if is_double q then Qc_eqb q (snd p) else is_double (snd p)
                    | None => false
                    end) tbl.
