(* The label layer over Model/ExprOps.v: dimod.variables.Variables as the list of labels
   (Model/Vars.v + Proofs/VarsFacts.v, property C13, prove that the two sparse dicts behave as
   this list).  cyConstrainedQuadraticModel resolves every label to its index
   (self.variables.index) before calling C++; an unknown label raises before anything changes.
   lstep: the labelled history on the index-level model; lsstep: the same history on a plain
   list of polynomials over LABELS.  Executable; no proofs in this file. *)
From Coq Require Import List ZArith QArith Qcanon Bool Arith.
From Dimod Require Import Base.Util Model.Poly Model.Expr Model.ExprOps Model.CQMSpec.
Import ListNotations.
Open Scope Qc_scope.

Inductive lop :=
| LAddVariable (l : nat) (i : minfo)
| LSetInfo (l : nat) (i : minfo)
| LRemoveVariable (l : nat)
| LFixVariable (l : nat) (a : Qc)
| LSubstitute (l : nat) (m c : Qc)
| LRelabel (mp : list (nat * nat))
| LEdit (t : etarget) (o : eop)                       (* the eop carries LABELS *)
| LAddConstraintMove (lin : list Qc) (quad : list lqterm) (off : Qc) (labs : list nat) (sense : nat) (rhs : Qc)
| LAddConstraintCopy (lin : list Qc) (quad : list lqterm) (off : Qc) (labs : list nat) (sense : nat) (rhs : Qc)
| LRemoveConstraint (c : nat)
| LSetAttrs (c : nat) (w : option Qc) (pen : nat) (mark : bool).

Record lcqm := mkL { l_labels : list nat; l_q : mcqm }.
Definition l_empty : lcqm := mkL [] m_empty.

Definition resolve (labels : list nat) (l : nat) : option nat := index_of l labels.

Definition resolve_eop (labels : list nat) (o : eop) : option eop :=
  match o with
  | EAddLinear l b => option_map (fun v => EAddLinear v b) (resolve labels l)
  | ESetLinear l b => option_map (fun v => ESetLinear v b) (resolve labels l)
  | ERemoveVariable l => option_map ERemoveVariable (resolve labels l)
  | EAddQuadratic l1 l2 b =>
      match resolve labels l1, resolve labels l2 with Some u, Some v => Some (EAddQuadratic u v b) | _, _ => None end
  | ERemoveInteraction l1 l2 =>
      match resolve labels l1, resolve labels l2 with Some u, Some v => Some (ERemoveInteraction u v) | _, _ => None end
  | EAddOffset b => Some (EAddOffset b)
  | ESetOffset b => Some (ESetOffset b)
  | EClear => Some EClear
  end.

Fixpoint resolve_all (labels : list nat) (ls : list nat) : option (list nat) :=
  match ls with
  | [] => Some []
  | l :: r => match resolve labels l, resolve_all labels r with
              | Some v, Some vs => Some (v :: vs)
              | _, _ => None
              end
  end.

Definition lstep (q : lcqm) (o : lop) : lcqm :=
  let labels := l_labels q in
  let m := l_q q in
  match o with
  | LAddVariable l i => if memb l labels then q else mkL (labels ++ [l]) (mstep m (MAddVariable i))
  | LSetInfo l i => match resolve labels l with Some v => mkL labels (mstep m (MSetInfo v i)) | None => q end
  | LRemoveVariable l =>
      match resolve labels l with Some v => mkL (remove_nth v labels) (mstep m (MRemoveVariable v)) | None => q end
  | LFixVariable l a =>
      match resolve labels l with Some v => mkL (remove_nth v labels) (mstep m (MFixVariable v a)) | None => q end
  | LSubstitute l x c => match resolve labels l with Some v => mkL labels (mstep m (MSubstitute v x c)) | None => q end
  (* the mapping is a Python dict (distinct keys); iter_safe_relabels rejects it before anything changes *)
  | LRelabel mp => if relabel_ok mp labels && nodupb (map fst mp) then mkL (map (relabel_fun mp) labels) m else q
  | LEdit t o => match resolve_eop labels o with Some o' => mkL labels (mstep m (MEdit t o')) | None => q end
  | LAddConstraintMove lin quad off labs sense rhs =>
      match resolve_all labels labs with
      | Some mapping => mkL labels (mstep m (MAddConstraintMove lin quad off mapping sense rhs))
      | None => q
      end
  | LAddConstraintCopy lin quad off labs sense rhs =>
      match resolve_all labels labs with
      | Some mapping => mkL labels (mstep m (MAddConstraintCopy lin quad off mapping sense rhs))
      | None => q
      end
  | LRemoveConstraint c => mkL labels (mstep m (MRemoveConstraint c))
  | LSetAttrs c w pen mark => mkL labels (mstep m (MSetAttrs c w pen mark))
  end.
Definition lrun (ops : list lop) (q : lcqm) : lcqm := fold_left lstep ops q.

(* ---------- the plain list of polynomials over labels ---------- *)
Record slab := mkSL { sl_vars : list (nat * minfo); sl_obj : poly; sl_cons : list poly }.
Definition sl_empty : slab := mkSL [] pzero [].
Definition sl_labels (q : slab) : list nat := map fst (sl_vars q).

Definition vt_lab (vs : list (nat * minfo)) (l : nat) : vartype :=
  match find (fun x => (fst x =? l)%nat) vs with Some x => i_vt (snd x) | None => INTEGER end.

Definition labs_ok (labels : list nat) (lin : list Qc) (quad : list lqterm) (labs : list nat) : bool :=
  forallb (fun l => memb l labels) labs && nodupb labs && (length lin =? length labs)%nat
  && forallb (fun t => ((fst (fst t) <? length labs) && (snd (fst t) <? length labs))%nat) quad.

Definition eop_labels_ok (labels : list nat) (o : eop) : bool :=
  match o with
  | EAddLinear l _ | ESetLinear l _ | ERemoveVariable l => memb l labels
  | EAddQuadratic a b _ | ERemoveInteraction a b => memb a labels && memb b labels
  | _ => true
  end.

Definition lsstep (q : slab) (o : lop) : slab :=
  let labels := sl_labels q in
  let vt := vt_lab (sl_vars q) in
  let all f := mkSL (sl_vars q) (f (sl_obj q)) (map f (sl_cons q)) in
  let del l := filter (fun x => negb (fst x =? l)%nat) (sl_vars q) in
  match o with
  | LAddVariable l i => if memb l labels then q else mkSL (sl_vars q ++ [(l, i)]) (sl_obj q) (sl_cons q)
  | LSetInfo l i =>
      if memb l labels
      then mkSL (map (fun x => if (fst x =? l)%nat then (l, i) else x) (sl_vars q)) (sl_obj q) (sl_cons q) else q
  | LRemoveVariable l =>
      if memb l labels then mkSL (del l) (remove_variable l (sl_obj q)) (map (remove_variable l) (sl_cons q)) else q
  | LFixVariable l a =>
      if memb l labels then mkSL (del l) (fix_variable l a (sl_obj q)) (map (fix_variable l a) (sl_cons q)) else q
  | LSubstitute l x c => if memb l labels then all (substitute l x c) else q
  | LRelabel mp =>
      if relabel_ok mp labels && nodupb (map fst mp)
      then mkSL (map (fun x => (relabel_fun mp (fst x), snd x)) (sl_vars q))
                (relabel (relabel_fun mp) (sl_obj q)) (map (relabel (relabel_fun mp)) (sl_cons q))
      else q
  | LEdit EObj o => if eop_labels_ok labels o then mkSL (sl_vars q) (spec_eop vt o (sl_obj q)) (sl_cons q) else q
  | LEdit (ECon c) o =>
      if eop_labels_ok labels o && (c <? length (sl_cons q))%nat
      then mkSL (sl_vars q) (sl_obj q) (upd_nth c (spec_eop vt o) (sl_cons q)) else q
  | LAddConstraintMove lin quad off labs _ _ =>
      if labs_ok labels lin quad labs then mkSL (sl_vars q) (sl_obj q) (sl_cons q ++ [spec_from_move lin quad off labs]) else q
  | LAddConstraintCopy lin quad off labs _ _ =>
      if labs_ok labels lin quad labs then mkSL (sl_vars q) (sl_obj q) (sl_cons q ++ [spec_from_copy vt lin quad off labs]) else q
  | LRemoveConstraint c => mkSL (sl_vars q) (sl_obj q) (remove_nth c (sl_cons q))
  | LSetAttrs _ _ _ _ => q
  end.
Definition lsrun (ops : list lop) (q : slab) : slab := fold_left lsstep ops q.
