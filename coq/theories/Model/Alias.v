(* Future-backed (deferred) sample sets on a HEAP with shared record cells
   (dimod/sampleset.py: from_future / resolve / done / relabel_variables / change_vartype / copy).
   Executable; no proofs here.

   What the code does, as it is:
   - SampleSet.resolve() runs the result hook and re-initialises the receiver with
     `samples.record, samples.variables, samples.info, samples.vartype`: the RECORD OBJECT of the
     sample set returned by the hook is shared, a new Variables is made, info is copied shallowly.
     With the default hook (`future.result()`) the resolved sample set therefore shares its record
     with the future's own result object and with every other sample set built from that future.
   - relabel_variables(inplace=True) on an unresolved receiver composes
     `old_hook; resolve; relabel_variables(mapping, inplace=False)` (a COPY: own record);
     relabel_variables(inplace=False) on an unresolved receiver returns a new unresolved sample set
     whose future is the receiver and whose hook resolves the receiver and returns a relabelled copy;
     change_vartype(inplace=True) on an unresolved receiver returns a new unresolved sample set whose
     hook resolves the receiver and converts the RECEIVER in place (and then shares its record);
     change_vartype(inplace=False) copies the receiver first (which resolves it).
   - change_vartype in place writes `record.energy` / `record.sample` into the existing record buffer,
     except when the field's dtype cannot hold the result (integer energies and a float offset; bool /
     unsigned samples converted to SPIN): then the receiver gets a NEW record (_astype_field).
   - a hook that raises leaves the sample set unresolved: the next read runs the hook again (with all
     its side effects on the objects it reaches, e.g. the energy offset is added again). *)
From Coq Require Import List ZArith QArith Qcanon Qround Bool Arith.
From Dimod Require Import Base.Util Model.Poly Model.Samples Model.SSet.
Import ListNotations.
Open Scope Qc_scope.

(* a numpy record array: rows, the names of the extra data vectors, and the two dtype facts that decide
   whether change_vartype can write in place *)
Record cell := mkCell { crows : list row; cfields : list nat; eint : bool; snarrow : bool }.

Definition rmap := list (label * label).

Inductive hook0 :=
| HResult (b : nat)                                   (* default hook: future.result() is the sample set object b *)
| HWrapRelabel (src : nat) (m : rmap)                 (* from_future(src, hook): resolve src, return src.relabel_variables(m, inplace=False) *)
| HWrapChangeVt (src : nat) (v : vartype) (off : Qc) (offf : bool).   (* resolve src, return src.change_vartype(v, off): IN PLACE on src *)

Inductive hstate :=
| AResolved (rec : nat) (ls : list label) (v : vartype) (inf : nat)
| APending (h0 : hook0) (post : list rmap).

Record aheap := mkAH { cells : list cell; objs : list hstate; futdone : bool }.

Definition aempty : aheap := mkAH [] [] false.

Fixpoint lset {A} (l : list A) (i : nat) (x : A) : list A :=
  match l, i with
  | [], _ => []
  | _ :: r, O => x :: r
  | y :: r, S j => y :: lset r j x
  end.

Definition set_obj (h : aheap) (i : nat) (o : hstate) : aheap := mkAH (cells h) (lset (objs h) i o) (futdone h).
Definition set_cell (h : aheap) (r : nat) (c : cell) : aheap := mkAH (lset (cells h) r c) (objs h) (futdone h).
Definition alloc_cell (h : aheap) (c : cell) : aheap * nat := (mkAH (cells h ++ [c]) (objs h) (futdone h), length (cells h)).
Definition alloc_obj (h : aheap) (o : hstate) : aheap * nat := (mkAH (cells h) (objs h ++ [o]) (futdone h), length (objs h)).
Definition cellz : cell := mkCell [] [] false false.
Definition get_cell (h : aheap) (r : nat) : cell := nth r (cells h) cellz.

(* what reading a resolved sample set shows *)
Definition view (h : aheap) (i : nat) : option sset :=
  match nth_error (objs h) i with
  | Some (AResolved r ls v inf) => let c := get_cell h r in Some (mkSS ls v (crows c) inf (cfields c))
  | _ => None
  end.

(* SampleSet.copy(): record.copy(), a new Variables, info.copy() *)
Definition copy_cell (h : aheap) (r : nat) : aheap * nat := alloc_cell h (get_cell h r).

Definition relabel_labels (m : rmap) (ls : list label) : option (list label) :=
  if relabel_valid m ls then Some (map (subst_label m) ls) else None.

(* SPIN -> BINARY as the code computes it: (sample + 1) // 2, a FLOOR division.  A sample set can carry the SPIN tag
   over a record that another handle has already converted (shared record), so the values need not be +-1. *)
Definition floor_half_code (x : Qc) : Qc := Q2Qc (inject_Z (Qfloor (this ((x + 1) * half)))).

(* change_vartype(v, off) IN PLACE on the resolved object i; returns the heap and whether it raised *)
Definition chvt_inplace (h : aheap) (i : nat) (v : vartype) (off : Qc) (offf : bool) : aheap * bool :=
  match nth_error (objs h) i with
  | Some (AResolved r ls cur inf) =>
      (* 1. energy offset (if energy_offset:) *)
      let '(h1, r1) :=
        if Qc_eqb off 0 then (h, r)
        else let c := get_cell h r in
             let rows' := map (fun x => set_en x (en x + off)) (crows c) in
             if eint c && offf
             then let '(h', r') := alloc_cell h (mkCell rows' (cfields c) false (snarrow c)) in
                  (set_obj h' i (AResolved r' ls cur inf), r')
             else (set_cell h r (mkCell rows' (cfields c) (eint c) (snarrow c)), r) in
      (* 2. values *)
      if vartype_eqb v cur then (h1, false)
      else
        let c := get_cell h1 r1 in
        let conv (f : Qc -> Qc) := map (fun x => set_vals x (map f (vals x))) (crows c) in
        match v, cur with
        | SPIN, BINARY =>
            let rows' := conv (fun x => two * x - 1) in
            if snarrow c
            then let '(h', r') := alloc_cell h1 (mkCell rows' (cfields c) (eint c) false) in
                 (set_obj h' i (AResolved r' ls SPIN inf), false)
            else (set_obj (set_cell h1 r1 (mkCell rows' (cfields c) (eint c) (snarrow c))) i (AResolved r1 ls SPIN inf), false)
        | BINARY, SPIN =>
            let rows' := conv floor_half_code in
            (set_obj (set_cell h1 r1 (mkCell rows' (cfields c) (eint c) (snarrow c))) i (AResolved r1 ls BINARY inf), false)
        | _, _ => (h1, true)
        end
  | _ => (h, true)
  end.

(* the relabelled copies composed by relabel_variables(inplace=True) on an unresolved sample set *)
Fixpoint run_post (h : aheap) (r : nat) (ls : list label) (post : list rmap) : aheap * option (nat * list label) :=
  match post with
  | [] => (h, Some (r, ls))
  | m :: rest =>
      let '(h1, r1) := copy_cell h r in
      match relabel_labels m ls with
      | Some ls' => run_post h1 r1 ls' rest
      | None => (h1, None)
      end
  end.

(* SampleSet.resolve() of object i; bool: completed without raising.  Wrappers refer to objects created
   earlier, so `fuel` = number of objects suffices. *)
Fixpoint aresolve (fuel : nat) (h : aheap) (i : nat) : aheap * bool :=
  match nth_error (objs h) i with
  | Some (AResolved _ _ _ _) => (h, true)
  | Some (APending h0 post) =>
      match fuel with
      | O => (h, false)
      | S f =>
          let '(h1, src) :=
            match h0 with
            | HResult b =>
                if futdone h then
                  match nth_error (objs h) b with
                  | Some (AResolved r ls v inf) => (h, Some (r, ls, v, inf))
                  | _ => (h, None)
                  end
                else (h, None)
            | HWrapRelabel s m =>
                let '(h1, ok) := aresolve f h s in
                if ok then
                  match nth_error (objs h1) s with
                  | Some (AResolved r ls v inf) =>
                      let '(h2, r2) := copy_cell h1 r in
                      match relabel_labels m ls with
                      | Some ls' => (h2, Some (r2, ls', v, inf))
                      | None => (h2, None)
                      end
                  | _ => (h1, None)
                  end
                else (h1, None)
            | HWrapChangeVt s v off offf =>
                let '(h1, ok) := aresolve f h s in
                if ok then
                  let '(h2, raised) := chvt_inplace h1 s v off offf in
                  if raised then (h2, None)
                  else match nth_error (objs h2) s with
                       | Some (AResolved r ls v' inf) => (h2, Some (r, ls, v', inf))
                       | _ => (h2, None)
                       end
                else (h1, None)
            end in
          match src with
          | None => (h1, false)
          | Some (r, ls, v, inf) =>
              match run_post h1 r ls post with
              | (h2, Some (r2, ls2)) => (set_obj h2 i (AResolved r2 ls2 v inf), true)
              | (h2, None) => (h2, false)
              end
          end
      end
  | None => (h, false)
  end.

(* SampleSet.done() *)
Fixpoint adone (fuel : nat) (h : aheap) (i : nat) : bool :=
  match nth_error (objs h) i with
  | Some (AResolved _ _ _ _) => true
  | Some (APending h0 _) =>
      match fuel with
      | O => false
      | S f => match h0 with
               | HResult _ => futdone h
               | HWrapRelabel s _ => adone f h s
               | HWrapChangeVt s _ _ _ => adone f h s
               end
      end
  | None => false
  end.

(* one public call on object i: new heap and the object returned (None = raised) *)
Definition acall (h : aheap) (i : nat) (c : dcall) (offf : bool) : aheap * option nat :=
  let fuel := S (length (objs h)) in
  if adone fuel h i then
    let '(h1, ok) := aresolve fuel h i in            (* the first attribute read resolves *)
    if negb ok then (h1, None) else
    match nth_error (objs h1) i with
    | Some (AResolved r ls v inf) =>
        match c with
        | DRelabel m true =>
            match relabel_labels m ls with
            | Some ls' => (set_obj h1 i (AResolved r ls' v inf), Some i)
            | None => (h1, None)
            end
        | DRelabel m false =>
            match relabel_labels m ls with
            | Some ls' => let '(h2, r2) := copy_cell h1 r in
                          let '(h3, j) := alloc_obj h2 (AResolved r2 ls' v inf) in (h3, Some j)
            | None => (h1, None)
            end
        | DChangeVt v' off true =>
            let '(h2, raised) := chvt_inplace h1 i v' off offf in
            (h2, if raised then None else Some i)
        | DChangeVt v' off false =>
            let '(h2, r2) := copy_cell h1 r in
            let '(h3, j) := alloc_obj h2 (AResolved r2 ls v inf) in
            let '(h4, raised) := chvt_inplace h3 j v' off offf in
            if raised then (h1, None) else (h4, Some j)          (* the discarded copy was reachable from nowhere *)
        end
    | _ => (h1, None)
    end
  else
    match nth_error (objs h) i with
    | Some (APending h0 post) =>
        match c with
        | DRelabel m true => (set_obj h i (APending h0 (post ++ [m])), Some i)
        | DRelabel m false => let '(h1, j) := alloc_obj h (APending (HWrapRelabel i m) []) in (h1, Some j)
        | DChangeVt v off true => let '(h1, j) := alloc_obj h (APending (HWrapChangeVt i v off offf) []) in (h1, Some j)
        | DChangeVt _ _ false => (h, None)            (* self.copy() would block on the future: never issued *)
        end
    | _ => (h, None)
    end.

(* the variant of each hook that `aresolve` / `acall` above implement (compared with the constants the translator
   translators/sampleset_hooks.py finds in the source: Proofs/AliasGenFacts.v):
   - the hook composed by relabel_variables(inplace=True) on an unresolved receiver relabels a COPY (run_post: copy_cell)
   - the wrapper returned by relabel_variables(inplace=False) relabels a COPY of its source (HWrapRelabel: copy_cell)
   - the wrapper returned by change_vartype on an unresolved receiver converts its source IN PLACE (HWrapChangeVt: chvt_inplace on src)
   - resolve() keeps the record of the hook's result (AResolved r ...: the same cell index); copy() allocates a cell *)
Definition model_relabel_composed_hook_inplace : bool := false.
Definition model_relabel_wrapper_hook_inplace : bool := false.
Definition model_change_vartype_wrapper_hook_inplace : bool := true.
Definition model_resolve_shares_record : bool := true.
Definition model_copy_copies_record : bool := true.
(* a pending relabel stores the mapping VALUE of the call (`post ++ [m]`, `HWrapRelabel i m`): later changes of the
   caller's dict cannot reach it - the code copies the dict in both not-done branches *)
Definition model_relabel_pending_copies_mapping : bool := true.

(* ---------- histories ---------- *)
Inductive aev :=
| ENewObj (s : sset) (e_int s_narrow : bool)      (* a sample set built by from_samples (what the future will return) *)
| EFromFuture (b : nat)                            (* SampleSet.from_future(fut), fut's result is / will be object b *)
| ESetResult                                       (* fut.set_result(b) *)
| ECall (i : nat) (c : dcall) (offf : bool) (ret : option nat)   (* the object returned, as observed (None = ValueError) *)
| ERead (i : nat) (ok : bool).                     (* a public read (resolves); ok = did not raise *)

Definition astep (h : aheap) (e : aev) : aheap * bool :=
  match e with
  | ENewObj s ei sn =>
      let '(h1, r) := alloc_cell h (mkCell (rws s) (fields s) ei sn) in
      (fst (alloc_obj h1 (AResolved r (labels s) (vt s) (info s))), true)
  | EFromFuture b => (fst (alloc_obj h (APending (HResult b) [])), true)
  | ESetResult => (mkAH (cells h) (objs h) true, true)
  | ECall i c offf ret => let '(h1, r) := acall h i c offf in (h1, option_eqb Nat.eqb r ret)
  | ERead i ok => let '(h1, b) := aresolve (S (length (objs h))) h i in (h1, Bool.eqb b ok)
  end.

(* a dump: every RESOLVED object (read through private attributes: no side effect) with its content and
   the lowest-numbered resolved object whose record shares memory with its own *)
Definition dump := list (nat * (sset * nat)).

Definition rec_of (h : aheap) (i : nat) : option nat :=
  match nth_error (objs h) i with Some (AResolved r _ _ _) => Some r | _ => None end.
Fixpoint first_sharing (h : aheap) (r : nat) (is_ : list nat) : nat :=
  match is_ with
  | [] => 0%nat
  | j :: rest => match rec_of h j with
                 | Some r' => if (r' =? r)%nat then j else first_sharing h r rest
                 | None => first_sharing h r rest
                 end
  end.
Definition adump (h : aheap) : dump :=
  let ids := seq 0 (length (objs h)) in
  flat_map (fun i => match view h i, rec_of h i with
                     | Some s, Some r => [(i, (s, first_sharing h r ids))]
                     | _, _ => []
                     end) ids.

Definition dump_eqb (a b : dump) : bool :=
  list_eqb (fun x y => (fst x =? fst y)%nat && sset_eqb (fst (snd x)) (fst (snd y)) && (snd (snd x) =? snd (snd y))%nat) a b.

Fixpoint areplay (h : aheap) (l : list (aev * dump)) : bool :=
  match l with
  | [] => true
  | (e, d) :: r => let '(h1, ok) := astep h e in ok && dump_eqb (adump h1) d && areplay h1 r
  end.

Definition is_relabel_ev (e : aev) : bool :=
  match e with ECall _ (DChangeVt _ _ _) _ _ => false | _ => true end.

(* oracle on the OBSERVATIONS alone (no heap model): in a history whose calls are all relabel_variables,
   an object, once resolved, never shows other rows / vartype / info / data vectors than when it was
   first seen, only the receiver of an in-place call may show other labels, and only the record of the
   future's result may be shared *)
Definition same_data (a b : sset) : bool :=
  vartype_eqb (vt a) (vt b) && list_eqb row_eqb (rws a) (rws b) && (info a =? info b)%nat
  && list_eqb Nat.eqb (fields a) (fields b).
Definition dump_find (d : dump) (i : nat) : option (sset * nat) :=
  option_map snd (find (fun x => (fst x =? i)%nat) d).
Definition frame_ok (receiver : option nat) (before after : dump) : bool :=
  forallb (fun x => match dump_find after (fst x) with
                    | Some (s, _) => same_data (fst (snd x)) s
                                     && (list_eqb Nat.eqb (labels (fst (snd x))) (labels s)
                                         || option_eqb Nat.eqb receiver (Some (fst x)))
                    | None => false
                    end) before.
Definition ev_receiver (e : aev) : option nat :=
  match e with ECall i (DRelabel _ true) _ _ => Some i | _ => None end.
Fixpoint relabel_frame (prev : dump) (l : list (aev * dump)) : bool :=
  match l with
  | [] => true
  | (e, d) :: r => frame_ok (ev_receiver e) prev d && relabel_frame d r
  end.

(* second oracle on the observations alone (C19): a call with inplace=False on an already RESOLVED receiver
   returns a new object whose record is shared with no other object, and leaves every object seen before -
   the receiver included - exactly as it was (content and sharing) *)
Definition entry_eqb (x y : sset * nat) : bool := sset_eqb (fst x) (fst y) && (snd x =? snd y)%nat.
Definition copy_call_ok (e : aev) (before after : dump) : bool :=
  match e with
  | ECall i c _ ret =>
      if negb (dcall_inplace c) then
        match dump_find before i with
        | Some _ =>
            forallb (fun x => option_eqb entry_eqb (dump_find after (fst x)) (Some (snd x))) before
            && match ret with
               | Some j => negb (existsb (fun x => (fst x =? j)%nat) before)
                           && match dump_find after j with Some (_, cls) => (cls =? j)%nat | None => false end
               | None => (length after =? length before)%nat
               end
        | None => true
        end
      else true
  | _ => true
  end.
Fixpoint copies_indep (prev : dump) (l : list (aev * dump)) : bool :=
  match l with
  | [] => true
  | (e, d) :: r => copy_call_ok e prev d && copies_indep d r
  end.

Definition alias_check (l : list (aev * dump)) : bool :=
  areplay aempty l
  && (if forallb (fun x => is_relabel_ev (fst x)) l then relabel_frame [] l else true)
  && copies_indep [] l.
