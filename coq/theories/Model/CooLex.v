(* C11 - the COO reader at character level: the line regex of serialization/coo.py
       ^\s*(\d+)\s+(\d+)\s+([+-]?\d*(?:\.\d+)?)\s*$
   as a recogniser over characters, and the line dump prints: '%d %d %f' % (u, v, bias).
   The character classes that follow each other in the regex are disjoint (digits, blanks, sign,
   '.'), so the regex has a single way to match and the recogniser is deterministic.  `int_limit`
   bounds the number of integer digits of the bias: None is `\d*`; Some 1 is the `\d?` of a wrong
   regex.  Blanks are ' ' only (the dump writes no other).  No proofs in this file. *)
From Coq Require Import ZArith String Ascii List Bool Arith DecimalString DecimalN NArith.
From Dimod Require Import Model.CooNum.
Import ListNotations.
Local Open Scope string_scope.

Definition is_digit (c : ascii) : bool :=
  let n := nat_of_ascii c in Nat.leb 48 n && Nat.leb n 57.

Fixpoint span_digits (s : string) : string * string :=
  match s with
  | String c r => if is_digit c then let (d, t) := span_digits r in (String c d, t) else ("", s)
  | EmptyString => ("", "")
  end.

Fixpoint skip_spaces (s : string) : string :=
  match s with
  | String " " r => skip_spaces r
  | _ => s
  end.

(* \s+ *)
Definition spaces1 (s : string) : option string :=
  match s with
  | String " " r => Some (skip_spaces r)
  | _ => None
  end.

Definition take_sign (s : string) : bool * string :=
  match s with
  | String "-" r => (true, r)
  | String "+" r => (false, r)
  | _ => (false, s)
  end.

(* (?:\.\d+)? *)
Definition take_fraction (s : string) : option (string * string) :=
  match s with
  | String "." r => let (f, t) := span_digits r in
                    match f with EmptyString => None | _ => Some (f, t) end
  | _ => Some ("", s)
  end.

Record coo_match := mkMatch { g_u : string; g_v : string; g_neg : bool; g_int : string; g_frac : string }.

Definition within (lim : option nat) (s : string) : bool :=
  match lim with None => true | Some k => Nat.leb (String.length s) k end.

Definition recognise (int_limit : option nat) (line : string) : option coo_match :=
  let (u, r1) := span_digits (skip_spaces line) in
  match u, spaces1 r1 with
  | String _ _, Some r2 =>
      let (v, r3) := span_digits r2 in
      match v, spaces1 r3 with
      | String _ _, Some r4 =>
          let (neg, r5) := take_sign r4 in
          let (ip, r6) := span_digits r5 in
          if within int_limit ip then
            match take_fraction r6 with
            | Some (fd, r7) =>
                match skip_spaces r7 with
                | EmptyString => Some (mkMatch u v neg ip fd)
                | _ => None
                end
            | None => None
            end
          else None
      | _, _ => None
      end
  | _, _ => None
  end.

(* numerals *)
Definition dec (n : N) : string := NilEmpty.string_of_uint (N.to_uint n).
Definition undec (s : string) : option N :=
  match NilEmpty.uint_of_string s with Some d => Some (N.of_uint d) | None => None end.

Definition digit_char (d : Z) : ascii := ascii_of_nat (48 + Z.to_nat d).
Definition char_digit (c : ascii) : Z := Z.of_nat (nat_of_ascii c - 48).

Fixpoint string_of_chars (l : list ascii) : string :=
  match l with [] => "" | c :: r => String c (string_of_chars r) end.
Fixpoint chars_of_string (s : string) : list ascii :=
  match s with EmptyString => [] | String c r => c :: chars_of_string r end.

(* '%d %d %f' % (u, v, m / 10^6) *)
Definition print_line (u v : N) (m : Z) : string :=
  let a := Z.abs m in
  dec u ++ " " ++ dec v ++ " " ++ (if (m <? 0)%Z then "-" else "")
  ++ dec (Z.to_N (a / MICRO)) ++ "." ++ string_of_chars (map digit_char (frac_digits (a mod MICRO))).

(* int(u), int(v), float(bias) in millionths (for the six-digit fractions dump prints; an empty
   integer part reads as 0) *)
Definition read_line (int_limit : option nat) (line : string) : option (N * N * Z) :=
  match recognise int_limit line with
  | Some g =>
      match undec (g_u g), undec (g_v g), (match g_int g with EmptyString => Some 0%N | s => undec s end) with
      | Some u, Some v, Some ip =>
          if Nat.eqb (String.length (g_frac g)) 6 then
            let a := (Z.of_N ip * MICRO + frac_value (map char_digit (chars_of_string (g_frac g))))%Z in
            Some (u, v, if g_neg g then (- a)%Z else a)
          else None
      | _, _, _ => None
      end
  | None => None
  end.
