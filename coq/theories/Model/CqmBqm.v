(* C16 - the assembly of dimod.cqm_to_bqm as one function from the CQM (objective, constraints,
   encoding of every variable, multiplier, slack labels of every constraint) to a polynomial
   over the BQM variables.  Executable; no proofs here. *)
From Coq Require Import List ZArith QArith Qcanon Bool Arith.
From Dimod Require Import Base.Util Model.Poly Model.Comb Model.Penalty.
Import ListNotations.
Open Scope Qc_scope.

Definition zq (z : Z) : Qc := qc z 1.
Definition Qc_leb (a b : Qc) : bool := Qle_bool a b.
Definition is_int (q : Qc) : bool := Pos.eqb (Qden (this q)) 1.
Definition qz (q : Qc) : Z := Qnum (this q).

Definition int64_max : Z := 9223372036854775807%Z.
Definition int64_min : Z := (- 9223372036854775808)%Z.

Inductive sense := SLe | SGe | SEq.

Record ccon := mkCcon {
  cc_lhs : poly;                (* over CQM labels *)
  cc_sense : sense;
  cc_rhs : Qc;
  cc_slack : list label }.      (* BQM labels of the slack bits this constraint receives (ignored if none needed) *)

(* lhs = _qm_to_bqm(constraint.lhs, integers); terms = one (v, lhs.get_linear(v)) per variable *)
Definition con_encoded (E : encoding) (k : ccon) : poly := encode_poly E (cc_lhs k).
Definition con_terms (E : encoding) (k : ccon) : list lterm := merge_terms (p_lin (con_encoded E k)).
Definition con_const (E : encoding) (k : ccon) : Qc := p_off (con_encoded E k).
Definition con_coeffs (E : encoding) (k : ccon) : list Z := map (fun t => qz (snd t)) (con_terms E k).

(* Sense.Ge: lb = rhs, ub = int64 max ; Sense.Le: lb = int64 min, ub = rhs *)
Definition con_zcon (E : encoding) (k : ccon) : zcon :=
  match cc_sense k with
  | SEq => ZEq (con_coeffs E k) (qz (con_const E k) - qz (cc_rhs k))
  | SGe => ZIneq (con_coeffs E k) (qz (con_const E k)) (qz (cc_rhs k)) int64_max
  | SLe => ZIneq (con_coeffs E k) (qz (con_const E k)) int64_min (qz (cc_rhs k))
  end.

Definition con_plan (E : encoding) (k : ccon) : ineq_plan :=
  match con_zcon E k with
  | ZEq _ _ => Skip            (* not used *)
  | ZIneq a const lb ub => plan_inequality a const lb ub
  end.

Definition con_slack_terms (E : encoding) (k : ccon) : list lterm :=
  match cc_sense k, con_plan E k with
  | SEq, _ => []
  | _, Slack _ cs => combine (cc_slack k) (map zq cs)
  | _, _ => []
  end.

(* one iteration of `for constraint in cqm.constraints.values()` *)
Definition con_step (E : encoding) (lam : Qc) (p : poly) (k : ccon) : poly :=
  match cc_sense k with
  | SEq => add_eq_cy BINARY (con_terms E k) lam (con_const E k - cc_rhs k) p
  | _ =>
      match con_plan E k with
      | Skip => p
      | Infeasible => p                    (* ValueError, see cqm_raises *)
      | Equality ubc => add_eq_cy BINARY (con_terms E k) lam (zq (- ubc)) p
      | Slack ubc cs => add_eq_cy BINARY (con_terms E k ++ con_slack_terms E k) lam (zq (- ubc)) p
      end
  end.

Definition cqm_bqm (E : encoding) (lam : Qc) (obj : poly) (cons : list ccon) : poly :=
  fold_left (con_step E lam) cons (encode_poly E obj).

Definition con_raises (E : encoding) (k : ccon) : bool :=
  match cc_sense k, con_plan E k with
  | SEq, _ => false
  | _, Infeasible => true
  | _, _ => false
  end.

Definition cqm_raises (E : encoding) (cons : list ccon) : bool := existsb (con_raises E) cons.

(* the squared quantity each constraint contributes (without the multiplier) *)
Definition con_penalty_q (E : encoding) (k : ccon) (s : sample) : Qc :=
  match cc_sense k with
  | SEq => let d := lin_sum (con_terms E k) s + (con_const E k - cc_rhs k) in d * d
  | _ =>
      match con_plan E k with
      | Skip => 0
      | Infeasible => 0
      | Equality ubc => let d := lin_sum (con_terms E k) s + zq (- ubc) in d * d
      | Slack ubc cs => let d := lin_sum (con_terms E k ++ con_slack_terms E k) s + zq (- ubc) in d * d
      end
  end.

(* the CQM constraint itself *)
Definition con_satisfied_at (k : ccon) (x : sample) : Prop :=
  match cc_sense k with
  | SLe => energy (cc_lhs k) x <= cc_rhs k
  | SGe => cc_rhs k <= energy (cc_lhs k) x
  | SEq => energy (cc_lhs k) x = cc_rhs k
  end.

(* integer data, linear after substitution, the right number of slack labels, int64 bounds not reached *)
Definition con_wf (E : encoding) (k : ccon) : bool :=
  forallb (fun t => is_int (snd t)) (con_terms E k)
  && is_int (con_const E k) && is_int (cc_rhs k)
  && forallb (fun t => Qc_eqb (snd t) 0) (p_quad (con_encoded E k))
  && (length (cc_slack k) =? length (zcon_slack (con_zcon E k)))%nat
  && (int64_min <=? sum_neg (con_coeffs E k) + qz (con_const E k))%Z
  && (sum_pos (con_coeffs E k) + qz (con_const E k) <=? int64_max)%Z.

(* overriding the slack bits of a sample *)
Fixpoint set_bits (ls : list label) (bits : list bool) (s : sample) : sample :=
  match ls, bits with
  | v :: lr, b :: br => upd (set_bits lr br s) v (if b then 1 else 0)
  | _, _ => s
  end.

Definition bits_of (s : sample) (ls : list label) : list bool := map (fun v => Qc_eqb (s v) 1) ls.

Definition slack_labels (cons : list ccon) : list label := flat_map cc_slack cons.

(* ------------------------------------------------------------------ *)
(* code-shaped _qm_to_bqm(qm, integers) and CQMToBQMInverter.__call__ (one label space, as in dimod:
   a binary / spin CQM variable keeps its label in the BQM; an integer variable v owns the bit labels of
   binary_encoding(v, ub)) *)

Definition int_table := list (label * list lterm).        (* integers: v -> [(bit label, coefficient u[1])] *)

Definition find_int (ints : int_table) (v : label) : option (list lterm) :=
  match find (fun e => (fst e =? v)%nat) ints with Some e => Some (snd e) | None => None end.

Definition int_bqm (bits : list lterm) : poly := mkPoly 0 bits [].        (* integers[v] *)

(* for v in qm.variables: bqm += qm.get_linear(v) * integers[v]   |   bqm.add_linear(v, qm.get_linear(v)) *)
Definition qm_lin_step (ints : int_table) (acc : poly) (t : lterm) : poly :=
  match find_int ints (fst t) with
  | Some bits => padd acc (scale (snd t) (int_bqm bits))
  | None => add_linear (fst t) (snd t) acc
  end.

(* for u, v, bias in qm.iter_quadratic(): the four cases *)
Definition qm_quad_step (ints : int_table) (acc : poly) (t : qterm) : poly :=
  let u := fst (fst t) in let v := snd (fst t) in let b := snd t in
  match find_int ints u, find_int ints v with
  | Some bu, Some bv => padd acc (scale b (pmul_linear (cvt BINARY) (int_bqm bu) (int_bqm bv)))
  | Some bu, None => padd acc (scale b (pmul_linear (cvt BINARY) (enc_binary v) (int_bqm bu)))
  | None, Some bv => padd acc (scale b (pmul_linear (cvt BINARY) (enc_binary u) (int_bqm bv)))
  | None, None => add_quadratic (cvt BINARY) u v b acc
  end.

(* qm.spin_to_binary(inplace=False) first, then the two loops, then bqm.offset += qm.offset *)
Definition qm_to_bqm_code (spins : list label) (ints : int_table) (p : poly) : poly :=
  let q := substitute_many spins two (- (1)) p in
  add_offset (p_off q) (fold_left (qm_quad_step ints) (p_quad q) (fold_left (qm_lin_step ints) (p_lin q) pzero)).

(* what a BQM sample means for the CQM *)
Definition dec_int (ints : int_table) (s : sample) (v : label) : Qc :=
  match find_int ints v with Some bits => lin_energy bits s | None => s v end.

Definition decode (spins : list label) (ints : int_table) (s : sample) : sample :=
  fun v => if existsb (Nat.eqb v) spins then two * dec_int ints s v + - (1) else dec_int ints s v.

(* CQMToBQMInverter.__call__: new = {}; for v, vartype in binary: sample[v] | 2*sample[v]-1;
   for v, bqm in integers: new[v] = 0; for u in bqm.variables: new[v] += sample[u] * u[1] *)
Definition inverter_call (binary : list (label * vartype)) (ints : int_table) (s : sample) : list (label * Qc) :=
  map (fun vk => (fst vk, match snd vk with SPIN => two * s (fst vk) - 1 | _ => s (fst vk) end)) binary
  ++ map (fun e => (fst e, fold_left (fun acc t => acc + s (fst t) * snd t) (snd e) 0)) ints.

(* the encoding table of the functional model, built from the same data *)
Definition enc_table (spins : list label) (ints : int_table) : encoding :=
  fun v => match find_int ints v with
           | Some bits => enc_integer bits
           | None => if existsb (Nat.eqb v) spins then enc_spin v else enc_binary v
           end.
