(* C03, the COPYING path: ConstrainedQuadraticModel::fix_variables(first,last,assignment)
   and fix_variables_expr of dimod/include/dimod/constrained_quadratic_model.h, on the
   index-level representation of Model/Expr.v (mexpr / mcqm).
   Executable definitions only; the proofs are in Proofs/FixCopyFacts.v. *)
From Coq Require Import List ZArith QArith Qcanon Bool Arith.
From Dimod Require Import Base.Util Model.Poly Model.Expr.
Import ListNotations.
Open Scope Qc_scope.

(* ---------- the two data vectors of fix_variables ----------
     std::vector<index_type> old_to_new(this->num_variables());
     std::vector<bias_type> assignments(this->num_variables());
     for (auto it = first; it != last; ++it, ++assignment) {
         old_to_new[*it] = -1;
         assignments[*it] = *assignment;                 // a repeated variable: the LAST assignment wins
     }
     for (size_type i = 0; i < old_to_new.size(); ++i) {
         if (old_to_new[i] < 0) continue;  // fixed
         old_to_new[i] = cqm.add_variable(this->vartype(i), this->lower_bound(i), this->upper_bound(i));
     }
   add_variable returns the index of the variable it appends, i.e. the number of variables
   the new model had before: the counter `next` below.  None stands for -1. *)
Definition mark_fixed (n : nat) (fixed : list nat) : list bool :=
  fold_left (fun m v => upd_nth v (fun _ => true) m) fixed (repeat false n).

Fixpoint number_from (next : nat) (marks : list bool) : list (option nat) :=
  match marks with
  | [] => []
  | true :: r => None :: number_from next r
  | false :: r => Some next :: number_from (S next) r
  end.

Definition old_to_new_of (n : nat) (fixed : list nat) : list (option nat) :=
  number_from 0 (mark_fixed n fixed).

Definition assignments_of (n : nat) (fixed : list (nat * Qc)) : list Qc :=
  fold_left (fun a f => upd_nth (fst f) (fun _ => snd f) a) fixed (repeat 0 n).

(* the variables the new model gets: the surviving ones, in order *)
Definition surviving {A} (o2n : list (option nat)) (l : list A) : list A :=
  map snd (filter (fun p => match fst p with Some _ => true | None => false end) (combine o2n l)).

Definition o2n_get (o2n : list (option nat)) (v : nat) : option nat := nth v o2n None.
Definition asg_get (asg : list Qc) (v : nat) : Qc := nth v asg 0.

(* ---------- fix_variables_expr(src, dst, old_to_new, assignments) ---------- *)

(*  for (size_type i = 0; i < src.num_variables(); ++i) {
        auto v = src.variables()[i];
        if (old_to_new[v] < 0) dst.add_offset(isrc.linear(i) * assignments[v]);   // fixed
        else                   dst.add_linear(old_to_new[v], isrc.linear(i));     // not fixed
    }
    one step, for the pair (variables()[i], linear(i)) *)
Definition fve_lin_step (o2n : list (option nat)) (asg : list Qc) (dst : mexpr) (vb : nat * Qc) : mexpr :=
  let '(v, b) := vb in
  match o2n_get o2n v with
  | None => m_add_offset (b * asg_get asg v) dst
  | Some k => m_add_linear k b dst
  end.

(*  for (auto it = isrc.cbegin_quadratic(), end = isrc.cend_quadratic(); it != end; ++it) {
        const index_type u = src.variables()[it->u];
        const index_type v = src.variables()[it->v];
        const bias_type bias = it->bias;
        const index_type new_u = old_to_new[u];
        const index_type new_v = old_to_new[v];
        if (new_u < 0 && new_v < 0)  dst.add_offset(assignments[u] * assignments[v] * bias);
        else if (new_u < 0)          dst.add_linear(new_v, assignments[u] * bias);
        else if (new_v < 0)          dst.add_linear(new_u, assignments[v] * bias);
        else                         dst.add_quadratic_back(new_u, new_v, bias);
    }
   Expression::add_quadratic_back(u, v, bias) is
        base_type::add_quadratic_back(enforce_variable(u), enforce_variable(v), bias);
   the two enforce_variable calls are evaluated in the same (unspecified, GCC: right to left)
   order as in Expression::add_quadratic, which is what m_add_quadratic mirrors (v first, then
   u).  Here the order is immaterial: both end points are un-fixed variables of src and were
   already enforced in dst by the linear phase.  On the bag representation of Expr.v the base
   add_quadratic_back and add_quadratic coincide (a BINARY self-loop goes to the linear bias, a
   SPIN self-loop to the offset, otherwise one more term); the ordering promise of
   add_quadratic_back is the subject of Proofs/FixCopyBack.v on the adjacency model.
   vt' is the vartype of a NEW model index (dst's parent is the new model). *)
Definition fve_quad_step (vt' : nat -> vartype) (vars : list nat) (o2n : list (option nat)) (asg : list Qc)
    (dst : mexpr) (t : lqterm) : mexpr :=
  let u := nth (fst (fst t)) vars 0%nat in
  let v := nth (snd (fst t)) vars 0%nat in
  let bias := snd t in
  match o2n_get o2n u, o2n_get o2n v with
  | None, None => m_add_offset (asg_get asg u * asg_get asg v * bias) dst
  | None, Some new_v => m_add_linear new_v (asg_get asg u * bias) dst
  | Some new_u, None => m_add_linear new_u (asg_get asg v * bias) dst
  | Some new_u, Some new_v => m_add_quadratic vt' new_u new_v bias dst
  end.

(* the three phases; dst is a fresh expression of the new model.  The linear phase runs over
   i < src.num_variables() = linear_biases_.size(), which is variables_.size() for every
   well-formed expression (ExprInv), hence `combine`.  The quadratic phase runs over the bag
   e_quad src in bag order (each interaction once, like the lower-triangle iterator). *)
Definition fix_variables_expr (vt' : nat -> vartype) (src : mexpr) (o2n : list (option nat)) (asg : list Qc) : mexpr :=
  let d0 := m_add_offset (e_off src) e_empty in                                   (* dst.add_offset(src.offset()) *)
  let d1 := fold_left (fve_lin_step o2n asg) (combine (e_vars src) (e_lin src)) d0 in
  fold_left (fve_quad_step vt' (e_vars src) o2n asg) (e_quad src) d1.

(* ---------- the whole model ---------- *)

(* constraint.h is_onehot on the index-level constraint (enum Sense { LE, GE, EQ }: EQ = 2) *)
Definition mc_is_onehot (vt' : nat -> vartype) (e : mexpr) (sense : nat) (rhs : Qc) : bool :=
  match e_quad e with [] => true | _ => false end           (* base_type::is_linear() *)
  && (2 <=? length (e_lin e))%nat                            (* num_variables() >= 2 *)
  && (sense =? 2)%nat
  && Qc_eqb (e_off e) 0
  && forallb (fun v => match vt' v with BINARY => true | _ => false end) (e_vars e)
  && forallb (fun b => Qc_eqb b rhs) (e_lin e).

(*  new_constraint.set_rhs / set_sense / set_weight / set_penalty copied;
    new_constraint.mark_discrete(old->marked_discrete() && new_constraint.is_onehot()) *)
Definition fix_copy_con (vt' : nat -> vartype) (o2n : list (option nat)) (asg : list Qc) (k : mcon) : mcon :=
  let e := fix_variables_expr vt' (mc_e k) o2n asg in
  mkMC e (mc_sense k) (mc_rhs k) (mc_weight k) (mc_pen k)
       (mc_mark k && mc_is_onehot vt' e (mc_sense k) (mc_rhs k)).

Definition vt_of_info (info : list minfo) (v : nat) : vartype :=
  match nth_error info v with Some i => i_vt i | None => INTEGER end.

Definition cqm_fix_variables_copy (fixed : list (nat * Qc)) (q : mcqm) : mcqm :=
  let n := length (m_info q) in
  let o2n := old_to_new_of n (map fst fixed) in
  let asg := assignments_of n fixed in
  let info' := surviving o2n (m_info q) in
  let vt' := vt_of_info info' in
  mkM info' (fix_variables_expr vt' (m_obj q) o2n asg) (map (fix_copy_con vt' o2n asg) (m_cons q)).

(* ---------- the in-place path issued with shifted indices ----------
   cyconstrained.pyx fix_variables(inplace=True):  for v, a in fixed: self.fix_variable(v, a)
   looks every label up in the CURRENT model; after fix_variable(v) every index above v has
   dropped by one (Expr.shift v). *)
Fixpoint shift_fixings_from (g : nat -> nat) (fs : list (nat * Qc)) : list (nat * Qc) :=
  match fs with
  | [] => []
  | f :: r => let v' := g (fst f) in                       (* current index of the label *)
              (v', snd f) :: shift_fixings_from (fun w => shift v' (g w)) r
  end.
Definition shift_fixings (fs : list (nat * Qc)) : list (nat * Qc) := shift_fixings_from (fun w => w) fs.

Definition cqm_fix_variables_inplace (fixed : list (nat * Qc)) (q : mcqm) : mcqm :=
  fold_left (fun q f => cqm_fix_variable (fst f) (snd f) q) (shift_fixings fixed) q.

(* the index a surviving variable gets in the new model: its rank among the survivors *)
Definition new_index (fixed : list nat) (u : nat) : nat :=
  (u - length (filter (fun w => (w <? u)%nat) fixed))%nat.

(* the sample of the OLD model a sample of the new model stands for *)
Definition lift_sample (o2n : list (option nat)) (asg : list Qc) (s' : sample) : sample :=
  fun old => match o2n_get o2n old with None => asg_get asg old | Some k => s' k end.

(* ---------- the ordering promise of add_quadratic_back (adjacency level, Model/Adj.v) ----------
   abc.h ConstQuadraticIterator: rows u ascending; inside row u the entries of the neighbourhood
   from its beginning WHILE index <= u (`it != neighborhood.cend() && it->v <= u`), self-loop
   included; the first entry above u ends the row. *)
From Dimod Require Model.Adj.

Fixpoint row_lower (u : nat) (n : Adj.nbh) : list (nat * nat * Qc) :=
  match n with
  | [] => []
  | (w, b) :: r => if (w <=? u)%nat then (u, w, b) :: row_lower u r else []
  end.

(* cbegin_quadratic() .. cend_quadratic() *)
Definition lower_iter (m : Adj.qm) : list (nat * nat * Qc) :=
  flat_map (fun u => row_lower u (Adj.nb m u)) (seq 0 (Adj.nvars m)).

(* the add_quadratic_back calls the quadratic phase of fix_variables_expr issues, on LOCAL
   indices: keep = local index in dst of a surviving local variable of src (None: fixed) *)
Definition back_calls (keep : nat -> option nat) (src : Adj.qm) : list (nat * nat * Qc) :=
  flat_map (fun t => match keep (fst (fst t)), keep (snd (fst t)) with
                     | Some nu, Some nv => [(nu, nv, snd t)]
                     | _, _ => []
                     end) (lower_iter src).

Definition rebuild (keep : nat -> option nat) (src dst : Adj.qm) : Adj.qm :=
  fold_left (fun d t => Adj.add_quadratic_back (fst (fst t)) (snd (fst t)) (snd t) d) (back_calls keep src) dst.

(* the same with the order-insensitive add_quadratic *)
Definition rebuild_add (keep : nat -> option nat) (src dst : Adj.qm) : Adj.qm :=
  fold_left (fun d t => Adj.add_quadratic (fst (fst t)) (snd (fst t)) (snd t) d) (back_calls keep src) dst.
