(* C16 - the variable-level adjacency lists of cyDiscreteQuadraticModel (adj_: one sorted vector of
   neighbouring variables per variable; DQM.energies walks them) and the "finally fix the adjacency"
   loop of add_linear_equality_constraint.  Executable; no proofs here. *)
From Coq Require Import List ZArith QArith Qcanon Bool Arith.
From Dimod Require Import Base.Util Model.Poly Model.Penalty.
Import ListNotations.

(* unordered_set of the term variables, then sort: the sorted duplicate-free list *)
Fixpoint ins_var (x : nat) (l : list nat) : list nat :=
  match l with
  | [] => [x]
  | y :: r => if (x <? y)%nat then x :: l else if (x =? y)%nat then l else y :: ins_var x r
  end.

Definition term_variables (grp : label -> nat) (terms : list lterm) : list nat :=
  fold_left (fun acc t => ins_var (grp (fst t)) acc) terms [].

(* the while loop over vit (constraint variables) and nit (adj_[v]):
     *vit == v            -> ++vit
     nit == end           -> insert *vit at nit; ++nit; ++vit
     *vit < *nit          -> insert *vit before nit; ++nit (back on the same element); ++vit
     *vit > *nit          -> ++nit
     *vit == *nit         -> ++nit; ++vit
   the loop stops when vit reaches the end; the rest of adj_[v] stays *)
Fixpoint merge_adj (v : nat) (vars : list nat) : list nat -> list nat :=
  fix inner (adj : list nat) : list nat :=
    match vars with
    | [] => adj
    | x :: vr =>
        if (x =? v)%nat then merge_adj v vr adj
        else match adj with
             | [] => x :: merge_adj v vr []
             | n :: ar =>
                 if (x <? n)%nat then x :: merge_adj v vr adj
                 else if (n <? x)%nat then n :: inner ar
                 else n :: merge_adj v vr ar
             end
    end.

Fixpoint set_nth {A} (i : nat) (x : A) (l : list A) : list A :=
  match l, i with
  | [], _ => []
  | _ :: r, O => x :: r
  | y :: r, S j => y :: set_nth j x r
  end.

(* for i in range(variables.size()): v = variables[i]; merge into adj_[v] *)
Definition fix_adjacency (vars : list nat) (adjs : list (list nat)) : list (list nat) :=
  fold_left (fun a v => set_nth v (merge_adj v vars (nth v a [])) a) vars adjs.

(* the adjacency part of add_linear_equality_constraint (terms are deduplicated first, but the set of
   variables is the same before and after) *)
Definition dqm_eq_adjacency (grp : label -> nat) (terms : list lterm) (adjs : list (list nat)) : list (list nat) :=
  fix_adjacency (term_variables grp (merge_terms terms)) adjs.

(* what DQM.energies needs: every case-level interaction between two variables is recorded in both lists *)
Definition adj_has (adjs : list (list nat)) (u v : nat) : bool := existsb (Nat.eqb v) (nth u adjs []).

Definition adj_covers_b (grp : label -> nat) (adjs : list (list nat)) (quad : list qterm) : bool :=
  forallb (fun t => let a := grp (fst (fst t)) in let b := grp (snd (fst t)) in
                    (a =? b)%nat || (adj_has adjs a b && adj_has adjs b a)) quad.

Fixpoint sorted_b (l : list nat) : bool :=
  match l with
  | x :: ((y :: _) as r) => (x <? y)%nat && sorted_b r
  | _ => true
  end.

Definition adj_wf_b (adjs : list (list nat)) : bool :=
  forallb (fun ir => sorted_b (snd ir) && negb (existsb (Nat.eqb (fst ir)) (snd ir))
                     && forallb (fun j => adj_has adjs j (fst ir)) (snd ir))
          (combine (seq 0 (length adjs)) adjs).
