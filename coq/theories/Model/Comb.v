(* Combinatorial cores, over nat/Z/bool; executable, no proofs here.
   - Gray-code walk of ExactSolver (exact_solver.py:_graycode)              [C07]
   - cartesian products of case ranges (_all_cases_dqm/_all_cases_cqm)      [C07]
   - 1-bit sample packing (serialization/utils.py pack/unpack_samples)      [C11]
   - slack coefficients / bound tightening of add_linear_inequality_constraint,
     binary_encoding of generators/integer.py                               [C16]
   - combinations(n, k)                                                     [C17] *)
From Coq Require Import List ZArith Bool Arith Lia.
Import ListNotations.

(* ------------------------------------------------------------------ *)
(* Gray code: samples[0] = 0...0 ; samples[i] = samples[i-1] with bit ctz(i) flipped *)

Fixpoint flip_nth (k : nat) (l : list bool) : list bool :=
  match l, k with
  | [], _ => []
  | b :: r, O => negb b :: r
  | b :: r, S j => b :: flip_nth j r
  end.

(* (i & -i).bit_length() - 1 : index of the least significant set bit, i > 0 *)
Fixpoint ctz_pos (p : positive) : nat :=
  match p with
  | xO q => S (ctz_pos q)
  | _ => O
  end.
Definition ctz (i : N) : nat := match i with N0 => O | Npos p => ctz_pos p end.

(* the loop `for i in range(1, ns)` carried as (previous row, rows so far reversed) *)
Fixpoint gray_loop (steps : nat) (i : N) (cur : list bool) (acc : list (list bool)) : list (list bool) :=
  match steps with
  | O => rev acc
  | S k => let nxt := flip_nth (ctz i) cur in gray_loop k (N.succ i) nxt (nxt :: acc)
  end.

Definition graycode (n : nat) : list (list bool) :=
  let z := repeat false n in
  gray_loop (Nat.pow 2 n - 1) 1%N z [z].

(* all bit vectors of length n, the specification *)
Fixpoint all_bitvectors (n : nat) : list (list bool) :=
  match n with
  | O => [[]]
  | S k => map (cons false) (all_bitvectors k) ++ map (cons true) (all_bitvectors k)
  end.

(* products of finite domains: each assignment exactly once *)
Fixpoint product {A} (doms : list (list A)) : list (list A) :=
  match doms with
  | [] => [[]]
  | d :: r => flat_map (fun x => map (cons x) (product r)) d
  end.

(* one-hot rows of a discrete constraint over d binary variables *)
Definition onehot (d k : nat) : list Z := map (fun i => if Nat.eqb i k then 1%Z else 0%Z) (seq 0 d).
Definition onehots (d : nat) : list (list Z) := map (onehot d) (seq 0 d).

(* ------------------------------------------------------------------ *)
(* pack_samples on one row of bits *)

Definition pad_len (n : nat) : nat := 31 - (n + 31) mod 32.

Fixpoint chunks {A} (k : nat) (fuel : nat) (l : list A) : list (list A) :=
  match fuel with
  | O => []
  | S f => match l with
           | [] => []
           | _ => firstn k l :: chunks k f (skipn k l)
           end
  end.

(* np.packbits of 8 bits, most significant first *)
Fixpoint packbits_be (bits : list bool) : N :=
  match bits with
  | [] => 0%N
  | b :: r => (N.b2n b * 2 ^ N.of_nat (length r) + packbits_be r)%N
  end.

(* little-endian view of 4 bytes as one uint32 *)
Fixpoint le_word (bytes : list N) : N :=
  match bytes with
  | [] => 0%N
  | b :: r => (b + 256 * le_word r)%N
  end.

Definition pack_row (bits : list bool) : list N :=
  let padded := bits ++ repeat false (pad_len (length bits)) in
  let bytes := map (fun byte => packbits_be (rev byte)) (chunks 8 (length padded) padded) in
  map le_word (chunks 4 (length bytes) bytes).

(* unpack_samples: bytes of each word (little endian), unpackbits (msb first), reversed per byte *)
Definition word_bytes (w : N) : list N :=
  map (fun k => ((w / 256 ^ N.of_nat k) mod 256)%N) (seq 0 4).
Definition unpackbits_be (b : N) : list bool :=
  map (fun k => N.testbit b (N.of_nat (7 - k))) (seq 0 8).
Definition unpack_row (words : list N) (n : nat) : list bool :=
  firstn n (flat_map (fun w => flat_map (fun b => rev (unpackbits_be b)) (word_bytes w)) words).

(* the value a packed word must have: sum of bit_i * 2^i *)
Fixpoint bits_value (bits : list bool) : N :=
  match bits with
  | [] => 0%N
  | b :: r => (N.b2n b + 2 * bits_value r)%N
  end.

(* ------------------------------------------------------------------ *)
(* slack encoding *)

(* num_slack = floor(log2 U); coefficients 2^0..2^(k-1) and U - 2^k + 1 *)
Definition slack_coeffs (U : Z) : list Z :=
  let k := Z.to_nat (Z.log2 U) in
  map (fun j => 2 ^ Z.of_nat j)%Z (seq 0 k) ++ [(U - 2 ^ Z.of_nat k + 1)%Z].

Fixpoint dot (cs : list Z) (bits : list bool) : Z :=
  match cs, bits with
  | c :: cr, b :: br => ((if b then c else 0) + dot cr br)%Z
  | _, _ => 0%Z
  end.

(* a greedy witness: bits representing t (0 <= t <= U) with the coefficients *)
Fixpoint greedy (cs_desc : list Z) (t : Z) : list bool :=
  match cs_desc with
  | [] => []
  | c :: r => if (c <=? t)%Z then true :: greedy r (t - c) else false :: greedy r t
  end.
Definition slack_bits (U t : Z) : list bool := rev (greedy (rev (slack_coeffs U)) t).

(* generators/integer.py binary_encoding(v, ub): same scheme, ub >= 2 *)
Definition binary_encoding_coeffs (ub : Z) : list Z :=
  let k := Z.to_nat (Z.log2 ub) in
  map (fun j => 2 ^ Z.of_nat j)%Z (seq 0 k) ++ [(ub - (2 ^ Z.of_nat k - 1))%Z].

(* bound tightening of add_linear_inequality_constraint for 0/1 variables *)
Definition sum_pos (a : list Z) : Z := fold_right Z.add 0%Z (filter (fun x => (0 <? x)%Z) a).
Definition sum_neg (a : list Z) : Z := fold_right Z.add 0%Z (filter (fun x => (x <? 0)%Z) a).

Inductive ineq_plan :=
| Skip                       (* always satisfied: nothing added *)
| Infeasible                 (* ValueError *)
| Equality (ubc : Z)         (* slack_upper_bound = 0 *)
| Slack (ubc : Z) (coeffs : list Z).

Definition plan_inequality (a : list Z) (const lb ub : Z) : ineq_plan :=
  let tu := sum_pos a in
  let tl := sum_neg a in
  let ubc := Z.min tu (ub - const) in
  let lbc := Z.max tl (lb - const) in
  if (tu <=? ubc)%Z && (lbc <=? tl)%Z then Skip
  else if (ubc <? lbc)%Z then Infeasible
  else if (ubc - lbc =? 0)%Z then Equality ubc
  else Slack ubc (slack_coeffs (ubc - lbc)).

(* penalty value (without the multiplier): (sum a x + sum c s - ubc)^2 *)
Definition ineq_penalty (a : list Z) (x : list bool) (cs : list Z) (s : list bool) (ubc : Z) : Z :=
  let d := (dot a x + dot cs s - ubc)%Z in (d * d)%Z.

(* ------------------------------------------------------------------ *)
(* combinations(n, k): (sum x - k)^2 expanded on binary variables:
   linear (1 - 2k) on every variable, quadratic 2 on every pair, offset k^2 *)
Fixpoint count_true (x : list bool) : Z :=
  match x with [] => 0%Z | b :: r => ((if b then 1 else 0) + count_true r)%Z end.

Fixpoint pairs_true (x : list bool) : Z :=
  match x with
  | [] => 0%Z
  | b :: r => ((if b then count_true r else 0) + pairs_true r)%Z
  end.

Definition combinations_energy (k : Z) (x : list bool) : Z :=
  ((1 - 2 * k) * count_true x + 2 * pairs_true x + k * k)%Z.
