(* C11 - the numerals of the COO text: `'%f' % bias` on the writing side, `float(text)` on the
   reading side, for the biases the format prints exactly (at most six decimals).
   The text is kept as its three parts - sign, integer-part string, six fraction digits - i.e. the
   splitting at '-' and '.' done by the line regex is not modelled at character level; the
   integer-part string is the real decimal string (Coq's DecimalString).  No proofs in this file. *)
From Coq Require Import ZArith String List DecimalString DecimalZ.
Import ListNotations.
Local Open Scope Z_scope.

Definition MICRO : Z := 1000000.

(* a bias with at most six decimals is m / 10^6 *)
Record ftext := mkFText { f_neg : bool; f_int : string; f_frac : list Z }.

Definition frac_digits (fp : Z) : list Z :=
  [fp / 100000 mod 10; fp / 10000 mod 10; fp / 1000 mod 10; fp / 100 mod 10; fp / 10 mod 10; fp mod 10].

(* '%f' % (m / 10^6) *)
Definition fmt_f (m : Z) : ftext :=
  let a := Z.abs m in
  mkFText (m <? 0) (NilZero.string_of_int (Z.to_int (a / MICRO))) (frac_digits (a mod MICRO)).

Definition frac_value (ds : list Z) : Z :=
  fold_left (fun acc d => 10 * acc + d) ds 0.

(* float(text) * 10^6, None when the integer part is not a numeral *)
Definition read_f (t : ftext) : option Z :=
  match NilZero.int_of_string (f_int t) with
  | Some i => let a := Z.of_int i * MICRO + frac_value (f_frac t) in Some (if f_neg t then - a else a)
  | None => None
  end.
