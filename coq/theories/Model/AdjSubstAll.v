(* M level model of
     dimod/include/dimod/abc.h : QuadraticModelBase::substitute_variables(multiplier, offset)
   (ALL variables at once, x_v := multiplier * x_v + offset) and of its only two
   callers, in
     dimod/include/dimod/binary_quadratic_model.h : BinaryQuadraticModel::change_vartype.
   Over the adjacency model of Model/Adj.v.  Executable, no proofs here.

   abc.h (1139-1159):
     bias_type quad_mp = multiplier * multiplier;
     bias_type lin_quad_mp = multiplier * offset;
     bias_type quad_offset_mp = offset * offset / 2;  // we do this twice so divide by two

     for (size_type v = 0; v < num_variables(); ++v) {
         offset_ += linear_biases_[v] * offset;
         linear_biases_[v] *= multiplier;
     }

     if (has_adj()) {
         for (size_type v = 0; v < num_variables(); ++v) {
             for (auto& term : ( *adj_ptr_)[v]) {
                 offset_ += quad_offset_mp * term.bias;
                 linear_biases_[v] += lin_quad_mp * term.bias;
                 term.bias *= quad_mp;
             }
         }
     }
   (`has_adj()` false = no neighbourhood allocated = every row empty: the second
   pass then does nothing, which is also what the fold below does on empty rows.) *)
From Coq Require Import List ZArith QArith Qcanon Bool Arith.
From Dimod Require Import Base.Util Model.Poly Model.Adj.
Import ListNotations.
Open Scope Qc_scope.

(* first loop, in index order, threading offset_:
     offset_ += linear_biases_[v] * offset;  linear_biases_[v] *= multiplier;
   result: (new linear vector, new offset) *)
Fixpoint sv_pass1 (mult c : Qc) (l : list Qc) (o : Qc) : list Qc * Qc :=
  match l with
  | [] => ([], o)
  | b :: r =>
      let o1 := o + b * c in
      let b1 := b * mult in
      let '(r', o') := sv_pass1 mult c r o1 in
      (b1 :: r', o')
  end.

(* inner loop over the terms of one row v, in storage order, threading
   linear_biases_[v] (lv) and offset_ (o):
     offset_ += quad_offset_mp * term.bias;
     linear_biases_[v] += lin_quad_mp * term.bias;
     term.bias *= quad_mp;
   result: (new row, new linear_biases_[v], new offset) *)
Fixpoint sv_row (quad_mp lin_quad_mp quad_offset_mp : Qc) (n : nbh) (lv o : Qc)
  : nbh * Qc * Qc :=
  match n with
  | [] => ([], lv, o)
  | (w, b) :: r =>
      let o1 := o + quad_offset_mp * b in
      let lv1 := lv + lin_quad_mp * b in
      let b1 := b * quad_mp in
      let '(r', lv', o') := sv_row quad_mp lin_quad_mp quad_offset_mp r lv1 o1 in
      ((w, b1) :: r', lv', o')
  end.

(* outer loop v = 0 .. num_variables()-1 over (linear_biases_[v], adj[v]), threading
   offset_.  num_variables() = linear_biases_.size(): rows of adj beyond it are left
   alone; a linear entry without a row (never the case under Adj.Inv) is left alone. *)
Fixpoint sv_pass2 (quad_mp lin_quad_mp quad_offset_mp : Qc) (l : list Qc) (a : list nbh) (o : Qc)
  : list Qc * list nbh * Qc :=
  match l, a with
  | lv :: l', n :: a' =>
      let '(n1, lv1, o1) := sv_row quad_mp lin_quad_mp quad_offset_mp n lv o in
      let '(l'', a'', o'') := sv_pass2 quad_mp lin_quad_mp quad_offset_mp l' a' o1 in
      (lv1 :: l'', n1 :: a'', o'')
  | _, _ => (l, a, o)
  end.

(* substitute_variables(multiplier = mult, offset = c) *)
Definition substitute_variables (mult c : Qc) (m : qm) : qm :=
  let quad_mp := mult * mult in
  let lin_quad_mp := mult * c in
  let quad_offset_mp := c * c / two in
  let '(l1, o1) := sv_pass1 mult c (lin m) (off m) in
  let '(l2, a2, o2) := sv_pass2 quad_mp lin_quad_mp quad_offset_mp l1 (adj m) o1 in
  mkQM l2 a2 o2 (vts m).

(* binary_quadratic_model.h (156-170):
     if (vartype_ == vartype) { return; }
     else if (vartype == Vartype::SPIN)   { base_type::substitute_variables(.5, .5); }
     else if (vartype == Vartype::BINARY) { base_type::substitute_variables(2, -1); }
     else { throw std::logic_error("unsupported vartype"); }
     vartype_ = vartype;
   A BQM has one `vartype_`; in the qm record it is the common entry of `vts`
   (all entries equal).  `vartype_ == vartype` is modelled as "every entry of vts
   equals the target"; `vartype_ = vartype` as overwriting every entry. *)
Definition bqm_same_vartype (target : vartype) (m : qm) : bool :=
  forallb (vartype_eqb target) (vts m).

Definition set_all_vts (t : vartype) (m : qm) : qm :=
  mkQM (lin m) (adj m) (off m) (map (fun _ => t) (vts m)).

(* true = the call throws std::logic_error (state unchanged) *)
Definition bqm_change_vartype_throws (target : vartype) (m : qm) : bool :=
  if bqm_same_vartype target m then false
  else match target with SPIN | BINARY => false | _ => true end.

Definition bqm_change_vartype (target : vartype) (m : qm) : qm :=
  if bqm_same_vartype target m then m
  else match target with
       | SPIN => set_all_vts SPIN (substitute_variables half half m)
       | BINARY => set_all_vts BINARY (substitute_variables two (- (1)) m)
       | _ => m
       end.
