(* C20 correspondence: the C++ driver (cpp/driver.cpp, compiled against the
   headers of the tree under test with ASan/UBSan and live assertions) executes
   an operation list on two QuadraticModel and two BinaryQuadraticModel objects
   and prints the raw state of all four after every operation.  `check` runs
   the same operations on the model (the very `cstep` of Proofs/AdjFacts.v for
   the base operations, Model/AdjMore.v for the rest) and compares, after every
   operation: linear vector, every neighbourhood as an ORDERED list, offset,
   vartypes, bounds, num_variables, num_interactions(), every degree,
   is_linear(), the value returned by the call; it evaluates inv_b on the model
   state and on the OBSERVED state (oracle). *)
From Coq Require Import List ZArith QArith Qcanon Bool Arith.
From Dimod Require Import Base.Util Model.Poly Model.Adj Model.AdjMore Proofs.AdjFacts.
Import ListNotations.
Open Scope Qc_scope.

Record slot := mkSlot { sm : qm; sb : list bounds; sv : vartype; sq : bool }.
Definition state := list slot.

Definition init_state : state :=
  [ mkSlot empty_qm [] BINARY true; mkSlot empty_qm [] BINARY true;
    mkSlot empty_qm [] BINARY false; mkSlot empty_qm [] SPIN false ].

Definition dslot : slot := mkSlot empty_qm [] BINARY true.
Definition get (st : state) (s : nat) : slot := nth s st dslot.
Definition put (st : state) (s : nat) (x : slot) : state := upd_nth s (fun _ => x) st.

Inductive xop :=
| XB (s : nat) (o : cop)                                   (* an operation of the base class *)
| XAddVars (s : nat) (t : vartype) (n : nat) (b : option bounds)
| XResizeB (s k : nat) (t : vartype) (b : bounds)
| XRemVars (s : nat) (l : list nat)
| XRemInts (s kind pn : nat) (pq : Qc)
| XDense (s n : nat) (d : list Qc)
| XCoo (s : nat) (l : list (nat * nat * Qc))
| XSubstAll (s : nat) (k c : Qc)
| XChVt (s : nat) (t : vartype) (v : nat)
| XSetLb (s v : nat) (b : Qc)
| XSetUb (s v : nat) (b : Qc)
| XSetVt (s v : nat) (t : vartype)
| XClear (s : nat)
| XCopy (a b : nat)                                        (* copy construction / copy assignment *)
| XMove (a b : nat) (c : option nat)                       (* move, then the source is cleared / assigned from c *)
| XSwap (a b : nat)
| XQmOfBqm (a b : nat)
| XDenseCtor (s n : nat) (t : vartype) (d : list Qc)
| XBqmCtor (s n : nat) (t : vartype)
| XEnergy (s : nat) (x : list Qc)
| XNop.

(* bounds bookkeeping of QuadraticModel::varinfo_ for the base operations *)
Definition bstep (m : qm) (b : list bounds) (o : cop) : list bounds :=
  match o with
  | CAddVar t => b ++ [default_bounds t]
  | CRemVar v => if (v <? nvars m)%nat then del_nth v b else b
  | CFix v _ => if (v <? nvars m)%nat then del_nth v b else b
  | CResize t k => if (k <? nvars m)%nat then firstn k b
                   else b ++ repeat (default_bounds t) (k - nvars m)
  | _ => b
  end.

(* a BinaryQuadraticModel has one vartype for all its variables *)
Definition norm_cop (x : slot) (o : cop) : cop :=
  if sq x then o
  else match o with
       | CAddVar _ => CAddVar (sv x)
       | CResize _ k => CResize (sv x) k
       | _ => o
       end.

Definition filter_of (kind pn : nat) (pq : Qc) (u v : nat) (b : Qc) : bool :=
  match kind with
  | 0%nat => negb (Qle_bool pq b)
  | 1%nat => ((u + v) mod 2 =? pn)%nat
  | 2%nat => (u =? pn)%nat || (v =? pn)%nat
  | _ => true
  end.

Definition bool_q (b : bool) : Qc := if b then 1 else 0.
Definition nat_q (n : nat) : Qc := qc (Z.of_nat n) 1.

Definition with_m (x : slot) (m : qm) : slot := mkSlot m (sb x) (sv x) (sq x).

(* one call: new state and the value the call returns (None: nothing compared) *)
Definition xstep (st : state) (o : xop) : state * option Qc :=
  match o with
  | XB s c =>
      let x := get st s in
      let c' := norm_cop x c in
      let m' := cstep (sm x) c' in
      let r := match c' with
               | CAddVar _ => Some (nat_q (nvars (sm x)))
               | CRemInt u v => Some (bool_q (snd (Adj.remove_interaction u v (sm x))))
               | CSetQuad u v b => Some (bool_q (match set_quadratic u v b (sm x) with Some _ => true | None => false end))
               | _ => None
               end in
      (put st s (mkSlot m' (bstep (sm x) (sb x) c') (sv x) (sq x)), r)
  | XAddVars s t n b =>
      let x := get st s in
      let m' := fold_left (fun acc _ => add_variable t acc) (seq 0 n) (sm x) in
      let bb := match b with Some bb => bb | None => default_bounds t end in
      (put st s (mkSlot m' (sb x ++ repeat bb n) (sv x) (sq x)), Some (nat_q (nvars (sm x))))
  | XResizeB s k t b =>
      let x := get st s in
      let m' := resize t k (sm x) in
      let b' := if (k <? nvars (sm x))%nat then firstn k (sb x) else sb x ++ repeat b (k - nvars (sm x)) in
      (put st s (mkSlot m' b' (sv x) (sq x)), None)
  | XRemVars s l =>
      let x := get st s in
      (put st s (mkSlot (remove_variables l (sm x)) (remove_variables_vec l (sb x)) (sv x) (sq x)), None)
  | XRemInts s kind pn pq =>
      let x := get st s in
      let r := remove_interactions (filter_of kind pn pq) (sm x) in
      (put st s (with_m x (fst r)), Some (nat_q (snd r)))
  | XDense s n d =>
      let x := get st s in (put st s (with_m x (add_quadratic_from_dense n d (sm x))), None)
  | XCoo s l =>
      let x := get st s in
      (put st s (with_m x (if sq x then add_quadratic_coo l (sm x) else add_quadratic_coo_bqm (sv x) l (sm x))), None)
  | XSubstAll s k c =>
      let x := get st s in (put st s (with_m x (substitute_variables k c (sm x))), None)
  | XChVt s t v =>
      let x := get st s in
      if sq x then
        let r := qm_change_vartype t v (sm x) (sb x) in
        (put st s (mkSlot (fst (fst r)) (snd (fst r)) (sv x) true), Some (bool_q (snd r)))
      else
        let r := bqm_change_vartype (sv x) t (sm x) in
        (put st s (mkSlot (fst (fst r)) (sb x) (snd (fst r)) false), Some (bool_q (snd r)))
  | XSetLb s v b =>
      let x := get st s in
      (put st s (mkSlot (sm x) (upd_nth v (fun p => (b, snd p)) (sb x)) (sv x) (sq x)), None)
  | XSetUb s v b =>
      let x := get st s in
      (put st s (mkSlot (sm x) (upd_nth v (fun p => (fst p, b)) (sb x)) (sv x) (sq x)), None)
  | XSetVt s v t =>
      let x := get st s in (put st s (with_m x (set_vt v t (sm x))), None)
  | XClear s =>
      let x := get st s in (put st s (mkSlot clear_qm [] (sv x) (sq x)), None)
  | XCopy a b => (put st a (get st b), None)
  | XMove a b c =>
      let xb := get st b in
      let st1 := put st a xb in
      let nb := match c with
                | None => mkSlot clear_qm [] (sv xb) (sq xb)
                | Some c' => get st1 c'
                end in
      (put st1 b nb, None)
  | XSwap a b => let xa := get st a in let xb := get st b in (put (put st a xb) b xa, None)
  | XQmOfBqm a b =>
      let xb := get st b in
      let n := nvars (sm xb) in
      let m' := mkQM (lin (sm xb)) (adj (sm xb)) (off (sm xb)) (repeat (sv xb) n) in
      (put st a (mkSlot m' (repeat (default_bounds (sv xb)) n) (sv (get st a)) true), None)
  | XDenseCtor s n t d =>
      (put st s (mkSlot (add_quadratic_from_dense n d (resize t n empty_qm)) [] t false), None)
  | XBqmCtor s n t => (put st s (mkSlot (resize t n empty_qm) [] t false), None)
  | XEnergy s x => (st, Some (energy_adj (sm (get st s)) (fun i => nth i x 0)))
  | XNop => (st, None)
  end.

(* what the driver printed for one object *)
Record obs := mkObs {
  o_n : nat; o_m : qm; o_b : list bounds; o_ni : nat; o_deg : list nat; o_isl : bool; o_bvt : option vartype }.

Definition nbh_eqb : nbh -> nbh -> bool := list_eqb (pair_eqb Nat.eqb Qc_eqb).
Definition qm_eqb (a b : qm) : bool :=
  list_eqb Qc_eqb (lin a) (lin b) && list_eqb nbh_eqb (adj a) (adj b) && Qc_eqb (off a) (off b)
  && list_eqb vartype_eqb (vts a) (vts b).
Definition bounds_eqb : list bounds -> list bounds -> bool := list_eqb (pair_eqb Qc_eqb Qc_eqb).

Definition counts_ok (m : qm) (o : obs) : bool :=
  Nat.eqb (nvars m) (o_n o) && Nat.eqb (num_interactions m) (o_ni o)
  && list_eqb Nat.eqb (map (degree m) (seq 0 (nvars m))) (o_deg o)
  && Bool.eqb (is_linear m) (o_isl o).

Definition slot_agrees (x : slot) (o : obs) : bool :=
  qm_eqb (sm x) (o_m o)
  && bounds_eqb (if sq x then sb x else map default_bounds (vts (sm x))) (o_b o)
  && option_eqb vartype_eqb (if sq x then None else Some (sv x)) (o_bvt o)
  && counts_ok (sm x) o
  && inv_b (sm x)
  (* oracle: the invariant and the counts evaluated on the implementation's own state *)
  && inv_b (o_m o) && counts_ok (o_m o) o.

Fixpoint all2 {A B} (f : A -> B -> bool) (l : list A) (r : list B) : bool :=
  match l, r with
  | [], [] => true
  | x :: l', y :: r' => f x y && all2 f l' r'
  | _, _ => false
  end.

Definition step := (xop * option Qc * list obs)%type.
Definition case := list step.

Fixpoint run (st : state) (steps : list step) : bool :=
  match steps with
  | [] => true
  | (o, ret, seen) :: rest =>
      let r := xstep st o in
      (match snd r, ret with
       | Some a, Some b => Qc_eqb a b
       | None, _ => true
       | Some _, None => false
       end)
      && all2 slot_agrees (fst r) seen
      && run (fst r) rest
  end.

Definition check (c : case) : bool := run init_state c.

(* diagnostics for harness/dbg.py: index of the first failing step *)
Fixpoint first_bad (st : state) (steps : list step) (i : nat) : option nat :=
  match steps with
  | [] => None
  | (o, ret, seen) :: rest =>
      let r := xstep st o in
      if run st [(o, ret, seen)] then first_bad (fst r) rest (S i) else Some i
  end.
Definition where_bad (c : case) : option nat := first_bad init_state c 0.
Definition state_after (c : case) (k : nat) : state :=
  fold_left (fun st s => fst (xstep st (fst (fst s)))) (firstn k c) init_state.
