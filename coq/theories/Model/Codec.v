(* Byte-level model of dimod's binary model files (C09 / C10).

   Mirrors, function by function:
     serialization/fileview.py   make_header / read_header, Section.dumps / Section.load,
                                 the *Section.loads_data slicers
     binary_quadratic_model.py   to_file / from_file (format versions 1.0 and 2.0)
     quadratic_model.py          to_file / from_file  (+ cyqm _ivartypes_load / _ilower_triangle_load)
     cyexpression.pyx            _into_file / _from_file (INDX / OFFS / LINB / QUAD)
     variables.py                (de)serialize_variable + json.dumps / json.loads on the label subset

   Bytes are `N` (< 256), a file is `list N`.  Biases are opaque fixed-width byte strings (4 or 8
   bytes); the IEEE encoding is not modelled.  Every decoder returns `Err` exactly where the
   implementation raises (bucket level: the exception type is not modelled).

   Deviations that are deliberate and documented:
   * since 89f7dc3 the raw loaders (_ivartypes_load, _ivarinfo_load, _iindices_load, _ilinear_load,
     _iquadratic_load) raise ValueError when np.frombuffer yields fewer records than declared, i.e. at
     exactly the point where `pd_chunks` returns None here.  One deferral remains: the LINB section
     of a QM file - LinearSection.loads_data accepts a short but item-aligned payload and
     add_linear_from_array accepts the shorter array; the failure then surfaces at the next section
     read (a NEIG section always follows when there is at least one variable, and the file is
     exhausted).  The model fails at once there: same bucket for every truncated file;
   * JSON is parsed rigidly: exactly the text `json.dumps(..., sort_keys=True)` produces, followed
     by whitespace.  This is faithful on every file the implementation writes and on every prefix
     of such a file, which is the domain of C09 / C10.
   No proofs in this file. *)
From Coq Require Import List NArith ZArith Arith Bool Lia Ascii String Decimal DecimalN.
From Dimod Require Import Gen.Gen_Codec.
Import ListNotations.
Open Scope nat_scope.
Notation length := List.length (only parsing).

Definition bytes := list N.

Inductive res (A : Type) := Ok (a : A) | Err.
Arguments Ok {A} a.
Arguments Err {A}.

Definition parser (A : Type) := bytes -> res (A * bytes).

Definition bind {A B : Type} (p : parser A) (f : A -> parser B) : parser B :=
  fun bs => match p bs with Ok (a, r) => f a r | Err => Err end.
Definition ret {A : Type} (a : A) : parser A := fun bs => Ok (a, bs).
Definition fail {A : Type} : parser A := fun _ => Err.

Fixpoint bytes_eqb (a b : bytes) : bool :=
  match a, b with
  | [], [] => true
  | x :: a', y :: b' => N.eqb x y && bytes_eqb a' b'
  | _, _ => false
  end.

Definition s2b (s : string) : bytes := map (fun c => N.of_nat (nat_of_ascii c)) (list_ascii_of_string s).

(* ---------------------------------------------------------------- little-endian integers *)

Fixpoint le_enc (n : nat) (x : N) : bytes :=
  match n with
  | 0 => []
  | S n' => N.modulo x 256 :: le_enc n' (N.div x 256)
  end.

Fixpoint le_dec (bs : bytes) : N :=
  match bs with
  | [] => 0%N
  | b :: r => (b + 256 * le_dec r)%N
  end.

(* number of bytes to take for a length field value: min(v, available) - keeps evaluation cheap on
   garbage lengths and is what file.read(v) does anyway *)
Definition clamp (v : N) (bs : bytes) : nat := N.to_nat (N.min v (N.of_nat (length bs))).

(* ---------------------------------------------------------------- padding *)

Definition pad_len (n : nat) : nat :=
  match n mod ALIGN with 0 => 0 | r => ALIGN - r end.

Definition spaces (k : nat) : bytes := repeat PAD_BYTE k.

(* ---------------------------------------------------------------- header (make_header / read_header) *)

Definition header (prefix : bytes) (v : N * N) (json : bytes) : bytes :=
  let pad := pad_len (length prefix + HEADER_VERSION_BYTES + HEADER_LEN_BYTES + length json + 1) in
  prefix ++ [fst v; snd v] ++ le_enc HEADER_LEN_BYTES (N.of_nat (length json + 1 + pad))
         ++ json ++ [HEADER_NEWLINE] ++ spaces pad.

(* fp.read(nlen) as a little-endian length (struct.error / IndexError when short), then whatever
   fp.read(length) returns (short reads are NOT checked there) handed to the payload decoder `pd`
   (json.loads for a header, loads_data + the raw loader for a section) *)
Definition dec_pblob {A : Type} (nlen : nat) (pd : bytes -> option A) : parser A :=
  fun r =>
    let lb := firstn nlen r in
    if negb (length lb =? nlen) then Err else
    let r2 := skipn nlen r in
    let len := clamp (le_dec lb) r2 in
    match pd (firstn len r2) with
    | Some a => Ok (a, skipn len r2)
    | None => Err
    end.

(* the magic / prefix comparison `fp.read(len(magic)) != magic` *)
Fixpoint starts_with (s bs : bytes) : bool :=
  match s, bs with
  | [], _ => true
  | x :: s', y :: bs' => N.eqb x y && starts_with s' bs'
  | _ :: _, [] => false
  end.

Definition lit (s : bytes) : parser unit :=
  fun bs => if starts_with s bs then Ok (tt, skipn (length s) bs) else Err.

(* version = tuple(read(2)): a short read only surfaces at the following struct.unpack *)
Definition p_version : parser (N * N) :=
  fun bs => match bs with a :: b :: r => Ok ((a, b), r) | _ => Err end.

(* read_header *)
Definition dec_header {H : Type} (prefix : bytes) (jd : bytes -> option H) : parser ((N * N) * H) :=
  bind (lit prefix) (fun _ =>
  bind p_version (fun v =>
  bind (dec_pblob HEADER_LEN_BYTES jd) (fun h => ret (v, h)))).

(* version tuple comparisons *)
Definition vlt (a b : N * N) : bool := (fst a <? fst b)%N || ((fst a =? fst b)%N && (snd a <? snd b)%N).
Definition vle (a b : N * N) : bool := negb (vlt b a).

(* ---------------------------------------------------------------- sections (Section.dumps / Section.load) *)

Definition section (magic : bytes) (nlen : nat) (payload : bytes) : bytes :=
  let pad := pad_len (length magic + nlen + length payload) in
  magic ++ le_enc nlen (N.of_nat (length payload + pad)) ++ payload ++ spaces pad.

(* Section.load: magic compare, length, then loads_data (+ raw loader) on what was read; the payload
   decoder sees payload + padding, possibly short *)
Definition dec_tsection {A : Type} (magic : bytes) (nlen : nat) (pd : bytes -> option A) : parser A :=
  bind (lit magic) (fun _ => dec_pblob nlen pd).

(* ---------------------------------------------------------------- fixed-width records *)

Definition take (n : nat) : parser bytes :=
  fun bs => if length bs <? n then Err else Ok (firstn n bs, skipn n bs).

Fixpoint chunks (n sz : nat) : parser (list bytes) :=
  match n with
  | 0 => ret []
  | S n' => bind (take sz) (fun c => bind (chunks n' sz) (fun cs => ret (c :: cs)))
  end.

(* all of a payload: exactly n items of width sz at its start, rest (padding) ignored *)
Definition pd_chunks (n sz : nat) (p : bytes) : option (list bytes) :=
  match chunks n sz p with Ok (cs, _) => Some cs | Err => None end.

(* (index, bias) records: little-endian index of width iw followed by the bias bytes *)
Definition enc_rec (iw : nat) (e : N * bytes) : bytes := le_enc iw (fst e) ++ snd e.
Definition dec_rec (iw : nat) (c : bytes) : N * bytes := (le_dec (firstn iw c), skipn iw c).

Definition IDX_BYTES : nat := 4.      (* index_dtype is int32 for every shipped model class *)

(* ---------------------------------------------------------------- decimal numbers *)

Fixpoint uint_bytes (u : Decimal.uint) : bytes :=
  match u with
  | Nil => []
  | D0 d => 48%N :: uint_bytes d | D1 d => 49%N :: uint_bytes d | D2 d => 50%N :: uint_bytes d
  | D3 d => 51%N :: uint_bytes d | D4 d => 52%N :: uint_bytes d | D5 d => 53%N :: uint_bytes d
  | D6 d => 54%N :: uint_bytes d | D7 d => 55%N :: uint_bytes d | D8 d => 56%N :: uint_bytes d
  | D9 d => 57%N :: uint_bytes d
  end.

Definition digit_of (b : N) : option (Decimal.uint -> Decimal.uint) :=
  match b with
  | 48%N => Some D0 | 49%N => Some D1 | 50%N => Some D2 | 51%N => Some D3 | 52%N => Some D4
  | 53%N => Some D5 | 54%N => Some D6 | 55%N => Some D7 | 56%N => Some D8 | 57%N => Some D9
  | _ => None
  end.

Fixpoint p_uint (bs : bytes) : Decimal.uint * bytes :=
  match bs with
  | b :: r => match digit_of b with
              | Some mk => let (u, r') := p_uint r in (mk u, r')
              | None => (Nil, bs)
              end
  | [] => (Nil, [])
  end.

Definition dec_N (n : N) : bytes := uint_bytes (N.to_uint n).

(* digits followed by the terminator byte c (a JSON number is always followed by ',' or ']' here) *)
Definition p_N_until (c : N) : parser N :=
  fun bs => match p_uint bs with
            | (Nil, _) => Err
            | (u, t :: r) => if N.eqb t c then Ok (N.of_uint u, r) else Err
            | (_, []) => Err
            end.

Fixpoint penum {A : Type} (opts : list (bytes * A)) : parser A :=
  match opts with
  | [] => fail
  | (s, a) :: rest => fun bs => if starts_with s bs then Ok (a, skipn (length s) bs) else penum rest bs
  end.

Definition is_ws (b : N) : bool := N.eqb b 32 || N.eqb b 10 || N.eqb b 13 || N.eqb b 9.

(* json.loads(text): a complete document followed by whitespace only *)
Definition json_doc {A : Type} (p : parser A) (bs : bytes) : option A :=
  match p bs with
  | Ok (a, r) => if forallb is_ws r then Some a else None
  | Err => None
  end.

(* ---------------------------------------------------------------- labels (variables.py + json) *)

Inductive label := LInt (z : Z) | LStr (s : bytes) | LTup (l : list label).

Definition pr_Z (z : Z) : bytes :=
  match z with
  | Z0 => [48%N]
  | Zpos p => dec_N (Npos p)
  | Zneg p => 45%N :: dec_N (Npos p)
  end.

(* json.dumps string escapes on printable ASCII: only the double quote and the backslash need one *)
Fixpoint esc (s : bytes) : bytes :=
  match s with
  | [] => []
  | c :: r => if N.eqb c 34 || N.eqb c 92 then 92%N :: c :: esc r else c :: esc r
  end.

Definition SEP : bytes := [44%N; 32%N].     (* ", " *)

(* ", ".join(...) *)
Definition pr_items (pl : label -> bytes) : list label -> bytes :=
  fix go (ls : list label) : bytes :=
    match ls with
    | [] => []
    | [x] => pl x
    | x :: r => pl x ++ SEP ++ go r
    end.

Fixpoint pr_label (l : label) : bytes :=
  match l with
  | LInt z => pr_Z z
  | LStr s => 34%N :: esc s ++ [34%N]
  | LTup ls => 91%N :: pr_items pr_label ls ++ [93%N]
  end.

Definition pr_labels (ls : list label) : bytes := pr_label (LTup ls).

(* string body up to the closing quote; only the escapes the printer emits *)
Fixpoint p_str (bs : bytes) (acc : bytes) : res (bytes * bytes) :=
  match bs with
  | [] => Err
  | c :: r =>
      if N.eqb c 34 then Ok (List.rev acc, r)
      else if N.eqb c 92 then
        match r with
        | d :: r' => if N.eqb d 34 || N.eqb d 92 then p_str r' (d :: acc) else Err
        | [] => Err
        end
      else if (N.ltb c 32) || (N.leb 127 c) then Err
      else p_str r (c :: acc)
  end.

Definition p_int_digits (neg : bool) (bs : bytes) : res (label * bytes) :=
  match p_uint bs with
  | (Nil, _) => Err
  | (u, r') => Ok (LInt (if neg then Z.opp (Z.of_N (N.of_uint u)) else Z.of_N (N.of_uint u)), r')
  end.

Definition p_int (bs : bytes) : res (label * bytes) :=
  match bs with
  | b :: r => if N.eqb b 45 then p_int_digits true r else p_int_digits false bs
  | [] => Err
  end.

(* the items of a non-empty array after the opening bracket; `pl` parses one element; g is fuel for the loop *)
Fixpoint p_items (pl : bytes -> res (label * bytes)) (g : nat) (bs : bytes) (acc : list label)
  : res (label * bytes) :=
  match g with
  | 0 => Err
  | S g' =>
      match pl bs with
      | Err => Err
      | Ok (x, r1) =>
          match r1 with
          | 44%N :: 32%N :: r2 => p_items pl g' r2 (x :: acc)
          | 93%N :: r2 => Ok (LTup (List.rev (x :: acc)), r2)
          | _ => Err
          end
      end
  end.

Fixpoint p_label (fuel : nat) (bs : bytes) : res (label * bytes) :=
  match fuel with
  | 0 => Err
  | S f =>
      match bs with
      | [] => Err
      | b :: r =>
          if N.eqb b 34 then match p_str r [] with Ok (s, r') => Ok (LStr s, r') | Err => Err end
          else if N.eqb b 91 then
            match r with
            | c :: r' => if N.eqb c 93 then Ok (LTup [], r') else p_items (p_label f) (length r) r []
            | [] => Err
            end
          else p_int bs
      end
  end.

(* a JSON array of labels (VARS payload, `variables` of a v1 header, variable_labels.json) *)
Definition p_labels : parser (list label) :=
  fun bs => match p_label (S (length bs)) bs with
            | Ok (LTup ls, r) => Ok (ls, r)
            | _ => Err
            end.

Definition labels_dec (bs : bytes) : option (list label) := json_doc p_labels bs.

(* ---------------------------------------------------------------- BQM files *)

Inductive dtype := F32 | F64.
Definition dwidth (d : dtype) : nat := match d with F32 => 4 | F64 => 8 end.
Inductive bvartype := BSPIN | BBINARY.

(* the `variables` header entry: a bool in v2, the label list in v1 *)
Inductive hvars := HVbool (b : bool) | HVlist (l : list label).

Record bqmhdr := mkBqmHdr {
  h_dtype : dtype; h_n : N; h_m : N; h_vars : hvars; h_vt : bvartype }.

Definition L (s : string) : bytes := s2b s.

Definition js_dtype (d : dtype) : bytes := match d with F32 => L "float32" | F64 => L "float64" end.
Definition js_bool (b : bool) : bytes := if b then L "true" else L "false".
Definition js_bvt (v : bvartype) : bytes := match v with BSPIN => L "SPIN" | BBINARY => L "BINARY" end.

Definition js_hvars (v : hvars) : bytes :=
  match v with HVbool b => js_bool b | HVlist l => pr_labels l end.

Definition bqm_json (h : bqmhdr) : bytes :=
  L "{""dtype"": """ ++ js_dtype (h_dtype h)
  ++ L """, ""itype"": ""int32"", ""ntype"": ""int32"", ""shape"": [" ++ dec_N (h_n h) ++ L ", " ++ dec_N (h_m h)
  ++ L "], ""type"": ""BinaryQuadraticModel"", ""variables"": " ++ js_hvars (h_vars h)
  ++ L ", ""vartype"": """ ++ js_bvt (h_vt h) ++ L """}".

Definition p_dtype : parser dtype := penum [(L "float32", F32); (L "float64", F64)].
Definition p_bvt : parser bvartype := penum [(L "SPIN", BSPIN); (L "BINARY", BBINARY)].
Definition p_hvars : parser hvars :=
  fun bs => match bs with
            | 91%N :: _ => match p_labels bs with Ok (l, r) => Ok (HVlist l, r) | Err => Err end
            | _ => penum [(L "true", HVbool true); (L "false", HVbool false)] bs
            end.

Definition p_bqm_json : parser bqmhdr :=
  bind (lit (L "{""dtype"": """)) (fun _ =>
  bind p_dtype (fun d =>
  bind (lit (L """, ""itype"": ""int32"", ""ntype"": ""int32"", ""shape"": [")) (fun _ =>
  bind (p_N_until 44) (fun n =>
  bind (lit (L " ")) (fun _ =>
  bind (p_N_until 93) (fun m =>
  bind (lit (L ", ""type"": ""BinaryQuadraticModel"", ""variables"": ")) (fun _ =>
  bind p_hvars (fun v =>
  bind (lit (L ", ""vartype"": """)) (fun _ =>
  bind p_bvt (fun vt =>
  bind (lit (L """}")) (fun _ =>
  ret (mkBqmHdr d n m v vt)))))))))))).

Definition bqm_jd (bs : bytes) : option bqmhdr := json_doc p_bqm_json bs.

(* the file-level content of a BQM file (what to_file writes, what from_file reads) *)
Record bqmfile := mkBqmFile {
  bf_version : N * N;
  bf_dtype : dtype;
  bf_vt : bvartype;
  bf_m : N;                               (* num_interactions *)
  bf_off : bytes;
  bf_lin : list bytes;
  bf_adj : list (list (N * bytes));       (* full neighbourhood of every variable, (outvar, bias) *)
  bf_labels : option (list label)         (* None: index-labelled (v2: no VARS section; v1: `[]`/range not relabelled) *)
}.

Fixpoint psums (acc : N) (ds : list nat) : list N :=
  match ds with
  | [] => []
  | d :: r => acc :: psums (acc + N.of_nat d) r
  end.

Definition bqm_body (lin : list bytes) (adj : list (list (N * bytes))) (off : bytes) : bytes :=
  off
  ++ List.concat (map (enc_rec IDX_BYTES) (combine (psums 0 (map (@length _) adj)) lin))
  ++ List.concat (map (fun nb => List.concat (map (enc_rec IDX_BYTES) nb)) adj).

Definition bqm_hvars (f : bqmfile) : hvars :=
  if vlt (bf_version f) BQM_LABELS_IN_HEADER_BELOW
  then HVlist (match bf_labels f with Some l => l | None => [] end)
  else HVbool (match bf_labels f with Some _ => true | None => false end).

Definition bqm_hdr (f : bqmfile) : bqmhdr :=
  mkBqmHdr (bf_dtype f) (N.of_nat (length (bf_lin f))) (bf_m f) (bqm_hvars f) (bf_vt f).

Definition bqm_encode (f : bqmfile) : bytes :=
  header BQM_PREFIX (bf_version f) (bqm_json (bqm_hdr f))
  ++ bqm_body (bf_lin f) (bf_adj f) (bf_off f)
  ++ (if vlt (bf_version f) BQM_LABELS_IN_HEADER_BELOW then []
      else match bf_labels f with
           | Some l => section MAGIC_VARS NLEN_VARS (pr_labels l)
           | None => []
           end).

(* degrees from the neighbourhood start indices: nidx[v+1]-nidx[v], last: 2*m - nidx[v];
   a negative degree makes file.read()/frombuffer disagree on the count -> ValueError *)
Fixpoint degrees (nid : list N) (total : N) : option (list nat) :=
  match nid with
  | [] => Some []
  | a :: r =>
      let nxt := match r with b :: _ => b | [] => total end in
      if (nxt <? a)%N then None else
      match degrees r total with
      | Some ds => Some (N.to_nat (nxt - a) :: ds)
      | None => None
      end
  end.

Fixpoint read_neighs (degs : list nat) (sz : nat) : parser (list (list bytes)) :=
  match degs with
  | [] => ret []
  | d :: r => bind (chunks d sz) (fun nb => bind (read_neighs r sz) (fun nbs => ret (nb :: nbs)))
  end.

Definition dec_bqm_body (w : nat) (n : nat) (m : N)
  : parser (bytes * list bytes * list (list (N * bytes))) :=
  bind (take w) (fun off =>
  match n with
  | 0 => ret (off, [], [])
  | _ =>
    bind (chunks n (IDX_BYTES + w)) (fun lrecs =>
      let l := map (dec_rec IDX_BYTES) lrecs in
      match degrees (map fst l) (2 * m) with
      | None => fail
      | Some degs =>
          bind (read_neighs degs (IDX_BYTES + w)) (fun adjc =>
            ret (off, map snd l, map (map (dec_rec IDX_BYTES)) adjc))
      end)
  end).

Definition hvars_truthy (v : hvars) : bool :=
  match v with HVbool b => b | HVlist [] => false | HVlist _ => true end.

Definition dec_bqm_labels (v : N * N) (hv : hvars) : parser (option (list label)) :=
  if hvars_truthy hv then
    if vlt v BQM_LABELS_IN_HEADER_BELOW then
      match hv with HVlist l => ret (Some l) | HVbool _ => fail end   (* iterating `True`: TypeError *)
    else bind (dec_tsection MAGIC_VARS NLEN_VARS labels_dec) (fun l => ret (Some l))
  else ret None.

Definition bqm_decode : parser bqmfile :=
  bind (dec_header BQM_PREFIX bqm_jd) (fun vh =>
    let v := fst vh in let h := snd vh in
    if vle BQM_REJECT_FROM v then fail else
    bind (dec_bqm_body (dwidth (h_dtype h)) (N.to_nat (h_n h)) (h_m h)) (fun b =>
      match b with (off, lin, adj) =>
        bind (dec_bqm_labels v (h_vars h)) (fun labs =>
          ret (mkBqmFile v (h_dtype h) (h_vt h) (h_m h) off lin adj labs))
      end)).

(* ---------------------------------------------------------------- QM files *)

Record qmhdr := mkQmHdr { q_dtype : dtype; q_n : N; q_m : N; q_vars : bool }.

Definition qm_json (h : qmhdr) : bytes :=
  L "{""dtype"": """ ++ js_dtype (q_dtype h)
  ++ L """, ""itype"": ""int32"", ""shape"": [" ++ dec_N (q_n h) ++ L ", " ++ dec_N (q_m h)
  ++ L "], ""type"": ""QuadraticModel"", ""variables"": " ++ js_bool (q_vars h) ++ L "}".

Definition p_bool : parser bool := penum [(L "true", true); (L "false", false)].

Definition p_qm_json : parser qmhdr :=
  bind (lit (L "{""dtype"": """)) (fun _ =>
  bind p_dtype (fun d =>
  bind (lit (L """, ""itype"": ""int32"", ""shape"": [")) (fun _ =>
  bind (p_N_until 44) (fun n =>
  bind (lit (L " ")) (fun _ =>
  bind (p_N_until 93) (fun m =>
  bind (lit (L ", ""type"": ""QuadraticModel"", ""variables"": ")) (fun _ =>
  bind p_bool (fun v =>
  bind (lit (L "}")) (fun _ =>
  ret (mkQmHdr d n m v)))))))))).

Definition qm_jd (bs : bytes) : option qmhdr := json_doc p_qm_json bs.

Record qmfile := mkQmFile {
  qf_dtype : dtype;
  qf_m : N;
  qf_vinfo : list (N * (bytes * bytes));      (* vartype code (int8), lower bound, upper bound *)
  qf_off : bytes;
  qf_lin : list bytes;
  qf_neig : list (list (N * bytes));          (* lower triangle incl. self loop of every variable *)
  qf_labels : option (list label)
}.

Definition enc_vinfo (v : N * (bytes * bytes)) : bytes := fst v :: fst (snd v) ++ snd (snd v).
Definition dec_vinfo (w : nat) (c : bytes) : N * (bytes * bytes) :=
  (hd 0%N c, (firstn w (tl c), skipn w (tl c))).

Definition neig_payload (nb : list (N * bytes)) : bytes :=
  le_enc NEIG_COUNT_BYTES (N.of_nat (length nb)) ++ List.concat (map (enc_rec IDX_BYTES) nb).

Definition qm_hdr (f : qmfile) : qmhdr :=
  mkQmHdr (qf_dtype f) (N.of_nat (length (qf_lin f))) (qf_m f)
          (match qf_labels f with Some _ => true | None => false end).

Definition qm_encode (f : qmfile) : bytes :=
  header QM_PREFIX QM_WRITE_VERSION (qm_json (qm_hdr f))
  ++ section MAGIC_VTYP NLEN_VTYP (List.concat (map enc_vinfo (qf_vinfo f)))
  ++ section MAGIC_OFFS NLEN_OFFS (qf_off f)
  ++ section MAGIC_LINB NLEN_LINB (List.concat (qf_lin f))
  ++ List.concat (map (fun nb => section MAGIC_NEIG NLEN_NEIG (neig_payload nb)) (qf_neig f))
  ++ match qf_labels f with
     | Some l => section MAGIC_VARS NLEN_VARS (pr_labels l)
     | None => []
     end.

Definition pd_take (w : nat) (p : bytes) : option bytes :=
  match take w p with Ok (b, _) => Some b | Err => None end.

(* NeighborhoodSection.loads_data + _ilower_triangle_load: '<q' count (struct.error when short),
   `count*itemsize > len(rest)` -> RuntimeError, a non-positive count loads nothing *)
Definition pd_neig (w : nat) (p : bytes) : option (list (N * bytes)) :=
  if length p <? NEIG_COUNT_BYTES then None else
  let c := le_dec (firstn NEIG_COUNT_BYTES p) in
  let rest := skipn NEIG_COUNT_BYTES p in
  if (N.shiftl 1 63 <=? c)%N then Some [] else          (* negative int64 *)
  if (N.of_nat (length rest) <? c * N.of_nat (IDX_BYTES + w))%N then None else
  match pd_chunks (N.to_nat c) (IDX_BYTES + w) rest with
  | Some cs => Some (map (dec_rec IDX_BYTES) cs)
  | None => None
  end.

Fixpoint rep_parser {A : Type} (n : nat) (p : parser A) : parser (list A) :=
  match n with
  | 0 => ret []
  | S n' => bind p (fun a => bind (rep_parser n' p) (fun r => ret (a :: r)))
  end.

(* from_file with the header dictionary parsed by `jd` *)
Definition qm_decode_with (jd : bytes -> option qmhdr) : parser qmfile :=
  bind (dec_header QM_PREFIX jd) (fun vh =>
    let v := fst vh in let h := snd vh in
    if vlt QM_REJECT_ABOVE v then fail else
    let w := dwidth (q_dtype h) in
    let n := N.to_nat (q_n h) in
    bind (dec_tsection MAGIC_VTYP NLEN_VTYP (pd_chunks n (1 + w + w))) (fun vi =>
    bind (dec_tsection MAGIC_OFFS NLEN_OFFS (pd_take w)) (fun off =>
    bind (dec_tsection MAGIC_LINB NLEN_LINB (pd_chunks n w)) (fun lin =>
    bind (rep_parser n (dec_tsection MAGIC_NEIG NLEN_NEIG (pd_neig w))) (fun neig =>
    bind (if q_vars h then bind (dec_tsection MAGIC_VARS NLEN_VARS labels_dec) (fun l => ret (Some l))
          else ret None) (fun labs =>
    ret (mkQmFile (q_dtype h) (q_m h) (map (dec_vinfo w) vi) off lin neig labs))))))).

Definition qm_decode : parser qmfile := qm_decode_with qm_jd.

(* ---------------------------------------------------------------- expression members of a CQM zip *)

Record exprfile := mkExprFile {
  ef_dtype : dtype;
  ef_type : bytes;                          (* class name written into the header, e.g. ObjectiveView *)
  ef_idx : list N;                          (* index of each variable in the parent model *)
  ef_off : bytes;
  ef_lin : list bytes;
  ef_quad : list (N * (N * bytes))          (* (u, v, bias) *)
}.

Definition enc_q (e : N * (N * bytes)) : bytes :=
  le_enc IDX_BYTES (fst e) ++ le_enc IDX_BYTES (fst (snd e)) ++ snd (snd e).
Definition dec_q (c : bytes) : N * (N * bytes) :=
  (le_dec (firstn IDX_BYTES c), (le_dec (firstn IDX_BYTES (skipn IDX_BYTES c)), skipn (IDX_BYTES + IDX_BYTES) c)).

Definition expr_json (f : exprfile) : bytes :=
  L "{""dtype"": """ ++ js_dtype (ef_dtype f)
  ++ L """, ""itype"": ""int32"", ""shape"": [" ++ dec_N (N.of_nat (length (ef_idx f))) ++ L ", "
  ++ dec_N (N.of_nat (length (ef_quad f)))
  ++ L "], ""type"": """ ++ ef_type f ++ L """}".

Definition expr_encode (f : exprfile) : bytes :=
  header EXPR_PREFIX CQM_WRITE_VERSION (expr_json f)
  ++ section MAGIC_INDX NLEN_INDX (List.concat (map (le_enc IDX_BYTES) (ef_idx f)))
  ++ section MAGIC_OFFS NLEN_OFFS (ef_off f)
  ++ section MAGIC_LINB NLEN_LINB (List.concat (ef_lin f))
  ++ section MAGIC_QUAD NLEN_QUAD (List.concat (map enc_q (ef_quad f))).

Definition p_name : parser bytes :=       (* identifier characters up to the closing quote *)
  fun bs => match p_str bs [] with Ok (s, r) => Ok (s, r) | Err => Err end.

Definition p_expr_json : parser (dtype * N * N * bytes) :=
  bind (lit (L "{""dtype"": """)) (fun _ =>
  bind p_dtype (fun d =>
  bind (lit (L """, ""itype"": ""int32"", ""shape"": [")) (fun _ =>
  bind (p_N_until 44) (fun n =>
  bind (lit (L " ")) (fun _ =>
  bind (p_N_until 93) (fun m =>
  bind (lit (L ", ""type"": """)) (fun _ =>
  bind p_name (fun t =>
  bind (lit (L "}")) (fun _ =>
  ret (d, n, m, t)))))))))).

Definition expr_decode : parser exprfile :=
  bind (dec_header EXPR_PREFIX (json_doc p_expr_json)) (fun vh =>
    match snd vh with (d, n, m, t) =>
    let w := dwidth d in
    bind (dec_tsection MAGIC_INDX NLEN_INDX (pd_chunks (N.to_nat n) IDX_BYTES)) (fun idx =>
    bind (dec_tsection MAGIC_OFFS NLEN_OFFS (pd_take w)) (fun off =>
    bind (dec_tsection MAGIC_LINB NLEN_LINB (pd_chunks (N.to_nat n) w)) (fun lin =>
    bind (dec_tsection MAGIC_QUAD NLEN_QUAD (pd_chunks (N.to_nat m) (IDX_BYTES + IDX_BYTES + w))) (fun q =>
    ret (mkExprFile d t (map le_dec idx) off lin (map dec_q q))))))
    end).

(* ---------------------------------------------------------------- whole-file entry points *)

Definition run {A : Type} (p : parser A) (bs : bytes) : res A :=
  match p bs with Ok (a, _) => Ok a | Err => Err end.
