(* Higher-order polynomials: a bag of monomials (list of variables, coefficient).
   Used by C01 (BinaryPolynomial energies), C02 (to_spin/to_binary), C03
   (polynomial fixing), C07 and C15.  Executable; no proofs here. *)
From Coq Require Import List ZArith QArith Qcanon Bool Arith.
From Dimod Require Import Base.Util Model.Poly.
Import ListNotations.
Open Scope Qc_scope.

Definition mono := (list label * Qc)%type.
Definition hpoly := list mono.

Fixpoint qprod (l : list Qc) : Qc :=
  match l with [] => 1 | x :: xs => x * qprod xs end.

Definition mono_val (s : sample) (t : mono) : Qc := snd t * qprod (map s (fst t)).
Definition henergy (p : hpoly) (s : sample) : Qc := qsum (map (mono_val s) p).

Definition lookup (fs : list (label * Qc)) (v : label) : option Qc :=
  match find (fun f => (fst f =? v)%nat) fs with Some f => Some (snd f) | None => None end.

Definition override (fs : list (label * Qc)) (s : sample) : sample :=
  fun v => match lookup fs v with Some a => a | None => s v end.

(* fixing: each fixed variable of a monomial is multiplied into the coefficient *)
Fixpoint fix_vars_in (fs : list (label * Qc)) (vs : list label) : (list label * Qc) :=
  match vs with
  | [] => ([], 1)
  | v :: vs' =>
      let '(rest, k) := fix_vars_in fs vs' in
      match lookup fs v with
      | Some a => (rest, a * k)
      | None => (v :: rest, k)
      end
  end.

Definition hfix_mono (fs : list (label * Qc)) (t : mono) : mono :=
  let '(rest, k) := fix_vars_in fs (fst t) in (rest, snd t * k).

Definition hfix (fs : list (label * Qc)) (p : hpoly) : hpoly := map (hfix_mono fs) p.

(* coefficient of a monomial given as a sorted duplicate-free variable list *)
Fixpoint insert_sorted (v : nat) (l : list nat) : list nat :=
  match l with
  | [] => [v]
  | x :: xs => if (v <=? x)%nat then v :: l else x :: insert_sorted v xs
  end.
Definition sort_nats (l : list nat) : list nat := fold_right insert_sorted [] l.

Definition nats_eqb (a b : list nat) : bool := list_eqb Nat.eqb a b.

Definition hcoeff (p : hpoly) (key : list nat) : Qc :=
  qsum (map snd (filter (fun t => nats_eqb (sort_nats (fst t)) key) p)).

Definition hkeys (p : hpoly) : list (list nat) := map (fun t => sort_nats (fst t)) p.

Definition hpoly_eqb (a b : hpoly) : bool :=
  forallb (fun k => Qc_eqb (hcoeff a k) (hcoeff b k)) (hkeys a ++ hkeys b).

(* spin <-> binary for monomials (polynomial.py to_binary / to_spin):
   s = 2x - 1 expands a product over the powerset of its variables *)
Fixpoint expand_affine (m c : Qc) (vs : list label) : list (list label * Qc) :=
  match vs with
  | [] => [([], 1)]
  | v :: vs' =>
      let r := expand_affine m c vs' in
      map (fun t => (v :: fst t, m * snd t)) r ++ map (fun t => (fst t, c * snd t)) r
  end.

Definition hsubst_all_mono (m c : Qc) (t : mono) : hpoly :=
  map (fun u => (fst u, snd t * snd u)) (expand_affine m c (fst t)).

Definition hsubst_all (m c : Qc) (p : hpoly) : hpoly := flat_map (hsubst_all_mono m c) p.

Definition h_spin_to_binary (p : hpoly) : hpoly := hsubst_all two (- (1)) p.
Definition h_binary_to_spin (p : hpoly) : hpoly := hsubst_all half half p.

(* reduction of repeated variables: x*x = x (binary) ; s*s = 1 (spin) *)
Fixpoint count_occ_nat (v : nat) (l : list nat) : nat :=
  match l with [] => 0 | x :: xs => (if (x =? v)%nat then 1 else 0) + count_occ_nat v xs end.
Fixpoint dedup (l : list nat) : list nat :=
  match l with [] => [] | x :: xs => if existsb (Nat.eqb x) xs then dedup xs else x :: dedup xs end.
Definition binary_reduce_vars (vs : list label) : list label := dedup vs.
Definition spin_reduce_vars (vs : list label) : list label :=
  filter (fun v => Nat.odd (count_occ_nat v vs)) (dedup vs).
