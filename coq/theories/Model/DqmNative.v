(* C20 - the native state of cyDiscreteQuadraticModel (dimod/discrete/cydiscrete_quadratic_model.pyx):
     cppbqm        a BinaryQuadraticModel<double,int32> over CASES (Model/Adj.v, all BINARY)
     case_starts_  one entry per variable + the total number of cases
     adj_          per variable the sorted vector of neighbouring VARIABLES
   and the operations reachable from Python, written the way the .pyx writes them (lower_bound + insert,
   the std::sort + in-place unique of add_linear_equality_constraint, the "finally fix the adjacency" loop,
   the rebuild from the case neighbourhoods of _from_numpy_vectors, the walks of get_quadratic / energies /
   _into_numpy_vectors).  Executable; no proofs here. *)
From Coq Require Import List ZArith QArith Qcanon Bool Arith.
From Dimod Require Import Base.Util Model.Poly Model.Adj Model.AdjMore.
Import ListNotations.
Open Scope Qc_scope.

Record dqm := mkD { d_b : qm; d_st : list nat; d_adj : list (list nat) }.

Definition d_empty : dqm := mkD empty_qm [0%nat] [].
Definition d_nvars (d : dqm) : nat := length (d_adj d).
Definition d_start (d : dqm) (v : nat) : nat := nth v (d_st d) 0%nat.
Definition d_ncases (d : dqm) (v : nat) : nat := (d_start d (S v) - d_start d v)%nat.
Definition d_nb (d : dqm) (v : nat) : list nat := nth v (d_adj d) [].

(* std::lower_bound(adj_[u].begin(), adj_[u].end(), x) followed by `== end or *low != x` *)
Fixpoint lb_has (x : nat) (l : list nat) : bool :=
  match l with
  | [] => false
  | y :: r => if (y <? x)%nat then lb_has x r else (y =? x)%nat
  end.

(* vector::insert(lower_bound(begin, end, x), x): no look at what is there *)
Fixpoint lb_ins (x : nat) (l : list nat) : list nat :=
  match l with
  | [] => [x]
  | y :: r => if (y <? x)%nat then y :: lb_ins x r else x :: l
  end.

(* "track in adjacency" of set_quadratic / set_quadratic_case *)
Definition track (u v : nat) (a : list (list nat)) : list (list nat) :=
  if lb_has v (nth u a []) then a
  else upd_nth v (lb_ins u) (upd_nth u (lb_ins v) a).

Definition with_b (d : dqm) (b : qm) : dqm := mkD b (d_st d) (d_adj d).

(* BinaryQuadraticModel::set_quadratic on two different cases never throws *)
Definition bset_quadratic (cu cv : nat) (b : Qc) (m : qm) : qm :=
  match set_quadratic cu cv b m with Some m' => m' | None => m end.

(* ---------- add_linear_equality_constraint ---------- *)
Definition lterm3 := (nat * nat * Qc)%type.      (* variable, GLOBAL case index, bias *)
Definition t_var (t : lterm3) : nat := fst (fst t).
Definition t_case (t : lterm3) : nat := snd (fst t).
Definition t_bias (t : lterm3) : Qc := snd t.

(* std::sort by case (equal cases are summed afterwards, so their relative order is immaterial) *)
Fixpoint ins_term (t : lterm3) (l : list lterm3) : list lterm3 :=
  match l with
  | [] => [t]
  | y :: r => if (t_case t <? t_case y)%nat then t :: l else y :: ins_term t r
  end.
Definition sort_terms (l : list lterm3) : list lterm3 := fold_left (fun acc t => ins_term t acc) l [].

(* the in-place "unique with sum" loop: result keeps variable/case of the first of a run *)
Fixpoint sum_dups (cur : lterm3) (l : list lterm3) : list lterm3 :=
  match l with
  | [] => [cur]
  | t :: r => if (t_case cur =? t_case t)%nat then sum_dups (t_var cur, t_case cur, t_bias cur + t_bias t) r
              else cur :: sum_dups t r
  end.
Definition merge_dups (l : list lterm3) : list lterm3 :=
  match l with [] => [] | t :: r => sum_dups t r end.

(* for i: set_linear(cu, lbias + linear(cu)); for j > i with another variable: add_quadratic(cu, cv, 2 L bu bv) *)
Fixpoint eq_loops (lagr const : Qc) (terms : list lterm3) (m : qm) : qm :=
  match terms with
  | [] => m
  | t :: rest =>
      let lbias := lagr * t_bias t * (two * const + t_bias t) in
      let m1 := set_linear (t_case t) (lbias + linear m (t_case t)) m in
      let m2 := fold_left (fun acc s => if (t_var t =? t_var s)%nat then acc
                                        else add_quadratic (t_case t) (t_case s) (two * lagr * t_bias t * t_bias s) acc)
                          rest m1 in
      eq_loops lagr const rest m2
  end.

(* unordered_set of the term variables, then std::sort *)
Fixpoint ins_uniq (x : nat) (l : list nat) : list nat :=
  match l with
  | [] => [x]
  | y :: r => if (x <? y)%nat then x :: l else if (x =? y)%nat then l else y :: ins_uniq x r
  end.
Definition term_vars (terms : list lterm3) : list nat := fold_left (fun acc t => ins_uniq (t_var t) acc) terms [].

(* the while loop over vit (sorted constraint variables) and nit (adj_[v]); fuel = an upper bound on its steps *)
Fixpoint fix_walk (fuel v : nat) (vars adj : list nat) : list nat :=
  match fuel with
  | O => adj
  | S f =>
      match vars with
      | [] => adj
      | x :: vr =>
          if (x =? v)%nat then fix_walk f v vr adj
          else match adj with
               | [] => x :: fix_walk f v vr []
               | n :: ar => if (x <? n)%nat then x :: fix_walk f v vr adj
                            else if (n <? x)%nat then n :: fix_walk f v vars ar
                            else n :: fix_walk f v vr ar
               end
      end
  end.
Definition fix_adjacency (vars : list nat) (a : list (list nat)) : list (list nat) :=
  fold_left (fun acc v => upd_nth v (fun adj => fix_walk (S (length vars + length adj)) v vars adj) acc) vars a.

(* ---------- _from_numpy_vectors(to_numpy_vectors) ---------- *)
(* while ci >= case_starts_[u+1]: u += 1, as a function of the case *)
Fixpoint var_of_from (st : list nat) (u : nat) (ci : nat) : nat :=
  match st with
  | [] => u
  | e :: r => if (e <=? ci)%nat then var_of_from r (S u) ci else u
  end.
Definition var_of (d : dqm) (ci : nat) : nat := var_of_from (tl (d_st d)) 0%nat ci.

(* _into_numpy_vectors: for ci: entries of the neighbourhood below ci, in stored order, stopping at the first one >= ci *)
Fixpoint lower_prefix (ci : nat) (n : nbh) : list (nat * nat * Qc) :=
  match n with
  | [] => []
  | (w, b) :: r => if (w <? ci)%nat then (ci, w, b) :: lower_prefix ci r else []
  end.
Definition to_coo (m : qm) : list (nat * nat * Qc) :=
  flat_map (fun ci => lower_prefix ci (nb m ci)) (seq 0 (nvars m)).

Definition adj_from_cases (d : dqm) (m : qm) : list (list nat) :=
  map (fun u => sort_nat (nodup Nat.eq_dec
                   (flat_map (fun ci => map (fun e => var_of d (fst e)) (nb m ci))
                             (seq (d_start d u) (d_ncases d u)))))
      (seq 0 (d_nvars d)).

Definition round_trip (d : dqm) : dqm :=
  let m0 := add_quadratic_coo_bqm BINARY (to_coo (d_b d)) empty_qm in
  let nc := nvars (d_b d) in
  let m1 := if (nvars m0 <? nc)%nat then resize BINARY nc m0 else m0 in
  let m2 := fold_left (fun acc ci => set_linear ci (linear (d_b d) ci) acc) (seq 0 nc) m1 in
  let m3 := set_offset (off (d_b d)) m2 in
  mkD m3 (d_st d) (adj_from_cases d m3).

(* ---------- the operations ---------- *)
Inductive dop :=
| DAddVar (k : nat)
| DSetLinCase (v c : nat) (b : Qc)
| DSetLin (v : nat) (bs : list Qc)
| DSetQuadCase (u cu v cv : nat) (b : Qc)
| DSetQuadMap (u v : nat) (l : list (nat * nat * Qc))        (* dict items in iteration order *)
| DSetQuadDense (u v : nat) (dd : list Qc)                   (* row major; zero entries are skipped *)
| DEqCon (terms : list lterm3) (lagr const : Qc)             (* terms: variable, LOCAL case, bias *)
| DSetOffset (b : Qc)
| DCopy
| DRoundTrip.

Definition cs (d : dqm) (v c : nat) : nat := (d_start d v + c)%nat.

Definition dop_ok (d : dqm) (o : dop) : bool :=
  let n := d_nvars d in
  match o with
  | DAddVar k => (0 <? k)%nat
  | DSetLinCase v c _ => (v <? n)%nat && (c <? d_ncases d v)%nat
  | DSetLin v bs => (v <? n)%nat && (length bs =? d_ncases d v)%nat
  | DSetQuadCase u cu v cv _ =>
      (u <? n)%nat && (v <? n)%nat && negb (u =? v)%nat && (cu <? d_ncases d u)%nat && (cv <? d_ncases d v)%nat
  | DSetQuadMap u v l =>
      (u <? n)%nat && (v <? n)%nat && negb (u =? v)%nat
      && forallb (fun t => (fst (fst t) <? d_ncases d u)%nat && (snd (fst t) <? d_ncases d v)%nat) l
  | DSetQuadDense u v dd =>
      (u <? n)%nat && (v <? n)%nat && negb (u =? v)%nat && (length dd =? d_ncases d u * d_ncases d v)%nat
  | DEqCon terms _ _ => forallb (fun t => (t_var t <? n)%nat && (t_case t <? d_ncases d (t_var t))%nat) terms
  | DSetOffset _ | DCopy | DRoundTrip => true
  end.

Definition dense_items (d : dqm) (u v : nat) (dd : list Qc) : list (nat * nat * Qc) :=
  let nv := d_ncases d v in
  filter (fun t => negb (Qc_eqb (snd t) 0))
         (flat_map (fun i => map (fun j => (i, j, nth (i * nv + j) dd 0)) (seq 0 nv)) (seq 0 (d_ncases d u))).

Definition set_items (d : dqm) (u v : nat) (l : list (nat * nat * Qc)) : qm :=
  fold_left (fun acc t => bset_quadratic (cs d u (fst (fst t))) (cs d v (snd (fst t))) (snd t) acc) l (d_b d).

Definition dstep (d : dqm) (o : dop) : dqm :=
  match o with
  | DAddVar k =>
      let b' := fold_left (fun acc _ => add_variable BINARY acc) (seq 0 k) (d_b d) in
      mkD b' (d_st d ++ [nvars b']) (d_adj d ++ [[]])
  | DSetLinCase v c b => with_b d (set_linear (cs d v c) b (d_b d))
  | DSetLin v bs =>
      with_b d (fold_left (fun acc cb => set_linear (cs d v (fst cb)) (snd cb) acc)
                          (combine (seq 0 (length bs)) bs) (d_b d))
  | DSetQuadCase u cu v cv b =>
      mkD (bset_quadratic (cs d u cu) (cs d v cv) b (d_b d)) (d_st d) (track u v (d_adj d))
  | DSetQuadMap u v l => mkD (set_items d u v l) (d_st d) (track u v (d_adj d))
  | DSetQuadDense u v dd => mkD (set_items d u v (dense_items d u v dd)) (d_st d) (track u v (d_adj d))
  | DEqCon terms lagr const =>
      let g := map (fun t => (t_var t, cs d (t_var t) (t_case t), t_bias t)) terms in
      let m0 := Adj.add_offset (lagr * const * const) (d_b d) in
      let ts := merge_dups (sort_terms g) in
      mkD (eq_loops lagr const ts m0) (d_st d) (fix_adjacency (term_vars ts) (d_adj d))
  | DSetOffset b => with_b d (set_offset b (d_b d))
  | DCopy => d
  | DRoundTrip => round_trip d
  end.

(* ---------- reads ---------- *)
(* get_quadratic(u, v): None = ValueError("there is no interaction ...") *)
Fixpoint span_from (lo hi : nat) (n : nbh) : nbh :=          (* neighborhood(ci, lo) walked while index < hi *)
  match n with
  | [] => []
  | (w, b) :: r => if (w <? lo)%nat then span_from lo hi r
                   else (fix take (n : nbh) : nbh :=
                           match n with
                           | [] => []
                           | (w, b) :: r => if (w <? hi)%nat then (w, b) :: take r else []
                           end) n
  end.
Definition get_quadratic (d : dqm) (u v : nat) : option (list (nat * nat * Qc)) :=
  if lb_has v (d_nb d u) then
    Some (flat_map (fun cu => map (fun e => (cu, (fst e - d_start d v)%nat, snd e))
                                  (span_from (d_start d v) (d_start d (S v)) (nb (d_b d) (cs d u cu))))
                   (seq 0 (d_ncases d u)))
  else None.

(* energies: the `if v > u: break` walk over adj_[u] *)
Fixpoint below_or_eq (u : nat) (l : list nat) : list nat :=
  match l with
  | [] => []
  | v :: r => if (u <? v)%nat then [] else v :: below_or_eq u r
  end.
Definition d_energy (d : dqm) (s : list nat) : Qc :=
  fold_left (fun e u =>
               let cu := cs d u (nth u s 0%nat) in
               fold_left (fun e' v => e' + quadratic (d_b d) cu (cs d v (nth v s 0%nat)))
                         (below_or_eq u (d_nb d u)) (e + linear (d_b d) cu))
            (seq 0 (d_nvars d)) (off (d_b d)).

(* ---------- the invariant ---------- *)
Fixpoint sorted_nat (l : list nat) : bool :=
  match l with
  | x :: ((y :: _) as r) => (x <? y)%nat && sorted_nat r
  | _ => true
  end.

Definition adj_wf_b (a : list (list nat)) : bool :=
  forallb (fun ul => sorted_nat (snd ul)
                     && forallb (fun v => (v <? length a)%nat && negb (v =? fst ul)%nat && lb_has (fst ul) (nth v a [])) (snd ul))
          (combine (seq 0 (length a)) a).

Fixpoint starts_ok (st : list nat) : bool :=      (* strictly increasing: every variable has at least one case *)
  match st with
  | x :: ((y :: _) as r) => (x <? y)%nat && starts_ok r
  | _ => true
  end.

Definition dinv_b (d : dqm) : bool :=
  inv_b (d_b d)
  && forallb (vartype_eqb BINARY) (vts (d_b d))
  && (length (d_st d) =? S (d_nvars d))%nat
  && (hd 1%nat (d_st d) =? 0)%nat && starts_ok (d_st d) && (last (d_st d) 0%nat =? nvars (d_b d))%nat
  && adj_wf_b (d_adj d)
  (* every case interaction joins two different variables that list each other *)
  && forallb (fun ci => forallb (fun e => let u := var_of d ci in let v := var_of d (fst e) in
                                          negb (u =? v)%nat && lb_has v (d_nb d u)) (nb (d_b d) ci))
             (seq 0 (nvars (d_b d))).

Definition DInv (d : dqm) : Prop := dinv_b d = true.

Definition num_variable_interactions (d : dqm) : nat := Nat.div (fold_left (fun s l => s + length l)%nat (d_adj d) 0%nat) 2.
