(* C17 - random_kmcsat / random_nae3sat / random_2in4sat (generators/satisfiability.py):
   for every clause (k distinct variables with signs +-1) the interaction sign_u*sign_v is ADDED for
   every pair of its literals.  Which clauses are drawn is numpy's business (the worker replays the
   draws); the model is the assembly.  Executable; no proofs here. *)
From Coq Require Import List ZArith QArith Qcanon Bool Arith.
From Dimod Require Import Base.Util Model.Poly Model.Gates.
Import ListNotations.

Definition clause := list (label * Z).          (* (variable, sign) *)

Fixpoint clause_pairs (c : clause) : list (label * label * Z) :=
  match c with
  | [] => []
  | (u, su) :: r => map (fun t => (u, fst t, (su * snd t)%Z)) r ++ clause_pairs r
  end.

Definition sat_poly (cs : list clause) : poly :=
  mkPoly 0%Qc [] (map (fun t => (fst (fst t), snd (fst t), z2q (snd t))) (flat_map clause_pairs cs)).

(* literal values under a spin assignment, sums over Z *)
Definition lits (c : clause) (s : nat -> Z) : list Z := map (fun t => (snd t * s (fst t))%Z) c.
Fixpoint zsum (l : list Z) : Z := match l with [] => 0%Z | x :: r => (x + zsum r)%Z end.
Fixpoint zsumsq (l : list Z) : Z := match l with [] => 0%Z | x :: r => (x * x + zsumsq r)%Z end.
Fixpoint pair_sum (l : list Z) : Z :=
  match l with [] => 0%Z | x :: r => (x * zsum r + pair_sum r)%Z end.

Definition sat_energy (cs : list clause) (s : nat -> Z) : Z := zsum (map (fun c => pair_sum (lits c s)) cs).

Definition spin_of (bits : list bool) : nat -> Z := fun v => if nth v bits false then 1%Z else (-1)%Z.

Fixpoint nodupb_nat (l : list nat) : bool :=
  match l with [] => true | x :: r => negb (existsb (Nat.eqb x) r) && nodupb_nat r end.

Definition clause_ok (k : nat) (planted : bool) (c : clause) : bool :=
  (length c =? k)%nat
  && forallb (fun t => (Z.abs (snd t) =? 1)%Z) c
  && nodupb_nat (map fst c)
  && (negb planted || (Z.abs (zsum (map snd c)) <=? 1)%Z).
