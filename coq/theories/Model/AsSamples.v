(* C01: the samples_like normalisation dimod/sampleset.py : as_samples, every handler of the
   functools.singledispatch function, mirrored branch by branch.  Executable; no proofs here.

   The branch-selecting facts that the translator translators/as_samples_dispatch.py reads off the source
   (Gen/Gen_AsSamples.v: gen_registered, gen_mixed_sequence_to_iterator, gen_reindex_source,
   gen_mapping_labels_uses_copy) are USED below: a changed source changes this model.

   Arrays: an ndarray after _sample_array is always 2-d; it is kept as (shape[1], rows) with shape[0] = length rows
   (a list of rows alone would lose shape[1] of arrays without rows).  Values are exact rationals: the integer
   down-casting at the end of _sample_array and the dtype promotion of np.vstack do not change values. *)
From Coq Require Import List ZArith QArith Qcanon Bool Arith.
From Dimod Require Import Base.Util Model.Poly Model.Samples Gen.Gen_AsSamples.
Import ListNotations.
Open Scope Qc_scope.

(* ---------- results ---------- *)
Inductive aerr := ValueError | TypeError
                | Unmodelled.   (* the input is outside the inputs described by slike (numpy builds an object / string
                                   array out of it); the model makes no claim *)
Inductive res (A : Type) := Ok (a : A) | Err (e : aerr).
Arguments Ok {A} a.
Arguments Err {A} e.

Definition rbind {A B} (r : res A) (f : A -> res B) : res B :=
  match r with Ok a => f a | Err e => Err e end.

Definition arr := (nat * list (list Qc))%type.         (* (shape[1], rows) *)
Definition arr_ncols (a : arr) : nat := fst a.
Definition arr_rows (a : arr) : list (list Qc) := snd a.
Definition arr_nrows (a : arr) : nat := length (snd a).
Definition out := (arr * list label)%type.             (* what as_samples returns: (ndarray, labels) *)

(* ---------- inputs ---------- *)
(* array-likes: what np.asarray makes of the object *)
Inductive arrlike :=
| A1 (row : list Qc)                      (* ndim 1: flat list / tuple of numbers, 1-d ndarray (a scalar: A1 [x]) *)
| A2 (w : nat) (rows : list (list Qc))    (* ndim 2, shape (length rows, w): list of lists of numbers, 2-d ndarray;
                                             a row whose length is not w = inhomogeneous nested list *)
| AN.                                     (* ndim > 2 *)

(* first component of a 2-tuple *)
Inductive tfirst :=
| TFArr (a : arrlike)
| TFMap (kv : list (label * Qc))          (* the DEPRECATED (mapping, labels) form *)
| TFIter.                                 (* an iterator *)

Inductive slike :=
| SArr (a : arrlike)                      (* array-like: default handler *)
| SMap (kv : list (label * Qc))           (* Mapping: insertion-ordered, unique keys *)
| SList (items : list slike)              (* list (an abc.Sequence that is not a tuple) of samples-likes *)
| SIter (items : list slike)              (* iterator / generator of samples-likes *)
| STup (a : tfirst) (labels : list label) (* 2-tuple (array_like, labels) *)
| STupBad                                 (* tuple whose length is not 2 *)
| SSet (labels : list label) (rows : list (list Qc)).   (* SampleSet: variables, record.sample (shape (_, len variables)) *)

(* ---------- functools.singledispatch ---------- *)
Definition branch_eqb (a b : as_branch) : bool :=
  match a, b with
  | BIterator, BIterator | BMapping, BMapping | BTuple, BTuple | BSampleSet, BSampleSet | BDefault, BDefault => true
  | _, _ => false
  end.

(* the handler chosen for an object whose most specific registrable class is k: the registered one, else the default *)
Definition branch_for (k : as_branch) : as_branch :=
  if existsb (branch_eqb k) gen_registered then k else BDefault.

(* ---------- _sample_array (sampleset.py:213-247) ----------
     arr = np.asarray(array_like, dtype=dtype, **kwargs)       # inhomogeneous nesting: ValueError (numpy >= 1.24)
     if arr.ndim < 2:
         if arr.size: arr = np.atleast_2d(arr)                 # one row
         else:        arr = arr.reshape((0, 0))
     elif arr.ndim > 2: raise ValueError("expected samples_like to be <= 2 dimensions")
     ... integer down-casting: values unchanged ... *)
Definition sample_array (a : arrlike) : res arr :=
  match a with
  | A1 row => match row with [] => Ok (0%nat, []) | _ => Ok (length row, [row]) end
  | A2 w rows => if forallb (fun r => (length r =? w)%nat) rows then Ok (w, rows) else Err ValueError
  | AN => Err ValueError
  end.

(* labels_type(range(n)) with the harness's numbering of the Python integers *)
Definition range_labels (int_label : nat -> label) (n : nat) : list label := map int_label (seq 0 n).

(* ---------- default body, array-like part (sampleset.py:350-352) ----------
     arr = _sample_array(samples_like, dtype=dtype, copy=copy, order=order)
     return arr, labels_type(range(arr.shape[1])) *)
Definition as_default_arr (int_label : nat -> label) (a : arrlike) : res out :=
  rbind (sample_array a) (fun ar => Ok (ar, range_labels int_label (arr_ncols ar))).

(* ---------- _as_samples_tuple after `arr = _sample_array(...)` (sampleset.py:436-447) ----------
     if not isinstance(labels, labels_type): labels = labels_type(labels)
     if not arr.size: arr.shape = (arr.shape[0], len(labels))      # ValueError unless shape[0]*len(labels) == 0
     if len(labels) != arr.shape[1]: raise ValueError("samples_like and labels dimensions do not match")
     return arr, labels *)
Definition tuple_tail (ar : arr) (labels : list label) : res out :=
  let n := arr_nrows ar in
  rbind (if (n * arr_ncols ar =? 0)%nat
         then (if (n * length labels =? 0)%nat then Ok (length labels, arr_rows ar) else Err ValueError)
         else Ok ar)
        (fun ar' => if negb (length labels =? arr_ncols ar')%nat then Err ValueError else Ok (ar', labels)).

(* (array_like, labels) with array_like neither a Mapping nor an Iterator *)
Definition as_tuple_arr (a : arrlike) (labels : list label) : res out :=
  rbind (sample_array a) (fun ar => tuple_tail ar labels).

(* ---------- _as_samples_dict (sampleset.py:387-400) ----------
     if samples_like:
         labels, samples = zip( *samples_like.items())
         return as_samples((samples, labels), ...)      # tuple handler; `samples` is a tuple of numbers: neither a
                                                        # Mapping nor an Iterator, so it reaches _sample_array
     else:
         return np.empty((1, 0), dtype=dtype, order=order), labels_type() *)
Definition as_dict (kv : list (label * Qc)) : res out :=
  match kv with
  | [] => Ok ((0%nat, [[]]), [])
  | _ => match branch_for BTuple with
         | BTuple => as_tuple_arr (A1 (map snd kv)) (map fst kv)
         | _ => Err Unmodelled
         end
  end.

(* ---------- _as_samples_tuple (sampleset.py:402-447) ---------- *)
Fixpoint lookup (kv : list (label * Qc)) (v : label) : option Qc :=
  match kv with
  | [] => None
  | (k, x) :: r => if (k =? v)%nat then Some x else lookup r v
  end.

(* d[v] = x on an insertion-ordered dict: an existing key keeps its position *)
Fixpoint dict_set (d : list (label * Qc)) (v : label) (x : Qc) : list (label * Qc) :=
  match d with
  | [] => [(v, x)]
  | (k, y) :: r => if (k =? v)%nat then (k, x) :: r else (k, y) :: dict_set r v x
  end.

(*   d = dict()
     try:
         for v in labels: d[v] = array_like[v]
     except KeyError: raise ValueError("inconsistent labels")                None = that ValueError *)
Fixpoint build_copy (kv : list (label * Qc)) (labels : list label) (d : list (label * Qc))
  : option (list (label * Qc)) :=
  match labels with
  | [] => Some d
  | v :: r => match lookup kv v with
              | None => None
              | Some x => build_copy kv r (dict_set d v x)
              end
  end.

(*   try: array_like, labels = samples_like
     except ValueError: raise ValueError("if a tuple is provided, it must be length 2")      -> STupBad
     if isinstance(array_like, abc.Mapping):
         d = ... (build_copy)
         array_like, _ = as_samples(d)                 # gen_mapping_labels_uses_copy; a 2-d ndarray:
                                                       # _sample_array below returns it unchanged
     if isinstance(array_like, abc.Iterator): raise TypeError(...)
     arr = _sample_array(array_like, ...)
     ... tuple_tail *)
Definition as_tuple (a : tfirst) (labels : list label) : res out :=
  match a with
  | TFMap kv =>
      match build_copy kv labels [] with
      | None => Err ValueError
      | Some d =>
          match branch_for BMapping with
          | BMapping =>
              rbind (as_dict (if gen_mapping_labels_uses_copy then d else kv))
                    (fun o => tuple_tail (fst o) labels)
          | _ => Err Unmodelled
          end
      end
  | TFIter => Err TypeError
  | TFArr al => as_tuple_arr al labels
  end.

(* ---------- _as_samples_iterator (sampleset.py:355-384) ----------
     stack = (as_samples(sl, **kwargs) for sl in samples_like)         # lazily: element k is converted, then checked
     try: first_samples, first_labels = next(stack)
     except StopIteration: return np.empty((0, 0), dtype=np.int8), []
     samples_stack = [first_samples]; first_set = set(first_labels)
     for samples, labels in stack:
         if labels != first_labels:
             if set(labels) ^ first_set: raise ValueError
             reindex = [labels.index(v) for v in first_labels]          # gen_reindex_source
             samples = samples[:, reindex]
         samples_stack.append(samples)
     return np.vstack(samples_stack), first_labels *)
Definition take_columns (first ls : list label) (a : arr) : arr :=
  match gen_reindex_source with
  | FromLaterLabels => (length first, map (reindex_row first ls) (arr_rows a))
  | FromFirstLabels => (length ls, map (reindex_row ls first) (arr_rows a))
  end.

(* the body of the for loop for one element *)
Definition iter_step (first : list label) (o : out) : res arr :=
  let '(a, labels) := o in
  if negb (list_eqb Nat.eqb labels first) then
    if negb (same_label_set labels first) then Err ValueError
    else Ok (take_columns first labels a)
  else Ok a.

Fixpoint iter_rest (first : list label) (rest : list (res out)) : res (list arr) :=
  match rest with
  | [] => Ok []
  | r :: more =>
      rbind r (fun o =>
      rbind (iter_step first o) (fun a =>
      rbind (iter_rest first more) (fun l => Ok (a :: l))))
  end.

(* np.vstack: all arrays must have the same shape[1] *)
Definition vstack (a1 : arr) (rest : list arr) : res arr :=
  if forallb (fun a => (arr_ncols a =? arr_ncols a1)%nat) rest
  then Ok (arr_ncols a1, arr_rows a1 ++ concat (map arr_rows rest))
  else Err ValueError.

Definition as_iterator (results : list (res out)) : res out :=
  match results with
  | [] => Ok ((0%nat, []), [])
  | r1 :: rest =>
      rbind r1 (fun o1 =>
      rbind (iter_rest (snd o1) rest) (fun stack =>
      rbind (vstack (fst o1) stack) (fun a => Ok (a, snd o1))))
  end.

(* ---------- default body, Sequence part (sampleset.py:345-348) ----------
     if isinstance(samples_like, abc.Sequence) and any(isinstance(s, abc.Mapping) for s in samples_like):
         return as_samples(iter(samples_like), ...) *)
Definition is_map (s : slike) : bool := match s with SMap _ => true | _ => false end.

(* a list without a Mapping goes to np.asarray as a whole: a list of flat rows is a 2-d array-like ([] is 1-d);
   other nestings (a list of tuples-with-labels, of SampleSets, of lists of dicts ...) are not modelled *)
Fixpoint flat_rows (items : list slike) : option (list (list Qc)) :=
  match items with
  | [] => Some []
  | SArr (A1 row) :: r => option_map (cons row) (flat_rows r)
  | _ => None
  end.

Definition list_as_arrlike (items : list slike) : option arrlike :=
  match flat_rows items with
  | Some [] => Some (A1 [])
  | Some (r :: rs) => Some (A2 (length r) (r :: rs))
  | None => None
  end.

(* ---------- as_samples ---------- *)
Fixpoint as_samples_full (int_label : nat -> label) (s : slike) : res out :=
  match s with
  | SArr a => as_default_arr int_label a
  | SMap kv =>
      match branch_for BMapping with
      | BMapping => as_dict kv
      | _ => Err Unmodelled
      end
  | SList items =>
      if gen_mixed_sequence_to_iterator && existsb is_map items then
        match branch_for BIterator with
        | BIterator => as_iterator (map (as_samples_full int_label) items)
        | _ => Err Unmodelled
        end
      else
        match list_as_arrlike items with
        | Some a => as_default_arr int_label a
        | None => Err Unmodelled
        end
  | SIter items =>
      match branch_for BIterator with
      | BIterator => as_iterator (map (as_samples_full int_label) items)
      | _ => Err Unmodelled
      end
  | STup a labels =>
      match branch_for BTuple with
      | BTuple => as_tuple a labels
      | _ => Err Unmodelled
      end
  | STupBad =>
      match branch_for BTuple with
      | BTuple => Err ValueError
      | _ => Err Unmodelled
      end
  | SSet labels rows =>
      (* labels = labels_type(samples_like.variables); arr = samples_like.record.sample; return arr, labels *)
      match branch_for BSampleSet with
      | BSampleSet =>
          (* a SampleSet whose record.sample is not of shape (_, len(variables)) does not exist *)
          if forallb (fun r => (length r =? length labels)%nat) rows
          then Ok ((length labels, rows), labels) else Err Unmodelled
      | _ => Err Unmodelled
      end
  end.

(* (rows, labels); None = an exception (or an input outside the model) *)
Definition as_samples (int_label : nat -> label) (s : slike) : option (list (list Qc) * list label) :=
  match as_samples_full int_label s with
  | Ok (a, labels) => Some (arr_rows a, labels)
  | Err _ => None
  end.

(* value of label v in row i of an output *)
Definition table_of (o : list (list Qc) * list label) (v : label) (i : nat) : Qc :=
  row_value (snd o) (nth i (fst o) []) v.

(* ---------- hooks for the correspondence check ---------- *)
Definition aerr_eqb (a b : aerr) : bool :=
  match a, b with
  | ValueError, ValueError | TypeError, TypeError | Unmodelled, Unmodelled => true
  | _, _ => false
  end.

Definition rows_eqb (a b : list (list Qc)) : bool := list_eqb (list_eqb Qc_eqb) a b.

(* observed: (array as list of rows, labels) *)
Definition as_samples_out_eqb (m : option (list (list Qc) * list label))
                              (obs : option (list (list Qc) * list label)) : bool :=
  option_eqb (pair_eqb rows_eqb (list_eqb Nat.eqb)) m obs.

(* observed: Ok (shape[1], rows, labels) / Err kind.  An Unmodelled input is never a mismatch. *)
Definition as_samples_full_eqb (m : res out) (obs : res out) : bool :=
  match m, obs with
  | Err Unmodelled, _ => true
  | Ok (a, l), Ok (a', l') =>
      (arr_ncols a =? arr_ncols a')%nat && rows_eqb (arr_rows a) (arr_rows a') && list_eqb Nat.eqb l l'
  | Err e, Err e' => aerr_eqb e e'
  | _, _ => false
  end.

(* the specification of the value table: the assignments an input stands for, each as an association list
   (first binding of a label wins, like row_value) *)
Definition assoc_value (kv : list (label * Qc)) (v : label) : Qc :=
  match lookup kv v with Some x => x | None => 0 end.

Fixpoint spec_rows (int_label : nat -> label) (s : slike) : list (list (label * Qc)) :=
  match s with
  | SArr (A1 []) => []
  | SArr (A1 row) => [combine (range_labels int_label (length row)) row]
  | SArr (A2 w rows) => map (combine (range_labels int_label w)) rows
  | SArr AN => []
  | SMap kv => [kv]
  | SList items =>
      if gen_mixed_sequence_to_iterator && existsb is_map items
      then concat (map (spec_rows int_label) items)
      else match flat_rows items with
           | Some (r :: rs) => map (combine (range_labels int_label (length r))) (r :: rs)
           | _ => []
           end
  | SIter items => concat (map (spec_rows int_label) items)
  | STup (TFArr (A1 [])) labels => []
  | STup (TFArr (A1 row)) labels => [combine labels row]
  | STup (TFArr (A2 w rows)) labels => map (combine labels) rows
  | STup (TFMap kv) labels => [kv]
  | STup _ _ => []
  | STupBad => []
  | SSet labels rows => map (combine labels) rows
  end.
