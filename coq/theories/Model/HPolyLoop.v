(* Code level model of dimod/higherorder/polynomial.py : BinaryPolynomial.energies

     samples, labels = as_samples(samples_like)
     if labels:
         idx, label = zip( *enumerate(labels) )
         labeldict = dict(zip(label, idx))
     else:
         labeldict = {}
     num_samples = samples.shape[0]
     energies = np.zeros(num_samples, dtype=dtype)
     for term, bias in self.items():
         if len(term) == 0:
             energies += bias
         else:
             energies += np.prod([samples[:, labeldict[v]] for v in term], axis=0) * bias
     return energies

   labeldict: label -> column.  For a label list with duplicates dict(zip(..)) keeps the LAST
   index; as_samples returns duplicate free labels, for which it is Samples.idx_of (first =
   last).  A term variable that is not a label raises KeyError (None here); the list
   comprehension `[... labeldict[v] ...]` is evaluated whatever the number of rows, so the
   KeyError happens with zero rows too.  A term is a frozenset in the code (no repeated
   variable); the model does not need that.  Executable; no proofs here. *)
From Coq Require Import List ZArith QArith Qcanon Bool Arith.
From Dimod Require Import Base.Util Model.Poly Model.HPoly Model.Samples.
Import ListNotations.
Open Scope Qc_scope.

(* labeldict[v] ; None = KeyError *)
Definition labeldict (ls : list label) (v : label) : option nat :=
  if existsb (Nat.eqb v) ls then Some (idx_of v ls) else None.

(* [labeldict[v] for v in term] *)
Fixpoint term_cols (ls : list label) (term : list label) : option (list nat) :=
  match term with
  | [] => Some []
  | v :: r =>
      match labeldict ls v with
      | None => None
      | Some c => match term_cols ls r with
                  | None => None
                  | Some cs => Some (c :: cs)
                  end
      end
  end.

(* np.prod([samples[:, c] for c in cols], axis=0) at one row *)
Definition row_prod (cols : list nat) (row : list Qc) : Qc :=
  qprod (map (fun c => nth c row 0) cols).

(* the loop over self.items(); acc = energies (one entry per row) *)
Fixpoint hp_loop (ls : list label) (rows : list (list Qc)) (terms : hpoly) (acc : list Qc)
  : option (list Qc) :=
  match terms with
  | [] => Some acc
  | (term, bias) :: r =>
      match term with
      | [] => hp_loop ls rows r (map (fun e => e + bias) acc)
      | _ :: _ =>
          match term_cols ls term with
          | None => None
          | Some cols =>
              hp_loop ls rows r
                (map (fun er => fst er + row_prod cols (snd er) * bias) (combine acc rows))
          end
      end
  end.

Definition hp_energies (p : hpoly) (ls : list label) (rows : list (list Qc)) : option (list Qc) :=
  hp_loop ls rows p (map (fun _ => 0) rows).

(* every variable of every term is a label *)
Definition hp_covered (p : hpoly) (ls : list label) : bool :=
  forallb (fun t => forallb (fun v => existsb (Nat.eqb v) ls) (fst t)) p.
