(* C17 - quadratic_assignment(distance_matrix, flow_matrix) (generators/quadratic_assignment.py).
   Variables x_i_j (facility i at location j) -> i * n + j.  The generator visits every ORDERED pair
   ((i,j),(k,l)) of distinct variables and SETS the interaction to
        flow[i][k]*dist[j][l] + flow[k][i]*dist[j][l] ,
   so the value that survives for an unordered pair is the one of its later visit, the one whose first
   component (i,j) is the lexicographically larger.  Constraints: one-hot rows (add_discrete) and
   one-hot columns.  Executable; no proofs here. *)
From Coq Require Import List ZArith QArith Qcanon Bool Arith.
From Dimod Require Import Base.Util Model.Poly Model.Knap.
Import ListNotations.
Open Scope Qc_scope.

Definition matrix := list (list Qc).
Definition mget (M : matrix) (i j : nat) : Qc := nth j (nth i M []) 0.

Definition qidx (n i j : nat) : label := (i * n + j)%nat.
Definition lex_gt (i j k l : nat) : bool := (k <? i)%nat || ((k =? i)%nat && (l <? j)%nat).

Definition qap_coef (F D : matrix) (i j k l : nat) : Qc := (mget F i k + mget F k i) * mget D j l.

Definition qap_quad (n : nat) (F D : matrix) : list qterm :=
  flat_map (fun i => flat_map (fun j => flat_map (fun k => flat_map (fun l =>
    if lex_gt i j k l then [(qidx n i j, qidx n k l, qap_coef F D i j k l)] else [])
    (seq 0 n)) (seq 0 n)) (seq 0 n)) (seq 0 n).

Definition qap_objective (n : nat) (F D : matrix) : poly := mkPoly 0 [] (qap_quad n F D).

(* rows: each facility in exactly one location; columns: each location holds exactly one facility *)
Definition qap_constraints (n : nat) : list lincon :=
  map (fun i => mkLC (lin_of n (qidx n i) (fun _ => 1)) (- (1)) SEq) (seq 0 n)
  ++ map (fun j => mkLC (lin_of n (fun i => qidx n i j) (fun _ => 1)) (- (1)) SEq) (seq 0 n).

(* the assignment "facility i at location pi i" *)
Definition perm_sample (n : nat) (pi : nat -> nat) : sample :=
  fun v => if (v mod n =? pi (v / n))%nat then 1 else 0.
Definition onehot_sample (n : nat) (pi : nat -> nat) (i j : nat) : Qc := if (pi i =? j)%nat then 1 else 0.

(* documented cost: sum over ordered pairs of distinct facilities of flow * distance *)
Definition qap_cost (n : nat) (F D : matrix) (pi : nat -> nat) : Qc :=
  range_sum n (fun i => range_sum n (fun k => if (i =? k)%nat then 0 else mget F i k * mget D (pi i) (pi k))).
(* what the generated objective evaluates to *)
Definition qap_cost_as_is (n : nat) (F D : matrix) (pi : nat -> nat) : Qc :=
  range_sum n (fun i => range_sum i (fun k => (mget F i k + mget F k i) * mget D (pi i) (pi k))).
Definition symmetric (n : nat) (D : matrix) : Prop := forall j l, (j < n)%nat -> (l < n)%nat -> mget D j l = mget D l j.

Definition qap_model (n : nat) (F D : matrix) : lcqm := mkLCQM (qap_objective n F D) (qap_constraints n).
Definition qap_row (n : nat) (x : sample) (i : nat) : Qc := range_sum n (fun j => x (qidx n i j)).
Definition qap_col (n : nat) (x : sample) (j : nat) : Qc := range_sum n (fun i => x (qidx n i j)).
Definition qap_ok (n : nat) (x : sample) : bool :=
  forallb (fun i => Qc_eqb (qap_row n x i) 1) (seq 0 n) && forallb (fun j => Qc_eqb (qap_col n x j) 1) (seq 0 n).
