(* C08 - the left-hand sides as the code evaluates them.

   constrained.py: iter_constraint_data        lhs = comparison.lhs.energy(sample_like)
   sampleset.py:   SampleSet.from_samples_cqm  energies = cqm.objective.energies(samples_like)
                                               lhs = comparison.lhs.energies(samples_like)      (one column per constraint)
   Both go through dimod/constrained/cyexpression.pyx:_energies, which looks every variable of
   the expression up in the LABELS OF THE SAMPLE MATRIX
        reindex[i] = labels.index(self.parent.variables.at(expression.variables()[i]))
        subsamples = samples[:, reindex]
   (model: EnergyCy.xexpr_energies_cy, shared with C01).  Here that evaluation is put under the two
   C08 paths: the expressions are the RAW state (parent indices + base over local indices), the samples
   are a matrix with column labels in ANY order, possibly with columns the model does not know, possibly
   missing a label (ValueError = None).  No proofs here. *)
From Coq Require Import List ZArith QArith Qcanon Bool Arith.
From Dimod Require Import Base.Util Model.Poly Model.Samples Model.Feas Model.EnergyCy.
From Dimod Require Model.Adj.
Import ListNotations.
Open Scope Qc_scope.

Record xcon := mkXCon {
  xc_lhs : xexpr; xc_sense : sense; xc_rhs : Qc; xc_soft : option (Qc * penalty) }.

(* parent.variables (model index -> label), objective, constraints in order *)
Record xcqm := mkXCqm { xm_pvars : list label; xm_obj : xexpr; xm_cons : list xcon }.

(* the labelled CQM this raw state stands for *)
Definition xcon_con (pvars : list label) (k : xcon) : constraint :=
  mkCon (xexpr_poly_labels (xc_lhs k) pvars) (xc_sense k) (xc_rhs k) (xc_soft k).

Definition xcqm_cqm (xm : xcqm) : cqm :=
  mkCqm (xexpr_poly_labels (xm_obj xm) (xm_pvars xm)) (map (xcon_con (xm_pvars xm)) (xm_cons xm)).

(* expression.energy(sample_like): energies(...) of a one-row matrix *)
Definition x_energy1 (e : xexpr) (pvars ls : list label) (row : list Qc) : option Qc :=
  match xexpr_energies_cy e pvars ls [row] with
  | Some (x :: _) => Some x
  | _ => None
  end.

(* the datum iter_constraint_data builds from an evaluated left-hand side (same formulas as
   Feas.constraint_datum, which takes the energy of the labelled polynomial) *)
Definition datum_of_lhs (lhs : Qc) (sn : sense) (rhs : Qc) : datum :=
  let act := gen_ps_activity lhs rhs in
  mkDatum lhs rhs sn act
    (match sn with
     | Eq => gen_ps_violation_eq act | Ge => gen_ps_violation_ge act | Le => gen_ps_violation_le act
     end).

(* iter_constraint_data on a raw CQM and one matrix row: the first unknown label raises *)
Fixpoint x_iter_constraint_data (pvars : list label) (cons : list xcon) (ls : list label) (row : list Qc)
  : option (list datum) :=
  match cons with
  | [] => Some []
  | k :: r =>
      match x_energy1 (xc_lhs k) pvars ls row with
      | None => None
      | Some lhs =>
          match x_iter_constraint_data pvars r ls row with
          | None => None
          | Some ds => Some (datum_of_lhs lhs (xc_sense k) (xc_rhs k) :: ds)
          end
      end
  end.

(* from_samples_cqm: the objective column, then one lhs column per constraint, over the whole matrix *)
Fixpoint x_lhs_columns (pvars : list label) (cons : list xcon) (ls : list label) (rows : list (list Qc))
  : option (list (list Qc)) :=
  match cons with
  | [] => Some []
  | k :: r =>
      match xexpr_energies_cy (xc_lhs k) pvars ls rows with
      | None => None
      | Some col =>
          match x_lhs_columns pvars r ls rows with
          | None => None
          | Some cols => Some (col :: cols)
          end
      end
  end.

Definition x_objective_column (xm : xcqm) (ls : list label) (rows : list (list Qc)) : option (list Qc) :=
  xexpr_energies_cy (xm_obj xm) (xm_pvars xm) ls rows.

(* what from_samples_cqm computes from the matrix, or None when a lookup raises: the objective column and
   the lhs columns feed Feas.from_samples_cqm (there as `energy (c_lhs k) s`) *)
Definition x_vec_inputs (xm : xcqm) (ls : list label) (rows : list (list Qc)) : option (list Qc * list (list Qc)) :=
  match x_objective_column xm ls rows with
  | None => None
  | Some oc => match x_lhs_columns (xm_pvars xm) (xm_cons xm) ls rows with
               | None => None
               | Some cols => Some (oc, cols)
               end
  end.

(* as_samples on a list / iterator of samples (sampleset.py:_as_samples_iterator): the labels are those of the
   FIRST sample; every later sample comes with its own label order and is re-aligned,
        reindex = [labels.index(v) for v in first_labels]; samples = samples[:, reindex]
   (Samples.reindex_row) before the rows are stacked into the matrix the energies are computed on *)
Definition align_rows (first : list label) (lrs : list (list label * list Qc)) : list (list Qc) :=
  map (fun lr => reindex_row first (fst lr) (snd lr)) lrs.

(* ---- well-formedness / coverage, as booleans for the check ---- *)
Definition xexpr_wfb (e : xexpr) : bool :=
  Adj.inv_b (x_base e) && (length (x_vars e) =? Adj.nvars (x_base e))%nat.

Definition xcqm_wfb (xm : xcqm) : bool :=
  xexpr_wfb (xm_obj xm) && forallb (fun k => xexpr_wfb (xc_lhs k)) (xm_cons xm).

Definition xcon_covered (pvars ls : list label) (k : xcon) : bool := covers ls (xexpr_labels (xc_lhs k) pvars).
