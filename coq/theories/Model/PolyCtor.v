(* C15 - the constructors and exporters of BinaryPolynomial (dimod/higherorder/polynomial.py), code shaped.
   A polynomial is the dict `_terms : frozenset -> bias`: association list in insertion order, a
   frozenset key = the SORTED duplicate-free list of its variables (Model/HPolyPy.v conventions).

     def __init__(self, poly, vartype):
         if isinstance(poly, abc.Mapping):
             poly = poly.items()
         self._terms = terms = {}
         for term, bias in poly:
             fsterm = asfrozenset(term)
             if len(fsterm) < len(term) and vartype is Vartype.SPIN:
                 new = set()
                 term = tuple(term)
                 for v in fsterm:
                     if term.count(v) % 2:
                         new.add(v)
                 fsterm = frozenset(new)
             if fsterm in terms:
                 terms[fsterm] += bias
             else:
                 terms[fsterm] = bias

   `raw` is the list of (term, bias) pairs in iteration order; a term lists its variables as given
   (repeats allowed; the same monomial may come under several keys / several times in an iterable).
   Executable; no proofs here (Proofs/PolyCtorFacts.v). *)
From Coq Require Import List ZArith QArith Qcanon Bool Arith.
From Dimod Require Import Base.Util Model.Poly Model.HPoly Model.HPolyPy.
Import ListNotations.
Open Scope Qc_scope.

Definition is_spin_vt (vt : vartype) : bool := match vt with SPIN => true | _ => false end.

(* fsterm, as a duplicate-free list (not yet sorted) *)
Definition ctor_key (vt : vartype) (term : list label) : list label :=
  let fs := dedup term in
  if (length fs <? length term)%nat && is_spin_vt vt
  then filter (fun v => Nat.odd (count_occ_nat v term)) fs
  else fs.

Definition ctor_step (vt : vartype) (terms : hpoly) (tb : mono) : hpoly :=
  hdict_add terms (sort_nats (ctor_key vt (fst tb))) (snd tb).

Definition poly_init (vt : vartype) (raw : hpoly) : hpoly := fold_left (ctor_step vt) raw [].

(* __setitem__:  self._terms[asfrozenset(term)] = bias   (k already canonical) *)
Fixpoint hdict_set (d : hpoly) (k : list label) (b : Qc) : hpoly :=
  match d with
  | [] => [(k, b)]
  | (k', v) :: r => if nats_eqb k' k then (k', b) :: r else (k', v) :: hdict_set r k b
  end.

(* Mapping.get(key, default) *)
Definition get_default (d : hpoly) (k : list label) (dflt : Qc) : Qc :=
  match hdict_get d k with Some v => v | None => dflt end.

(*   def from_hubo(cls, H, offset=None):
         poly = cls(H, Vartype.BINARY)
         if offset is not None:
             poly[()] = poly.get((), 0) + offset
         return poly *)
Definition from_hubo_py (H : hpoly) (off : option Qc) : hpoly :=
  let poly := poly_init BINARY H in
  match off with
  | None => poly
  | Some o => hdict_set poly [] (get_default poly [] 0 + o)
  end.

(*   def from_hising(cls, h, J, offset=None):
         poly = [((k,), v) for k, v in h.items()]
         poly.extend(J.items())
         if offset is not None:
             poly.append((frozenset([]), offset))
         return cls(poly, Vartype.SPIN) *)
Definition lin_terms (h : list (label * Qc)) : hpoly := map (fun kv => ([fst kv], snd kv)) h.
Definition opt_offset (off : option Qc) : hpoly := match off with Some o => [([], o)] | None => [] end.

Definition from_hising_py (h : list (label * Qc)) (J : hpoly) (off : option Qc) : hpoly :=
  poly_init SPIN (lin_terms h ++ J ++ opt_offset off).

(*   def to_hubo(self):            (vartype BINARY)
         H = {tuple(term): bias for term, bias in self.items() if term}
         offset = self[tuple()] if tuple() in self else 0
         return H, offset *)
Definition nonempty_key (t : mono) : bool := match fst t with [] => false | _ :: _ => true end.

Definition to_hubo_py (p : hpoly) : hpoly * Qc := (filter nonempty_key p, get_default p [] 0).

(*   def to_hising(self):          (vartype SPIN)
         h = {} ; J = {} ; offset = 0
         for term, bias in self.items():
             if len(term) == 0:   offset += bias
             elif len(term) == 1: v, = term ; h[v] = bias
             else:                J[tuple(term)] = bias
         return h, J, offset
   (`h[v] = bias` / `J[...] = bias` on keys that are distinct - the keys of a dict - append) *)
Definition to_hising_step (st : list (label * Qc) * hpoly * Qc) (t : mono) : list (label * Qc) * hpoly * Qc :=
  let '(h, J, off) := st in
  match fst t with
  | [] => (h, J, off + snd t)
  | [v] => (h ++ [(v, snd t)], J, off)
  | _ :: _ :: _ => (h, J ++ [t], off)
  end.

Definition to_hising_py (p : hpoly) : list (label * Qc) * hpoly * Qc :=
  fold_left to_hising_step p ([], [], 0).

(* ---------- what the constructors document: the value of the polynomial ---------- *)
Inductive ctor :=
| KInit (vt : vartype) (raw : hpoly)                           (* BinaryPolynomial(dict | iterable | polynomial, vt), copy() *)
| KHubo (H : hpoly) (off : option Qc)                          (* from_hubo(H[, offset]) *)
| KHising (h : list (label * Qc)) (J : hpoly) (off : option Qc).   (* from_hising(h, J[, offset]) *)

Definition ctor_vt (k : ctor) : vartype :=
  match k with KInit vt _ => vt | KHubo _ _ => BINARY | KHising _ _ _ => SPIN end.

Definition ctor_model (k : ctor) : hpoly :=
  match k with
  | KInit vt raw => poly_init vt raw
  | KHubo H off => from_hubo_py H off
  | KHising h J off => from_hising_py h J off
  end.

(* sum of the given terms plus the offset *)
Definition ctor_spec (k : ctor) : hpoly :=
  match k with
  | KInit _ raw => raw
  | KHubo H off => H ++ opt_offset off
  | KHising h J off => lin_terms h ++ J ++ opt_offset off
  end.

(* the exporter of the polynomial's own vartype, flattened: (terms, offset) with h as singleton terms *)
Definition export_model (vt : vartype) (p : hpoly) : hpoly * Qc :=
  match vt with
  | SPIN => let '(h, J, off) := to_hising_py p in (lin_terms h ++ J, off)
  | _ => to_hubo_py p
  end.

(* the exporter of the OTHER vartype: to_spin().to_hising() / to_binary().to_hubo() *)
Definition cross_model (vt : vartype) (p : hpoly) : hpoly * Qc :=
  match vt with
  | SPIN => to_hubo_py (to_binary_py p)
  | _ => export_model SPIN (to_spin_py p)
  end.

(* value of the other vartype's variable: x = (s + 1)/2 ; s = 2x - 1 *)
Definition cross_sample (vt : vartype) (a : sample) : sample :=
  match vt with
  | SPIN => fun v => (a v + 1) * half
  | _ => fun v => two * a v - 1
  end.
