(* C06: interpreter for the operator methods as translated from the source (Gen/Gen_Ops.v) together
   with Python's binary-operator protocol (a.__op__(b); NotImplemented -> b.__rop__(a); in-place:
   a.__iop__(b) first).  Values, tables and polynomial primitives are those of Model/Sym.v.
   Object identity is not modelled: `other is self` is taken as false, which is sound for values
   because its only use is `other = self.copy()`.  The order in which a product registers its
   variables is not modelled (variable tables are compared as sets).  No proofs in this file. *)
From Coq Require Import List ZArith QArith Qcanon Bool Arith.
From Dimod Require Import Base.Util Model.Poly Model.Sym Model.OpsLang Gen.Gen_Ops Gen.Gen_AddVar.
Import ListNotations.
Open Scope Qc_scope.

(* ---------- primitives ---------- *)
Definition err_of (k : exnk) : err := match k with XType => ETypeError | XValue => EValueError end.

Definition ck_fails (c : upd_check) (a b : vinfo) : bool :=
  match c with
  | CkVartype => negb (vartype_eqb (vi_vt a) (vi_vt b))
  | CkLower => negb (Qc_eqb (vi_lb a) (vi_lb b))
  | CkUpper => negb (Qc_eqb (vi_ub a) (vi_ub b))
  end.

Fixpoint run_checks (l : list (upd_check * exnk)) (a b : vinfo) : option err :=
  match l with
  | [] => None
  | (c, x) :: l' => if ck_fails c a b then Some (err_of x) else run_checks l' a b
  end.

(* the rejection rule of update() as read from the source *)
Definition gen_upd_err : vinfo -> vinfo -> option err := run_checks gen_update_checks.

(* x.update(y): variables of y merged into x (rejecting clashes), biases and offset added *)
Definition p_update (x y : mdl) : res mdl :=
  match merge gen_upd_err (m_tab x) (m_tab y) with
  | Ok t => Ok (mkM (m_cls x) t (padd (m_poly x) (m_poly y)))
  | Err e => Err e
  end.

(* the double loop with the generated treatment of equal labels *)
Definition same_term (tbl : vartype -> same_action) (vt : label -> vartype) (u : label) (b : Qc) : poly :=
  match tbl (vt u) with
  | ToLinear => add_linear u b pzero
  | ToOffset => add_offset b pzero
  | _ => mkPoly 0 [] [(u, u, b)]
  end.

Definition mul_lterms_tab tbl (vt : label -> vartype) (t1 t2 : lterm) : poly :=
  if (fst t1 =? fst t2)%nat then same_term tbl vt (fst t1) (snd t1 * snd t2)
  else mkPoly 0 [] [(fst t1, fst t2, snd t1 * snd t2)].

Definition pmul_linear_tab tbl (vt : label -> vartype) (a b : poly) : poly :=
  padd (mkPoly (p_off a * p_off b)
          (map (fun t => (fst t, p_off b * snd t)) (p_lin a) ++
           map (fun t => (fst t, p_off a * snd t)) (p_lin b)) [])
       (psum (flat_map (fun t1 => map (mul_lterms_tab tbl vt t1) (p_lin b)) (p_lin a))).

Definition is_unexpected (a : same_action) : bool := match a with Unexpected => true | _ => false end.

(* a pair of equal labels whose vartype the source answers with `raise RuntimeError` *)
Definition unexpected_pair tbl (vt : label -> vartype) (a b : poly) : bool :=
  existsb (fun t1 => existsb (fun t2 => (fst t1 =? fst t2)%nat && is_unexpected (tbl (vt (fst t1)))) (p_lin b)) (p_lin a).

(* BQM.__mul__: the table is consulted with self.vartype, the vartype of the whole model *)
Definition product_bqm tbl (x y : mdl) : res mdl :=
  match m_cls x with
  | CQm => Err ETypeError
  | CBqm v1 =>
      match merge gen_upd_err (m_tab x) (m_tab y) with
      | Err e => Err e
      | Ok t => if unexpected_pair tbl (fun _ => v1) (m_poly x) (m_poly y) then Err ETypeError
                else Ok (mkM (m_cls x) t (pmul_linear_tab tbl (fun _ => v1) (m_poly x) (m_poly y)))
      end
  end.

(* ---------- add_variable on an existing label, as read from the source (Gen/Gen_AddVar.v) ---------- *)
(* the value a guard lets through to the comparison *)
Definition av_applies (c : av_cond) (x : option Qc) : option Qc :=
  match x with
  | None => None
  | Some q => match c with AvGiven => Some q | AvTruthy => if qis0 q then None else Some q end
  end.

Definition av_have (b : av_bound) (have : vinfo) : Qc := match b with AvLower => vi_lb have | AvUpper => vi_ub have end.
Definition av_arg (b : av_bound) (lb ub : option Qc) : option Qc := match b with AvLower => lb | AvUpper => ub end.

Fixpoint run_av_checks (l : list (av_bound * av_cond * exnk)) (have : vinfo) (lb ub : option Qc) : option err :=
  match l with
  | [] => None
  | (b, c, x) :: l' =>
      match av_applies c (av_arg b lb ub) with
      | Some q => if Qc_eqb q (av_have b have) then run_av_checks l' have lb ub else Some (err_of x)
      | None => run_av_checks l' have lb ub
      end
  end.

(* qm.add_variable(vt, label, lower_bound=lb, upper_bound=ub) for a label the model has as `have`:
   None = accepted (nothing changes, the label is returned) *)
Definition gen_addvar_existing (have : vinfo) (vt : vartype) (lb ub : option Qc) : option err :=
  if negb (vartype_eqb (vi_vt have) vt) then Some (err_of gen_addvar_vt_exn)
  else if existsb (vartype_eqb vt) gen_addvar_bounds_skip then None
  else run_av_checks gen_addvar_checks have lb ub.

(* QM.__mul__ re-adds every variable of both operands with both bounds explicit *)
Definition gen_mul_err (have new : vinfo) : option err :=
  gen_addvar_existing have (vi_vt new) (Some (vi_lb new)) (Some (vi_ub new)).

(* the specification as a boolean (for the oracle of the check): same vartype, and for INTEGER / REAL
   every bound that is passed is the existing one *)
Definition agrees_b (given : option Qc) (have : Qc) : bool :=
  match given with Some q => Qc_eqb q have | None => true end.

Definition redecl_ok_b (have : vinfo) (vt : vartype) (lb ub : option Qc) : bool :=
  vartype_eqb (vi_vt have) vt &&
  match vt with BINARY | SPIN => true | _ => agrees_b lb (vi_lb have) && agrees_b ub (vi_ub have) end.

Definition product_qm tbl (x y : mdl) : res mdl :=
  match merge gen_mul_err (m_tab x) (m_tab y) with
  | Err e => Err e
  | Ok t => if real_interaction t (m_poly x) (m_poly y) then Err EValueError
            else if unexpected_pair tbl (tvt t) (m_poly x) (m_poly y) then Err ETypeError
            else Ok (mkM CQm t (pmul_linear_tab tbl (tvt t) (m_poly x) (m_poly y)))
  end.

(* ---------- environments ---------- *)
Record env := mkEnv { en_self : val; en_other : val; en_n : nat; en_loc : list (nat * val) }.

Fixpoint loc_get (l : list (nat * val)) (x : nat) : option val :=
  match l with [] => None | (y, v) :: l' => if (y =? x)%nat then Some v else loc_get l' x end.

Definition set_slot (en : env) (x : expr) (v : val) : res env :=
  match x with
  | ESelf => Ok (mkEnv v (en_other en) (en_n en) (en_loc en))
  | EOther => Ok (mkEnv (en_self en) v (en_n en) (en_loc en))
  | EVar k => Ok (mkEnv (en_self en) (en_other en) (en_n en) ((k, v) :: en_loc en))
  | _ => Err ETypeError
  end.

Inductive req :=
| RBin (o : bop) (a b : val) | RIBin (o : bop) (a b : val)
| RNeg (a : val) | RPos (a : val) | RPow (a : val) (n : nat).

Inductive step := Cont (en : env) | Ret (v : val) | RetNI | Fail (e : err).

Definition guard_holds (g : guard) (en : env) : bool :=
  match g with
  | GIsBqm => match en_other en with VMdl m => match m_cls m with CBqm _ => true | CQm => false end | _ => false end
  | GIsQm => match en_other en with VMdl m => match m_cls m with CQm => true | _ => false end | _ => false end
  | GIsNum => match en_other en with VNum _ => true | _ => false end
  | GIsInt => true
  | GIsMixinOrNum => true
  | GVtMismatch =>
      match en_self en, en_other en with
      | VMdl m1, VMdl m2 => match m_cls m1, m_cls m2 with
                            | CBqm v1, CBqm v2 => negb (tab_empty (m_tab m2)) && negb (vartype_eqb v1 v2)
                            | _, _ => false
                            end
      | _, _ => false
      end
  | GNotBothLinear =>
      match en_self en, en_other en with
      | VMdl m1, VMdl m2 => negb (is_linear m1 && is_linear m2)
      | _, _ => false
      end
  | GSelfNotLinear => match en_self en with VMdl m => negb (is_linear m) | _ => false end
  | GOtherNe2 => negb (en_n en =? 2)%nat
  | GOtherIsSelf => false
  end.

Section Exec.
  Variable d : req -> res val.          (* the operator protocol with less fuel *)

  Fixpoint eval_expr (en : env) (e : expr) : res val :=
    match e with
    | ESelf => Ok (en_self en)
    | EOther => Ok (en_other en)
    | EVar x => match loc_get (en_loc en) x with Some v => Ok v | None => Err ETypeError end
    | ECopy e' => eval_expr en e'
    | EFromBqm e' => bind (eval_expr en e') (fun v => match v with VMdl m => Ok (VMdl (to_qm m)) | _ => Err ETypeError end)
    | ENewQM => Ok (VMdl qm_zero)
    | ENeg e' => bind (eval_expr en e') (fun v => d (RNeg v))
    | EBin o a b => bind (eval_expr en a) (fun x => bind (eval_expr en b) (fun y => d (RBin o x y)))
    | EConst z => Ok (VNum (qc z 1))
    end.

  Definition as_source (v : val) : option mdl :=
    match v with VMdl m => Some m | VView m => Some m | VNum _ => None end.

  Definition on_slot (en : env) (x : expr) (f : val -> res val) : step :=
    match bind (eval_expr en x) f with
    | Err e => Fail e
    | Ok v => match set_slot en x v with Ok en' => Cont en' | Err e => Fail e end
    end.

  Fixpoint exec_stmt (s : stmt) (en : env) : step :=
    let exec_list := (fix exec_list (l : list stmt) (en : env) : step :=
                        match l with
                        | [] => Cont en
                        | s :: l' => match exec_stmt s en with Cont en' => exec_list l' en' | r => r end
                        end) in
    match s with
    | SAssign x e => match eval_expr en e with
                     | Err er => Fail er
                     | Ok v => match set_slot en x v with Ok en' => Cont en' | Err er => Fail er end
                     end
    | SAug x o e => match eval_expr en e with
                    | Err er => Fail er
                    | Ok y => on_slot en x (fun xv => d (RIBin o xv y))
                    end
    | SOffset x o e =>
        match eval_expr en e with
        | Ok (VNum q) => on_slot en x (fun xv => match xv with
                                                  | VMdl m => Ok (VMdl (m_addoff (match o with OSub => - q | _ => q end) m))
                                                  | _ => Err ETypeError
                                                  end)
        | Ok _ => Fail ETypeError
        | Err er => Fail er
        end
    | SUpdate x e =>
        match eval_expr en e with
        | Err er => Fail er
        | Ok y => match as_source y with
                  | None => Fail ETypeError
                  | Some my => on_slot en x (fun xv => match xv with
                                                       | VMdl m => match p_update m my with Ok m' => Ok (VMdl m') | Err er => Err er end
                                                       | _ => Err ETypeError
                                                       end)
                  end
        end
    | SScale x e =>
        match eval_expr en e with
        | Ok (VNum q) => on_slot en x (fun xv => match xv with VMdl m => Ok (VMdl (m_scale q m)) | _ => Err ETypeError end)
        | Ok _ => Fail ETypeError
        | Err er => Fail er
        end
    | SReturn e => match eval_expr en e with Ok v => Ret v | Err er => Fail er end
    | SReturnNotImplemented => RetNI
    | SRaise k => Fail (err_of k)
    | SIf g th el => if guard_holds g en then exec_list th en else exec_list el en
    | STryFinally body fin =>
        match exec_list body en with
        | Cont en' => exec_list fin en'
        | Fail er => match exec_list fin en with Fail er' => Fail er' | _ => Fail er end
        | r => r
        end
    | SProductBqm tbl =>
        match en_self en, en_other en with
        | VMdl x, VMdl y => match product_bqm tbl x y with Ok m => Ret (VMdl m) | Err er => Fail er end
        | _, _ => Fail ETypeError
        end
    | SProductQm tbl =>
        match en_self en, en_other en with
        | VMdl x, VMdl y => match product_qm tbl x y with Ok m => Ret (VMdl m) | Err er => Fail er end
        | _, _ => Fail ETypeError
        end
    end.

  Fixpoint exec_list (l : list stmt) (en : env) : step :=
    match l with
    | [] => Cont en
    | s :: l' => match exec_stmt s en with Cont en' => exec_list l' en' | r => r end
    end.

  Definition kind_of (v : val) : kcls :=
    match v with
    | VNum _ => KNum
    | VMdl m => match m_cls m with CBqm _ => KBqm | CQm => KQm end
    | VView _ => KView
    end.

  (* self.<method>(other): a class without the method answers like NotImplemented *)
  Definition call (m : mname) (self other : val) (n : nat) : step :=
    match gen_method (kind_of self) m with
    | None => RetNI
    | Some body => match exec_list body (mkEnv self other n []) with
                   | Cont _ => Fail ETypeError      (* falling off the end: not in the sources *)
                   | r => r
                   end
    end.
End Exec.

Definition num_op (o : bop) (x y : Qc) : res val :=
  match o with
  | OAdd => Ok (VNum (x + y))
  | OSub => Ok (VNum (x - y))
  | OMul => Ok (VNum (x * y))
  | ODiv => if qis0 y then Err EZeroDiv else Ok (VNum (x / y))
  end.

Definition kcls_eqb (a b : kcls) : bool :=
  match a, b with KNum, KNum | KBqm, KBqm | KQm, KQm | KView, KView => true | _, _ => false end.

Definition binop_with (d : req -> res val) (o : bop) (a b : val) : res val :=
  match a, b with
  | VNum x, VNum y => num_op o x y
  | _, _ =>
      match call d (MOp o) a b 0 with
      | Ret v => Ok v
      | Fail e => Err e
      | Cont _ => Err ETypeError
      | RetNI =>
          (* the reflected method is not tried for two operands of one type *)
          if kcls_eqb (kind_of a) (kind_of b) && negb (kcls_eqb (kind_of a) KView) then Err ETypeError
          else match call d (MROp o) b a 0 with
               | Ret v => Ok v
               | Fail e => Err e
               | _ => Err ETypeError
               end
      end
  end.

(* the operator protocol; every nested operator application consumes one unit of fuel *)
Fixpoint disp (fuel : nat) (r : req) : res val :=
  match fuel with
  | O => Err ETypeError
  | S f =>
      let d := disp f in
      match r with
      | RBin o a b => binop_with d o a b
      | RIBin o a b =>
          match call d (MIOp o) a b 0 with
          | Ret v => Ok v
          | Fail e => Err e
          | _ => binop_with d o a b
          end
      | RNeg a => match a with
                  | VNum x => Ok (VNum (- x))
                  | _ => match call d MNeg a a 0 with Ret v => Ok v | Fail e => Err e | _ => Err ETypeError end
                  end
      | RPos a => match a with
                  | VNum x => Ok (VNum x)
                  | _ => match call d MPos a a 0 with Ret v => Ok v | Fail e => Err e | _ => Err ETypeError end
                  end
      | RPow a n => match a with
                    | VNum x => Ok (VNum (qpow x n))
                    | _ => match call d MPow a (VNum (qc (Z.of_nat n) 1)) n with Ret v => Ok v | Fail e => Err e | _ => Err ETypeError end
                    end
      end
  end.

Definition FUEL : nat := 8.

Definition g_op (o : bop) (a b : val) : res val := disp FUEL (RBin o a b).
Definition g_iop (o : bop) (a b : val) : res val := disp FUEL (RIBin o a b).

(* expression trees evaluated through the generated dispatch *)
Fixpoint eval_gen (e : sx) : res val :=
  match e with
  | Var k l lb ub => Ok (VMdl (var_mdl k l lb ub))
  | Mdl m => Ok (VMdl m)
  | View m => Ok (VView m)
  | Num q => Ok (VNum q)
  | Add a b => bind (eval_gen a) (fun x => bind (eval_gen b) (fun y => g_op OAdd x y))
  | Sub a b => bind (eval_gen a) (fun x => bind (eval_gen b) (fun y => g_op OSub x y))
  | Mul a b => bind (eval_gen a) (fun x => bind (eval_gen b) (fun y => g_op OMul x y))
  | Div a b => bind (eval_gen a) (fun x => bind (eval_gen b) (fun y => g_op ODiv x y))
  | Neg a => bind (eval_gen a) (fun x => disp FUEL (RNeg x))
  | Pos a => bind (eval_gen a) (fun x => disp FUEL (RPos x))
  | Pow a n => bind (eval_gen a) (fun x => disp FUEL (RPow x n))
  | Quicksum l =>
      bind (mapM eval_gen l)
           (fun vs => match vs with
                      | [] => Ok (VMdl qm_zero)
                      | a :: rest => fold_left (fun acc x => bind acc (fun v => g_iop OAdd v x)) rest (Ok a)
                      end)
  end.

(* ---------- QuadraticModel.from_bqm as read from the source (gen_from_bqm) ---------- *)
Definition fb_eqb (a b : fb_step) : bool :=
  match a, b with
  | FbOffset, FbOffset | FbVartypeOfBqm, FbVartypeOfBqm | FbAddVariable, FbAddVariable
  | FbLinear, FbLinear | FbLabels, FbLabels | FbQuadratic, FbQuadratic => true
  | _, _ => false
  end.

Definition fb_has (s : fb_step) : bool := existsb (fb_eqb s) gen_from_bqm.

(* C++ add_variable(vartype) without bounds gives the vartype's own domain; a BQM is BINARY or SPIN *)
Definition default_lb (v : vartype) : Qc := match v with SPIN => - (1) | _ => 0 end.
Definition default_ub (v : vartype) : Qc := match v with BINARY | SPIN => 1 | _ => 0 end.

(* the QM the constructor builds from a BQM: one variable of the BQM's vartype per variable of the BQM, under
   the BQM's labels (index and label go together: the polynomial of the model is keyed by label), and those of
   offset, linear and quadratic biases that the constructor copies *)
Definition from_bqm_gen (m : mdl) : mdl :=
  match m_cls m with
  | CBqm v =>
      mkM CQm
        (if fb_has FbVartypeOfBqm && fb_has FbAddVariable && fb_has FbLabels
         then map (fun e => (fst e, mkVI v (default_lb v) (default_ub v))) (m_tab m) else [])
        (mkPoly (if fb_has FbOffset then p_off (m_poly m) else 0)
                (if fb_has FbLinear then p_lin (m_poly m) else [])
                (if fb_has FbQuadratic then p_quad (m_poly m) else []))
  | CQm => m
  end.
