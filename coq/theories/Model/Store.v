(* C19: a store of objects with explicit alias classes.  A handle is either an object that owns
   its state or a view (bqm.spin / bqm.binary, a CQM's objective / constraint expression) that is
   computed from its parent.  Copy-producing calls append a NEW owning cell; in-place edits
   rewrite exactly the cell of the owner of the handle they go through.  Executable; no proofs. *)
From Coq Require Import List Arith Bool.
Import ListNotations.

Section Store.
  Variable state : Type.
  Variable viewfn : nat -> state -> state.       (* how a view of kind w reads its parent's state *)

  Inductive cell := Own (st : state) | View (parent : nat) (w : nat).
  Definition store := list cell.

  Definition owner (s : store) (i : nat) : nat :=
    match nth_error s i with Some (View p _) => p | _ => i end.

  Definition own_state (s : store) (i : nat) : option state :=
    match nth_error s i with Some (Own st) => Some st | _ => None end.

  Definition read (s : store) (i : nat) : option state :=
    match nth_error s i with
    | Some (Own st) => Some st
    | Some (View p w) => option_map (viewfn w) (own_state s p)
    | None => None
    end.

  Fixpoint set_nth (s : store) (i : nat) (c : cell) : store :=
    match s, i with
    | [], _ => []
    | _ :: r, O => c :: r
    | x :: r, S j => x :: set_nth r j c
    end.

  Inductive op :=
  | New (st : state)
  | CopyOf (src : nat) (f : state -> state)     (* any copy-producing call: the result is a pure function of what src shows *)
  | MkView (parent : nat) (w : nat)
  | Edit (i : nat) (e : state -> state).        (* in-place edit through handle i, as a function of the owner's state *)

  Definition step (s : store) (o : op) : store :=
    match o with
    | New st => s ++ [Own st]
    | CopyOf src f => match read s src with Some st => s ++ [Own (f st)] | None => s end
    | MkView p w => s ++ [View (owner s p) w]
    | Edit i e => match own_state s (owner s i) with
                  | Some st => set_nth s (owner s i) (Own (e st))
                  | None => s
                  end
    end.

  Definition run (s : store) (ops : list op) : store := fold_left step ops s.
End Store.

Arguments Own {state}. Arguments View {state}.
Arguments New {state}. Arguments CopyOf {state}. Arguments MkView {state}. Arguments Edit {state}.
