(* C11 - serialize_ndarrays / deserialize_ndarrays (serialization/utils.py): the walk over the
   `info` field of a sample set, descending into mappings and sequences.
     serialize:   ndarray -> its document (a dict carrying type = 'array'); Mapping -> dict of the
                  serialised values; Sequence -> list; Integral (bool included) -> int; Number -> float
     deserialize: a Mapping whose 'type' entry is 'array' -> deserialize_ndarray of it (KeyError when
                  the other entries are missing); any other Mapping / Sequence -> recursively
   Arrays and their documents are abstract (see Model/NdArr.v for the document itself); keys are
   strings.  No proofs in this file. *)
From Coq Require Import List ZArith QArith Qcanon Bool String.
Import ListNotations.

Section InfoSer.
  Variables (A D : Type).
  Variable ser_arr : A -> D.         (* serialize_ndarray without its 'type' entry *)
  Variable de_arr : D -> A.          (* deserialize_ndarray *)

  Inductive tree :=
  | TArr (a : A)                     (* a NumPy array (only before serialisation / after deserialisation) *)
  | TDoc (d : D)                     (* the entries data, data_type, shape, use_bytes of an array document *)
  | TInt (z : Z) | TFloat (q : Qc) | TStr (s : string) | TNone | TBool (b : bool)
  | TList (l : list tree)
  | TDict (kvs : list (string * tree)).

  Definition type_key : string := "type".
  Definition array_tag : string := "array".
  Definition payload_key : string := "payload".

  Fixpoint lookup (k : string) (kvs : list (string * tree)) : option tree :=
    match kvs with
    | [] => None
    | (k', v) :: r => if String.eqb k k' then Some v else lookup k r
    end.

  Fixpoint serialize (t : tree) : tree :=
    match t with
    | TArr a => TDict [(type_key, TStr array_tag); (payload_key, TDoc (ser_arr a))]
    | TBool b => TInt (if b then 1 else 0)%Z        (* isinstance(True, Integral) *)
    | TList l => TList (map serialize l)
    | TDict kvs => TDict (map (fun kv => (fst kv, serialize (snd kv))) kvs)
    | _ => t
    end.

  Definition is_array_doc (kvs : list (string * tree)) : bool :=
    match lookup type_key kvs with
    | Some (TStr s) => String.eqb s array_tag
    | _ => false
    end.

  Fixpoint all_some {X} (l : list (option X)) : option (list X) :=
    match l with
    | [] => Some []
    | Some x :: r => match all_some r with Some xs => Some (x :: xs) | None => None end
    | None :: _ => None
    end.

  (* None = the call raises (KeyError of deserialize_ndarray on an incomplete document) *)
  Fixpoint deserialize (t : tree) : option tree :=
    match t with
    | TDict kvs =>
        if is_array_doc kvs then
          match lookup payload_key kvs with
          | Some (TDoc d) => Some (TArr (de_arr d))
          | _ => None
          end
        else
          match all_some (map (fun kv => match deserialize (snd kv) with
                                         | Some v => Some (fst kv, v)
                                         | None => None
                                         end) kvs) with
          | Some kvs' => Some (TDict kvs')
          | None => None
          end
    | TList l =>
        match all_some (map deserialize l) with
        | Some l' => Some (TList l')
        | None => None
        end
    | _ => Some t
    end.

  (* what comes back: booleans as ints (open finding info_bool), everything else itself *)
  Fixpoint norm (t : tree) : tree :=
    match t with
    | TBool b => TInt (if b then 1 else 0)%Z
    | TList l => TList (map norm l)
    | TDict kvs => TDict (map (fun kv => (fst kv, norm (snd kv))) kvs)
    | _ => t
    end.

  (* user data: no document leaves, and no mapping that carries the marker type = 'array' *)
  Fixpoint user_ok (t : tree) : bool :=
    match t with
    | TDoc _ => false
    | TList l => forallb user_ok l
    | TDict kvs => negb (is_array_doc kvs) && forallb (fun kv => user_ok (snd kv)) kvs
    | _ => true
    end.
End InfoSer.
