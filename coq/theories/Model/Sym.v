(* C06: symbolic arithmetic on models.
   Expression trees over variables / pre-built models / numbers and an evaluator
   that mirrors the operator overloads of BinaryQuadraticModel, QuadraticModel and
   the CQM expression views (dimod/binary/binary_quadratic_model.py,
   dimod/quadratic/quadratic_model.py, dimod/constrained/expression.py):
   result class (BQM vs QM promotion), per-variable vartype/bounds table with the
   compatibility checks of cyqm `update` (ValueError) and of `add_variable` as used
   by QM.__mul__ (TypeError for a vartype clash, ValueError for a bounds clash),
   products restricted to linear operands, REAL variables may not interact,
   division only by numbers.  No proofs in this file. *)
From Coq Require Import List ZArith QArith Qcanon Bool Arith.
From Dimod Require Import Base.Util Model.Poly.
Import ListNotations.
Open Scope Qc_scope.

Inductive err := ETypeError | EValueError | EZeroDiv.
Inductive res (A : Type) := Ok (a : A) | Err (e : err).
Arguments Ok {A} a.
Arguments Err {A} e.

Definition err_eqb (a b : err) : bool :=
  match a, b with
  | ETypeError, ETypeError | EValueError, EValueError | EZeroDiv, EZeroDiv => true
  | _, _ => false
  end.

Definition bind {A B} (r : res A) (f : A -> res B) : res B :=
  match r with Ok a => f a | Err e => Err e end.

(* ---------- variable information ---------- *)
Record vinfo := mkVI { vi_vt : vartype; vi_lb : Qc; vi_ub : Qc }.
Definition tab := list (label * vinfo).

Fixpoint lookup (t : tab) (l : label) : option vinfo :=
  match t with
  | [] => None
  | (l', i) :: t' => if (l' =? l)%nat then Some i else lookup t' l
  end.

(* vartype function of a table; labels outside the table are unconstrained *)
Definition tvt (t : tab) : label -> vartype :=
  fun l => match lookup t l with Some i => vi_vt i | None => INTEGER end.

Definition vinfo_eqb (a b : vinfo) : bool :=
  vartype_eqb (vi_vt a) (vi_vt b) && Qc_eqb (vi_lb a) (vi_lb b) && Qc_eqb (vi_ub a) (vi_ub b).

(* cyqm_template.pyx.pxi update(): vartype, lower bound, upper bound -> ValueError *)
Definition upd_err (have new : vinfo) : option err :=
  if vinfo_eqb have new then None else Some EValueError.

(* cyqm add_variable on an existing label (QM.__mul__ re-adds the variables of both
   operands with explicit bounds): vartype clash -> TypeError; bounds are only
   compared for INTEGER / REAL -> ValueError *)
Definition mul_err (have new : vinfo) : option err :=
  if negb (vartype_eqb (vi_vt have) (vi_vt new)) then Some ETypeError
  else match vi_vt new with
       | BINARY | SPIN => None
       | _ => if Qc_eqb (vi_lb have) (vi_lb new) && Qc_eqb (vi_ub have) (vi_ub new)
              then None else Some EValueError
       end.

(* add the variables of b to a, in b's order; the first clash decides the error *)
Fixpoint merge (ek : vinfo -> vinfo -> option err) (a b : tab) : res tab :=
  match b with
  | [] => Ok a
  | (l, i) :: b' =>
      match lookup a l with
      | Some i' => match ek i' i with Some e => Err e | None => merge ek a b' end
      | None => merge ek (a ++ [(l, i)]) b'
      end
  end.

(* ---------- models ---------- *)
Inductive cls := CBqm (vt : vartype) | CQm.

Definition cls_eqb (a b : cls) : bool :=
  match a, b with
  | CBqm x, CBqm y => vartype_eqb x y
  | CQm, CQm => true
  | _, _ => false
  end.

Record mdl := mkM { m_cls : cls; m_tab : tab; m_poly : poly }.

Inductive val := VNum (q : Qc) | VMdl (m : mdl) | VView (m : mdl).

(* QuadraticModel.from_bqm / QuadraticModel().update(view): same variables, same
   vartypes, same bounds, same coefficients *)
Definition to_qm (m : mdl) : mdl := mkM CQm (m_tab m) (m_poly m).

Definition tab_empty (t : tab) : bool := match t with [] => true | _ => false end.

(* `other.num_variables and other.vartype != self.vartype` -> promote; anything that
   involves a QM (or a view) is a QM *)
Definition needs_promo (m1 m2 : mdl) : bool :=
  match m_cls m1, m_cls m2 with
  | CBqm v1, CBqm v2 => negb (tab_empty (m_tab m2)) && negb (vartype_eqb v1 v2)
  | _, _ => true
  end.

Definition res_cls (m1 m2 : mdl) : cls := if needs_promo m1 m2 then CQm else m_cls m1.

(* __add__/__iadd__/__radd__/__sub__/__isub__/__rsub__ between models: copy of the
   left operand updated with the right one (for `-`: scale(-1), update, scale(-1)) *)
Definition m_addsub (f : poly -> poly -> poly) (m1 m2 : mdl) : res mdl :=
  match merge upd_err (m_tab m1) (m_tab m2) with
  | Ok t => Ok (mkM (res_cls m1 m2) t (f (m_poly m1) (m_poly m2)))
  | Err e => Err e
  end.

Definition is_linear (m : mdl) : bool := match p_quad (m_poly m) with [] => true | _ => false end.

Definition is_real (vt : vartype) : bool := match vt with REAL => true | _ => false end.

(* the double loop of QM.__mul__ calls add_quadratic(u, v, .) for every pair of
   linear terms; the QM refuses any interaction that involves a REAL variable *)
Definition real_interaction (t : tab) (a b : poly) : bool :=
  existsb (fun t1 => existsb (fun t2 => is_real (tvt t (fst t1)) || is_real (tvt t (fst t2))) (p_lin b)) (p_lin a).

(* which operand plays `self` in QuadraticModel.__mul__ after the dispatch through
   BQM.__mul__ / BQM.__rmul__ *)
Definition mul_order (m1 m2 : mdl) : mdl * mdl :=
  match m_cls m1, m_cls m2 with
  | CBqm _, CBqm _ => (m2, m1)       (* QM.from_bqm(self) * other -> other.__rmul__ *)
  | CBqm _, CQm => (m1, m2)          (* qm = from_bqm(self); qm *= other *)
  | CQm, CBqm _ => (m2, m1)          (* other.__rmul__(self) *)
  | CQm, CQm => (m1, m2)
  end.

Definition m_mul (m1 m2 : mdl) : res mdl :=
  if negb (is_linear m1 && is_linear m2) then Err ETypeError
  else if needs_promo m1 m2 then
    let '(a, b) := mul_order m1 m2 in
    match merge mul_err (m_tab a) (m_tab b) with
    | Err e => Err e
    | Ok t =>
        if real_interaction t (m_poly a) (m_poly b) then Err EValueError
        else Ok (mkM CQm t (pmul_linear (tvt t) (m_poly a) (m_poly b)))
    end
  else
    match merge upd_err (m_tab m1) (m_tab m2) with
    | Err e => Err e
    | Ok t => Ok (mkM (m_cls m1) t (pmul_linear (tvt t) (m_poly m1) (m_poly m2)))
    end.

Definition m_scale (k : Qc) (m : mdl) : mdl := mkM (m_cls m) (m_tab m) (scale k (m_poly m)).
Definition m_addoff (k : Qc) (m : mdl) : mdl := mkM (m_cls m) (m_tab m) (add_offset k (m_poly m)).

Definition m_pow (m : mdl) (n : nat) : res mdl :=
  if negb (n =? 2)%nat then Err EValueError
  else if negb (is_linear m) then Err EValueError
  else m_mul m m.

Fixpoint qpow (q : Qc) (n : nat) : Qc := match n with O => 1 | S k => q * qpow q k end.

Definition qis0 (q : Qc) : bool := Qc_eqb q 0.

(* a view takes part in + and - as QuadraticModel().update(view) *)
Definition as_model (v : val) : option mdl :=
  match v with VNum _ => None | VMdl m => Some m | VView m => Some (to_qm m) end.

Definition lift (r : res mdl) : res val :=
  match r with Ok m => Ok (VMdl m) | Err e => Err e end.

Definition v_add (a b : val) : res val :=
  match a, b with
  | VNum x, VNum y => Ok (VNum (x + y))
  | VNum x, VMdl m => Ok (VMdl (m_addoff x m))
  | VNum x, VView m => Ok (VMdl (m_addoff x (to_qm m)))
  | VMdl m, VNum y => Ok (VMdl (m_addoff y m))
  | VView m, VNum y => Ok (VMdl (m_addoff y (to_qm m)))
  | _, _ => match as_model a, as_model b with
            | Some m1, Some m2 => lift (m_addsub padd m1 m2)
            | _, _ => Err ETypeError
            end
  end.

Definition v_sub (a b : val) : res val :=
  match a, b with
  | VNum x, VNum y => Ok (VNum (x - y))
  | VNum x, VMdl m => Ok (VMdl (m_addoff x (m_scale (- (1)) m)))
  | VNum x, VView m => Ok (VMdl (m_addoff x (m_scale (- (1)) (to_qm m))))
  | VMdl m, VNum y => Ok (VMdl (m_addoff (- y) m))
  | VView m, VNum y => Ok (VMdl (m_addoff (- y) (to_qm m)))
  | _, _ => match as_model a, as_model b with
            | Some m1, Some m2 => lift (m_addsub psub m1 m2)
            | _, _ => Err ETypeError
            end
  end.

(* expression views define neither __mul__ nor __rmul__ *)
Definition v_mul (a b : val) : res val :=
  match a, b with
  | VNum x, VNum y => Ok (VNum (x * y))
  | VNum x, VMdl m => Ok (VMdl (m_scale x m))
  | VMdl m, VNum y => Ok (VMdl (m_scale y m))
  | VMdl m1, VMdl m2 => lift (m_mul m1 m2)
  | _, _ => Err ETypeError
  end.

(* __truediv__: self * (1 / other) *)
Definition v_div (a b : val) : res val :=
  match b with
  | VNum y =>
      match a with
      | VView _ => Err ETypeError
      | VNum x => if qis0 y then Err EZeroDiv else Ok (VNum (x / y))
      | VMdl m => if qis0 y then Err EZeroDiv else Ok (VMdl (m_scale (/ y) m))
      end
  | _ => Err ETypeError
  end.

Definition v_neg (a : val) : res val :=
  match a with
  | VNum x => Ok (VNum (- x))
  | VMdl m => Ok (VMdl (m_scale (- (1)) m))
  | VView _ => Err ETypeError
  end.

(* __pos__ exists on BinaryQuadraticModel only *)
Definition v_pos (a : val) : res val :=
  match a with
  | VNum x => Ok (VNum x)
  | VMdl m => match m_cls m with CBqm _ => Ok (VMdl m) | CQm => Err ETypeError end
  | VView _ => Err ETypeError
  end.

Definition v_pow (a : val) (n : nat) : res val :=
  match a with
  | VNum x => Ok (VNum (qpow x n))
  | VMdl m => lift (m_pow m n)
  | VView _ => Err ETypeError
  end.

(* ---------- expression trees ---------- *)
Inductive kind := KBin | KSpin | KInt | KReal.

Definition kind_vt (k : kind) : vartype :=
  match k with KBin => BINARY | KSpin => SPIN | KInt => INTEGER | KReal => REAL end.

(* dimod.Binary / Spin / Integer / Real (label): one variable with bias 1 *)
Definition var_mdl (k : kind) (l : label) (lb ub : Qc) : mdl :=
  mkM (match k with KBin => CBqm BINARY | KSpin => CBqm SPIN | _ => CQm end)
      [(l, mkVI (kind_vt k) lb ub)]
      (mkPoly 0 [(l, 1)] []).

Inductive sx :=
| Var (k : kind) (l : label) (lb ub : Qc)
| Mdl (m : mdl)                 (* pre-built BQM / QM operand *)
| View (m : mdl)                (* CQM objective / constraint left-hand side *)
| Num (q : Qc)
| Add (a b : sx)
| Sub (a b : sx)
| Mul (a b : sx)
| Div (a b : sx)
| Neg (a : sx)
| Pos (a : sx)
| Pow (a : sx) (n : nat)
| Quicksum (l : list sx).

Definition Pow2 (a : sx) : sx := Pow a 2.

Definition qm_zero : mdl := mkM CQm [] pzero.

Fixpoint fold_add (acc : val) (l : list val) : res val :=
  match l with
  | [] => Ok acc
  | x :: xs => bind (v_add acc x) (fun acc' => fold_add acc' xs)
  end.

(* quicksum: deep copy of the first item, then `+=` for every further item; an empty
   iterable gives an empty QuadraticModel.  (The items of a list are all evaluated
   before quicksum runs, so an item's error precedes any error of the summation.) *)
Definition v_quicksum (l : list val) : res val :=
  match l with
  | [] => Ok (VMdl qm_zero)
  | a :: rest => fold_add a rest
  end.

Definition mapM {A B : Type} (f : A -> res B) : list A -> res (list B) :=
  fix go (l : list A) : res (list B) :=
    match l with
    | [] => Ok []
    | x :: xs => bind (f x) (fun v => bind (go xs) (fun vs => Ok (v :: vs)))
    end.

Fixpoint eval (e : sx) : res val :=
  match e with
  | Var k l lb ub => Ok (VMdl (var_mdl k l lb ub))
  | Mdl m => Ok (VMdl m)
  | View m => Ok (VView m)
  | Num q => Ok (VNum q)
  | Add a b => bind (eval a) (fun x => bind (eval b) (fun y => v_add x y))
  | Sub a b => bind (eval a) (fun x => bind (eval b) (fun y => v_sub x y))
  | Mul a b => bind (eval a) (fun x => bind (eval b) (fun y => v_mul x y))
  | Div a b => bind (eval a) (fun x => bind (eval b) (fun y => v_div x y))
  | Neg a => bind (eval a) v_neg
  | Pos a => bind (eval a) v_pos
  | Pow a n => bind (eval a) (fun x => v_pow x n)
  | Quicksum l => bind (mapM eval l) v_quicksum
  end.

(* ---------- ordinary arithmetic on the operands' energies ---------- *)
Fixpoint denote (e : sx) (s : sample) : Qc :=
  match e with
  | Var _ l _ _ => s l
  | Mdl m => energy (m_poly m) s
  | View m => energy (m_poly m) s
  | Num q => q
  | Add a b => denote a s + denote b s
  | Sub a b => denote a s - denote b s
  | Mul a b => denote a s * denote b s
  | Div a b => denote a s / denote b s
  | Neg a => - denote a s
  | Pos a => denote a s
  | Pow a n => qpow (denote a s) n
  | Quicksum l => qsum (map (fun x => denote x s) l)
  end.

Definition val_tab (v : val) : tab :=
  match v with VNum _ => [] | VMdl m => m_tab m | VView m => m_tab m end.

Definition val_energy (v : val) (s : sample) : Qc :=
  match v with VNum q => q | VMdl m => energy (m_poly m) s | VView m => energy (m_poly m) s end.
