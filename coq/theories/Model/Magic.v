(* C17 - magic_square(size, power) (generators/magic_square.py): integer variables var_i_j -> i*n+j,
   "sum" -> n*n.  Constraints in the generator's order: row_0, col_0, row_1, col_1, ..., diagonal,
   antidiagonal (each: sum of the line's cells (squared when power = 2) - sum == 0) and "uniqueness":
   sum over unordered pairs of cells of (a - b)^2 >= (n^4 - n^2)/2.   Executable; no proofs here. *)
From Coq Require Import List ZArith QArith Qcanon Bool Arith.
From Dimod Require Import Base.Util Model.Poly Model.Knap Model.Gates.
Import ListNotations.
Open Scope Qc_scope.

Definition mcell (n i j : nat) : label := (i * n + j)%nat.
Definition msum (n : nat) : label := (n * n)%nat.

(* a constraint  poly (sense) rhs *)
Definition qcon := (poly * sense * Qc)%type.

Definition line_poly (n power : nat) (cells : list label) : poly :=
  if (power =? 2)%nat
  then mkPoly 0 [(msum n, - (1))] (map (fun c => (c, c, 1)) cells)
  else mkPoly 0 (map (fun c => (c, 1)) cells ++ [(msum n, - (1))]) [].

(* the pairs ((i,j),(k,l)) with (k > i and l = j) or l > j, in product order *)
Definition cell_pairs (n : nat) : list (label * label) :=
  flat_map (fun i => flat_map (fun j => flat_map (fun k => flat_map (fun l =>
    if ((i <? k)%nat && (l =? j)%nat) || (j <? l)%nat then [(mcell n i j, mcell n k l)] else [])
    (seq 0 n)) (seq 0 n)) (seq 0 n)) (seq 0 n).

Definition uniq_poly (n : nat) : poly :=
  mkPoly 0 [] (flat_map (fun p => [(fst p, fst p, 1); (snd p, snd p, 1); (fst p, snd p, - two)]) (cell_pairs n)).

Definition uniq_rhs (n : nat) : Qc := z2q (Z.of_nat ((n * n * n * n - n * n) / 2)).

Definition magic_constraints (n power : nat) : list qcon :=
  flat_map (fun i => [(line_poly n power (map (fun j => mcell n i j) (seq 0 n)), SEq, 0);
                      (line_poly n power (map (fun j => mcell n j i) (seq 0 n)), SEq, 0)]) (seq 0 n)
  ++ [(line_poly n power (map (fun i => mcell n i i) (seq 0 n)), SEq, 0);
      (line_poly n power (map (fun i => mcell n i (n - 1 - i)) (seq 0 n)), SEq, 0);
      (uniq_poly n, SGe, uniq_rhs n)].

Definition qcon_satb (c : qcon) (x : sample) : bool :=
  let '(p, sn, rhs) := c in
  match sn with
  | SLe => qleb (energy p x) rhs
  | SGe => qleb rhs (energy p x)
  | SEq => Qc_eqb (energy p x) rhs
  end.
Definition magic_feasibleb (n power : nat) (x : sample) : bool := forallb (fun c => qcon_satb c x) (magic_constraints n power).

(* integer assignments *)
Definition zsample (vals : list Z) : sample := fun v => z2q (nth v vals 0%Z).

(* sum of squared differences over a list of pairs, over Z *)
Definition sqdiff_sum (v : nat -> Z) (pairs : list (label * label)) : Z :=
  fold_right (fun p acc => ((v (fst p) - v (snd p)) * (v (fst p) - v (snd p)) + acc)%Z) 0%Z pairs.
Definition all_distinct_on (v : nat -> Z) (pairs : list (label * label)) : Prop :=
  forall p, In p pairs -> v (fst p) <> v (snd p).
