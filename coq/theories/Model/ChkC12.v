(* C12 correspondence: the loaded model is compared with what the term model predicts from
   the original (coefficient-wise), the text with what the width-limiting model produces from
   the recorded sequence of writes, and the round-trip property itself is evaluated on the
   implementation's own observations (coefficients, energies at samples, tokens of the text).
   Variables, vartypes, bounds and constraint labels are compared exactly by the worker. *)
From Coq Require Import List ZArith NArith QArith Qcanon Bool Arith.
From Dimod Require Import Base.Util Model.Poly Model.LP Model.LPTok Model.LPRead Model.LPLex.
Import ListNotations.
Open Scope Qc_scope.

Record conobs := mkCon { k_lhs : obs; k_sense : sense; k_rhs : Qc }.

(* a sample, the loaded objective's energy there, the loaded constraints' lhs energies there *)
Definition probe := (list (label * Qc) * Qc * list Qc)%type.

Inductive case :=
| KTrip (n : nat) (obj0 obj1 : obs) (cns : list (conobs * conobs)) (probes : list probe)
        (writes : list text) (output : text) (labels : list (option text))
| KRefuse (m : cqm_shape) (raised : bool)
(* the words of the text lp.dumps produced, classified into tokens, and what the C++ reader
   made of that text: objective, constraints (label, lhs, sense, rhs) and variables in its order *)
(* one label accepted by dump, used as a variable or as a constraint label in a small model:
   did loads (dumps cqm) give the model back?  compared with the model of the reader's tokenizer
   built from the generated keyword / delimiter tables (this includes the open label findings) *)
| KReads (as_constraint : bool) (s : text) (came_back : bool)
(* several accepted labels as the binary variables of a small model, in this order (they are adjacent
   only in the Binary section): did loads (dumps cqm) give the model back? *)
| KReadsNames (names : list text) (came_back : bool)
| KParse (n : nat) (toks : list token) (obj1 : obs) (cons1 : list (nat * conobs)) (vars1 : list varinfo)
(* the CHARACTERS of the text lp.dumps produced, the labels of the model (variables in index order,
   constraints in order), the numerals of the text whose decimal value is not a double with the double
   Python's float() gives, and what the C++ reader made of that text: the Coq model of the reader's
   tokenizer and keyword stage (Model/LPLex.v) followed by the reference parser must build the same *)
| KLexParse (n : nat) (output : text) (tbl : numtable) (names cons : list text)
            (obj1 : obs) (cons1 : list (nat * conobs)) (vars1 : list varinfo)
(* KTrip, KParse and KLexParse of one round trip in one term (the text is carried once): `labels` are the
   n variable labels followed by the constraint labels *)
| KTripFull (n : nat) (obj0 obj1 : obs) (cns : list (conobs * conobs)) (probes : list probe)
            (writes : list text) (output : text) (labels : list (option text))
            (toks : list token) (cons1 : list (nat * conobs)) (vars1 : list varinfo) (tbl : numtable).

Definition to_constr (k : conobs) : constr := mkConstr (obs_poly (k_lhs k)) (k_sense k) (k_rhs k).

Definition con_ok (n : nat) (ab : conobs * conobs) : bool :=
  let c' := read_constraint (write_constraint (to_constr (fst ab))) in
  poly_coeff_eqb n (c_lhs c') (obs_poly (k_lhs (snd ab)))
  && sense_eqb (c_sense c') (k_sense (snd ab))
  && Qc_eqb (c_rhs c') (k_rhs (snd ab)).

Fixpoint probe_cons (s : list (label * Qc)) (cns : list (conobs * conobs)) (es : list Qc) : bool :=
  match cns, es with
  | [], [] => true
  | ab :: r, e :: er =>
      Qc_eqb (energy_on (obs_poly (k_lhs (fst ab))) s - k_rhs (fst ab)) (e - k_rhs (snd ab))
      && probe_cons s r er
  | _, _ => false
  end.

Definition probe_ok (obj0 : obs) (cns : list (conobs * conobs)) (p : probe) : bool :=
  let '(s, e, es) := p in
  Qc_eqb (energy_on (obs_poly obj0) s) e && probe_cons s cns es.

Definition text_eqb (a b : text) : bool := list_eqb N.eqb a b.

Definition con_eqb (n : nat) (a : nat * constr) (b : nat * conobs) : bool :=
  Nat.eqb (fst a) (fst b)
  && poly_coeff_eqb n (c_lhs (snd a)) (obs_poly (k_lhs (snd b)))
  && sense_eqb (c_sense (snd a)) (k_sense (snd b))
  && Qc_eqb (c_rhs (snd a)) (k_rhs (snd b)).

Definition var_eqb (a b : varinfo) : bool :=
  Nat.eqb (vi_label a) (vi_label b) && vartype_eqb (vi_type a) (vi_type b)
  && Qc_eqb (vi_lb a) (vi_lb b) && Qc_eqb (vi_ub a) (vi_ub b).

(* the verified reference parser on the implementation's own text must agree with the reader *)
Definition parse_ok (n : nat) (toks : list token) (obj1 : obs) (cons1 : list (nat * conobs))
  (vars1 : list varinfo) : bool :=
  match parse_tokens toks with
  | None => false
  | Some m =>
      let c := cqm_of_lpmodel (map vi_label vars1) m in
      poly_coeff_eqb n (q_obj c) (obs_poly obj1)
      && Nat.eqb (length (q_cons c)) (length cons1)
      && forallb (fun ab => con_eqb n (fst ab) (snd ab)) (combine (q_cons c) cons1)
      && list_eqb var_eqb (q_vars c) vars1
      && forallb (fun v => mem_nat v (map vi_label vars1)) (model_names m)
  end.

Definition trip_ok (n : nat) (obj0 obj1 : obs) (cns : list (conobs * conobs)) (probes : list probe)
  (writes : list text) (output : text) (labels : list (option text)) : bool :=
  poly_coeff_eqb n (read_objective (write_objective (obs_poly obj0))) (obs_poly obj1)
  && poly_coeff_eqb n (obs_poly obj0) (obs_poly obj1)
  && forallb (con_ok n) cns
  && forallb (probe_ok obj0 cns) probes
  && text_eqb (wrap writes) output
  && sealedb writes
  && list_eqb text_eqb (tokens output) (flat_map tokens writes)
  && forallb validate_label labels.

Definition lexparse_ok (n : nat) (output : text) (tbl : numtable) (names clabels : list text)
  (obj1 : obs) (cons1 : list (nat * conobs)) (vars1 : list varinfo) : bool :=
  numtable_ok tbl
  && match read_tokens tbl names clabels output with
     | Some toks => parse_ok n toks obj1 cons1 vars1
     | None => false
     end.

Definition some_texts (l : list (option text)) : list text :=
  flat_map (fun o => match o with Some t => [t] | None => [] end) l.

Definition check (c : case) : bool :=
  match c with
  | KTrip n obj0 obj1 cns probes writes output labels =>
      trip_ok n obj0 obj1 cns probes writes output labels
  | KTripFull n obj0 obj1 cns probes writes output labels toks cons1 vars1 tbl =>
      trip_ok n obj0 obj1 cns probes writes output labels
      && parse_ok n toks obj1 cons1 vars1
      && lexparse_ok n output tbl (some_texts (firstn n labels)) (some_texts (skipn n labels)) obj1 cons1 vars1
  | KRefuse m raised => Bool.eqb (negb (dump_ok m)) raised
  | KParse n toks obj1 cons1 vars1 => parse_ok n toks obj1 cons1 vars1
  | KLexParse n output tbl names clabels obj1 cons1 vars1 =>
      lexparse_ok n output tbl names clabels obj1 cons1 vars1
  | KReadsNames names came_back =>
      forallb (fun s => validate_label (Some s)) names
      && Bool.eqb (names_section_read names) came_back
  | KReads as_con s came_back =>
      validate_label (Some s)
      && Bool.eqb (reader_reads_label (if as_con then AsConstraint else AsVariable) s) came_back
  end.
