(* C12 correspondence: the loaded model is compared with what the term model predicts from
   the original (coefficient-wise), the text with what the width-limiting model produces from
   the recorded sequence of writes, and the round-trip property itself is evaluated on the
   implementation's own observations (coefficients, energies at samples, tokens of the text).
   Variables, vartypes, bounds and constraint labels are compared exactly by the worker. *)
From Coq Require Import List ZArith NArith QArith Qcanon Bool Arith.
From Dimod Require Import Base.Util Model.Poly Model.LP.
Import ListNotations.
Open Scope Qc_scope.

Record conobs := mkCon { k_lhs : obs; k_sense : sense; k_rhs : Qc }.

(* a sample, the loaded objective's energy there, the loaded constraints' lhs energies there *)
Definition probe := (list (label * Qc) * Qc * list Qc)%type.

Inductive case :=
| KTrip (n : nat) (obj0 obj1 : obs) (cns : list (conobs * conobs)) (probes : list probe)
        (writes : list text) (output : text) (labels : list (option text))
| KRefuse (m : cqm_shape) (raised : bool).

Definition to_constr (k : conobs) : constr := mkConstr (obs_poly (k_lhs k)) (k_sense k) (k_rhs k).

Definition con_ok (n : nat) (ab : conobs * conobs) : bool :=
  let c' := read_constraint (write_constraint (to_constr (fst ab))) in
  poly_coeff_eqb n (c_lhs c') (obs_poly (k_lhs (snd ab)))
  && sense_eqb (c_sense c') (k_sense (snd ab))
  && Qc_eqb (c_rhs c') (k_rhs (snd ab)).

Fixpoint probe_cons (s : list (label * Qc)) (cns : list (conobs * conobs)) (es : list Qc) : bool :=
  match cns, es with
  | [], [] => true
  | ab :: r, e :: er =>
      Qc_eqb (energy_on (obs_poly (k_lhs (fst ab))) s - k_rhs (fst ab)) (e - k_rhs (snd ab))
      && probe_cons s r er
  | _, _ => false
  end.

Definition probe_ok (obj0 : obs) (cns : list (conobs * conobs)) (p : probe) : bool :=
  let '(s, e, es) := p in
  Qc_eqb (energy_on (obs_poly obj0) s) e && probe_cons s cns es.

Definition text_eqb (a b : text) : bool := list_eqb N.eqb a b.

Definition check (c : case) : bool :=
  match c with
  | KTrip n obj0 obj1 cns probes writes output labels =>
      poly_coeff_eqb n (read_objective (write_objective (obs_poly obj0))) (obs_poly obj1)
      && poly_coeff_eqb n (obs_poly obj0) (obs_poly obj1)
      && forallb (con_ok n) cns
      && forallb (probe_ok obj0 cns) probes
      && text_eqb (wrap writes) output
      && sealedb writes
      && list_eqb text_eqb (tokens output) (flat_map tokens writes)
      && forallb validate_label labels
  | KRefuse m raised => Bool.eqb (negb (dump_ok m)) raised
  end.
