(* C07 correspondence + oracle.  Every sample set the implementation returned is
   decided against the post-condition (variables, domains, energies looked up BY
   LABEL on the submitted problem's reported coefficients); the exact solvers'
   rows are compared with the model enumeration as multisets (each assignment exactly once); composites / mixins are
   compared with the model applied to the child's recorded result. *)
From Coq Require Import List ZArith QArith Qcanon Bool Arith.
From Dimod Require Import Base.Util Model.Poly Model.HPoly Model.Samples Model.Comb Model.Feas Gen.Gen_ExactHoc Model.Solve
     Gen.Gen_Deferred Model.Deferred Model.ParseInit.
Import ListNotations.
Open Scope Qc_scope.

Definition zq (z : Z) : Qc := Q2Qc (inject_Z z).

Inductive problem :=
| PQuad (p : poly)
| PPoly (h : hpoly).

Definition prob_energy (pr : problem) (s : sample) : Qc :=
  match pr with PQuad p => energy p s | PPoly h => henergy h s end.

(* the variable's domain (specification): integers between the bounds *)
Definition in_dom (d : vdom) (x : Qc) : bool :=
  match d with
  | DIntQ lb ub => Qc_leb lb x && Qc_leb x ub && Pos.eqb (Qden x) 1
  | _ => existsb (fun z => Qc_eqb x (zq z)) (dom_values d)
  end.

Fixpoint nodup_nat (l : list nat) : bool :=
  match l with [] => true | x :: r => negb (mem_nat x r) && nodup_nat r end.

Definition dom_of (vars : list (label * vdom)) (v : label) : option vdom :=
  match find (fun t => (fst t =? v)%nat) vars with Some t => Some (snd t) | None => None end.

Definition qlist_eqb := list_eqb Qc_eqb.
Definition rows_eqb := list_eqb qlist_eqb.

(* the post-condition of the property on one returned sample set *)
Definition post (e : sample -> Qc) (vars : list (label * vdom)) (r : result) : bool :=
  let ls := r_labels r in
  nodup_nat ls && same_label_set ls (map fst vars) && nodup_nat (map fst vars) &&
  (length (r_rows r) =? length (r_energies r))%nat &&
  forallb (fun row => (length row =? length ls)%nat &&
                      forallb (fun vx => match dom_of vars (fst vx) with
                                         | Some d => in_dom d (snd vx)
                                         | None => false end) (combine ls row)) (r_rows r) &&
  qlist_eqb (map (fun row => e (row_sample ls row)) (r_rows r)) (r_energies r).

(* two tables mean the same: same label set, same rows after re-ordering columns, same energies *)
Definition res_equiv (model seen : result) : bool :=
  nodup_nat (r_labels seen) && same_label_set (r_labels model) (r_labels seen) &&
  (length (r_labels model) =? length (r_labels seen))%nat &&
  forallb (fun row => (length row =? length (r_labels seen))%nat) (r_rows seen) &&
  rows_eqb (r_rows model) (map (reindex_row (r_labels model) (r_labels seen)) (r_rows seen)) &&
  qlist_eqb (r_energies model) (r_energies seen).

(* multiset equality of row lists: the property-relevant observable of an enumeration is
   which assignments occur how often, not their order *)
Fixpoint remove_row (x : list Qc) (l : list (list Qc)) : option (list (list Qc)) :=
  match l with
  | [] => None
  | y :: r => if qlist_eqb x y then Some r
              else match remove_row x r with Some r' => Some (y :: r') | None => None end
  end.
Fixpoint rows_sub (a b : list (list Qc)) : bool :=
  match a with
  | [] => true
  | x :: r => match remove_row x b with Some b' => rows_sub r b' | None => false end
  end.
Definition rows_perm (a b : list (list Qc)) : bool := (length a =? length b)%nat && rows_sub a b.

(* rows of an enumeration (Z) as Qc *)
Definition zrows (l : list (list Z)) : list (list Qc) := map (map zq) l.

Definition bits_rows (spin : bool) (l : list (list bool)) : list (list Qc) :=
  (* ExactSolver.sample: samples = a*samples + b for SPIN (generated from the source) *)
  map (map (fun b : bool => let x := if b then 1 else 0 in
                            if spin then fst gen_spin_of_bit * x + snd gen_spin_of_bit else x)) l.

(* the lowest reported energy is a lower bound of the energy over the whole model search space *)
Definition lowest_is_min (e : sample -> Qc) (vars : list label) (space : list (list Qc)) (r : result) : bool :=
  match argmin (fun x => x) (r_energies r) with
  | None => match space with [] => true | _ => false end
  | Some m => forallb (fun row => Qc_leb m (e (row_sample vars row))) space
  end.

(* oracle: each assignment exactly once (multiset) and the lowest row optimal;
   correspondence: the rows come in the model's enumeration ORDER (the solvers do not sort) *)
Definition exact_ok (e : sample -> Qc) (vars : list label) (space : list (list Qc)) (r : result) : bool :=
  rows_perm space (map (reindex_row vars (r_labels r)) (r_rows r)) && lowest_is_min e vars space r &&
  rows_eqb space (map (reindex_row vars (r_labels r)) (r_rows r)).

(* DQM: variable i has label i; case c of variable i is label i*stride + c of the polynomial *)
Definition qz (q : Qc) : Z := Qnum q.
Definition dqm_e (p : poly) (stride : nat) (s : sample) : Qc :=
  energy p (fun l => let v := (l / stride)%nat in
                     if Qc_eqb (s v) (zq (Z.of_nat (l mod stride))) then 1 else 0).

(* hard constraints, decided by the C08 definition (Model/Feas.v) with ExactCQMSolver's default
   tolerances atol = 1e-8, rtol = 1e-6 *)
Definition cqm_atol : Qc := qc 1 100000000.
Definition cqm_rtol : Qc := qc 1 1000000.
Definition con_sat_tol (atol rtol : Qc) (s : sample) (c : poly * sense * Qc) : bool :=
  satisfied atol rtol (mkCon (fst (fst c)) (snd (fst c)) (snd c) None) s.

Inductive comp :=
| KPass
| KTruncU (agg : bool) (n : nat)
| KTruncS (agg : bool) (n : nat)
| KTruncOcc (agg : bool) (n : nat)          (* sorted_by='num_occurrences' *)
| KPolymorph (poly : hpoly) (poly_vars : list label) (red : list (label * label * label))
             (keep discard : option bool)      (* None = not passed: HigherOrderComposite.sample_poly's default *)
| KScale (orig : hpoly) (scalar : option Qc) (bias_range : prange) (poly_range : option prange)
         (ign : list (list label)) (sent : hpoly)
| KFixed (orig : hpoly) (fs : list (label * Qc)) (sent : hpoly)
| KTrack (n : nat) (count : nat) (given tracked : poly) (tracked_out : result).

Inductive mixdir := SpinViaQubo | BinaryViaIsing | SameVartype.

Fixpoint remove_pair (x : Qc * list Qc) (l : list (Qc * list Qc)) : option (list (Qc * list Qc)) :=
  match l with
  | [] => None
  | y :: r => if Qc_eqb (fst x) (fst y) && qlist_eqb (snd x) (snd y) then Some r
              else match remove_pair x r with Some r' => Some (y :: r') | None => None end
  end.
Fixpoint sub_multiset (a b : list (Qc * list Qc)) : bool :=
  match a with
  | [] => true
  | x :: r => match remove_pair x b with Some b' => sub_multiset r b' | None => false end
  end.

Inductive case :=
| CPost (pr : problem) (vars : list (label * vdom)) (res : result)
| CExact (pr : problem) (spin : bool) (vars : list label) (res : result)
| CExactDqm (p : poly) (stride : nat) (ncases : list nat) (res : result)
| CExactCqm (obj : poly) (vars : list (label * vdom)) (groups : list (list label))
            (cons : list (poly * sense * Qc)) (tol : option (Qc * Qc))   (* Some (atol, rtol) as passed; None = defaults *)
            (res : result) (feas : list bool)
| CComp (k : comp) (child res : result)
| CMixin (d : mixdir) (n : nat) (vars : list label) (submitted sent : poly) (child res : result)
(* a stack of single-method samplers (innermost first: direction and the problem that level's
   .sample received) over a base whose implemented method answered with a sample set built on a
   future of the given kind: was the returned set still pending, and what did it resolve to *)
| CStack (kind : fkind) (pending_seen : bool) (vars : list label) (levels : list (mixdir * poly))
         (base res : result)
(* the deterministic remainder of the stochastic samplers, on the rows they returned *)
| CFromRows (pr : problem) (vars : list label) (res : result)
| CSa (binary : bool) (vars : list label) (p : poly) (res : result)
| CNull (vars : list label) (res : result)
| CIdentity (g : isg) (num_reads : option nat) (pr : problem) (vars ls : list label) (conv : nat)
            (init : list (list Qc)) (seen : option result)
(* Initialized.parse_initial_states on the argument AS GIVEN: not given, or (the vartype a SampleSet
   declares - None for raw states, whose vartype the model infers from the values -, labels, rows) *)
| CParse (g : isg) (num_reads : option nat) (pr : problem) (spin : bool) (vars : list label)
         (init : option (option bool * list label * list (list Qc))) (seen : option result)
(* SimulatedAnnealingSampler's argument tests: ValueError exactly when the model rejects *)
| CSaCall (num_reads : Z) (beta_range : option (list Qc)) (num_sweeps : Z) (raised : bool)
(* the same on arguments of any type: accepted / ValueError / TypeError as the model says *)
| CSaOutcome (num_reads : iarg) (beta_range : barg) (num_sweeps : iarg) (seen : outcome)
(* what the sample_ising / sample_qubo mixin of a composite handed to its own sample method *)
| CEntry (n : nat) (qubo : bool) (h : list lterm) (J : list qterm) (observed : poly)
(* sample_hising(h, J) / sample_hubo(H) / sample_poly: the polynomial the outermost layer received is
   the one the user's terms denote (x*x = x, s*s = 1, equal monomials under any key order added,
   a single-variable key of J added to h) *)
| CEntryPoly (spin : bool) (raw received : hpoly)
(* post-condition against the user's RAW terms (keys may repeat a variable): a variable that cancels
   inside every term it occurs in (s*s = 1) is not a column; the energy does not depend on it and is
   evaluated with the in-domain value 1 for it *)
| CPostRaw (raw : hpoly) (vars : list (label * vdom)) (res : result)
(* PolyScaleComposite raises ZeroDivisionError exactly when the model says so *)
| CScaleRaise (scalar : option Qc) (bias_range : prange) (poly_range : option prange) (raised : bool)
| CStruct (nodes : list label) (edges : list (label * label)) (vars : list label) (quad : list (label * label))
          (rejected : bool) (child_calls : nat).

Definition check_comp (k : comp) (child res : result) : bool :=
  match k with
  | KPass => res_equiv (passthrough child) res
  | KTruncU agg n => res_equiv (truncate_unsorted n (if agg then aggregate child else child)) res
  | KTruncS agg n =>
      let child := if agg then aggregate child else child in
      let m := truncate_sorted n child in
      list_eqb Nat.eqb (r_labels m) (r_labels res) && qlist_eqb (r_energies m) (r_energies res) &&
      (length (r_rows res) =? length (r_energies res))%nat &&
      sub_multiset (combine (r_energies res) (r_rows res)) (combine (r_energies child) (r_rows child))
  | KTruncOcc agg n =>
      (* relational (argsort's order among equal counts is not modelled): n rows (or all), each an
         (energy, row) pair of the child; after aggregation the kept rows are ones with the n
         smallest occurrence counts *)
      let orig := r_rows child in
      let child := if agg then aggregate child else child in
      let cnt := fun row => length (filter (row_eqb row) orig) in
      list_eqb Nat.eqb (r_labels child) (r_labels res) &&
      (length (r_rows res) =? Nat.min n (length (r_rows child)))%nat &&
      (length (r_rows res) =? length (r_energies res))%nat &&
      sub_multiset (combine (r_energies res) (r_rows res)) (combine (r_energies child) (r_rows child)) &&
      (if agg then nats_eqb (firstn n (sort_nats (map cnt (r_rows child)))) (sort_nats (map cnt (r_rows res)))
       else true)
  | KPolymorph poly pv red keep discard =>
      let keep := match keep with Some b => b | None => gen_hoc_keep_penalty_variables end in
      let discard := match discard with Some b => b | None => gen_hoc_discard_unsatisfied end in
      res_equiv (polymorph poly pv red keep discard child) res
  | KScale orig scalar br prr ign sent =>
      let '(lr, pr) := polyscale_ranges br prr in
      dictlike_b orig &&
      let '(q, k) := polyscale_problem scalar lr pr ign orig in
      hpoly_eqb q sent && res_equiv (polyscale_result orig k ign child) res
  | KFixed orig fs sent =>
      hpoly_eqb (hfix fs orig) sent && res_equiv (polyfixed_result orig fs child) res
  | KTrack n count given tracked out =>
      (* one call recorded; the recorded input is the given problem, the recorded output and the
         returned sample set are the child's *)
      (count =? 1)%nat && poly_coeff_eqb n given tracked && poly_pairs_eqb n given tracked &&
      res_equiv child out && res_equiv (passthrough child) res
  end.

Definition conv_of (k : nat) : list Qc -> list Qc :=
  match k with
  | 1%nat => row_to_binary
  | 2%nat => row_to_spin
  | _ => fun r => r
  end.

Definition check_identity (g : isg) (num_reads : option nat) (e : sample -> Qc) (vars ls : list label)
           (conv : nat) (init : list (list Qc)) (seen : option result) : bool :=
  let extra := match seen with
               | Some r => skipn (length init) (map (reindex_row ls (r_labels r)) (r_rows r))
               | None => []
               end in
  match identity_sample g num_reads e vars ls (conv_of conv) init extra, seen with
  | None, None => true
  | Some m, Some r =>
      res_equiv m r &&
      (* the number of rows is num_reads (default: the number of initial states, or 1) *)
      (length (r_rows r) =? match num_reads with
                            | Some n => n
                            | None => match length init with O => 1 | k => k end
                            end)%nat
  | _, _ => false
  end.

Definition vt2_of (spin : bool) : vt2 := if spin then VSpin else VBinary.

Definition check_parse (g : isg) (num_reads : option nat) (e : sample -> Qc) (spin : bool) (vars : list label)
           (init : option (option bool * list label * list (list Qc))) (seen : option result) : bool :=
  let n_init := match init with Some (_, _, rows) => length rows | None => O end in
  let ls := match init with Some (_, ls, _) => ls | None => vars end in
  let extra := match seen with
               | Some r => skipn n_init (map (reindex_row ls (r_labels r)) (r_rows r))
               | None => []
               end in
  let init' := match init with
               | Some (d, ls, rows) => Some (mkInit (option_map vt2_of d) ls rows)
               | None => None
               end in
  match parse_initial_states g num_reads e (vt2_of spin) vars init' extra, seen with
  | None, None => true
  | Some m, Some r =>
      res_equiv m r &&
      (length (r_rows r) =? match num_reads with
                            | Some n => n
                            | None => match n_init with O => 1 | k => k end
                            end)%nat
  | _, _ => false
  end.

Definition check_mixin (d : mixdir) (n : nat) (vars : list label) (submitted sent : poly)
           (child res : result) : bool :=
  match d with
  | SpinViaQubo =>
      let q := to_binary_all vars submitted in
      poly_coeff_eqb n (drop_offset q) sent &&
      res_equiv (change_vartype row_to_spin (p_off q) child) res
  | BinaryViaIsing =>
      let q := to_spin_all vars submitted in
      poly_coeff_eqb n (drop_offset q) sent &&
      res_equiv (change_vartype row_to_binary (p_off q) child) res
  | SameVartype =>
      poly_coeff_eqb n (drop_offset submitted) sent &&
      res_equiv (change_vartype (fun r => r) (p_off submitted) child) res
  end.

Definition level_of (vars : list label) (l : mixdir * poly) : level * Qc :=
  match fst l with
  | SpinViaQubo => (LSpinViaQubo, fwd_off gen_mixin_forwards_offset (p_off (to_binary_all vars (snd l))))
  | BinaryViaIsing => (LBinaryViaIsing, fwd_off gen_mixin_forwards_offset (p_off (to_spin_all vars (snd l))))
  | SameVartype => (LSame, fwd_off gen_mixin_forwards_offset (p_off (snd l)))
  end.

Definition check_stack (kind : fkind) (pending_seen : bool) (vars : list label)
           (levels : list (mixdir * poly)) (base res : result) : bool :=
  let s := stack_ss (map (level_of vars) levels) (base_ss kind base) in
  Bool.eqb (negb (ss_done s)) pending_seen && res_equiv (ss_resolve s) res.

Definition check (c : case) : bool :=
  match c with
  | CPost pr vars res => post (prob_energy pr) vars res
  | CExact pr spin vars res =>
      post (prob_energy pr) (map (fun v => (v, if spin then DSpin else DBin)) vars) res &&
      exact_ok (prob_energy pr) vars (bits_rows spin (graycode (length vars))) res
  | CExactDqm p stride ncases res =>
      let vars := seq 0 (length ncases) in
      post (dqm_e p stride) (combine vars (map (fun n => DInt 0 (Z.of_nat n - 1)) ncases)) res &&
      exact_ok (dqm_e p stride) vars (zrows (all_cases_dqm ncases)) res
  | CExactCqm obj vars groups cns tol res feas =>
      let con_sat := match tol with
                     | Some (atol, rtol) => con_sat_tol atol rtol
                     | None => con_sat_tol cqm_atol cqm_rtol
                     end in
      let d_vars := concat groups in
      let order := cqm_var_order (map fst vars) groups in
      let free := filter (fun t => negb (mem_nat (fst t) d_vars)) vars in
      let space := zrows (all_cases_cqm (map (@length label) groups) (map snd free)) in
      post (energy obj) vars res &&
      rows_perm space (map (reindex_row order (r_labels res)) (r_rows res)) &&
      rows_eqb space (map (reindex_row order (r_labels res)) (r_rows res)) &&
      list_eqb Bool.eqb
        (map (fun row => forallb (con_sat (row_sample (r_labels res) row)) cns) (r_rows res)) feas &&
      (* the lowest feasible row is optimal among the feasible assignments of the model space *)
      match argmin (fun x => x) (map fst (filter snd (combine (r_energies res) feas))) with
      | None => negb (existsb (fun row => forallb (con_sat (row_sample order row)) cns) space)
      | Some m => forallb (fun row => negb (forallb (con_sat (row_sample order row)) cns)
                                      || Qc_leb m (energy obj (row_sample order row))) space
      end
  | CComp k child res => check_comp k child res
  | CMixin d n vars submitted sent child res => check_mixin d n vars submitted sent child res
  | CStack kind pending_seen vars levels base res => check_stack kind pending_seen vars levels base res
  | CFromRows pr vars res =>
      res_equiv (from_samples_bqm (prob_energy pr) vars (r_labels res) (r_rows res)) res
  | CSa binary vars p res =>
      res_equiv (sa_sample binary vars p (r_labels res)
                   (if binary then map row_to_spin (r_rows res) else r_rows res)) res
  | CNull vars res => res_equiv (null_sample vars) res
  | CIdentity g num_reads pr vars ls conv init seen =>
      check_identity g num_reads (prob_energy pr) vars ls conv init seen
  | CParse g num_reads pr spin vars init seen =>
      check_parse g num_reads (prob_energy pr) spin vars init seen
  | CSaCall num_reads beta_range num_sweeps raised =>
      Bool.eqb (negb (sa_validate num_reads beta_range num_sweeps)) raised
  | CSaOutcome num_reads beta_range num_sweeps seen =>
      match sa_outcome num_reads beta_range num_sweeps, seen with
      | Accept, Accept | RaiseValueError, RaiseValueError | RaiseTypeError, RaiseTypeError => true
      | _, _ => false
      end
  | CEntry n qubo h J observed =>
      poly_coeff_eqb n (if qubo then from_qubo J else ising_poly h J) observed
  | CPostRaw raw vars res =>
      let ls := r_labels res in
      post (fun s => henergy raw (fun v => if mem_nat v (map fst vars) then s v else 1)) vars res
  | CEntryPoly spin raw received =>
      hpoly_eqb (map (fun t => (if spin then spin_reduce_vars (fst t) else binary_reduce_vars (fst t), snd t)) raw)
                received
  | CScaleRaise scalar br prr raised =>
      let '(lr, pr) := polyscale_ranges br prr in
      match polyscale_call scalar lr pr [] [] with
      | None => raised
      | Some _ => negb raised
      end
  | CStruct nodes edges vars quad rejected calls =>
      Bool.eqb (negb (structured nodes edges vars quad)) rejected &&
      (calls =? (if rejected then 0 else 1))%nat
  end.
