(* The conversion loop of ConstrainedQuadraticModel.spin_to_binary restricted to an arbitrary list of variable indices
   (e.g. the objective's variables).  Used only to show, by a computed counterexample, why the translator insists on
   the domain self.variables.  Executable; no proofs here. *)
From Coq Require Import List ZArith QArith Qcanon Bool Arith.
From Dimod Require Import Base.Util Model.Poly Model.Adj Model.Expr Model.VartypeOps Model.VartypeLoopsGen.
Import ListNotations.

Definition cqm_stb_over (dom : list nat) (test target : vartype) (q : mcqm) : option mcqm :=
  fold_left (cqm_loop_step test target) dom (Some q).
