(* Code level model of the DQM energy loop
     dimod/discrete/cydiscrete_quadratic_model.pyx : cyDiscreteQuadraticModel.energies
   and of the Python wrapper
     dimod/discrete/discrete_quadratic_model.py : DiscreteQuadraticModel.energies
   (column reordering through the labels).  Executable; no proofs here.

   State of a cyDiscreteQuadraticModel (cydiscrete_quadratic_model.pxd):
     cppBinaryQuadraticModel cppbqm     a BQM over CASE indices  (Model/Adj.v : qm); the DQM
                                        offset is cppbqm's offset (`offset` property:
                                        `self.cppbqm.offset()` / `self.cppbqm.set_offset`)
     vector[index_type] case_starts_    length num_variables+1, case_starts_[0] = 0,
                                        case_starts_[u] = first case index of variable u
     vector[vector[index_type]] adj_    per VARIABLE the sorted vector of neighbouring VARIABLES *)
From Coq Require Import List ZArith QArith Qcanon Bool Arith.
From Dimod Require Import Base.Util Model.Poly Model.Adj Model.Samples.
Import ListNotations.
Open Scope Qc_scope.

Record dqm := mkDqm { d_starts : list nat; d_adjv : list (list nat); d_bqm : qm }.

(* `offset` property: cdef bias_type offset = self.cppbqm.offset() *)
Definition d_off (d : dqm) : Qc := off (d_bqm d).

(* cpdef Py_ssize_t num_variables(self): return self.adj_.size() *)
Definition num_variables (d : dqm) : nat := length (d_adjv d).

Definition start_of (d : dqm) (u : nat) : nat := nth u (d_starts d) 0%nat.

(* num_cases(v) for 0 <= v < num_variables:
     return self.case_starts_[v+1] - self.case_starts_[v]
   (truncated subtraction: a non-positive count rejects every case either way) *)
Definition num_cases (d : dqm) (u : nat) : nat := (start_of d (S u) - start_of d u)%nat.

(* adj_[u] *)
Definition adjv_of (d : dqm) (u : nat) : list nat := nth u (d_adjv d) [].

(* samples[si, u] *)
Definition sample_at (row : list Z) (u : nat) : Z := nth u row 0%Z.

(* cu = self.case_starts_[u] + case_u   (index_type arithmetic; only ever used on a case
   that passed the range check, see dqm_loop_vars) *)
Definition cidx (d : dqm) (u : nat) (c : Z) : nat := Z.to_nat (Z.of_nat (start_of d u) + c).

(*  for vi in range(self.adj_[u].size()):
        v = self.adj_[u][vi]
        # we only care about the lower triangle
        if v > u:
            break
        case_v = samples[si, v]
        cv = self.case_starts_[v] + case_v
        energies[si] += self.cppbqm.quadratic(cu, cv)            *)
Fixpoint dqm_walk (d : dqm) (row : list Z) (u cu : nat) (vs : list nat) (acc : Qc) : Qc :=
  match vs with
  | [] => acc
  | v :: r =>
      if (u <? v)%nat then acc
      else dqm_walk d row u cu r (acc + quadratic (d_bqm d) cu (cidx d v (sample_at row v)))
  end.

(*  for u in range(num_variables):
        case_u = samples[si, u]
        if case_u < 0 or case_u >= self.num_cases(u):
            raise ValueError("invalid case")
        cu = self.case_starts_[u] + case_u
        energies[si] += self.cppbqm.linear(cu)
        <walk over adj_[u]>                                       None = ValueError *)
Definition case_bad (d : dqm) (u : nat) (c : Z) : bool :=
  ((c <? 0) || (Z.of_nat (num_cases d u) <=? c))%Z.

Fixpoint dqm_loop_vars (d : dqm) (row : list Z) (us : list nat) (acc : Qc) : option Qc :=
  match us with
  | [] => Some acc
  | u :: r =>
      let case_u := sample_at row u in
      if case_bad d u case_u then None
      else
        let cu := cidx d u case_u in
        dqm_loop_vars d row r
          (dqm_walk d row u cu (adjv_of d u) (acc + linear (d_bqm d) cu))
  end.

(* one row:  energies[si] starts at self.offset (np.full(num_samples, self.offset));
   the column count test `samples.shape[1] != self.num_variables()` is made per row here
   because a list of lists carries the width in each row *)
Definition dqm_loop_row (d : dqm) (row : list Z) : option Qc :=
  if (length row =? num_variables d)%nat
  then dqm_loop_vars d row (seq 0 (num_variables d)) (d_off d)
  else None.

(* all rows; the first exception aborts the whole call *)
Fixpoint dqm_loop (d : dqm) (rows : list (list Z)) : option (list Qc) :=
  match rows with
  | [] => Some []
  | r :: rs =>
      match dqm_loop_row d r with
      | None => None
      | Some e => match dqm_loop d rs with
                  | None => None
                  | Some es => Some (e :: es)
                  end
      end
  end.

(* the same with the array shape explicit (a 0 x k array with k <> num_variables raises:
     if samples.shape[1] != self.num_variables(): raise ValueError(...) ) *)
Definition dqm_loop_shape (d : dqm) (ncols : nat) (rows : list (list Z)) : option (list Qc) :=
  if (ncols =? num_variables d)%nat then dqm_loop d rows else None.

(* ---------- the Python wrapper  DiscreteQuadraticModel.energies ----------
     samples, labels = as_samples(samples)
     info = np.iinfo(self._cydqm.case_dtype)                       (int32)
     if samples.size and (samples.min() < info.min or samples.max() > info.max):
         raise ValueError("invalid case")
     samples = samples.astype(self._cydqm.case_dtype, copy=False)
     if len(labels) != self.num_variables(): raise ValueError(...)
     if self.variables != labels:
         label_to_idx = dict((v, i) for i, v in enumerate(labels))
         try:    order = [label_to_idx[v] for v in self.variables]
         except KeyError: raise ValueError(...)
         samples = samples[:, order]
     return np.asarray(self._cydqm.energies(samples))
   as_samples returns duplicate free labels, so the dict lookup is Samples.idx_of (for a
   list with duplicates the dict would keep the LAST index, idx_of the first). *)
Definition int32_ok (c : Z) : bool := ((-2147483648 <=? c) && (c <=? 2147483647))%Z.

Definition reorder_row (vars ls : list label) (row : list Z) : list Z :=
  map (fun v => nth (idx_of v ls) row 0%Z) vars.

Definition dqm_energies (vars : list label) (d : dqm) (ls : list label) (rows : list (list Z))
  : option (list Qc) :=
  if negb (forallb (forallb int32_ok) rows) then None
  else if negb (length ls =? num_variables d)%nat then None
  else if list_eqb Nat.eqb vars ls then dqm_loop_shape d (length ls) rows
  else if covers ls vars then dqm_loop_shape d (length vars) (map (reorder_row vars ls) rows)
  else None.

(* ---------- specification side: the indicator sample over case indices ---------- *)
Definition case_list (d : dqm) (row : list Z) : list nat :=
  map (fun u => cidx d u (sample_at row u)) (seq 0 (num_variables d)).

Definition indl (cs : list nat) (i : nat) : Qc := if existsb (Nat.eqb i) cs then 1 else 0.

(* 1 at index case_starts[u] + row[u] for each variable u, 0 elsewhere *)
Definition ind (d : dqm) (row : list Z) : nat -> Qc := indl (case_list d row).

Definition row_in_range (d : dqm) (row : list Z) : bool :=
  (length row =? num_variables d)%nat &&
  forallb (fun u => negb (case_bad d u (sample_at row u))) (seq 0 (num_variables d)).

(* ---------- well-formedness of the state, executable ---------- *)
Fixpoint sorted_nats (l : list nat) : bool :=
  match l with
  | [] => true
  | x :: r => match r with
              | [] => true
              | y :: _ => (x <? y)%nat && sorted_nats r
              end
  end.

(* every stored interaction between a case of u and a case of v has u <> v and v listed in
   adj_[u] (the converse is not required) *)
Definition consistent_b (d : dqm) : bool :=
  forallb (fun u => forallb (fun v =>
    forallb (fun i => forallb (fun j =>
      implb (has_interaction (d_bqm d) i j)
            (negb (u =? v)%nat && existsb (Nat.eqb v) (adjv_of d u)))
      (seq (start_of d v) (num_cases d v)))
      (seq (start_of d u) (num_cases d u)))
    (seq 0 (num_variables d))) (seq 0 (num_variables d)).

Definition dqm_wf_b (d : dqm) : bool :=
  inv_b (d_bqm d)
  && (length (d_starts d) =? S (num_variables d))%nat
  && (start_of d 0 =? 0)%nat
  && (start_of d (num_variables d) =? nvars (d_bqm d))%nat
  && forallb (fun u => (start_of d u <=? start_of d (S u))%nat) (seq 0 (num_variables d))
  && forallb sorted_nats (d_adjv d)
  && consistent_b d.

(* ---------- building the state from what the implementation shows ----------
   dqm.to_numpy_vectors(return_offset=True) = (case_starts (length num_variables, WITHOUT the
   final total), linear_biases (one per case), (irow, icol, qbiases), labels, offset).
   The case BQM is rebuilt with add_variable BINARY / set_linear / add_quadratic; adj_ is
   derived from the interactions (sorted, deduplicated), as _from_numpy_vectors does. *)
Definition var_of_case (starts : list nat) (i : nat) : nat :=
  (length (filter (fun s => (s <=? i)%nat) starts) - 1)%nat.

Fixpoint insert_uniq (v : nat) (l : list nat) : list nat :=
  match l with
  | [] => [v]
  | x :: r => if (v <? x)%nat then v :: l else if (v =? x)%nat then l else x :: insert_uniq v r
  end.

Definition bqm_of_obs (lin : list Qc) (quad : list (nat * nat * Qc)) (o : Qc) : qm :=
  let m0 := fold_left (fun m _ => add_variable BINARY m) lin empty_qm in
  let m1 := fold_left (fun m ib => set_linear (fst ib) (snd ib) m)
                      (combine (seq 0 (length lin)) lin) m0 in
  let m2 := fold_left (fun m t => add_quadratic (fst (fst t)) (snd (fst t)) (snd t) m) quad m1 in
  set_offset o m2.

Definition adjv_of_obs (starts : list nat) (quad : list (nat * nat * Qc)) : list (list nat) :=
  fold_left (fun a t =>
               let u := var_of_case starts (fst (fst t)) in
               let v := var_of_case starts (snd (fst t)) in
               upd_nth v (insert_uniq u) (upd_nth u (insert_uniq v) a))
            quad (map (fun _ => []) starts).

Definition dqm_of_obs (starts : list nat) (lin : list Qc) (quad : list (nat * nat * Qc)) (o : Qc) : dqm :=
  mkDqm (starts ++ [length lin]) (adjv_of_obs starts quad) (bqm_of_obs lin quad o).

(* the code of a case index as a Samples.dqm_energy label: variable * stride + case *)
Definition code (d : dqm) (stride : nat) (i : nat) : nat :=
  let u := var_of_case (firstn (num_variables d) (d_starts d)) i in
  (u * stride + (i - start_of d u))%nat.

Definition ncases_list (d : dqm) : list (label * nat) :=
  map (fun u => (u, num_cases d u)) (seq 0 (num_variables d)).
