(* Model of ConstrainedQuadraticModel._from_file_legacy: the reader of CQM serialization versions 1.0 - 1.3
   (constrained.py).  A version-1.x file is the CQM header followed by a zip archive; the zip container itself is
   not modelled: an archive is the list of its (member name, member bytes) in directory order.

     objective                         a QM (or BQM) file - written by dimod 0.10.6 .. 0.12.3 with EVERY variable of
                                       the model in it, in model order: it carries order, vartypes and bounds
     constraints/<json label>/lhs      a QM or BQM file (dispatch as in fileview.load)
     constraints/<json label>/rhs      float64        .../sense  ascii         .../discrete  one byte
     constraints/<json label>/weight   float64, .../penalty ascii: both present or the constraint is hard

   The reader, step by step:
     cqm.set_objective(load(objective))              variables of the objective member are appended first
     labels = { m.group(1) for names matching "constraints/(.+)/[^/]*$" }      (a Python set)
     for each label: load lhs, rhs, sense, discrete (KeyError when absent), weight+penalty (optional),
                     add_constraint(...): variables not seen yet are appended in lhs order
   No proofs in this file. *)
From Coq Require Import List NArith ZArith Arith Bool Ascii String.
From Dimod Require Import Base.Util Gen.Gen_Codec Gen.Gen_CqmLegacy Model.Codec Model.CodecEq.
Import ListNotations.
Open Scope nat_scope.
Notation length := List.length (only parsing).

Definition vinfo := (N * (bytes * bytes))%type.       (* vartype code, lower bound, upper bound (float64 bytes) *)

(* ---------------------------------------------------------------- what a member file denotes *)

Definition range_labels (n : nat) : list label := map (fun i => LInt (Z.of_nat i)) (seq 0 n).
Definition file_labels (o : option (list label)) (n : nat) : list label :=
  match o with Some l => l | None => range_labels n end.

(* an expression over labelled variables: per variable (label, vinfo), the linear biases in the same order, the
   interactions as (position, position, bias), the offset *)
Record nexpr := mkNexpr {
  nx_vars : list (label * vinfo);
  nx_lin : list bytes;
  nx_quad : list (nat * (nat * bytes));
  nx_off : bytes }.

Definition index_rows {A : Type} (rows : list (list A)) : list (nat * list A) := combine (seq 0 (length rows)) rows.

Definition flat_neig (neig : list (list (N * bytes))) : list (nat * (nat * bytes)) :=
  List.concat (map (fun p => map (fun e => (fst p, (N.to_nat (fst e), snd e))) (snd p)) (index_rows neig)).

(* A float32 member inside a CQM (whose biases are float64): the exact widening conversion of IEEE-754 binary32 to
   binary64 on the little-endian byte strings (sign, 8-bit exponent biased 127, 23-bit fraction -> sign, 11-bit
   exponent biased 1023, 52-bit fraction; zeros, subnormals (renormalised), infinities and NaN payloads included) *)
Definition unpack32 (x : N) : N * N * N := (N.shiftr x 31, N.land (N.shiftr x 23) 255, N.land x 8388607).

(* on the fields (sign, biased exponent, fraction) *)
Definition widen_fields (f : N * N * N) : N * N * N :=
  match f with
  | (s, e, m) =>
      if N.eqb e 0 then
        if N.eqb m 0 then (s, 0, 0)%N
        else let p := N.log2 m in                     (* value m * 2^-149 = 1.xxx * 2^(p-149) *)
             (s, p + 874, N.shiftl (m - N.shiftl 1 p) (52 - p))%N
      else if N.eqb e 255 then (s, 2047%N, N.shiftl m 29)
      else (s, (e + 896)%N, N.shiftl m 29)
  end.

Definition pack64 (f : N * N * N) : N :=
  match f with (s, e, m) => N.lor (N.shiftl s 63) (N.lor (N.shiftl e 52) m) end.

Definition f32_to_f64 (b : bytes) : bytes := le_enc 8 (pack64 (widen_fields (unpack32 (le_dec (firstn 4 b))))).

Definition widen (d : dtype) (b : bytes) : bytes := match d with F32 => f32_to_f64 b | F64 => b end.
Definition widen_vinfo (d : dtype) (v : vinfo) : vinfo := (fst v, (widen d (fst (snd v)), widen d (snd (snd v)))).
Definition widen_quad (d : dtype) (q : nat * (nat * bytes)) := (fst q, (fst (snd q), widen d (snd (snd q)))).

Definition nexpr_of_qm (f : qmfile) : nexpr :=
  let d := qf_dtype f in
  mkNexpr (combine (file_labels (qf_labels f) (length (qf_lin f))) (map (widen_vinfo d) (qf_vinfo f)))
          (map (widen d) (qf_lin f)) (map (widen_quad d) (flat_neig (qf_neig f))) (widen d (qf_off f)).

(* float64 -1.0 / 0.0 / 1.0: the bounds of a SPIN / BINARY variable *)
Definition F64_ZERO : bytes := [0;0;0;0;0;0;0;0]%N.
Definition F64_ONE : bytes := [0;0;0;0;0;0;240;63]%N.
Definition F64_MONE : bytes := [0;0;0;0;0;0;240;191]%N.
Definition bvt_vinfo (v : bvartype) : vinfo :=
  match v with BSPIN => (VT_SPIN, (F64_MONE, F64_ONE)) | BBINARY => (VT_BINARY, (F64_ZERO, F64_ONE)) end.

(* a BQM file stores every neighbourhood in full: each interaction once, from its larger end *)
Definition lower_only (adj : list (list (N * bytes))) : list (list (N * bytes)) :=
  map (fun p => filter (fun e => N.to_nat (fst e) <? fst p) (snd p)) (index_rows adj).

Definition nexpr_of_bqm (f : bqmfile) : nexpr :=
  let n := length (bf_lin f) in
  let d := bf_dtype f in
  mkNexpr (combine (file_labels (bf_labels f) n) (repeat (bvt_vinfo (bf_vt f)) n))
          (map (widen d) (bf_lin f)) (map (widen_quad d) (flat_neig (lower_only (bf_adj f)))) (widen d (bf_off f)).

(* QuadraticModel.from_file never looks at the "type" entry of the header; files written by dimod < 0.12 carry the
   class name of whatever was saved there ("Model" for a constraint's left-hand side).  Same rigid header text as
   Codec.p_qm_json, any name *)
Definition p_qm_json_any : parser qmhdr :=
  bind (lit (L "{""dtype"": """)) (fun _ =>
  bind p_dtype (fun d =>
  bind (lit (L """, ""itype"": ""int32"", ""shape"": [")) (fun _ =>
  bind (p_N_until 44) (fun n =>
  bind (lit (L " ")) (fun _ =>
  bind (p_N_until 93) (fun m =>
  bind (lit (L ", ""type"": """)) (fun _ =>
  bind p_name (fun _ =>
  bind (lit (L ", ""variables"": ")) (fun _ =>
  bind p_bool (fun v =>
  bind (lit (L "}")) (fun _ =>
  ret (mkQmHdr d n m v)))))))))))).

Definition qm_decode_any : parser qmfile := qm_decode_with (json_doc p_qm_json_any).

(* fileview.load: the registered prefixes are tried by increasing length - the 7-byte b'DIMODQM' before the 8-byte
   ones; anything else: ValueError *)
Definition member_decode (bs : bytes) : res nexpr :=
  if starts_with QM_PREFIX bs then match run qm_decode_any bs with Ok f => Ok (nexpr_of_qm f) | Err => Err end
  else if starts_with BQM_PREFIX bs then match run bqm_decode bs with Ok f => Ok (nexpr_of_bqm f) | Err => Err end
  else Err.

(* ---------------------------------------------------------------- the archive *)

Definition archive := list (bytes * bytes).

Fixpoint zfind (name : bytes) (z : archive) : option bytes :=      (* zf.read(name): KeyError when absent *)
  match z with
  | [] => None
  | (n, b) :: r => if bytes_eqb n name then Some b else zfind name r
  end.

Definition SLASH : N := 47%N.
Definition CONSTRAINTS_DIR : bytes := s2b "constraints/".

(* split at the LAST '/': (everything before it, everything after it) *)
Fixpoint split_last_slash (bs : bytes) : option (bytes * bytes) :=
  match bs with
  | [] => None
  | c :: r =>
      match split_last_slash r with
      | Some (a, b) => Some (c :: a, b)
      | None => if N.eqb c SLASH then Some ([], r) else None
      end
  end.

(* re.match("constraints/(.+)/[^/]*$", name).group(1) *)
Definition constraint_dir (name : bytes) : option bytes :=
  if starts_with CONSTRAINTS_DIR name then
    match split_last_slash (skipn (length CONSTRAINTS_DIR) name) with
    | Some (c :: l, _) => Some (c :: l)
    | _ => None
    end
  else None.

Definition add_distinct (acc : list bytes) (x : bytes) : list bytes :=
  if existsb (bytes_eqb x) acc then acc else acc ++ [x].

(* the distinct constraint directories, here in order of first appearance (the code builds a set) *)
Definition constraint_dirs (z : archive) : list bytes :=
  fold_left (fun acc e => match constraint_dir (fst e) with Some d => add_distinct acc d | None => acc end) z [].

Definition member_name (dir : bytes) (leaf : string) : bytes := CONSTRAINTS_DIR ++ dir ++ [SLASH] ++ s2b leaf.

(* json.loads(dir) + deserialize_variable: one label, the whole text *)
Definition dir_label (dir : bytes) : option label :=
  match p_label (S (length dir)) dir with
  | Ok (l, []) => Some l
  | _ => None
  end.

Record lcon := mkLcon {
  lc_label : label;
  lc_lhs : nexpr;
  lc_rhs : bytes;
  lc_sense : bytes;
  lc_discrete : bool;                      (* any(byte != 0) *)
  lc_soft : option (bytes * bytes) }.      (* weight (float64 bytes), penalty name *)

Definition read_constraint (z : archive) (dir : bytes) : res lcon :=
  match zfind (member_name dir "lhs") z, zfind (member_name dir "rhs") z,
        zfind (member_name dir "sense") z, zfind (member_name dir "discrete") z, dir_label dir with
  | Some lhs, Some rhs, Some sense, Some disc, Some lab =>
      match member_decode lhs with
      | Ok e =>
          if length rhs <? 8 then Err else              (* np.frombuffer(...)[0] *)
          let soft := match zfind (member_name dir "weight") z, zfind (member_name dir "penalty") z with
                      | Some w, Some p => Some (firstn 8 w, p)
                      | _, _ => None
                      end in
          Ok (mkLcon lab e (firstn 8 rhs) sense (existsb (fun b => negb (N.eqb b 0)) disc) soft)
      | Err => Err
      end
  | _, _, _, _, _ => Err
  end.

Fixpoint read_constraints (z : archive) (dirs : list bytes) : res (list lcon) :=
  match dirs with
  | [] => Ok []
  | d :: r =>
      match read_constraint z d, read_constraints z r with
      | Ok c, Ok cs => Ok (c :: cs)
      | _, _ => Err
      end
  end.

(* ---------------------------------------------------------------- the model's variables *)

(* Variables._append for a label that may be present already: first occurrence wins *)
Definition add_var (vs : list (label * vinfo)) (v : label * vinfo) : list (label * vinfo) :=
  if existsb (fun w => label_eqb (fst v) (fst w)) vs then vs else vs ++ [v].
Definition add_vars (vs : list (label * vinfo)) (l : list (label * vinfo)) := fold_left add_var l vs.

(* the loaded model's variables: the statements of the reader that add variables, in the order the SOURCE has them
   (Gen/Gen_CqmLegacy.v, regenerated from constrained.py by translators/cqm_legacy_reader.py: today the objective
   first, then whatever the constraints bring) *)
Definition legacy_step (obj : nexpr) (cons : list nexpr) (vs : list (label * vinfo)) (s : lstep) : list (label * vinfo) :=
  match s with
  | LSetObjective => add_vars vs (nx_vars obj)
  | LConstraints => fold_left (fun vs c => add_vars vs (nx_vars c)) cons vs
  end.
Definition legacy_vars (obj : nexpr) (cons : list nexpr) : list (label * vinfo) :=
  fold_left (legacy_step obj cons) LEGACY_STEPS [].

(* the order a reader would produce that loads the constraints first (what the format does NOT mean) *)
Definition constraints_first_vars (obj : nexpr) (cons : list nexpr) : list (label * vinfo) :=
  add_vars (fold_left (fun vs c => add_vars vs (nx_vars c)) cons []) (nx_vars obj).

Record lmodel := mkLmodel {
  lm_vars : list (label * vinfo);
  lm_obj : nexpr;
  lm_cons : list lcon }.

Definition legacy_read (z : archive) : res lmodel :=
  match zfind (s2b "objective") z with
  | None => Err
  | Some ob =>
      match member_decode ob, read_constraints z (constraint_dirs z) with
      | Ok obj, Ok cs => Ok (mkLmodel (legacy_vars obj (map lc_lhs cs)) obj cs)
      | _, _ => Err
      end
  end.

(* ---------------------------------------------------------------- comparison with an observed model *)

Definition lv_eqb (a b : label * vinfo) : bool := label_eqb (fst a) (fst b) && vinfo_eqb (snd a) (snd b).

Fixpoint pos_of (l : label) (ls : list label) : option nat :=
  match ls with
  | [] => None
  | x :: r => if label_eqb l x then Some 0 else match pos_of l r with Some p => Some (S p) | None => None end
  end.

Fixpoint nodupb {A : Type} (eqb : A -> A -> bool) (l : list A) : bool :=
  match l with
  | [] => true
  | x :: r => negb (existsb (eqb x) r) && nodupb eqb r
  end.

Definition upair_eqb (a b : nat * nat) : bool :=
  (Nat.eqb (fst a) (fst b) && Nat.eqb (snd a) (snd b)) || (Nat.eqb (fst a) (snd b) && Nat.eqb (snd a) (fst b)).

(* the same expression up to the order of its variables and of its interactions (the order of terms inside an
   expression is not part of the model; the order of the MODEL's variables is, see lmodel_eqb) *)
Definition nexpr_equiv (a b : nexpr) : bool :=
  let la := map fst (nx_vars a) in
  let lb := map fst (nx_vars b) in
  let P := fun i => match nth_error la i with Some l => pos_of l lb | None => None end in
  Nat.eqb (length la) (length lb) && nodupb label_eqb la
  && Nat.eqb (length (nx_lin a)) (length la) && Nat.eqb (length (nx_lin b)) (length lb)
  && forallb (fun i => match P i with
                       | Some p => option_eqb lv_eqb (nth_error (nx_vars a) i) (nth_error (nx_vars b) p)
                                   && option_eqb bytes_eqb (nth_error (nx_lin a) i) (nth_error (nx_lin b) p)
                       | None => false
                       end) (seq 0 (length la))
  && Nat.eqb (length (nx_quad a)) (length (nx_quad b))
  && nodupb upair_eqb (map (fun q => (fst q, fst (snd q))) (nx_quad a))
  && forallb (fun q => match P (fst q), P (fst (snd q)) with
                       | Some p, Some r => existsb (fun t => upair_eqb (p, r) (fst t, fst (snd t))
                                                              && bytes_eqb (snd (snd q)) (snd (snd t))) (nx_quad b)
                       | _, _ => false
                       end) (nx_quad a)
  && bytes_eqb (nx_off a) (nx_off b).

Definition soft_eqb (a b : bytes * bytes) : bool := bytes_eqb (fst a) (fst b) && bytes_eqb (snd a) (snd b).

Definition lcon_equiv (a b : lcon) : bool :=
  label_eqb (lc_label a) (lc_label b) && nexpr_equiv (lc_lhs a) (lc_lhs b) && bytes_eqb (lc_rhs a) (lc_rhs b)
  && bytes_eqb (lc_sense a) (lc_sense b) && Bool.eqb (lc_discrete a) (lc_discrete b)
  && option_eqb soft_eqb (lc_soft a) (lc_soft b).

(* variables: same labels, vartypes, bounds IN THE SAME ORDER; objective; constraints matched by label *)
Definition lmodel_eqb (file obs : lmodel) : bool :=
  list_eqb lv_eqb (lm_vars file) (lm_vars obs)
  && nexpr_equiv (lm_obj file) (lm_obj obs)
  && Nat.eqb (length (lm_cons file)) (length (lm_cons obs))
  && nodupb label_eqb (map lc_label (lm_cons file))
  && forallb (fun c => existsb (lcon_equiv c) (lm_cons obs)) (lm_cons file).

(* ---------------------------------------------------------------- the writer (dimod 0.10.6 .. 0.12.3 to_file) *)

Inductive wmember := WQm (f : qmfile) | WBqm (f : bqmfile).
Definition member_encode (m : wmember) : bytes := match m with WQm f => qm_encode f | WBqm f => bqm_encode f end.
Definition member_nexpr (m : wmember) : nexpr := match m with WQm f => nexpr_of_qm f | WBqm f => nexpr_of_bqm f end.

Record wcon := mkWcon {
  wc_label : label;
  wc_lhs : wmember;
  wc_rhs : bytes;                         (* np.float64(rhs).tobytes() *)
  wc_sense : bytes;
  wc_discrete : bool;
  wc_soft : option (bytes * bytes) }.

Definition wc_dir (c : wcon) : bytes := pr_label (wc_label c).      (* json.dumps(serialize_variable(label)) *)

Definition con_members (c : wcon) : archive :=
  let d := wc_dir c in
  [(member_name d "lhs", member_encode (wc_lhs c)); (member_name d "rhs", wc_rhs c);
   (member_name d "sense", wc_sense c); (member_name d "discrete", [if wc_discrete c then 1%N else 0%N])]
  ++ match wc_soft c with
     | Some (w, p) => [(member_name d "weight", w); (member_name d "penalty", p)]
     | None => []
     end.

Definition legacy_archive (obj : wmember) (cons : list wcon) : archive :=
  (s2b "objective", member_encode obj) :: List.concat (map con_members cons).

Definition lcon_of (c : wcon) : lcon :=
  mkLcon (wc_label c) (member_nexpr (wc_lhs c)) (wc_rhs c) (wc_sense c) (wc_discrete c) (wc_soft c).

Definition lmodel_of (obj : wmember) (cons : list wcon) : lmodel :=
  mkLmodel (legacy_vars (member_nexpr obj) (map (fun c => member_nexpr (wc_lhs c)) cons)) (member_nexpr obj) (map lcon_of cons).
