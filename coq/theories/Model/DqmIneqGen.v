(* C16 - DiscreteQuadraticModel.add_linear_inequality_constraint, the PYTHON side, written with the
   rules generated from discrete_quadratic_model.py only (Gen/Gen_DqmIneq.v): bound tightening,
   always-feasible test, refusal, equality shortcut, and per slack method the cases of every slack
   variable (value of case 0 is 0: it carries no term), cross_zero included.
   Proved equal to what the check and the theorems use (Penalty.plan_inequality, dqm_slack_values_cz,
   dqm_cz_active) in Proofs/DqmIneqGenFacts.v.  No proofs here. *)
From Coq Require Import List ZArith Bool.
From Dimod Require Import Model.Comb Model.Penalty Model.Log10 Gen.Gen_DqmIneq.
Import ListNotations.
Open Scope Z_scope.

Inductive dqm_plan :=
| DSkip                                        (* warning, return [] *)
| DInfeasible                                  (* ValueError *)
| DEquality (c : Z)                            (* add_linear_equality_constraint(terms, lam, c) *)
| DSlack (c : Z) (values : list (list Z)).     (* slack variables (values of their cases), then (terms + slack_terms, lam, c) *)

(* for j, s in enumerate(slack_coefficients): add_variable(2); (sv, 1, s)   [+ one more two-case variable] *)
Definition dqm_log2_values_g (U ubc : Z) (zero : bool) : list (list Z) :=
  let k := gend_num_slack U in
  map (fun s => [0; s])
      (map (fun j => gend_pow_coeff (Z.of_nat j)) (seq 0 (Z.to_nat k))
       ++ (if gend_rest_guard U k then [gend_rest_coeff U k] else []))
  ++ (if zero then [[0; gend_log2_cz_value ubc]] else []).

(* list(range(start, stop, step))[1:] for step >= 1: start + k*step for k = 1, 2, ... while below stop
   (k never needs to exceed stop - start) *)
Definition zrange_tail (start stop step : Z) : list Z :=
  filter (fun v => v <? stop) (map (fun k => start + Z.of_nat k * step) (seq 1 (Z.to_nat (stop - start)))).

Definition log10_digit_values_g (U : Z) (j : nat) : list Z :=
  0 :: zrange_tail gend_log10_start (gend_log10_stop U (Z.of_nat j)) (gend_log10_step (Z.of_nat j)).

(* list(range(start, stop)) *)
Definition linear_values_g (U : Z) : list Z :=
  0 :: map (fun k => gend_linear_start + Z.of_nat k) (seq 0 (Z.to_nat (gend_linear_stop U - gend_linear_start))).

Definition dqm_slack_values_g (m : slack_method) (U ubc : Z) (zero : bool) : list (list Z) :=
  match m with
  | Log2 => dqm_log2_values_g U ubc zero
  | Log10 =>
      let vars := map (log10_digit_values_g U) (seq 0 (Z.to_nat (gend_log10_nvars U))) in
      if zero then add_case_to_last vars (gend_log10_cz_value ubc) else vars      (* the LAST digit gets the case *)
  | Linear =>
      [if zero then linear_values_g U ++ [gend_linear_cz_value ubc] else linear_values_g U]
  end.

Definition plan_dqm_inequality_g (m : slack_method) (cross_zero : bool) (a : list Z) (const lb ub : Z) : dqm_plan :=
  let tu := sum_pos a in
  let tl := sum_neg a in
  let ubc := gend_ubc tu ub const in
  let lbc := gend_lbc tl lb const in
  if gend_always_feasible tu tl ubc lbc then DSkip
  else if gend_infeasible ubc lbc then DInfeasible
  else let U := gend_slack_ub ubc lbc in
       if gend_is_equality U then DEquality (gend_eq_constant ubc)
       else DSlack (gend_slack_constant ubc)
                   (dqm_slack_values_g m U ubc (cross_zero && gend_cz_test lbc ubc)).
