(* C20 correspondence for the cq.* operations of cpp/driver.cpp (Expression /
   Constraint / ConstrainedQuadraticModel), against the index-level model of
   Model/Expr.v + Model/ExprOps.v (imported, not edited): `mstep` is the step
   function for which Proofs/ExprSim.v / CqmSim.v prove ExprInv reachability and
   refinement.  Two CQM objects; after every operation the driver's dump of BOTH
   is compared with the model: per variable (vartype, bounds); per expression the
   variables() order, the linear biases by position, the offset, and the
   quadratic part per UNORDERED pair of local indices (sum of coefficients and
   presence of a stored entry); the observable parts of ExprInv (expr_ok) are
   evaluated on the observed state.  An operation without a model counterpart is
   a re-synchronisation point: the model state is reloaded from the dump. *)
From Coq Require Import List ZArith QArith Qcanon Bool Arith.
From Dimod Require Import Base.Util Model.Poly Model.Expr Model.ExprOps.
Import ListNotations.
Open Scope Qc_scope.

Definition qstate := list mcqm.
Definition qinit : qstate := [m_empty; m_empty].
Definition qget (st : qstate) (s : nat) : mcqm := nth s st m_empty.
Definition qput (st : qstate) (s : nat) (q : mcqm) : qstate := Expr.upd_nth s (fun _ => q) st.

Inductive qop :=
| QM (s : nat) (ops : list mop)        (* calls on one object, through ExprOps.mstep *)
| QRemVars (s : nat) (t : etarget) (vs : list nat)      (* Expression::remove_variables *)
| QSubstE (s : nat) (t : etarget) (v : nat) (m c : Qc)  (* Expression::substitute_variable *)
| QFixVars (s dst : nat) (vs : list nat) (asg : list Qc)   (* fix_variables(first,last,assignment) into dst *)
| QSetQ (s : nat) (t : etarget) (u v : nat) (b : Qc)       (* Expression::set_quadratic *)
| QFixE (s : nat) (t : etarget) (v : nat) (a : Qc)         (* Expression::fix_variable *)
| QScale (s : nat) (t : etarget) (k : Qc)                  (* Expression::scale / Constraint::scale *)
| QRemConsIf (s par : nat)                                 (* remove_constraints_if(num_variables % 2 == par) *)
| QAddConCopyRaw (s : nat) (lin : list Qc) (quad : list lqterm) (off : Qc) (mapping : list nat) (sense : nat) (rhs : Qc)
| QSense (s c sense : nat)
| QRhs (s c : nat) (rhs : Qc)
| QClearCon (s c : nat)                                    (* Constraint::clear: expression AND attributes *)
| QEnergy (s : nat) (t : etarget) (x : list Qc)            (* reads: compared through the returned value *)
| QDisjoint (s : nat) (t1 t2 : etarget)
| QCopy (a b : nat)
| QMoveClear (a b : nat)               (* a takes b's value, b is then cleared *)
| QSwap (a b : nat)
| QClear (s : nat)
| QNop.

Definition edit (t : etarget) (f : mexpr -> mexpr) (q : mcqm) : mcqm :=
  match t with
  | EObj => cqm_edit_obj f q
  | ECon c => cqm_edit_con c f q
  end.

Definition binspin (t : vartype) : bool := match t with BINARY | SPIN => true | _ => false end.

(* Expression::set_quadratic: both variables are enforced BEFORE the base class may throw
   std::domain_error for a BINARY/SPIN self-loop, so they stay in the expression *)
Definition m_set_quadratic (vt : nat -> vartype) (u v : nat) (b : Qc) (e : mexpr) : mexpr :=
  let '(e1, j) := enforce v e in
  let '(e2, i) := enforce u e1 in
  if (i =? j)%nat && binspin (vt (nth i (e_vars e2) 0%nat)) then e2
  else mkE (e_vars e2) (e_idx e2) (e_lin e2)
           ((i, j, b) :: filter (fun t => negb (((fst (fst t) =? i) && (snd (fst t) =? j) || (fst (fst t) =? j) && (snd (fst t) =? i))%nat))
                                (e_quad e2))
           (e_off e2).

(* Expression::fix_variable: neighbourhood (self-loop included) to the linear biases, then
   offset += a * linear(v), then the variable leaves this expression only *)
Definition m_fix_variable (v : nat) (a : Qc) (e : mexpr) : mexpr :=
  match idx_find v (e_idx e) with
  | None => e
  | Some i =>
      let lin1 := fold_left (fun l t =>
                               let x := fst (fst t) in let y := snd (fst t) in let w := snd t in
                               if ((x =? i) && (y =? i))%nat then Expr.upd_nth i (fun z => z + w * a) l
                               else if (x =? i)%nat then Expr.upd_nth y (fun z => z + w * a) l
                               else if (y =? i)%nat then Expr.upd_nth x (fun z => z + w * a) l
                               else l) (e_quad e) (e_lin e) in
      m_remove_variable v (mkE (e_vars e) (e_idx e) lin1 (e_quad e) (e_off e + a * nth i lin1 0))
  end.

Definition m_scale (k : Qc) (e : mexpr) : mexpr :=
  mkE (e_vars e) (e_idx e) (map (fun x => x * k) (e_lin e))
      (map (fun t => (fst t, snd t * k)) (e_quad e)) (e_off e * k).

(* Constraint::scale also scales the right-hand side and flips LE (0) / GE (1) for a negative factor *)
Definition con_scale (k : Qc) (c : mcon) : mcon :=
  let neg := negb (Qle_bool 0 k) in
  mkMC (m_scale k (mc_e c))
       (if neg then match mc_sense c with 0%nat => 1%nat | 1%nat => 0%nat | x => x end else mc_sense c)
       (mc_rhs c * k) (mc_weight c) (mc_pen c) (mc_mark c).

Definition edit_con (c : nat) (f : mcon -> mcon) (q : mcqm) : mcqm :=
  mkM (m_info q) (m_obj q) (Expr.upd_nth c f (m_cons q)).

Definition model_energy (e : mexpr) (x : list Qc) : Qc :=
  e_off e
  + qsum (map (fun iv => nth (fst iv) (e_lin e) 0 * nth (snd iv) x 0) (combine (seq 0 (length (e_vars e))) (e_vars e)))
  + qsum (map (fun t => snd t * nth (nth (fst (fst t)) (e_vars e) 0%nat) x 0 * nth (nth (snd (fst t)) (e_vars e) 0%nat) x 0)
              (e_quad e)).

Definition target_expr (q : mcqm) (t : etarget) : mexpr :=
  match t with EObj => m_obj q | ECon c => mc_e (nth c (m_cons q) (new_con e_empty 2%nat 0)) end.

Definition disjointb (a b : mexpr) : bool :=
  forallb (fun v => negb (existsb (Nat.eqb v) (e_vars b))) (e_vars a).

(* Constraint::is_onehot *)
Definition is_onehot (vt : nat -> vartype) (c : mcon) : bool :=
  match e_quad (mc_e c) with [] => true | _ => false end
  && (2 <=? length (e_vars (mc_e c)))%nat
  && (mc_sense c =? 2)%nat
  && Qc_eqb (e_off (mc_e c)) 0
  && forallb (fun v => match vt v with BINARY => true | _ => false end) (e_vars (mc_e c))
  && forallb (fun l => Qc_eqb l (mc_rhs c)) (e_lin (mc_e c)).

(* ConstrainedQuadraticModel::fix_variables (the copying bulk path) and fix_variables_expr:
   old_to_new marks the fixed variables, the others are numbered in order; every expression is
   rebuilt: offset, then one add_linear per unfixed variable in the source's internal order (a
   fixed one goes to the offset), then the interactions - both fixed: offset, one fixed: linear,
   none fixed: add_quadratic_back, which under its ordering promise is add_quadratic *)
Definition old_to_new (n : nat) (vs : list nat) : list (option nat) :=
  snd (fold_left (fun acc i => if existsb (Nat.eqb i) vs then (fst acc, snd acc ++ [None])
                               else (S (fst acc), snd acc ++ [Some (fst acc)]))
                 (seq 0 n) (0%nat, [])).
Definition asg_of (vs : list nat) (asg : list Qc) (v : nat) : Qc :=
  match find (fun p => (fst p =? v)%nat) (rev (combine vs asg)) with Some p => snd p | None => 0 end.

Definition fix_expr (vt' : nat -> vartype) (o2n : list (option nat)) (a : nat -> Qc) (e : mexpr) : mexpr :=
  let e0 := m_add_offset (e_off e) e_empty in
  let e1 := fold_left (fun d iv =>
                         let l := nth (fst iv) (e_lin e) 0 in
                         match nth (snd iv) o2n None with
                         | None => m_add_offset (l * a (snd iv)) d
                         | Some nv => m_add_linear nv l d
                         end)
                      (combine (seq 0 (length (e_vars e))) (e_vars e)) e0 in
  fold_left (fun d t =>
               let u := nth (fst (fst t)) (e_vars e) 0%nat in
               let v := nth (snd (fst t)) (e_vars e) 0%nat in
               match nth u o2n None, nth v o2n None with
               | None, None => m_add_offset (a u * a v * snd t) d
               | None, Some nv => m_add_linear nv (a u * snd t) d
               | Some nu, None => m_add_linear nu (a v * snd t) d
               | Some nu, Some nv => m_add_quadratic vt' nu nv (snd t) d
               end)
            (e_quad e) e1.

Definition cqm_fix_variables (vs : list nat) (asg : list Qc) (q : mcqm) : mcqm :=
  let n := length (m_info q) in
  let o2n := old_to_new n vs in
  let info' := map snd (filter (fun p => negb (existsb (Nat.eqb (fst p)) vs)) (combine (seq 0 n) (m_info q))) in
  let f := fix_expr (vt_info info') o2n (asg_of vs asg) in
  mkM info' (f (m_obj q))
      (map (fun k => let k' := mc_set_e k (f (mc_e k)) in
                     mkMC (mc_e k') (mc_sense k') (mc_rhs k') (mc_weight k') (mc_pen k')
                          (mc_mark k && is_onehot (vt_info info') k'))
           (m_cons q)).

Definition qstep (st : qstate) (o : qop) : qstate :=
  match o with
  | QM s ops => qput st s (mrun ops (qget st s))
  | QRemVars s t vs => qput st s (edit t (m_remove_variables vs) (qget st s))
  | QSubstE s t v m c => qput st s (edit t (m_substitute v m c) (qget st s))
  | QFixVars s dst vs asg => qput st dst (cqm_fix_variables vs asg (qget st s))
  | QSetQ s t u v b => let q := qget st s in qput st s (edit t (m_set_quadratic (vt_info (m_info q)) u v b) q)
  | QFixE s t v a => qput st s (edit t (m_fix_variable v a) (qget st s))
  | QScale s t k =>
      match t with
      | EObj => qput st s (cqm_edit_obj (m_scale k) (qget st s))
      | ECon c => qput st s (edit_con c (con_scale k) (qget st s))
      end
  | QRemConsIf s par =>
      let q := qget st s in
      qput st s (mkM (m_info q) (m_obj q)
                     (filter (fun k => negb ((length (e_vars (mc_e k)) mod 2 =? par)%nat)) (m_cons q)))
  | QAddConCopyRaw s lin quad off mapping sense rhs =>
      let q := qget st s in
      qput st s (mkM (m_info q) (m_obj q)
                     (m_cons q ++ [new_con (expr_from_copy (vt_info (m_info q)) lin quad off mapping) sense rhs]))
  | QSense s c sense =>
      qput st s (edit_con c (fun k => mkMC (mc_e k) sense (mc_rhs k) (mc_weight k) (mc_pen k) (mc_mark k)) (qget st s))
  | QRhs s c rhs =>
      qput st s (edit_con c (fun k => mkMC (mc_e k) (mc_sense k) rhs (mc_weight k) (mc_pen k) (mc_mark k)) (qget st s))
  | QClearCon s c => qput st s (edit_con c (fun _ => new_con e_empty 2%nat 0) (qget st s))
  | QEnergy _ _ _ | QDisjoint _ _ _ => st
  | QCopy a b => qput st a (qget st b)
  | QMoveClear a b => qput (qput st a (qget st b)) b m_empty
  | QSwap a b => qput (qput st a (qget st b)) b (qget st a)
  | QClear s => qput st s m_empty
  | QNop => st
  end.

(* the value a reading call returns *)
Definition qret (st : qstate) (o : qop) : option Qc :=
  match o with
  | QEnergy s t x => Some (model_energy (target_expr (qget st s) t) x)
  | QDisjoint s t1 t2 =>
      Some (if disjointb (target_expr (qget st s) t1) (target_expr (qget st s) t2) then 1 else 0)
  | _ => None
  end.

(* what the driver printed for one expression / one model *)
Record eobs := mkEO { eo_vars : list nat; eo_lin : list Qc; eo_quad : list lqterm; eo_off : Qc }.
Record cobs := mkCO { co_e : eobs; co_sense : nat; co_rhs : Qc; co_weight : option Qc; co_pen : nat; co_mark : bool }.
Record qobs := mkQO { qo_info : list minfo; qo_obj : eobs; qo_cons : list cobs }.

Definition expr_of_obs (o : eobs) : mexpr :=
  mkE (eo_vars o) (rebuild_idx (eo_vars o)) (eo_lin o) (eo_quad o) (eo_off o).
Definition cqm_of_obs (o : qobs) : mcqm :=
  mkM (qo_info o) (expr_of_obs (qo_obj o))
      (map (fun c => mkMC (expr_of_obs (co_e c)) (co_sense c) (co_rhs c) (co_weight c) (co_pen c) (co_mark c)) (qo_cons o)).

Definition same_upair (t : lqterm) (i j : nat) : bool :=
  ((fst (fst t) =? i) && (snd (fst t) =? j) || (fst (fst t) =? j) && (snd (fst t) =? i))%nat.
Definition pair_terms (q : list lqterm) (i j : nat) : list lqterm := filter (fun t => same_upair t i j) q.
Definition pair_sum (q : list lqterm) (i j : nat) : Qc := qsum (map snd (pair_terms q i j)).
Definition pair_present (q : list lqterm) (i j : nat) : bool :=
  match pair_terms q i j with [] => false | _ => true end.

Definition quad_agrees (n : nat) (a b : list lqterm) : bool :=
  forallb (fun i => forallb (fun j =>
             Qc_eqb (pair_sum a i j) (pair_sum b i j)
             && Bool.eqb (pair_present a i j) (pair_present b i j))
           (seq 0 (S i))) (seq 0 n)
  (* no term outside the local index range on either side *)
  && forallb (fun t => ((fst (fst t) <? n) && (snd (fst t) <? n))%nat) a
  && forallb (fun t => ((fst (fst t) <? n) && (snd (fst t) <? n))%nat) b.

Definition expr_agrees (e : mexpr) (o : eobs) : bool :=
  list_eqb Nat.eqb (e_vars e) (eo_vars o)
  && list_eqb Qc_eqb (e_lin e) (eo_lin o)
  && Qc_eqb (e_off e) (eo_off o)
  && quad_agrees (length (eo_vars o)) (e_quad e) (eo_quad o).

Definition vartype_eqb' (a b : vartype) : bool := vartype_eqb a b.
Definition info_eqb (a b : minfo) : bool :=
  vartype_eqb' (i_vt a) (i_vt b) && Qc_eqb (i_lb a) (i_lb b) && Qc_eqb (i_ub a) (i_ub b).

Fixpoint all2 {A B} (f : A -> B -> bool) (l : list A) (r : list B) : bool :=
  match l, r with
  | [], [] => true
  | x :: l', y :: r' => f x y && all2 f l' r'
  | _, _ => false
  end.

(* the stored entries of an observed expression respect the vartypes of the owner:
   no self-loop on a BINARY/SPIN variable *)
Definition no_binspin_loops (info : list minfo) (o : eobs) : bool :=
  forallb (fun t => negb ((fst (fst t) =? snd (fst t))%nat
                          && match vt_info info (nth (fst (fst t)) (eo_vars o) 0%nat) with
                             | BINARY | SPIN => true | _ => false end)) (eo_quad o).

Definition cqm_agrees (q : mcqm) (o : qobs) : bool :=
  all2 info_eqb (m_info q) (qo_info o)
  && expr_agrees (m_obj q) (qo_obj o)
  && all2 (fun k c => expr_agrees (mc_e k) (co_e c)
                      (* constraint attributes *)
                      && Nat.eqb (mc_sense k) (co_sense c) && Qc_eqb (mc_rhs k) (co_rhs c)
                      && option_eqb Qc_eqb (mc_weight k) (co_weight c)
                      && Nat.eqb (mc_pen k) (co_pen c) && Bool.eqb (mc_mark k) (co_mark c))
          (m_cons q) (qo_cons o)
  (* oracle on the implementation's own state: the observable parts of ExprInv *)
  && forallb (fun e => expr_ok (length (qo_info o)) (expr_of_obs e) && no_binspin_loops (qo_info o) e)
             (qo_obj o :: map co_e (qo_cons o))
  (* and on the model state *)
  && forallb (fun e => expr_ok (length (m_info q)) e) (m_obj q :: map mc_e (m_cons q)).

(* a step: the modelled operation (None = no counterpart: reload the model from the dump), the value
   the call returned (reads), and the dumps *)
Definition qstepobs := (option qop * option Qc * list qobs)%type.
Definition qcase := list qstepobs.

Definition ret_ok (m r : option Qc) : bool :=
  match m, r with
  | Some a, Some b => Qc_eqb a b
  | Some _, None => false
  | None, _ => true
  end.

Fixpoint qrun (st : qstate) (steps : list qstepobs) : bool :=
  match steps with
  | [] => true
  | (None, _, seen) :: rest =>
      forallb (fun o => forallb (fun e => expr_ok (length (qo_info o)) (expr_of_obs e) && no_binspin_loops (qo_info o) e)
                                (qo_obj o :: map co_e (qo_cons o))) seen
      && qrun (map cqm_of_obs seen) rest
  | (Some o, r, seen) :: rest =>
      let st' := qstep st o in
      ret_ok (qret st o) r && all2 cqm_agrees st' seen && qrun st' rest
  end.

Definition qcheck (c : qcase) : bool := qrun qinit c.

(* diagnostics for harness/dbg.py *)
Fixpoint qfirst_bad (st : qstate) (steps : list qstepobs) (i : nat) : option nat :=
  match steps with
  | [] => None
  | (o, r, seen) :: rest =>
      if qrun st [(o, r, seen)]
      then qfirst_bad (match o with None => map cqm_of_obs seen | Some o' => qstep st o' end) rest (S i)
      else Some i
  end.
Definition qwhere_bad (c : qcase) : option nat := qfirst_bad qinit c 0.
