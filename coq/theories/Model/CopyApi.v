(* C19: the copy / in-place API surface the model (Model/Heap.v, Model/Store.v) and the harness
   (harness/w_c19.py) cover, row by row; Props/C19.v proves it equal to the table generated from
   dimod's source (Gen/Gen_Copy.v), so a new `inplace`/`copy` parameter, a removed method or a
   changed default invalidates the tie until this file, the model and the harness are revisited.

   (class, public method, parameter, literal default, body contains `return self`) and, in the
   comment, the Heap.v constructor that models the call with the parameter False / True. *)
From Coq Require Import List String Bool.
Import ListNotations.
Open Scope string_scope.

Definition modeled_copy_api : list (string * string * string * bool * bool) :=
  [
   (* LISTED, NOT YET DRIVEN by harness/w_c19.py (it has no BinaryPolynomial / DQM handles): HCopy (CRelabel f) / HEdit (IRelabel f);
      to_binary / to_spin(copy=False) return the receiver itself when it already has that vartype (documented) *)
   ("BinaryPolynomial", "relabel_variables", "inplace", true, true);
   ("BinaryPolynomial", "to_binary", "copy", false, true);
   ("BinaryPolynomial", "to_spin", "copy", false, true);
   (* inplace=False: HCopy (CSpinToBinary/CBinaryToSpin vs) ; inplace=True: HEdit (ISpinToBinary/IBinaryToSpin vs) *)
   ("BinaryQuadraticModel", "change_vartype", "inplace", true, true);
   (* HCopy (CRelabel f) ; HEdit (IRelabel f) *)
   ("BinaryQuadraticModel", "relabel_variables", "inplace", true, true);
   ("BinaryQuadraticModel", "relabel_variables_as_integers", "inplace", true, false);
   (* copy=True: HAddConstraint ci mi lbl true ; copy=False: HAddConstraint ci mi lbl false (move) *)
   ("ConstrainedQuadraticModel", "add_constraint_from_comparison", "copy", true, false);
   ("ConstrainedQuadraticModel", "add_constraint_from_model", "copy", true, false);
   ("ConstrainedQuadraticModel", "add_discrete_from_comparison", "copy", true, false);
   ("ConstrainedQuadraticModel", "add_discrete_from_model", "copy", true, false);
   (* HCopy (CFix fs) ; HEdit (IFix fs)   (on the objective and every constraint) *)
   ("ConstrainedQuadraticModel", "fix_variables", "inplace", true, false);
   ("ConstrainedQuadraticModel", "relabel_variables", "inplace", true, true);
   (* NOTE the default: spin_to_binary is non-mutating unless asked *)
   ("ConstrainedQuadraticModel", "spin_to_binary", "inplace", false, true);
   (* LISTED, NOT YET DRIVEN (no DQM handles in w_c19) *)
   ("DiscreteQuadraticModel", "relabel_variables", "inplace", true, true);
   ("DiscreteQuadraticModel", "relabel_variables_as_integers", "inplace", true, false);
   ("QuadraticModel", "relabel_variables", "inplace", true, true);
   ("QuadraticModel", "relabel_variables_as_integers", "inplace", true, false);
   ("QuadraticModel", "spin_to_binary", "inplace", false, true);
   (* HCopy (CSet (OChangeVt v off false)) ; HEdit (ISet (OChangeVt v off true)) *)
   ("SampleSet", "change_vartype", "inplace", true, true);
   (* HCopy (CSet (ORelabel m)) ; HEdit (ISet (ORelabel m)) *)
   ("SampleSet", "relabel_variables", "inplace", true, true);
   ("cyConstrainedQuadraticModel", "fix_variables", "inplace", true, true)
  ].

(* HCopy (CSet (OAppendVec ..)), (OAppendVars ..), HCopy (CConcat js), (ODrop ..), (OKeep ..) *)
Definition modeled_sampleset_functions : list string :=
  ["append_data_vectors"; "append_variables"; "concatenate"; "drop_variables"; "keep_variables"].

(* every public copy / relabel_* / to_* / from_* method of the classes above and whether its body
   contains `return self`.  Driven by w_c19: copy (CCopy), relabel_variables* (CRelabel / IRelabel),
   QuadraticModel.from_bqm and BinaryQuadraticModel(bqm) (CCopy), SampleSet.copy / from_samples /
   relabel_variables (CSet ...), pickling (= from_numpy_vectors of to_numpy_vectors for a BQM,
   from_serializable-free for SampleSet).  The file / serialisation / numpy / networkx converters are
   the subject of C09-C12 and are listed here only so that a NEW constructor breaks the tie. *)
Definition modeled_copy_constructors : list (string * string * bool) :=
  [
   ("BinaryPolynomial", "copy", false);
   ("BinaryPolynomial", "from_hising", false);
   ("BinaryPolynomial", "from_hubo", false);
   ("BinaryPolynomial", "relabel_variables", true);
   ("BinaryPolynomial", "to_binary", true);
   ("BinaryPolynomial", "to_hising", false);
   ("BinaryPolynomial", "to_hubo", false);
   ("BinaryPolynomial", "to_spin", true);
   ("BinaryQuadraticModel", "copy", false);
   ("BinaryQuadraticModel", "from_coo", false);
   ("BinaryQuadraticModel", "from_file", false);
   ("BinaryQuadraticModel", "from_ising", false);
   ("BinaryQuadraticModel", "from_networkx_graph", false);
   ("BinaryQuadraticModel", "from_numpy_matrix", false);
   ("BinaryQuadraticModel", "from_numpy_vectors", false);
   ("BinaryQuadraticModel", "from_qubo", false);
   ("BinaryQuadraticModel", "from_serializable", false);
   ("BinaryQuadraticModel", "relabel_variables", true);
   ("BinaryQuadraticModel", "relabel_variables_as_integers", false);
   ("BinaryQuadraticModel", "to_coo", false);
   ("BinaryQuadraticModel", "to_file", false);
   ("BinaryQuadraticModel", "to_ising", false);
   ("BinaryQuadraticModel", "to_networkx_graph", false);
   ("BinaryQuadraticModel", "to_numpy_matrix", false);
   ("BinaryQuadraticModel", "to_numpy_vectors", false);
   ("BinaryQuadraticModel", "to_qubo", false);
   ("BinaryQuadraticModel", "to_serializable", false);
   ("ConstrainedQuadraticModel", "from_bqm", false);
   ("ConstrainedQuadraticModel", "from_dqm", false);
   ("ConstrainedQuadraticModel", "from_file", false);
   ("ConstrainedQuadraticModel", "from_lp_file", false);
   ("ConstrainedQuadraticModel", "from_qm", false);
   ("ConstrainedQuadraticModel", "from_quadratic_model", false);
   ("ConstrainedQuadraticModel", "relabel_variables", true);
   ("ConstrainedQuadraticModel", "to_file", false);
   ("DiscreteQuadraticModel", "copy", false);
   ("DiscreteQuadraticModel", "from_file", false);
   ("DiscreteQuadraticModel", "from_numpy_vectors", false);
   ("DiscreteQuadraticModel", "relabel_variables", true);
   ("DiscreteQuadraticModel", "relabel_variables_as_integers", false);
   ("DiscreteQuadraticModel", "to_file", false);
   ("DiscreteQuadraticModel", "to_numpy_vectors", false);
   ("QuadraticModel", "copy", false);
   ("QuadraticModel", "from_bqm", false);
   ("QuadraticModel", "from_file", false);
   ("QuadraticModel", "relabel_variables", true);
   ("QuadraticModel", "relabel_variables_as_integers", false);
   ("QuadraticModel", "to_file", false);
   ("SampleSet", "copy", false);
   ("SampleSet", "from_future", false);
   ("SampleSet", "from_samples", false);
   ("SampleSet", "from_samples_bqm", false);
   ("SampleSet", "from_samples_cqm", false);
   ("SampleSet", "from_serializable", false);
   ("SampleSet", "relabel_variables", true);
   ("SampleSet", "to_pandas_dataframe", false);
   ("SampleSet", "to_serializable", false);
   ("Variables", "to_serializable", false);
   ("VartypeView", "relabel_variables", false);
   ("VartypeView", "relabel_variables_as_integers", false);
   ("VartypeView", "to_numpy_vectors", false)
  ].

