(* C19: the copy / in-place API surface the model (Model/Heap.v, Model/Store.v) and the harness
   (harness/w_c19.py) cover, row by row; Props/C19.v proves it equal to the table generated from
   dimod's source (Gen/Gen_Copy.v), so a new `inplace`/`copy` parameter, a removed method or a
   changed default invalidates the tie until this file, the model and the harness are revisited.

   (class, public method, parameter, literal default, body contains `return self`) and, in the
   comment, the Heap.v constructor that models the call with the parameter False / True. *)
From Coq Require Import List String Bool.
Import ListNotations.
Open Scope string_scope.

Definition modeled_copy_api : list (string * string * string * bool * bool) :=
  [
   (* inplace=False: HCopy (CSpinToBinary/CBinaryToSpin vs) ; inplace=True: HEdit (ISpinToBinary/IBinaryToSpin vs) *)
   ("BinaryQuadraticModel", "change_vartype", "inplace", true, true);
   (* HCopy (CRelabel f) ; HEdit (IRelabel f) *)
   ("BinaryQuadraticModel", "relabel_variables", "inplace", true, true);
   ("BinaryQuadraticModel", "relabel_variables_as_integers", "inplace", true, false);
   (* copy=True: HAddConstraint ci mi lbl true ; copy=False: HAddConstraint ci mi lbl false (move) *)
   ("ConstrainedQuadraticModel", "add_constraint_from_comparison", "copy", true, false);
   ("ConstrainedQuadraticModel", "add_constraint_from_model", "copy", true, false);
   ("ConstrainedQuadraticModel", "add_discrete_from_comparison", "copy", true, false);
   ("ConstrainedQuadraticModel", "add_discrete_from_model", "copy", true, false);
   (* HCopy (CFix fs) ; HEdit (IFix fs)   (on the objective and every constraint) *)
   ("ConstrainedQuadraticModel", "fix_variables", "inplace", true, false);
   ("ConstrainedQuadraticModel", "relabel_variables", "inplace", true, true);
   (* NOTE the default: spin_to_binary is non-mutating unless asked *)
   ("ConstrainedQuadraticModel", "spin_to_binary", "inplace", false, true);
   ("QuadraticModel", "relabel_variables", "inplace", true, true);
   ("QuadraticModel", "relabel_variables_as_integers", "inplace", true, false);
   ("QuadraticModel", "spin_to_binary", "inplace", false, true);
   (* HCopy (CSet (OChangeVt v off false)) ; HEdit (ISet (OChangeVt v off true)) *)
   ("SampleSet", "change_vartype", "inplace", true, true);
   (* HCopy (CSet (ORelabel m)) ; HEdit (ISet (ORelabel m)) *)
   ("SampleSet", "relabel_variables", "inplace", true, true);
   ("cyConstrainedQuadraticModel", "fix_variables", "inplace", true, true)
  ].

(* HCopy (CSet (OAppendVec ..)), (OAppendVars ..), HCopy (CConcat js), (ODrop ..), (OKeep ..) *)
Definition modeled_sampleset_functions : list string :=
  ["append_data_vectors"; "append_variables"; "concatenate"; "drop_variables"; "keep_variables"].
