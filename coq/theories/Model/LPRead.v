(* C12 - what the bundled reader (extern/filereaderlp/reader.cpp) makes of ONE blank-delimited
   word that the writer emitted as a label: Reader::readnexttoken followed by the keyword stage of
   Reader::processtokens.  Every table is generated from the sources (Gen/Gen_LP.v); the only
   hand-stated fact is which prefixes C strtod consumes (digits, sign, '.', and - case-insensitively -
   "inf"/"infinity"/"nan", C11 7.22.1.3).  No proofs in this file. *)
From Coq Require Import List NArith Bool Arith.
From Dimod Require Import Base.Util Model.Poly Model.LP Gen.Gen_LP.
Import ListNotations.

Definition memN (c : N) (l : list N) : bool := existsb (N.eqb c) l.

Definition lower (c : N) : N := if N.leb 65 c && N.leb c 90 then (c + 32)%N else c.
Definition lower_text (s : text) : text := map lower s.

Fixpoint prefixb (p s : text) : bool :=
  match p, s with
  | [], _ => true
  | a :: p', b :: s' => N.eqb a b && prefixb p' s'
  | _ :: _, [] => false
  end.

(* strtod consumes a non-empty prefix of the word *)
Definition strtod_words : list text := [[105; 110; 102]; [110; 97; 110]]%N.   (* inf, nan *)
Definition is_digitN (c : N) : bool := N.leb 48 c && N.leb c 57.
Definition strtod_consumes (s : text) : bool :=
  match s with
  | [] => false
  | c :: r =>
      is_digitN c
      || (N.eqb c 46 && match r with d :: _ => is_digitN d | [] => false end)
      || existsb (fun w => prefixb w (lower_text s)) strtod_words
  end.

Inductive raw :=
| RNone          (* nothing: the rest of the line is discarded *)
| RSingle        (* a one-character token *)
| RNumber        (* strtod took a prefix *)
| RIdent (w : text) (rest : text).   (* identifier up to the first delimiter *)

Fixpoint take_ident (s : text) : text * text :=
  match s with
  | [] => ([], [])
  | c :: r => if memN c IDENT_DELIMS then ([], s) else let (w, t) := take_ident r in (c :: w, t)
  end.

(* readnexttoken at the first character of the word (signs are single-character tokens) *)
Definition read_raw (s : text) : raw :=
  match s with
  | [] => RNone
  | c :: _ =>
      if memN c SKIP_LINE_CHARS then RNone
      else if memN c SINGLE_CHAR_TOKENS || memN c BLANK_CHARS then RSingle
      else if NUMBERS_BY_STRTOD && strtod_consumes s then RNumber
      else let (w, t) := take_ident s in RIdent w t
  end.

Definition text_eqb (a b : text) : bool := list_eqb N.eqb a b.
Definition in_texts (w : text) (l : list text) : bool := existsb (text_eqb w) l.

Inductive role := AsVariable | AsConstraint.

(* the word comes back as the identifier it was written as *)
Definition reader_reads_label (r : role) (s : text) : bool :=
  match read_raw s with
  | RIdent w [] =>
      text_eqb w s
      && negb (in_texts (lower_text w) (map fst SECTION_KEYWORDS))
      && match r with
         | AsConstraint => true            (* `label:` is recognised before free / infinity *)
         | AsVariable => negb (in_texts (lower_text w) KEYWORD_FREE) && negb (in_texts (lower_text w) KEYWORD_INF)
         end
  | _ => false
  end.

(* the conditions under which a valid label is safe, as a specification *)
Definition label_safe (r : role) (s : text) : bool :=
  match s with
  | [] => false
  | c :: _ =>
      negb (memN c SKIP_LINE_CHARS)
      && negb (existsb (fun w => prefixb w (lower_text s)) strtod_words)
      && negb (in_texts (lower_text s) (map fst SECTION_KEYWORDS))
      && match r with
         | AsConstraint => true
         | AsVariable => negb (in_texts (lower_text s) KEYWORD_FREE) && negb (in_texts (lower_text s) KEYWORD_INF)
         end
  end.

(* ------------------------------------------------------------------ *)
(* two adjacent words: Reader::processtokens joins two consecutive identifiers with a blank (after
   lower-casing both) and looks the result up in the section keyword table - "subject to",
   "such that".  In the file lp.dump writes, two labels are adjacent only in the name lists of the
   Binary and General sections. *)
Definition SPACE : N := 32%N.

Definition reader_joins (a b : text) : bool :=
  in_texts (lower_text a ++ [SPACE] ++ lower_text b) (map fst SECTION_KEYWORDS).

Fixpoint adjacent_join (names : list text) : bool :=
  match names with
  | a :: ((b :: _) as r) => reader_joins a b || adjacent_join r
  | _ => false
  end.

(* a Binary / General name list comes back as the same variables *)
Definition names_section_read (names : list text) : bool :=
  forallb (reader_reads_label AsVariable) names && negb (adjacent_join names).

(* the keywords of the table that consist of two words, split at their blank *)
Fixpoint split_space (s : text) : option (text * text) :=
  match s with
  | [] => None
  | c :: r => if N.eqb c SPACE then Some ([], r)
              else match split_space r with Some (x, y) => Some (c :: x, y) | None => None end
  end.

Definition two_word_keywords : list (text * text) :=
  flat_map (fun kw => match split_space (fst kw) with Some p => [p] | None => [] end) SECTION_KEYWORDS.

Definition pair_eqb (p q : text * text) : bool := text_eqb (fst p) (fst q) && text_eqb (snd p) (snd q).
