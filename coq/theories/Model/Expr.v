(* M level of C05: the index-level expression of dimod/include/dimod/expression.h.

   An Expression is a quadratic model over LOCAL indices 0..k-1 (the base
   abc::QuadraticModelBase, abstracted here to a list of linear biases and a
   bag of interactions over local indices - Adj.v is the detailed mirror of the
   adjacency structure) together with
     variables_ : local index  -> model-wide index         (e_vars)
     indices_   : model index  -> local index  (hash map)  (e_idx)
   The functions below mirror enforce_variable, remove_variable,
   remove_variables, reindex_variables, relabel_variables, substitute_variable,
   clear and the CQM-level remove_variable / fix_variable loops line by line.
   Executable; no proofs in this file. *)
From Coq Require Import List ZArith QArith Qcanon Bool Arith.
From Dimod Require Import Base.Util Model.Poly.
Import ListNotations.
Open Scope Qc_scope.

(* ---------- std::unordered_map<index,index> ---------- *)
Definition imap := list (nat * nat).
Fixpoint idx_find (k : nat) (m : imap) : option nat :=
  match m with [] => None | (k', x) :: r => if (k =? k')%nat then Some x else idx_find k r end.
Fixpoint idx_erase (k : nat) (m : imap) : imap :=
  match m with [] => [] | (k', x) :: r => if (k =? k')%nat then idx_erase k r else (k', x) :: idx_erase k r end.
Definition idx_set (k x : nat) (m : imap) : imap := (k, x) :: idx_erase k m.
(* indices_[k] -= 1  (operator[] default-constructs 0 when absent) *)
Definition idx_dec (k : nat) (m : imap) : imap :=
  idx_set k (pred (match idx_find k m with Some x => x | None => 0%nat end)) m.

Definition lqterm := (nat * nat * Qc)%type.      (* interaction over local indices *)

Record mexpr := mkE {
  e_vars : list nat; e_idx : imap; e_lin : list Qc; e_quad : list lqterm; e_off : Qc }.

Definition e_empty : mexpr := mkE [] [] [] [] 0.

(* ---------- list helpers ---------- *)
Fixpoint remove_nth {A} (i : nat) (l : list A) : list A :=
  match l, i with
  | [], _ => []
  | _ :: r, O => r
  | x :: r, S j => x :: remove_nth j r
  end.
Fixpoint upd_nth {A} (i : nat) (f : A -> A) (l : list A) : list A :=
  match l, i with
  | [], _ => []
  | x :: r, O => f x :: r
  | x :: r, S j => x :: upd_nth j f r
  end.
Fixpoint index_of (k : nat) (l : list nat) : option nat :=
  match l with
  | [] => None
  | x :: r => if (k =? x)%nat then Some 0%nat else option_map S (index_of k r)
  end.
(* decrement everything above v *)
Definition shift (v u : nat) : nat := if (v <? u)%nat then pred u else u.

Definition lmentions (i : nat) (t : lqterm) : bool := ((fst (fst t) =? i) || (snd (fst t) =? i))%nat.

(* ---------- the base model over local indices ---------- *)
Definition base_add_variable (e : mexpr) : mexpr :=
  mkE (e_vars e) (e_idx e) (e_lin e ++ [0]) (e_quad e) (e_off e).

(* abc.h remove_variable: erase the bias, drop the interactions, decrement the indices above *)
Definition base_remove_lin (i : nat) (l : list Qc) : list Qc := remove_nth i l.
Definition base_remove_quad (i : nat) (q : list lqterm) : list lqterm :=
  map (fun t => (shift i (fst (fst t)), shift i (snd (fst t)), snd t))
      (filter (fun t => negb (lmentions i t)) q).

(* abc.h add_quadratic on local indices; vtl is vartype_ (vartype of a LOCAL index) *)
Definition base_add_quadratic (vtl : nat -> vartype) (i j : nat) (b : Qc) (e : mexpr) : mexpr :=
  if (i =? j)%nat then
    match vtl i with
    | BINARY => mkE (e_vars e) (e_idx e) (upd_nth i (fun x => x + b) (e_lin e)) (e_quad e) (e_off e)
    | SPIN => mkE (e_vars e) (e_idx e) (e_lin e) (e_quad e) (e_off e + b)
    | _ => mkE (e_vars e) (e_idx e) (e_lin e) ((i, i, b) :: e_quad e) (e_off e)
    end
  else mkE (e_vars e) (e_idx e) (e_lin e) ((i, j, b) :: e_quad e) (e_off e).

(* abc.h substitute_variable (after the repair of the self-loop case) on local index i *)
Definition subst_q (i : nat) (m c : Qc) (t : lqterm) : lqterm :=
  let '(a, b, w) := t in
  if (a =? i)%nat && (b =? i)%nat then (a, b, w * m * m)
  else if (a =? i)%nat || (b =? i)%nat then (a, b, w * m) else t.
Definition base_substitute (i : nat) (m c : Qc) (e : mexpr) : mexpr :=
  let li := nth i (e_lin e) 0 in
  let off1 := e_off e + li * c in
  let lin1 := upd_nth i (fun x => x * m) (e_lin e) in
  let step (acc : list Qc * Qc) (t : lqterm) :=
    let '(a, b, w) := t in
    if (a =? i)%nat && (b =? i)%nat then (upd_nth i (fun x => x + two * w * m * c) (fst acc), snd acc + w * c * c)
    else if (a =? i)%nat then (upd_nth b (fun x => x + w * c) (fst acc), snd acc)
    else if (b =? i)%nat then (upd_nth a (fun x => x + w * c) (fst acc), snd acc)
    else acc in
  let '(lin2, off2) := fold_left step (e_quad e) (lin1, off1) in
  mkE (e_vars e) (e_idx e) lin2 (map (subst_q i m c) (e_quad e)) off2.

(* ---------- Expression ---------- *)

(* enforce_variable: the local index of model variable v, appended if absent *)
Definition enforce (v : nat) (e : mexpr) : mexpr * nat :=
  match idx_find v (e_idx e) with
  | Some i => (e, i)
  | None =>
      let vi := length (e_vars e) in
      (base_add_variable (mkE (e_vars e ++ [v]) (idx_set v vi (e_idx e)) (e_lin e) (e_quad e) (e_off e)), vi)
  end.

Definition m_add_linear (v : nat) (b : Qc) (e : mexpr) : mexpr :=
  let '(e1, i) := enforce v e in
  mkE (e_vars e1) (e_idx e1) (upd_nth i (fun x => x + b) (e_lin e1)) (e_quad e1) (e_off e1).

Definition m_set_linear (v : nat) (b : Qc) (e : mexpr) : mexpr :=
  let '(e1, i) := enforce v e in
  mkE (e_vars e1) (e_idx e1) (upd_nth i (fun _ => b) (e_lin e1)) (e_quad e1) (e_off e1).

(* vt: vartype of a MODEL index (the parent's varinfo) *)
Definition m_add_quadratic (vt : nat -> vartype) (u v : nat) (b : Qc) (e : mexpr) : mexpr :=
  (* base_type::add_quadratic(enforce_variable(u), enforce_variable(v), bias): the order of
     evaluation of the two arguments is unspecified in C++; the observed build (GCC) evaluates
     right to left, so v is appended before u when both are new *)
  let '(e1, j) := enforce v e in
  let '(e2, i) := enforce u e1 in
  base_add_quadratic (fun a => vt (nth a (e_vars e2) 0%nat)) i j b e2.

Definition m_add_offset (b : Qc) (e : mexpr) : mexpr :=
  mkE (e_vars e) (e_idx e) (e_lin e) (e_quad e) (e_off e + b).

Definition m_remove_interaction (u v : nat) (e : mexpr) : mexpr :=
  match idx_find u (e_idx e), idx_find v (e_idx e) with
  | Some i, Some j =>
      mkE (e_vars e) (e_idx e) (e_lin e)
          (filter (fun t => negb (((fst (fst t) =? i) && (snd (fst t) =? j) || (fst (fst t) =? j) && (snd (fst t) =? i))%nat)) (e_quad e))
          (e_off e)
  | _, _ => e
  end.

(* Expression::remove_variable(v): only this expression forgets v; model indices unchanged *)
Definition m_remove_variable (v : nat) (e : mexpr) : mexpr :=
  match idx_find v (e_idx e) with
  | None => e
  | Some i =>
      let vars1 := remove_nth i (e_vars e) in
      let idx1 := idx_erase v (e_idx e) in
      (* for (; it != end; ++it) indices_[*it] -= 1 *)
      let idx2 := fold_left (fun m u => idx_dec u m) (skipn i vars1) idx1 in
      mkE vars1 idx2 (base_remove_lin i (e_lin e)) (base_remove_quad i (e_quad e)) (e_off e)
  end.

(* Expression::reindex_variables(v): model variable v has been removed from the parent *)
Definition m_reindex (v : nat) (e : mexpr) : mexpr :=
  let '(start, e1) :=
    match idx_find v (e_idx e) with
    | Some i => (i, mkE (remove_nth i (e_vars e)) (idx_erase v (e_idx e))
                        (base_remove_lin i (e_lin e)) (base_remove_quad i (e_quad e)) (e_off e))
    | None => (length (e_vars e), e)
    end in
  (* for (auto& u : variables_) if (u > v) { indices_.erase(u); --u; } *)
  let idx2 := fold_left (fun m u => if (v <? u)%nat then idx_erase u m else m) (e_vars e1) (e_idx e1) in
  let vars2 := map (shift v) (e_vars e1) in
  (* for i < start: if variables_[i] >= v: indices_[variables_[i]] = i ; for i >= start: indices_[variables_[i]] = i *)
  let idx3 := fold_left (fun m iu => if (start <=? fst iu)%nat || (v <=? snd iu)%nat then idx_set (snd iu) (fst iu) m else m)
                        (combine (seq 0 (length vars2)) vars2) idx2 in
  mkE vars2 idx3 (e_lin e1) (e_quad e1) (e_off e1).

Definition rebuild_idx (vars : list nat) : imap :=
  fold_left (fun m iu => idx_set (snd iu) (fst iu) m) (combine (seq 0 (length vars)) vars) [].

(* Expression::relabel_variables(labels) (the move path of add_constraint) *)
Definition m_relabel (labels : list nat) (e : mexpr) : mexpr :=
  mkE labels (rebuild_idx labels) (e_lin e) (e_quad e) (e_off e).

(* Expression::remove_variables(first,last): the bulk path *)
Definition insert_sorted (x : nat) := fix ins (l : list nat) : list nat :=
  match l with [] => [x] | y :: r => if (x <=? y)%nat then x :: l else y :: ins r end.
Definition sort_nat (l : list nat) : list nat := fold_right insert_sorted [] l.
(* utils::remove_by_index with sorted (possibly repeated) indices *)
Definition remove_by_index {A} (l : list A) (is_ : list nat) : list A :=
  map snd (filter (fun p => negb (existsb (Nat.eqb (fst p)) is_)) (combine (seq 0 (length l)) l)).
Definition new_local (is_ : list nat) (a : nat) : nat :=
  (a - length (filter (fun i => (i <? a)%nat) (nodup Nat.eq_dec is_)))%nat.
Definition m_remove_variables (vs : list nat) (e : mexpr) : mexpr :=
  let to_remove := sort_nat (flat_map (fun v => match idx_find v (e_idx e) with Some i => [i] | None => [] end) vs) in
  let vars1 := remove_by_index (e_vars e) to_remove in
  let lin1 := remove_by_index (e_lin e) to_remove in
  let quad1 := map (fun t => (new_local to_remove (fst (fst t)), new_local to_remove (snd (fst t)), snd t))
                   (filter (fun t => negb (existsb (fun i => lmentions i t) to_remove)) (e_quad e)) in
  mkE vars1 (rebuild_idx vars1) lin1 quad1 (e_off e).

Definition m_substitute (v : nat) (m c : Qc) (e : mexpr) : mexpr :=
  match idx_find v (e_idx e) with
  | None => e
  | Some i => base_substitute i m c e
  end.

(* ---------- the constrained model, index level ---------- *)
Record minfo := mkI { i_vt : vartype; i_lb : Qc; i_ub : Qc }.
Record mcon := mkMC { mc_e : mexpr; mc_sense : nat; mc_rhs : Qc; mc_weight : option Qc; mc_pen : nat; mc_mark : bool }.
Record mcqm := mkM { m_info : list minfo; m_obj : mexpr; m_cons : list mcon }.

Definition mc_set_e (k : mcon) (e : mexpr) : mcon :=
  mkMC e (mc_sense k) (mc_rhs k) (mc_weight k) (mc_pen k) (mc_mark k).

(* ConstrainedQuadraticModel::remove_variable *)
Definition cqm_remove_variable (v : nat) (q : mcqm) : mcqm :=
  mkM (remove_nth v (m_info q)) (m_reindex v (m_obj q))
      (map (fun k => mc_set_e k (m_reindex v (mc_e k))) (m_cons q)).

Definition cqm_substitute (v : nat) (m c : Qc) (q : mcqm) : mcqm :=
  mkM (m_info q) (m_substitute v m c (m_obj q))
      (map (fun k => mc_set_e k (m_substitute v m c (mc_e k))) (m_cons q)).

(* ConstrainedQuadraticModel::fix_variable = substitute_variable(v, 0, a); remove_variable(v) *)
Definition cqm_fix_variable (v : nat) (a : Qc) (q : mcqm) : mcqm :=
  cqm_remove_variable v (cqm_substitute v 0 a q).

(* an edit of the c-th constraint's expression only *)
Definition cqm_edit_con (c : nat) (f : mexpr -> mexpr) (q : mcqm) : mcqm :=
  mkM (m_info q) (m_obj q) (upd_nth c (fun k => mc_set_e k (f (mc_e k))) (m_cons q)).
Definition cqm_edit_obj (f : mexpr -> mexpr) (q : mcqm) : mcqm :=
  mkM (m_info q) (f (m_obj q)) (m_cons q).

(* add_constraint(const QM& lhs, ..., mapping): copy path, lhs given by its raw arrays *)
Definition expr_from_copy (vt : nat -> vartype) (lin : list Qc) (quad : list lqterm) (off : Qc) (mapping : list nat) : mexpr :=
  let e1 := fold_left (fun e ib => m_add_linear (nth (fst ib) mapping 0%nat) (snd ib) e)
                      (combine (seq 0 (length lin)) lin) e_empty in
  let e2 := fold_left (fun e t => m_add_quadratic vt (nth (fst (fst t)) mapping 0%nat) (nth (snd (fst t)) mapping 0%nat) (snd t) e)
                      quad e1 in
  m_add_offset off e2.
(* add_constraint(QM&& lhs, ..., mapping): move path *)
Definition expr_from_move (lin : list Qc) (quad : list lqterm) (off : Qc) (mapping : list nat) : mexpr :=
  m_relabel mapping (mkE [] [] lin quad off).

(* ---------- abstraction to a polynomial over MODEL indices ---------- *)
Definition abs_expr (e : mexpr) : poly :=
  mkPoly (e_off e) (combine (e_vars e) (e_lin e))
         (map (fun t => (nth (fst (fst t)) (e_vars e) 0%nat, nth (snd (fst t)) (e_vars e) 0%nat, snd t)) (e_quad e)).

(* ---------- executable well-formedness (also evaluated on observed raw state) ---------- *)
Definition idx_ok (e : mexpr) : bool :=
  (length (e_idx e) =? length (e_vars e))%nat
  && forallb (fun iu => match idx_find (snd iu) (e_idx e) with Some i => (i =? fst iu)%nat | None => false end)
             (combine (seq 0 (length (e_vars e))) (e_vars e)).
Fixpoint nodupb (l : list nat) : bool :=
  match l with [] => true | x :: r => negb (existsb (Nat.eqb x) r) && nodupb r end.
Definition expr_ok (n : nat) (e : mexpr) : bool :=
  nodupb (e_vars e) && forallb (fun u => (u <? n)%nat) (e_vars e)
  && (length (e_lin e) =? length (e_vars e))%nat
  && forallb (fun t => ((fst (fst t) <? length (e_vars e)) && (snd (fst t) <? length (e_vars e)))%nat) (e_quad e)
  && idx_ok e.
