(* dimod/utilities.py : ising_to_qubo, qubo_to_ising  and the thin wrappers
   BinaryQuadraticModel.to_qubo / from_qubo / from_ising (C02).

   Python dicts are insertion-ordered association lists with unique keys:
     h : {v: bias}            ->  hdict = list (label * Qc)
     J, Q : {(u, v): bias}    ->  qdict = list ((label * label) * Qc)
   The keys (u, v) and (v, u) are DIFFERENT keys.  `d[k] = x` overwrites the
   value of an existing key in place or appends a new item (qset / hset);
   `d.setdefault(k, 0)` appends (k, 0) when k is missing and returns the stored
   value.  Executable definitions only; the lemmas are in Proofs/IsingQuboFacts.v *)
From Coq Require Import List ZArith QArith Qcanon Bool Arith.
From Dimod Require Import Base.Util Model.Poly.
Import ListNotations.
Open Scope Qc_scope.

Notation pkey := (nat * nat)%type (only parsing).
Definition hdict := list (label * Qc).
Definition qdict := list (pkey * Qc).

Definition four : Qc := two * two.
Definition quarter : Qc := half * half.

Definition pkey_eqb (a b : pkey) : bool := ((fst a =? fst b) && (snd a =? snd b))%nat.

(* ---------- dict primitives ---------- *)

(* d.get(k) *)
Fixpoint qget (q : qdict) (k : pkey) : option Qc :=
  match q with
  | [] => None
  | (k', b) :: r => if pkey_eqb k' k then Some b else qget r k
  end.

Definition qget0 (q : qdict) (k : pkey) : Qc := match qget q k with Some b => b | None => 0 end.

(* d[k] = b *)
Fixpoint qset (q : qdict) (k : pkey) (b : Qc) : qdict :=
  match q with
  | [] => [(k, b)]
  | (k', b') :: r => if pkey_eqb k' k then (k', b) :: r else (k', b') :: qset r k b
  end.

(* d.setdefault(k, dflt) : (the dict afterwards, the value returned) *)
Definition qsetdefault (q : qdict) (k : pkey) (dflt : Qc) : qdict * Qc :=
  match qget q k with
  | Some b => (q, b)
  | None => (q ++ [(k, dflt)], dflt)
  end.

Fixpoint hget (h : hdict) (v : label) : option Qc :=
  match h with
  | [] => None
  | (v', b) :: r => if (v' =? v)%nat then Some b else hget r v
  end.

Definition hget0 (h : hdict) (v : label) : Qc := match hget h v with Some b => b | None => 0 end.

Fixpoint hset (h : hdict) (v : label) (b : Qc) : hdict :=
  match h with
  | [] => [(v, b)]
  | (v', b') :: r => if (v' =? v)%nat then (v', b) :: r else (v', b') :: hset r v b
  end.

(*  if u in h: h[u] += b
    else:      h[u] = b          *)
Definition hadd (h : hdict) (v : label) (b : Qc) : hdict :=
  match hget h v with
  | Some old => hset h v (old + b)
  | None => hset h v b
  end.

(* ---------- energies (utilities.py ising_energy / qubo_energy) ---------- *)

Definition hterm_val (s : sample) (e : label * Qc) : Qc := snd e * s (fst e).
Definition pterm_val (s : sample) (e : pkey * Qc) : Qc := snd e * s (fst (fst e)) * s (snd (fst e)).

Definition hd_energy (h : hdict) (s : sample) : Qc := qsum (map (hterm_val s) h).
Definition qd_energy (q : qdict) (s : sample) : Qc := qsum (map (pterm_val s) q).

(* off + sum_v h_v s_v + sum_(u,v) J_uv s_u s_v *)
Definition ising_energy (h : hdict) (J : qdict) (off : Qc) (s : sample) : Qc :=
  off + hd_energy h s + qd_energy J s.

(* off + sum_(u,v) Q_uv x_u x_v   (a diagonal key (v,v) contributes Q_vv x_v x_v) *)
Definition qubo_energy (Q : qdict) (off : Qc) (x : sample) : Qc :=
  off + qd_energy Q x.

(* ---------- ising_to_qubo (utilities.py:199-213) ----------
     q = {(v, v): 2. * bias for v, bias in h.items()}
     for (u, v), bias in J.items():
         if bias == 0.0:
             continue
         q[(u, v)] = 4. * bias
         q[(u, u)] = q.setdefault((u, u), 0) - 2. * bias
         q[(v, v)] = q.setdefault((v, v), 0) - 2. * bias
     offset += sum(J.values()) - sum(h.values())
     return q, offset                                                        *)

(* the dict comprehension: one `q[(v, v)] = 2. * bias` per item of h, in order *)
Definition i2q_init (h : hdict) : qdict :=
  fold_left (fun q e => qset q (fst e, fst e) (two * snd e)) h [].

Definition i2q_step (q : qdict) (e : pkey * Qc) : qdict :=
  let u := fst (fst e) in
  let v := snd (fst e) in
  let bias := snd e in
  if Qc_eqb bias 0 then q                                   (* continue *)
  else
    let q1 := qset q (u, v) (four * bias) in
    let '(q2, du) := qsetdefault q1 (u, u) 0 in
    let q3 := qset q2 (u, u) (du - two * bias) in
    let '(q4, dv) := qsetdefault q3 (v, v) 0 in
    qset q4 (v, v) (dv - two * bias).

Definition ising_to_qubo (h : hdict) (J : qdict) (off : Qc) : qdict * Qc :=
  (fold_left i2q_step J (i2q_init h),
   off + (qsum (map snd J) - qsum (map snd h))).

(* ---------- qubo_to_ising (utilities.py:259-290) ----------
     h = {} ; J = {} ; linear_offset = 0.0 ; quadratic_offset = 0.0
     for (u, v), bias in Q.items():
         if u == v:
             if u in h: h[u] += .5 * bias
             else:      h[u] = .5 * bias
             linear_offset += bias
         else:
             if bias != 0.0:
                 J[(u, v)] = .25 * bias
             if u in h: h[u] += .25 * bias
             else:      h[u] = .25 * bias
             if v in h: h[v] += .25 * bias
             else:      h[v] = .25 * bias
             quadratic_offset += bias
     offset += .5 * linear_offset + .25 * quadratic_offset
     return h, J, offset                                                     *)

Record q2i_state := mkQ2I { st_h : hdict; st_J : qdict; st_lo : Qc; st_qo : Qc }.

Definition q2i_step (st : q2i_state) (e : pkey * Qc) : q2i_state :=
  let u := fst (fst e) in
  let v := snd (fst e) in
  let bias := snd e in
  if (u =? v)%nat then
    mkQ2I (hadd (st_h st) u (half * bias)) (st_J st) (st_lo st + bias) (st_qo st)
  else
    let J' := if Qc_eqb bias 0 then st_J st else qset (st_J st) (u, v) (quarter * bias) in
    let h1 := hadd (st_h st) u (quarter * bias) in
    let h2 := hadd h1 v (quarter * bias) in
    mkQ2I h2 J' (st_lo st) (st_qo st + bias).

Definition q2i_loop (Q : qdict) : q2i_state := fold_left q2i_step Q (mkQ2I [] [] 0 0).

Definition qubo_to_ising (Q : qdict) (off : Qc) : hdict * qdict * Qc :=
  let st := q2i_loop Q in
  (st_h st, st_J st, off + (half * st_lo st + quarter * st_qo st)).

(* ---------- BinaryQuadraticModel wrappers ----------
   to_qubo (binary_quadratic_model.py:2492-2494), for the binary model p = self.binary:
     qubo = dict(self.binary.quadratic)
     qubo.update(((v, v), bias) for v, bias in self.binary.linear.items())
     return qubo, self.binary.offset                                          *)
Definition to_qubo_of_poly (p : poly) : qdict * Qc :=
  (fold_left (fun q t => qset q (fst t, fst t) (snd t)) (p_lin p)
     (map (fun t : qterm => (fst t, snd t)) (p_quad p)),
   p_off p).

(* to_ising: `bqm = self.spin; return dict(bqm.linear), dict(bqm.quadratic), bqm.offset` *)
Definition to_ising_of_poly (p : poly) : hdict * qdict * Qc :=
  (p_lin p, map (fun t : qterm => (fst t, snd t)) (p_quad p), p_off p).

(* from_qubo: `cls({}, Q, offset, Vartype.BINARY)` ; from_ising: `cls(h, J, offset, Vartype.SPIN)`.
   _init_components (binary_quadratic_model.py:222-272): offset first, then
     for u, v, bias in quadratic:
         if u == v: BINARY -> self.add_linear(u, bias) ; SPIN -> self.offset += bias
         else: self.add_quadratic(u, v, bias)
   then self.add_linear_from(linear).   Poly.add_quadratic folds a self key the same way. *)
Definition init_quadratic (vt : vartype) (Q : qdict) (p : poly) : poly :=
  fold_left (fun acc e => add_quadratic (fun _ => vt) (fst (fst e)) (snd (fst e)) (snd e) acc) Q p.

Definition init_linear (h : hdict) (p : poly) : poly :=
  fold_left (fun acc e => add_linear (fst e) (snd e) acc) h p.

Definition from_qubo (Q : qdict) (off : Qc) : poly :=
  init_linear [] (init_quadratic BINARY Q (mkPoly off [] [])).

Definition from_ising (h : hdict) (J : qdict) (off : Qc) : poly :=
  init_linear h (init_quadratic SPIN J (mkPoly off [] [])).

(* ---------- executable comparison with observed dicts (same keys, same order) ---------- *)
Definition qdict_eqb (a b : qdict) : bool :=
  list_eqb (fun x y => pkey_eqb (fst x) (fst y) && Qc_eqb (snd x) (snd y)) a b.

Definition hdict_eqb (a b : hdict) : bool :=
  list_eqb (fun x y => (fst x =? fst y)%nat && Qc_eqb (snd x) (snd y)) a b.

(* order-insensitive reading: the same value (or absence) under every key of either dict *)
Definition qdict_same (a b : qdict) : bool :=
  forallb (fun e => option_eqb Qc_eqb (qget a (fst e)) (qget b (fst e))) (a ++ b).

Definition hdict_same (a b : hdict) : bool :=
  forallb (fun e => option_eqb Qc_eqb (hget a (fst e)) (hget b (fst e))) (a ++ b).

(* check that the observed output of dimod.ising_to_qubo / dimod.qubo_to_ising is the model's *)
Definition ising_to_qubo_matches (h : hdict) (J : qdict) (off : Qc) (Qobs : qdict) (offobs : Qc) : bool :=
  let r := ising_to_qubo h J off in qdict_eqb (fst r) Qobs && Qc_eqb (snd r) offobs.

Definition qubo_to_ising_matches (Q : qdict) (off : Qc) (hobs : hdict) (Jobs : qdict) (offobs : Qc) : bool :=
  let r := qubo_to_ising Q off in
  hdict_eqb (fst (fst r)) hobs && qdict_eqb (snd (fst r)) Jobs && Qc_eqb (snd r) offobs.

(* the instance with a self key in J discussed in Proofs/IsingQuboFacts.v *)
Definition selfkey_h : hdict := [(0%nat, 1); (1%nat, half)].
Definition selfkey_J : qdict := [((0%nat, 0%nat), two + 1); ((0%nat, 1%nat), two)].
Definition selfkey_x : sample := fun v => if (v =? 0)%nat then 1 else 0.
