(* M level of C02, per-variable conversion paths:

     dimod/include/dimod/quadratic_model.h               QuadraticModel::change_vartype(vartype, v)
     dimod/quadratic/cyqm/cyqm_template.pyx.pxi          cyQM.change_vartype   (logic_error -> TypeError)
     dimod/quadratic/quadratic_model.py                  QuadraticModel.spin_to_binary (the loop)
     dimod/include/dimod/constrained_quadratic_model.h   ConstrainedQuadraticModel::change_vartype / substitute_variable
     dimod/constrained/cyconstrained.pyx                 change_vartype, flip_variable
     dimod/constrained/constrained.py                    spin_to_binary (the loop), flip_variable (discrete marks)

   The quadratic model is Adj.qm (abc.h adjacency; `Adj.vts` is what the virtual `vartype(v)` answers to
   the base class) together with the varinfo_ vector (Expr.minfo = {vartype; lb; ub}); the code keeps both
   readings of the vartype in sync because `vartype(v)` IS `varinfo_[v].vartype`, so every assignment to
   `varinfo_[v].vartype` is mirrored on both components.
   The constrained model is Expr.mcqm.  Executable; no proofs in this file. *)
From Coq Require Import List ZArith QArith Qcanon Bool Arith.
From Dimod Require Import Base.Util Model.Poly Model.Adj Model.Expr.
Import ListNotations.
Open Scope Qc_scope.

(* ---------- specification vocabulary (used by the theorems and by the oracle) ---------- *)

(* the value the variable had BEFORE the conversion, as a function of its value after it *)
Definition old_value (src tgt : vartype) (x : Qc) : Qc :=
  match src, tgt with
  | SPIN, BINARY => two * x - 1           (* s = 2x - 1 *)
  | BINARY, SPIN => (x + 1) * half        (* x = (s + 1) / 2 *)
  | SPIN, INTEGER => two * x - 1          (* via BINARY *)
  | _, _ => x
  end.

(* the pairs for which change_vartype does not throw *)
Definition cv_supported (src tgt : vartype) : bool :=
  vartype_eqb src tgt ||
  match src, tgt with
  | SPIN, BINARY | BINARY, SPIN | SPIN, INTEGER | BINARY, INTEGER => true
  | _, _ => false
  end.

Definition is_spin (t : vartype) : bool := match t with SPIN => true | _ => false end.

(* ---------- QuadraticModel = abc base + varinfo_ ---------- *)
Record qmi := mkQI { q_m : qm; q_info : list minfo }.

(* this->vartype(v) = varinfo_[v].vartype   (v in range is the caller's obligation) *)
Definition qi_vartype (q : qmi) (v : nat) : vartype :=
  match nth_error (q_info q) v with Some i => i_vt i | None => BINARY end.
Definition qi_lower_bound (q : qmi) (v : nat) : Qc :=
  match nth_error (q_info q) v with Some i => i_lb i | None => 0 end.
Definition qi_upper_bound (q : qmi) (v : nat) : Qc :=
  match nth_error (q_info q) v with Some i => i_ub i | None => 0 end.

(* varinfo_[v] := f varinfo_[v], whose vartype is t (both readings of the vartype updated) *)
Definition qi_upd_info (v : nat) (t : vartype) (f : minfo -> minfo) (q : qmi) : qmi :=
  let m := q_m q in
  mkQI (mkQM (lin m) (adj m) (off m) (Adj.upd_nth v (fun _ => t) (vts m)))
       (Adj.upd_nth v f (q_info q)).

Definition qi_with_m (q : qmi) (m : qm) : qmi := mkQI m (q_info q).

(*  } else if (source == Vartype::SPIN && target == Vartype::BINARY) {
        base_type::substitute_variable(v, 2, -1);
        this->varinfo_[v].lb = 0; this->varinfo_[v].ub = 1; this->varinfo_[v].vartype = Vartype::BINARY; *)
Definition qm_spin_to_binary_at (v : nat) (q : qmi) : qmi :=
  qi_upd_info v BINARY (fun _ => mkI BINARY 0 1)
    (qi_with_m q (Adj.substitute_variable v two (- (1)) (q_m q))).
(*  } else if (source == Vartype::BINARY && target == Vartype::SPIN) {
        base_type::substitute_variable(v, .5, .5);
        this->varinfo_[v].lb = -1; this->varinfo_[v].ub = +1; this->varinfo_[v].vartype = Vartype::SPIN; *)
Definition qm_binary_to_spin_at (v : nat) (q : qmi) : qmi :=
  qi_upd_info v SPIN (fun _ => mkI SPIN (- (1)) 1)
    (qi_with_m q (Adj.substitute_variable v half half (q_m q))).
(*  } else if (source == Vartype::BINARY && target == Vartype::INTEGER) {
        // nothing need to change except the vartype itself
        this->varinfo_[v].vartype = Vartype::INTEGER; *)
Definition qm_binary_to_integer_at (v : nat) (q : qmi) : qmi :=
  qi_upd_info v INTEGER (fun i => mkI INTEGER (i_lb i) (i_ub i)) q.

(* QuadraticModel::change_vartype(vartype, v); None = throw std::logic_error("unsupported vartype change")
   (TypeError in Python).  The branch SPIN -> INTEGER calls change_vartype itself twice; `fuel` bounds
   that recursion (one level is all the code can ever use: the inner calls are SPIN->BINARY and then
   BINARY->INTEGER, which are not recursive). *)
Fixpoint qm_change_vartype_rec (fuel : nat) (target : vartype) (v : nat) (q : qmi) : option qmi :=
  let source := qi_vartype q v in
  if vartype_eqb source target then Some q                       (* if (source == target) return; *)
  else match source, target with
       | SPIN, BINARY => Some (qm_spin_to_binary_at v q)
       | BINARY, SPIN => Some (qm_binary_to_spin_at v q)
       | SPIN, INTEGER =>
           (* first go to BINARY, then INTEGER
              this->change_vartype(Vartype::BINARY, v); this->change_vartype(Vartype::INTEGER, v); *)
           match fuel with
           | O => None
           | S f => match qm_change_vartype_rec f BINARY v q with
                    | Some q1 => qm_change_vartype_rec f INTEGER v q1
                    | None => None
                    end
           end
       | BINARY, INTEGER => Some (qm_binary_to_integer_at v q)
       | _, _ => None                                            (* throw std::logic_error *)
       end.

Definition qm_change_vartype (target : vartype) (v : nat) (q : qmi) : option qmi :=
  qm_change_vartype_rec 1 target v q.

(* quadratic_model.py spin_to_binary(inplace=True):
       for s in self.variables:
           if self.vartype(s) is Vartype.SPIN:
               self.change_vartype(Vartype.BINARY, s)
   (an exception would leave the loop: None is sticky) *)
Definition qm_stb_step (acc : option qmi) (v : nat) : option qmi :=
  match acc with
  | None => None
  | Some a => if is_spin (qi_vartype a v) then qm_change_vartype BINARY v a else Some a
  end.
Definition qm_spin_to_binary (q : qmi) : option qmi :=
  fold_left qm_stb_step (seq 0 (nvars (q_m q))) (Some q).

(* ---------- ConstrainedQuadraticModel ---------- *)
Definition cq_vartype (q : mcqm) (v : nat) : vartype :=
  match nth_error (m_info q) v with Some i => i_vt i | None => BINARY end.

Definition cq_upd_info (v : nat) (f : minfo -> minfo) (q : mcqm) : mcqm :=
  mkM (Expr.upd_nth v f (m_info q)) (m_obj q) (m_cons q).

(*  objective.substitute_variable(v, 2, -1);
    for (auto& c_ptr : constraints_) c_ptr->substitute_variable(v, 2, -1);
    varinfo_[v].lb = 0; varinfo_[v].ub = 1; varinfo_[v].vartype = Vartype::BINARY; *)
Definition cqm_spin_to_binary_at (v : nat) (q : mcqm) : mcqm :=
  cq_upd_info v (fun _ => mkI BINARY 0 1) (cqm_substitute v two (- (1)) q).
(*  objective.substitute_variable(v, .5, .5); ... c_ptr->substitute_variable(v, .5, .5);
    varinfo_[v].lb = -1; varinfo_[v].ub = +1; varinfo_[v].vartype = Vartype::SPIN; *)
Definition cqm_binary_to_spin_at (v : nat) (q : mcqm) : mcqm :=
  cq_upd_info v (fun _ => mkI SPIN (- (1)) 1) (cqm_substitute v half half q).
(*  varinfo_[v].vartype = Vartype::INTEGER; *)
Definition cqm_binary_to_integer_at (v : nat) (q : mcqm) : mcqm :=
  cq_upd_info v (fun i => mkI INTEGER (i_lb i) (i_ub i)) q.

(* ConstrainedQuadraticModel::change_vartype(vartype, v): the same dispatch as the QM one *)
Fixpoint cqm_change_vartype_rec (fuel : nat) (target : vartype) (v : nat) (q : mcqm) : option mcqm :=
  let source := cq_vartype q v in
  if vartype_eqb source target then Some q
  else match source, target with
       | SPIN, BINARY => Some (cqm_spin_to_binary_at v q)
       | BINARY, SPIN => Some (cqm_binary_to_spin_at v q)
       | SPIN, INTEGER =>
           match fuel with
           | O => None
           | S f => match cqm_change_vartype_rec f BINARY v q with
                    | Some q1 => cqm_change_vartype_rec f INTEGER v q1
                    | None => None
                    end
           end
       | BINARY, INTEGER => Some (cqm_binary_to_integer_at v q)
       | _, _ => None
       end.

Definition cqm_change_vartype (target : vartype) (v : nat) (q : mcqm) : option mcqm :=
  cqm_change_vartype_rec 1 target v q.

(* constrained.py spin_to_binary(inplace=True):
       for v in self.variables:
           if self.vartype(v) is Vartype.SPIN:
               self.change_vartype(Vartype.BINARY, v) *)
Definition cqm_stb_step (acc : option mcqm) (v : nat) : option mcqm :=
  match acc with
  | None => None
  | Some a => if is_spin (cq_vartype a v) then cqm_change_vartype BINARY v a else Some a
  end.
Definition cqm_spin_to_binary (q : mcqm) : option mcqm :=
  fold_left cqm_stb_step (seq 0 (length (m_info q))) (Some q).

(* cyconstrained.pyx flip_variable:
       if   self.cppcqm.vartype(vi) == cppVartype.SPIN:   self.cppcqm.substitute_variable(vi, -1, 0)
       elif self.cppcqm.vartype(vi) == cppVartype.BINARY: self.cppcqm.substitute_variable(vi, -1, 1)
       else: raise ValueError("can only flip SPIN and BINARY variables")          (None) *)
Definition cqm_flip_variable (v : nat) (q : mcqm) : option mcqm :=
  match cq_vartype q v with
  | SPIN => Some (cqm_substitute v (- (1)) 0 q)
  | BINARY => Some (cqm_substitute v (- (1)) 1 q)
  | _ => None
  end.

(* the value before the flip as a function of the value after it *)
Definition flip_value (t : vartype) (x : Qc) : Qc :=
  match t with SPIN => - x | BINARY => 1 - x | _ => x end.

(* constraint.h is_onehot (enum Sense { LE, GE, EQ }: EQ = 2), read on the index-level constraint *)
Definition vo_is_onehot (vt : nat -> vartype) (k : mcon) : bool :=
  let e := mc_e k in
  match e_quad e with [] => true | _ => false end           (* base_type::is_linear() *)
  && (2 <=? length (e_lin e))%nat                            (* num_variables() >= 2 *)
  && (mc_sense k =? 2)%nat                                   (* sense_ == Sense::EQ *)
  && Qc_eqb (e_off e) 0                                      (* !offset() *)
  && forallb (fun v => match vt v with BINARY => true | _ => false end) (e_vars e)
  && forallb (fun b => Qc_eqb b (mc_rhs k)) (e_lin e).

(* constrained.py flip_variable:
       discrete = [label for label in self.discrete if v in self.constraints[label].lhs.variables]
       super().flip_variable(v)
       for label in discrete: self.discrete.discard(label)
   self.discrete iterates the constraints with lhs.is_discrete() = marked_discrete() and is_onehot();
   discard = mark_discrete(False).  A ValueError of the flip leaves the marks alone. *)
Definition py_cqm_flip_variable (v : nat) (q : mcqm) : option mcqm :=
  match cqm_flip_variable v q with
  | None => None
  | Some q1 =>
      let affected :=
        map (fun k => mc_mark k && vo_is_onehot (cq_vartype q) k && existsb (Nat.eqb v) (e_vars (mc_e k)))
            (m_cons q) in
      Some (mkM (m_info q1) (m_obj q1)
                (map (fun kb => let k := fst kb in
                                mkMC (mc_e k) (mc_sense k) (mc_rhs k) (mc_weight k) (mc_pen k)
                                     (mc_mark k && negb (snd kb)))
                     (combine (m_cons q1) affected)))
  end.

(* activity of a constraint at a sample: lhs energy - rhs (what the feasibility checks compare with 0) *)
Definition mc_activity (k : mcon) (s : sample) : Qc := energy (abs_expr (mc_e k)) s - mc_rhs k.

(* ---------- executable comparators for observed raw state ---------- *)
Definition vo_info_eqb (a b : minfo) : bool :=
  vartype_eqb (i_vt a) (i_vt b) && Qc_eqb (i_lb a) (i_lb b) && Qc_eqb (i_ub a) (i_ub b).
Definition vo_nbh_eqb (a b : nbh) : bool := list_eqb (pair_eqb Nat.eqb Qc_eqb) a b.
(* linear biases, neighbourhoods (_ilinear / _ineighborhood(i)), offset, both vartype readings, bounds *)
Definition qmi_eqb (a b : qmi) : bool :=
  list_eqb Qc_eqb (lin (q_m a)) (lin (q_m b)) && list_eqb vo_nbh_eqb (adj (q_m a)) (adj (q_m b))
  && Qc_eqb (off (q_m a)) (off (q_m b)) && list_eqb vartype_eqb (vts (q_m a)) (vts (q_m b))
  && list_eqb vo_info_eqb (q_info a) (q_info b).
(* _iindices / _ilinear / _iquadratic (as an ordered list) / offset *)
Definition vo_expr_eqb (a b : mexpr) : bool :=
  list_eqb Nat.eqb (e_vars a) (e_vars b) && list_eqb Qc_eqb (e_lin a) (e_lin b)
  && list_eqb (pair_eqb (pair_eqb Nat.eqb Nat.eqb) Qc_eqb) (e_quad a) (e_quad b) && Qc_eqb (e_off a) (e_off b).
Definition vo_con_eqb (a b : mcon) : bool :=
  vo_expr_eqb (mc_e a) (mc_e b) && (mc_sense a =? mc_sense b)%nat && Qc_eqb (mc_rhs a) (mc_rhs b)
  && option_eqb Qc_eqb (mc_weight a) (mc_weight b) && (mc_pen a =? mc_pen b)%nat && Bool.eqb (mc_mark a) (mc_mark b).
Definition vo_cqm_eqb (a b : mcqm) : bool :=
  list_eqb vo_info_eqb (m_info a) (m_info b) && vo_expr_eqb (m_obj a) (m_obj b)
  && list_eqb vo_con_eqb (m_cons a) (m_cons b).
