(* C04: edit histories of a BinaryQuadraticModel (any storage back-end, base
   object or .spin/.binary view handle) and of a QuadraticModel, as the plain
   polynomial of Poly.v plus an ordered variable list with vartype and bounds.

   `step s (h, o)` mirrors what the public method does, including which calls
   raise (and with which exception bucket) and the partial effect of the
   looping methods that stop at the first error.  A view handle (`Via wv`)
   executes the translation code of binary/vartypeview.py literally: every
   view method is a sequence of base writes with translated biases; when the
   view's vartype equals the base's the @view_method wrappers delegate.
   No proofs in this file. *)
From Coq Require Import List ZArith QArith Qcanon Qround Bool Arith.
From Dimod Require Import Base.Util Model.Poly Model.View.
Import ListNotations.
Open Scope Qc_scope.

Inductive bucket := BValue | BType | BKey | BIndex | BOther.
Inductive outcome := Ok | Raised (b : bucket).

Definition bucket_eqb (a b : bucket) : bool :=
  match a, b with
  | BValue, BValue | BType, BType | BKey, BKey | BIndex, BIndex | BOther, BOther => true
  | _, _ => false
  end.
Definition outcome_eqb (a b : outcome) : bool :=
  match a, b with
  | Ok, Ok => true
  | Raised x, Raised y => bucket_eqb x y
  | _, _ => false
  end.

Record vinfo := mkV { v_lab : label; v_vt : vartype; v_lb : Qc; v_ub : Qc }.

(* st_kind = Some vt : a BQM of that vartype ;  None : a QM *)
Record state := mkSt { st_kind : option vartype; st_vars : list vinfo; st_poly : poly }.

Definition res := (state * outcome)%type.
Definition ok (s : state) : res := (s, Ok).
Definition raise (b : bucket) (s : state) : res := (s, Raised b).
Definition bind (r : res) (f : state -> res) : res :=
  match snd r with Ok => f (fst r) | Raised _ => r end.
Notation "r >>= f" := (bind r f) (at level 50, left associativity).

(* loop that stops at the first error, keeping the effect so far *)
Fixpoint seqm {A : Type} (f : A -> state -> res) (l : list A) (s : state) : res :=
  match l with
  | [] => ok s
  | x :: xs => bind (f x s) (seqm f xs)
  end.

(* ---------- limits (include/dimod/vartypes.h, float64) ---------- *)
Definition int_max : Qc := qc 9007199254740991 1.
Definition real_max : Qc := qc 1000000000000000019884624838656 1.   (* the double nearest to 1e30 *)
Definition is_sb (vt : vartype) : bool := match vt with BINARY | SPIN => true | _ => false end.
Definition is_real (vt : vartype) : bool := match vt with REAL => true | _ => false end.
Definition dflt_lb (vt : vartype) : Qc := match vt with SPIN => - (1) | _ => 0 end.
Definition dflt_ub (vt : vartype) : Qc :=
  match vt with BINARY | SPIN => 1 | INTEGER => int_max | REAL => real_max end.
Definition vt_max (vt : vartype) : Qc := dflt_ub vt.
Definition vt_min (vt : vartype) : Qc :=
  match vt with BINARY => 0 | SPIN => - (1) | INTEGER => - int_max | REAL => - real_max end.
Definition mkvar (vt : vartype) (v : label) : vinfo := mkV v vt (dflt_lb vt) (dflt_ub vt).

Definition Qc_ltb (a b : Qc) : bool := negb (Qle_bool b a).
Definition Qc_floor (a : Qc) : Z := Qfloor a.
Definition Qc_ceil (a : Qc) : Z := Qceiling a.

(* ---------- state accessors ---------- *)
Definition labels (s : state) : list label := map v_lab (st_vars s).
Definition has_var (s : state) (v : label) : bool := existsb (fun i => (v_lab i =? v)%nat) (st_vars s).
Definition find_var (s : state) (v : label) : option vinfo := find (fun i => (v_lab i =? v)%nat) (st_vars s).
Definition bvt (s : state) : vartype := match st_kind s with Some vt => vt | None => BINARY end.
Definition vt_of (s : state) (v : label) : vartype :=
  match find_var s v with Some i => v_vt i | None => bvt s end.
Definition with_poly (s : state) (p : poly) : state := mkSt (st_kind s) (st_vars s) p.
Definition with_vars (s : state) (vs : list vinfo) : state := mkSt (st_kind s) vs (st_poly s).
Definition ensure (v : label) (s : state) : state :=
  if has_var s v then s else with_vars s (st_vars s ++ [mkvar (bvt s) v]).

Definition lin (s : state) (v : label) : Qc := lin_coeff (p_lin (st_poly s)) v.
Definition quad (s : state) (u v : label) : Qc := quad_coeff (p_quad (st_poly s)) u v.
Definition hasq (s : state) (u v : label) : bool := has_pair (p_quad (st_poly s)) u v.
(* neighbourhood of v in variable order (abc.h keeps it sorted by index) *)
Definition nbh (s : state) (v : label) : list (label * Qc) :=
  map (fun w => (w, quad s v w)) (filter (hasq s v) (labels s)).
Definition nbh_sum (s : state) (v : label) : Qc := qsum (map snd (nbh s v)).

(* ---------- read paths as functions of the polynomial ---------- *)
Definition b2n (b : bool) : nat := if b then 1%nat else 0%nat.
Definition deg_in (q : list qterm) (vs : list label) (v : label) : nat :=
  length (filter (has_pair q v) vs).
Fixpoint nint_in (q : list qterm) (vs : list label) : nat :=
  match vs with
  | [] => 0%nat
  | v :: rest => (b2n (has_pair q v v) + length (filter (has_pair q v) rest) + nint_in q rest)%nat
  end.
Definition nself_in (q : list qterm) (vs : list label) : nat := length (filter (fun v => has_pair q v v) vs).
Definition sumdeg_in (q : list qterm) (vs : list label) : nat :=
  fold_right Nat.add 0%nat (map (deg_in q vs) vs).

Definition degree (s : state) (v : label) : nat := deg_in (p_quad (st_poly s)) (labels s) v.
Definition num_interactions (s : state) : nat := nint_in (p_quad (st_poly s)) (labels s).
Definition num_variables (s : state) : nat := length (st_vars s).
Definition is_linear (s : state) : bool := (num_interactions s =? 0)%nat.

(* ---------- base (data object) primitives ---------- *)
Definition push_quad (u v : label) (b : Qc) (p : poly) : poly :=
  mkPoly (p_off p) (p_lin p) ((u, v, b) :: p_quad p).
Definition set_off (b : Qc) (p : poly) : poly := mkPoly b (p_lin p) (p_quad p).

(* label -> index resolution: permissive growth for a BQM, ValueError for a QM *)
Definition resolve (v : label) (s : state) : res :=
  match st_kind s with
  | Some _ => ok (ensure v s)
  | None => if has_var s v then ok s else raise BValue s
  end.

(* should add_quadratic / set_quadratic (u, v) raise ValueError? *)
Definition quad_guard (u v : label) (s : state) : bool :=
  match st_kind s with
  | Some _ => (u =? v)%nat                       (* cyBQM / pyBQM: before any label is added *)
  | None => negb (has_var s u && has_var s v)
            || ((u =? v)%nat && is_sb (vt_of s u))
            || is_real (vt_of s u) || is_real (vt_of s v)   (* dimod.REAL_INTERACTIONS is False *)
  end.

Definition d_add_linear (v : label) (b : Qc) (s : state) : res :=
  resolve v s >>= fun s => ok (with_poly s (add_linear v b (st_poly s))).
Definition d_set_linear (v : label) (b : Qc) (s : state) : res :=
  resolve v s >>= fun s => ok (with_poly s (set_linear v b (st_poly s))).
Definition d_add_quadratic (u v : label) (b : Qc) (s : state) : res :=
  if quad_guard u v s then raise BValue s
  else resolve u s >>= resolve v >>= fun s => ok (with_poly s (push_quad u v b (st_poly s))).
Definition d_set_quadratic (u v : label) (b : Qc) (s : state) : res :=
  if quad_guard u v s then raise BValue s
  else resolve u s >>= resolve v >>= fun s => ok (with_poly s (set_quadratic u v b (st_poly s))).
Definition d_remove_interaction (u v : label) (s : state) : res :=
  if has_var s u && has_var s v && hasq s u v
  then ok (with_poly s (remove_interaction u v (st_poly s))) else raise BValue s.
Definition d_remove_variable (v : label) (s : state) : res :=
  if has_var s v
  then ok (mkSt (st_kind s) (filter (fun i => negb (v_lab i =? v)%nat) (st_vars s))
             (remove_variable v (st_poly s)))
  else raise BValue s.
Definition d_add_offset (b : Qc) (s : state) : res := ok (with_poly s (add_offset b (st_poly s))).
Definition d_set_offset (b : Qc) (s : state) : res := ok (with_poly s (set_off b (st_poly s))).

(* ---------- handles ---------- *)
Inductive handle := Direct | Via (wv : vartype).

Definition hvt (h : handle) (s : state) : vartype := match h with Direct => bvt s | Via wv => wv end.

(* Some d: the view really translates; None: base object, or view whose vartype
   coincides with the base's (the @view_method wrappers delegate) *)
Definition vdir_of (h : handle) (s : state) : option vdir :=
  match h with
  | Direct => None
  | Via wv => if vartype_eqb wv (bvt s) then None
              else Some (match wv with BINARY => BinOverSpin | _ => SpinOverBin end)
  end.

Definition h_add_linear (h : handle) (v : label) (b : Qc) (s : state) : res :=
  match vdir_of h s with
  | None => d_add_linear v b s
  | Some BinOverSpin => d_add_linear v (b * half) s >>= d_add_offset (b * half)
  | Some SpinOverBin => d_add_linear v (two * b) s >>= d_add_offset (- b)
  end.

Definition h_add_quadratic (h : handle) (u v : label) (b : Qc) (s : state) : res :=
  match vdir_of h s with
  | None => d_add_quadratic u v b s
  | Some BinOverSpin =>
      d_add_quadratic u v (b * quarter) s >>= d_add_linear u (b * quarter)
        >>= d_add_linear v (b * quarter) >>= d_add_offset (b * quarter)
  | Some SpinOverBin =>
      d_add_quadratic u v (four * b) s >>= d_add_linear u (- (two * b))
        >>= d_add_linear v (- (two * b)) >>= d_add_offset b
  end.

Definition h_get_linear (h : handle) (v : label) (s : state) : option Qc :=
  if has_var s v then
    Some match vdir_of h s with
         | None => lin s v
         | Some BinOverSpin => two * lin s v - two * nbh_sum s v
         | Some SpinOverBin => lin s v * half + nbh_sum s v * quarter
         end
  else None.

Definition vscale (h : handle) (s : state) (b : Qc) : Qc :=
  match vdir_of h s with
  | None => b
  | Some BinOverSpin => four * b
  | Some SpinOverBin => b * quarter
  end.

Definition h_get_quadratic (h : handle) (u v : label) (s : state) : option Qc :=
  if has_var s u && has_var s v && hasq s u v then Some (vscale h s (quad s u v)) else None.

Definition h_nbh (h : handle) (v : label) (s : state) : list (label * Qc) :=
  map (fun t => (fst t, vscale h s (snd t))) (nbh s v).

Definition h_get_offset (h : handle) (s : state) : Qc :=
  match vdir_of h s with
  | None => p_off (st_poly s)
  | Some d => view_offset d (st_poly s)
  end.

Definition h_set_offset (h : handle) (b : Qc) (s : state) : res :=
  match vdir_of h s with
  | None => d_set_offset b s
  | Some d => d_add_offset (b - view_offset d (st_poly s)) s
  end.

(* `model.offset += b` : getter then setter *)
Definition h_add_offset (h : handle) (b : Qc) (s : state) : res :=
  h_set_offset h (h_get_offset h s + b) s.

Definition opt0 (o : option Qc) : Qc := match o with Some x => x | None => 0 end.

Definition h_set_linear (h : handle) (v : label) (b : Qc) (s : state) : res :=
  match vdir_of h s with
  | None => d_set_linear v b s
  | Some _ => h_add_linear h v 0 s >>= fun s => h_add_linear h v (b - opt0 (h_get_linear h v s)) s
  end.

(* add_variable(v, bias) with an explicit label *)
Definition h_add_variable (h : handle) (v : label) (b : Qc) (s : state) : res :=
  resolve v s >>= h_add_linear h v b.

(* VartypeView.set_quadratic is not wrapped: the same code runs whether or not
   the vartypes coincide.  (u = v: specified to raise before any change; the
   code adds u first - see the report.) *)
Definition h_set_quadratic (h : handle) (u v : label) (b : Qc) (s : state) : res :=
  match h with
  | Direct => d_set_quadratic u v b s
  | Via _ =>
      if quad_guard u v s then raise BValue s
      else h_add_variable h u 0 s >>= h_add_variable h v 0 >>= h_add_quadratic h u v 0
           >>= fun s => h_add_quadratic h u v (b - opt0 (h_get_quadratic h u v s)) s
  end.

Definition h_remove_interaction (h : handle) (u v : label) (s : state) : res :=
  match vdir_of h s with
  | None => d_remove_interaction u v s
  | Some _ =>
      match h_get_quadratic h u v s with
      | None => raise BValue s
      | Some _ => h_set_quadratic h u v 0 s >>= d_remove_interaction u v
      end
  end.

Definition last_label (s : state) : option label :=
  match rev (labels s) with [] => None | v :: _ => Some v end.

Definition h_remove_variable (h : handle) (ov : option label) (s : state) : res :=
  match (match ov with Some v => Some v | None => last_label s end) with
  | None => raise BValue s                       (* cannot pop from an empty model *)
  | Some v =>
      match vdir_of h s with
      | None => d_remove_variable v s
      | Some _ =>
          if has_var s v then
            seqm (fun t => h_set_quadratic h (fst t) v 0) (h_nbh h v s) s
              >>= h_set_linear h v 0 >>= d_remove_variable v
          else raise BValue s
      end
  end.

(* ---------- python-level methods, generic in the handle ---------- *)
Definition m_contract (h : handle) (u v : label) (s : state) : res :=
  if negb (has_var s u && has_var s v) || (u =? v)%nat then raise BValue s
  else
    let q := opt0 (h_get_quadratic h u v s) in
    let had := match h_get_quadratic h u v s with Some _ => true | None => false end in
    h_add_linear h u (opt0 (h_get_linear h v s)) s
    >>= (fun s => match hvt h s with
                  | BINARY => h_add_linear h u q s
                  | _ => h_add_offset h q s
                  end)
    >>= (fun s => if had then h_remove_interaction h u v s else ok s)
    >>= (fun s => seqm (fun t => h_add_quadratic h u (fst t) (snd t)) (h_nbh h v s) s)
    >>= h_remove_variable h (Some v).

Definition m_flip (h : handle) (v : label) (s : state) : res :=
  if negb (has_var s v) then raise BValue s
  else
    match (match st_kind s with Some _ => hvt h s | None => vt_of s v end) with
    | SPIN =>
        seqm (fun t => h_set_quadratic h (fst t) v (- snd t)) (h_nbh h v s) s
        >>= fun s => h_set_linear h v (- opt0 (h_get_linear h v s)) s
    | BINARY =>
        seqm (fun t s => h_set_quadratic h (fst t) v (- snd t) s >>= h_add_linear h (fst t) (snd t))
             (h_nbh h v s) s
        >>= (fun s => h_add_offset h (opt0 (h_get_linear h v s)) s)
        >>= fun s => h_set_linear h v (- opt0 (h_get_linear h v s)) s
    | _ => raise BValue s
    end.

Definition m_fix (h : handle) (v : label) (a : Qc) (s : state) : res :=
  if negb (has_var s v) then raise BValue s
  else
    seqm (fun t => h_add_linear h (fst t) (a * snd t)) (h_nbh h v s) s
    >>= (fun s => h_add_offset h (a * opt0 (h_get_linear h v s)) s)
    >>= h_remove_variable h (Some v).

Definition mem_label (v : label) (l : list label) : bool := existsb (Nat.eqb v) l.
Definition mem_pair (u v : label) (l : list (label * label)) : bool :=
  existsb (fun t => same_pair u v (fst t) (snd t)) l.

(* lower-triangle list of interactions, as iter_quadratic reports them *)
Fixpoint pairs_in (q : list qterm) (vs : list label) : list (label * label) :=
  match vs with
  | [] => []
  | v :: rest => pairs_in q rest ++ (if has_pair q v v then [(v, v)] else [])
                 ++ map (fun w => (w, v)) (filter (has_pair q v) rest)
  end.
Definition pairs (s : state) : list (label * label) := pairs_in (p_quad (st_poly s)) (labels s).

Definition m_scale (h : handle) (k : Qc) (iv : list label) (ii : list (label * label)) (io : bool)
  (s : state) : res :=
  match h, iv, ii, io with
  | Direct, [], [], false => ok (with_poly s (scale k (st_poly s)))       (* data.scale *)
  | _, _, _, _ =>
      seqm (fun v s => if mem_label v iv then ok s
                       else h_set_linear h v (k * opt0 (h_get_linear h v s)) s) (labels s) s
      >>= (fun s => seqm (fun t s => if mem_pair (fst t) (snd t) ii then ok s
                                     else h_set_quadratic h (fst t) (snd t)
                                            (k * opt0 (h_get_quadratic h (fst t) (snd t) s)) s)
                         (pairs s) s)
      >>= fun s => if io then ok s else h_set_offset h (h_get_offset h s * k) s
  end.

(* BQM.update(other): python fallback through other.spin / other.binary *)
Definition m_update_bqm (h : handle) (o : state) (s : state) : res :=
  let ho := Via (hvt h s) in
  seqm (fun v => h_add_linear h v (opt0 (h_get_linear ho v o))) (labels o) s
  >>= seqm (fun t => h_add_quadratic h (fst t) (snd t) (opt0 (h_get_quadratic ho (fst t) (snd t) o))) (pairs o)
  >>= fun s => h_add_offset h (h_get_offset ho o) s.

(* ---------- relabelling ---------- *)
Definition lookup (m : list (label * label)) (v : label) : label :=
  match find (fun t => (fst t =? v)%nat) m with Some t => snd t | None => v end.

Fixpoint nodupb (l : list label) : bool :=
  match l with [] => true | x :: xs => negb (mem_label x xs) && nodupb xs end.

(* utilities.iter_safe_relabels: two keys to one label, or a new label that is
   an existing variable not itself relabelled -> ValueError, nothing changed *)
Definition relabel_ok (m : list (label * label)) (s : state) : bool :=
  nodupb (map snd m)
  && forallb (fun t => negb (has_var s (snd t) && negb (mem_label (snd t) (map fst m)))) m.

Definition relabel_state (f : label -> label) (s : state) : state :=
  mkSt (st_kind s) (map (fun i => mkV (f (v_lab i)) (v_vt i) (v_lb i) (v_ub i)) (st_vars s))
       (relabel f (st_poly s)).

Definition m_relabel (m : list (label * label)) (s : state) : res :=
  if relabel_ok m s then ok (relabel_state (lookup m) s) else raise BValue s.

(* position i gets the label of the python int i (ints = table ids of 0,1,2,...) *)
Definition m_relabel_ints (ints : list label) (s : state) : res :=
  m_relabel (combine (labels s) ints) s.

(* pyBQM.relabel_variables re-inserts every relabelled variable at the end of
   the dict: unaffected variables keep their order, then the relabelled ones in
   mapping order (those that needed an intermediate label last) *)
Definition move_to_end (targets : list label) (s : state) : state :=
  with_vars s (filter (fun i => negb (mem_label (v_lab i) targets)) (st_vars s)
               ++ flat_map (fun v => filter (fun i => (v_lab i =? v)%nat) (st_vars s)) targets).

Definition py_moved (m : list (label * label)) (s : state) : list label :=
  let mv := filter (fun t => negb (fst t =? snd t)%nat && has_var s (fst t)) m in
  let keys := map fst m in
  let vals := map snd m in
  if existsb (fun k => mem_label k vals) keys then
    let conf := fun t : label * label => mem_label (fst t) vals || mem_label (snd t) keys in
    map snd (filter (fun t => negb (conf t)) mv) ++ map snd (filter conf mv)
  else map snd mv.

Definition m_relabel_py (m : list (label * label)) (s : state) : res :=
  if relabel_ok m s then ok (move_to_end (py_moved m s) (relabel_state (lookup m) s)) else raise BValue s.

Definition m_relabel_ints_py (ints : list label) (s : state) : res :=
  m_relabel_py (filter (fun t => negb (fst t =? snd t)%nat) (combine (labels s) ints)) s.

(* ---------- vartype changes ---------- *)
Definition conv_var (target : vartype) (v : label) (p : poly) : poly :=
  match target with
  | BINARY => spin_to_binary v p
  | _ => binary_to_spin v p
  end.

Definition m_change_vartype_bqm (vt : vartype) (s : state) : res :=
  if negb (is_sb vt) then raise BOther s
  else if vartype_eqb vt (bvt s) then ok s
  else ok (mkSt (Some vt) (map (fun i => mkvar vt (v_lab i)) (st_vars s))
             (fold_left (fun p v => conv_var vt v p) (labels s) (st_poly s))).

Definition set_vinfo (v : label) (f : vinfo -> vinfo) (s : state) : state :=
  with_vars s (map (fun i => if (v_lab i =? v)%nat then f i else i) (st_vars s)).

Definition m_change_vartype_qm (vt : vartype) (v : label) (s : state) : res :=
  if negb (has_var s v) then raise BValue s
  else
    match vt_of s v, vt with
    | BINARY, BINARY | SPIN, SPIN | INTEGER, INTEGER | REAL, REAL => ok s
    | SPIN, BINARY => ok (set_vinfo v (fun _ => mkvar BINARY v) (with_poly s (spin_to_binary v (st_poly s))))
    | BINARY, SPIN => ok (set_vinfo v (fun _ => mkvar SPIN v) (with_poly s (binary_to_spin v (st_poly s))))
    | SPIN, INTEGER => ok (set_vinfo v (fun _ => mkV v INTEGER 0 1) (with_poly s (spin_to_binary v (st_poly s))))
    | BINARY, INTEGER => ok (set_vinfo v (fun _ => mkV v INTEGER 0 1) s)
    | _, _ => raise BType s
    end.

(* ---------- QM variables and bounds ---------- *)
Definition bounds_for (vt : vartype) (lb ub : option Qc) : Qc * Qc :=
  if is_sb vt then (dflt_lb vt, dflt_ub vt)
  else (match lb with Some x => x | None => dflt_lb vt end,
        match ub with Some x => x | None => dflt_ub vt end).

Definition bounds_bad (vt : vartype) (lb ub : Qc) : bool :=
  negb (is_sb vt) &&
  (Qc_ltb lb (vt_min vt) || Qc_ltb (vt_max vt) ub || Qc_ltb ub lb
   || (match vt with INTEGER => Z.ltb (Qc_floor ub) (Qc_ceil lb) | _ => false end)).

Definition q_add_variable (vt : vartype) (v : label) (lb ub : option Qc) (s : state) : res :=
  match find_var s v with
  | Some i =>
      if negb (vartype_eqb (v_vt i) vt) then raise BType s
      else if negb (is_sb vt) &&
              ((match lb with Some x => negb (Qc_eqb x (v_lb i)) | None => false end)
               || (match ub with Some x => negb (Qc_eqb x (v_ub i)) | None => false end))
      then raise BValue s
      else ok s
  | None =>
      let '(l, u) := bounds_for vt lb ub in
      if bounds_bad vt l u then raise BValue s
      else ok (with_vars s (st_vars s ++ [mkV v vt l u]))
  end.

Definition q_set_lb (v : label) (b : Qc) (s : state) : res :=
  match find_var s v with
  | None => raise BValue s
  | Some i =>
      if is_sb (v_vt i) || Qc_ltb b (vt_min (v_vt i)) || Qc_ltb (v_ub i) b
         || (match v_vt i with INTEGER => Z.ltb (Qc_floor (v_ub i)) (Qc_ceil b) | _ => false end)
      then raise BValue s
      else ok (set_vinfo v (fun i => mkV (v_lab i) (v_vt i) b (v_ub i)) s)
  end.

Definition q_set_ub (v : label) (b : Qc) (s : state) : res :=
  match find_var s v with
  | None => raise BValue s
  | Some i =>
      if is_sb (v_vt i) || Qc_ltb (vt_max (v_vt i)) b || Qc_ltb b (v_lb i)
         || (match v_vt i with INTEGER => Z.ltb (Qc_floor b) (Qc_ceil (v_lb i)) | _ => false end)
      then raise BValue s
      else ok (set_vinfo v (fun i => mkV (v_lab i) (v_vt i) (v_lb i) b) s)
  end.

(* cyQM.update: every shared label is checked before anything is changed *)
Definition vinfo_conflict (s : state) (i : vinfo) : bool :=
  match find_var s (v_lab i) with
  | None => false
  | Some j => negb (vartype_eqb (v_vt i) (v_vt j) && Qc_eqb (v_lb i) (v_lb j) && Qc_eqb (v_ub i) (v_ub j))
  end.

Definition m_update_qm (o : state) (s : state) : res :=
  if existsb (vinfo_conflict s) (st_vars o) then raise BValue s
  else
    let s1 := with_vars s (st_vars s ++ filter (fun i => negb (has_var s (v_lab i))) (st_vars o)) in
    ok (with_poly s1 (padd (st_poly s1) (st_poly o))).

(* cyQM.add_linear(v, bias, default_vartype=vt, default_lower_bound=lb, default_upper_bound=ub):
   an existing label ignores the defaults, an unknown one is created first *)
Definition q_add_linear_dflt (v : label) (b : Qc) (vt : vartype) (lb ub : option Qc) (s : state) : res :=
  if has_var s v then d_add_linear v b s else q_add_variable vt v lb ub s >>= d_add_linear v b.

(* ---------- operations ---------- *)
Inductive op :=
| OAddVariable (v : label) (b : Qc)
| OAddLinear (v : label) (b : Qc)
| OSetLinear (v : label) (b : Qc)
| OAddQuadratic (u v : label) (b : Qc)
| OSetQuadratic (u v : label) (b : Qc)
| OAddLinearFrom (l : list (label * Qc))
| OAddQuadraticFrom (l : list (label * label * Qc))
| ORemoveVariable (v : option label)
| ORemoveVariablesFrom (l : list label)
| ORemoveInteraction (u v : label)
| ORemoveInteractionsFrom (l : list (label * label))
| OContract (u v : label)
| OFlip (v : label)
| ORelabel (m : list (label * label))
| ORelabelInts (ints : list label)
| ORelabelPy (m : list (label * label))        (* object-dtype back-end: dict order *)
| ORelabelIntsPy (ints : list label)
| OScale (k : Qc) (iv : list label) (ii : list (label * label)) (io : bool)
| OUpdate (other : state)
| OSetOffset (b : Qc)
| OResize (n : Z) (fresh : list label)     (* fresh: the labels auto-labelling chose (C13), observed *)
| OClear
| OChangeVartype (vt : vartype)
| OFix (v : label) (a : Qc)
| OQAddVariable (vt : vartype) (v : label) (lb ub : option Qc)
| OQAddLinearDflt (v : label) (b : Qc) (vt : vartype) (lb ub : option Qc)
| OQAddLinearFromDflt (l : list (label * Qc)) (vt : vartype) (lb ub : option Qc)   (* add_linear_from loop *)
| OQAddVariablesFrom (vt : vartype) (l : list label)
| OQSetLb (v : label) (b : Qc)
| OQSetUb (v : label) (b : Qc)
| OQChangeVartype (vt : vartype) (v : label).

Definition firstn_vars (n : nat) (s : state) : state :=
  let keep := firstn n (st_vars s) in
  let gone := map v_lab (skipn n (st_vars s)) in
  mkSt (st_kind s) keep (fold_left (fun p v => remove_variable v p) gone (st_poly s)).

Definition m_resize (n : Z) (fresh : list label) (s : state) : res :=
  if (n <? 0)%Z then raise BValue s
  else
    let k := Z.to_nat n in
    if (k <=? num_variables s)%nat then ok (firstn_vars k s)
    else ok (fold_left (fun s v => ensure v s) (firstn (k - num_variables s) fresh) s).

Definition is_bqm (s : state) : bool := match st_kind s with Some _ => true | None => false end.

Definition step (s : state) (ho : handle * op) : res :=
  let '(h, o) := ho in
  match o with
  | OAddVariable v b => if is_bqm s then h_add_variable h v b s else raise BOther s
  | OAddLinear v b => h_add_linear h v b s
  | OSetLinear v b => h_set_linear h v b s
  | OAddQuadratic u v b => h_add_quadratic h u v b s
  | OSetQuadratic u v b => h_set_quadratic h u v b s
  | OAddLinearFrom l => seqm (fun t => h_add_linear h (fst t) (snd t)) l s
  | OAddQuadraticFrom l => seqm (fun t => h_add_quadratic h (fst (fst t)) (snd (fst t)) (snd t)) l s
  | ORemoveVariable v => h_remove_variable h v s
  | ORemoveVariablesFrom l => seqm (fun v => h_remove_variable h (Some v)) l s
  | ORemoveInteraction u v => h_remove_interaction h u v s
  | ORemoveInteractionsFrom l => seqm (fun t => h_remove_interaction h (fst t) (snd t)) l s
  | OContract u v => if is_bqm s then m_contract h u v s else raise BOther s
  | OFlip v => m_flip h v s
  | ORelabel m => m_relabel m s
  | ORelabelInts ints => m_relabel_ints ints s
  | ORelabelPy m => m_relabel_py m s
  | ORelabelIntsPy ints => m_relabel_ints_py ints s
  | OScale k iv ii io => m_scale h k iv ii io s
  | OUpdate other => if is_bqm s then m_update_bqm h other s else m_update_qm other s
  | OSetOffset b => h_set_offset h b s
  | OResize n fresh => if is_bqm s then m_resize n fresh s else raise BOther s
  | OClear => ok (mkSt (st_kind s) [] pzero)
  | OChangeVartype vt => if is_bqm s then m_change_vartype_bqm vt s else raise BOther s
  | OFix v a => m_fix h v a s
  | OQAddVariable vt v lb ub => if is_bqm s then raise BOther s else q_add_variable vt v lb ub s
  | OQAddLinearDflt v b vt lb ub => if is_bqm s then raise BOther s else q_add_linear_dflt v b vt lb ub s
  | OQAddLinearFromDflt l vt lb ub =>
      if is_bqm s then raise BOther s
      else seqm (fun t => q_add_linear_dflt (fst t) (snd t) vt lb ub) l s
  | OQAddVariablesFrom vt l => if is_bqm s then raise BOther s else seqm (fun v => q_add_variable vt v None None) l s
  | OQSetLb v b => if is_bqm s then raise BOther s else q_set_lb v b s
  | OQSetUb v b => if is_bqm s then raise BOther s else q_set_ub v b s
  | OQChangeVartype vt v => if is_bqm s then raise BOther s else m_change_vartype_qm vt v s
  end.

(* calls specified to be all-or-nothing (everything but the documented loops) *)
Definition atomic (o : op) : bool :=
  match o with
  | OAddLinearFrom _ | OAddQuadraticFrom _ | ORemoveVariablesFrom _ | ORemoveInteractionsFrom _
  | OQAddVariablesFrom _ _ | OQAddLinearFromDflt _ _ _ _ => false
  | _ => true
  end.

Definition run (s : state) (l : list (handle * op)) : state := fold_left (fun s ho => fst (step s ho)) l s.

(* ---------- well-formedness ---------- *)
Definition wf (s : state) : Prop :=
  NoDup (labels s)
  /\ (forall t, In t (p_lin (st_poly s)) -> In (fst t) (labels s))
  /\ (forall t, In t (p_quad (st_poly s)) ->
        In (fst (fst t)) (labels s) /\ In (snd (fst t)) (labels s)
        /\ (fst (fst t) = snd (fst t) -> is_sb (vt_of s (fst (fst t))) = false))
  /\ (forall vt, st_kind s = Some vt -> is_sb vt = true /\ forall i, In i (st_vars s) -> v_vt i = vt).

Definition wfb (s : state) : bool :=
  nodupb (labels s)
  && forallb (fun t => mem_label (fst t) (labels s)) (p_lin (st_poly s))
  && forallb (fun t : qterm => mem_label (fst (fst t)) (labels s) && mem_label (snd (fst t)) (labels s)
                       && negb ((fst (fst t) =? snd (fst t))%nat && is_sb (vt_of s (fst (fst t)))))
             (p_quad (st_poly s))
  && match st_kind s with
     | Some vt => is_sb vt && forallb (fun i => vartype_eqb (v_vt i) vt) (st_vars s)
     | None => true
     end.
