(* C16 correspondence + oracle.  Each check (a) replays the model on the coefficients the
   implementation reported before the call and compares with those reported after, and
   (b) evaluates the property itself (penalty exact / 0 iff feasible, >= multiplier otherwise)
   on the implementation's own coefficients by enumerating all assignments inside Coq. *)
From Coq Require Import List ZArith QArith Qcanon Bool Arith.
From Dimod Require Import Base.Util Model.Poly Model.Comb Model.Penalty Model.CqmBqm Model.DqmAdj Model.DqmIneqGen.
Import ListNotations.
Open Scope Qc_scope.

Definition qterms (l : list (label * Z)) : list lterm := map (fun t => (fst t, zq (snd t))) l.

(* all samples giving each label one value of dom *)
Fixpoint assigns (dom : list Qc) (labels : list label) : list (list (label * Qc)) :=
  match labels with
  | [] => [[]]
  | v :: r => flat_map (fun a => map (cons (v, a)) (assigns dom r)) dom
  end.

Definition dom_of (vt : vartype) : list Qc :=
  match vt with SPIN => [- (1); 1] | _ => [0; 1] end.

Definition qmin_list (l : list Qc) (d : Qc) : Qc :=
  fold_right (fun a b => if Qc_leb a b then a else b) d l.

Definition zdot (terms : list (label * Z)) (x : list (label * Qc)) : Qc :=
  lin_energy (qterms terms) (sample_of_list x).

(* ------------------------------------------------------------------ *)
(* BQM equality *)

Record eq_case := mkEq {
  e_n : nat; e_vt : vartype; e_py : bool;
  e_terms : list lterm; e_lam : Qc; e_c : Qc;
  e_before : obs; e_after : obs }.

Definition pen_exact_on (before after : poly) (terms : list lterm) (lam c : Qc) (x : list (label * Qc)) : bool :=
  let s := sample_of_list x in
  Qc_eqb (energy after s) (energy before s + lam * ((lin_sum terms s + c) * (lin_sum terms s + c))).

Definition check_eq (c : eq_case) : bool :=
  let before := obs_poly (e_before c) in
  let after := obs_poly (e_after c) in
  let model := (if e_py c then add_eq_py else add_eq_cy) (e_vt c) (e_terms c) (e_lam c) (e_c c) before in
  poly_coeff_eqb (e_n c) model after
  && forallb (pen_exact_on before after (e_terms c) (e_lam c) (e_c c))
             (assigns (dom_of (e_vt c)) (labels_upto (e_n c))).

(* ------------------------------------------------------------------ *)
(* BQM inequality *)

Inductive outcome := ORaised | OReturned (slack : list (label * Z)).

Record ineq_case := mkIneq {
  i_n : nat;            (* labels after the call, slack included *)
  i_nx : nat;           (* labels 0..nx-1 existed before *)
  i_vt : vartype;
  i_terms : list (label * Z);
  i_lam : Qc; i_const : Z; i_lb : Z; i_ub : Z;
  i_cz : bool;              (* cross_zero *)
  i_unb : option Qc;        (* penalization_method='unbalanced': lagrange_multiplier = (i_lam, this) *)
  i_py : bool;              (* python fallback (object dtype) *)
  i_out : outcome;
  i_before : obs; i_after : obs }.

Definition fresh_labels (nx : nat) (ls : list label) : bool :=
  forallb (fun v => (nx <=? v)%nat) ls && list_eqb Nat.eqb ls (seq nx (length ls)).

Definition ubc_of (a : list Z) (const ub : Z) : Z := Z.min (sum_pos a) (ub - const).

Definition ineq_model_ok (c : ineq_case) : bool :=
  let before := obs_poly (i_before c) in
  let after := obs_poly (i_after c) in
  let a := map snd (i_terms c) in
  let add_eq := if i_py c then add_eq_py else add_eq_cy in
  match i_unb c with
  | Some lam1 =>
      match plan_inequality_g false a (i_const c) (i_lb c) (i_ub c), i_out c with
      | Skip, OReturned [] => poly_coeff_eqb (i_n c) before after
      | Infeasible, ORaised => poly_coeff_eqb (i_n c) before after
      | Equality ubc, OReturned [] | Slack ubc _, OReturned [] =>
          poly_coeff_eqb (i_n c)
            (add_unbalanced (i_py c) (i_vt c) (qterms (i_terms c)) (i_lam c) lam1 (zq ubc) before) after
      | _, _ => false
      end
  | None =>
      match plan_inequality_g (i_cz c) a (i_const c) (i_lb c) (i_ub c), i_out c with
      | Skip, OReturned [] => poly_coeff_eqb (i_n c) before after
      | Infeasible, ORaised => poly_coeff_eqb (i_n c) before after
      | Equality ubc, OReturned [] =>
          poly_coeff_eqb (i_n c) (add_eq (i_vt c) (qterms (i_terms c)) (i_lam c) (zq (- ubc)) before) after
      | Slack ubc cs, OReturned sl =>
          list_eqb Z.eqb (map snd sl) cs && fresh_labels (i_nx c) (map fst sl)
          && poly_coeff_eqb (i_n c) (add_eq (i_vt c) (qterms (i_terms c ++ sl)) (i_lam c) (zq (- ubc)) before) after
      | _, _ => false
      end
  end.

Definition feasible_q (A : Qc) (const lb ub : Z) : bool :=
  Qc_leb (zq lb) (A + zq const) && Qc_leb (A + zq const) (zq ub).

(* minimum over the slack labels of E_after(x, s) - E_before(x) *)
Definition min_increase (before after : poly) (x : list (label * Qc)) (slack_assigns : list (list (label * Qc))) : Qc :=
  let e0 := energy before (sample_of_list x) in
  match map (fun sa => energy after (sample_of_list (x ++ sa)) - e0) slack_assigns with
  | [] => 0
  | d :: r => qmin_list r d
  end.

Definition gap_ok (feas : bool) (m lam : Qc) : bool :=
  if feas then Qc_eqb m 0 else Qc_leb lam m.

(* what the added objective admits: the constraint itself, and with cross_zero and lb_c > 0 also 0 <= sum <= ub_c - lb_c *)
Definition allowed_q (c : ineq_case) (A : Qc) : bool :=
  let a := map snd (i_terms c) in
  let lbc := lbc_of a (i_const c) (i_lb c) in
  let ubc := ubc_of a (i_const c) (i_ub c) in
  feasible_q A (i_const c) (i_lb c) (i_ub c)
  || (i_cz c && (0 <? lbc)%Z && (0 <? ubc - lbc)%Z    (* only the slack branch adds the extra bit *)
      && Qc_leb 0 A && Qc_leb A (zq (ubc - lbc))).

Definition ineq_oracle_ok (c : ineq_case) : bool :=
  let before := obs_poly (i_before c) in
  let after := obs_poly (i_after c) in
  let a := map snd (i_terms c) in
  let xs := assigns (dom_of (i_vt c)) (labels_upto (i_nx c)) in
  match i_out c with
  | ORaised => forallb (fun x => negb (feasible_q (zdot (i_terms c) x) (i_const c) (i_lb c) (i_ub c))) xs
  | OReturned sl =>
      match i_unb c, plan_inequality a (i_const c) (i_lb c) (i_ub c) with
      | Some lam1, Equality _ | Some lam1, Slack _ _ =>
          (* exactly lam0 * A - ub_c + lam1 * (A - ub_c)^2 *)
          let ubc := zq (ubc_of a (i_const c) (i_ub c)) in
          forallb (fun x => let s := sample_of_list x in let A := zdot (i_terms c) x in
                            Qc_eqb (energy after s)
                                   (energy before s + i_lam c * A - ubc + lam1 * ((A - ubc) * (A - ubc)))) xs
      | _, _ =>
          let sas := assigns (dom_of (i_vt c)) (map fst sl) in
          forallb (fun x => gap_ok (allowed_q c (zdot (i_terms c) x))
                                   (min_increase before after x sas) (i_lam c)) xs
      end
  end.

Definition check_ineq (c : ineq_case) : bool := ineq_model_ok c && ineq_oracle_ok c.

(* ------------------------------------------------------------------ *)
(* DQM, case-level labels; d_groups lists the case labels of every variable *)

Definition grp_of (groups : list (list label)) : label -> nat :=
  fun v => match find (fun gi => existsb (Nat.eqb v) (snd gi)) (combine (seq 0 (length groups)) groups) with
           | Some gi => fst gi
           | None => length groups
           end.

(* one-hot assignments: one case per variable *)
Fixpoint onehot_assigns (groups : list (list label)) : list (list (label * Qc)) :=
  match groups with
  | [] => [[]]
  | g :: r => flat_map (fun v => map (cons (v, 1)) (onehot_assigns r)) g
  end.

(* energies DQM.energies itself reports (it walks the variable-level adjacency lists) against the
   energy of the case-level coefficients the model reports *)
Definition energies_ok (p : poly) (l : list (list (label * Qc) * Qc)) : bool :=
  forallb (fun r => Qc_eqb (energy p (sample_of_list (fst r))) (snd r)) l.

Record dqm_eq_case := mkDqmEq {
  de_n : nat; de_groups : list (list label);
  de_terms : list lterm; de_lam : Qc; de_c : Qc;
  de_before : obs; de_after : obs;
  de_en_before : list (list (label * Qc) * Qc);     (* one-hot sample, DQM.energies before the call *)
  de_en_after : list (list (label * Qc) * Qc);      (* ... after the call *)
  de_adj_before : list (list nat);                  (* raw cyDQM adjacency (adj_) before / after *)
  de_adj_after : list (list nat);
  de_raw_quad : list qterm }.                       (* raw case-level interactions (to_numpy_vectors) after *)

Definition adj_eqb (a b : list (list nat)) : bool := list_eqb (list_eqb Nat.eqb) a b.

(* raw adjacency: equal to the merge model, well formed, and covering every raw case-level interaction *)
Definition adjacency_ok (grp : label -> nat) (model after : list (list nat)) (raw : list qterm) : bool :=
  adj_eqb model after && adj_wf_b after && adj_covers_b grp after raw.

Definition check_dqm_eq (c : dqm_eq_case) : bool :=
  let before := obs_poly (de_before c) in
  let after := obs_poly (de_after c) in
  poly_coeff_eqb (de_n c) (add_eq_dqm (grp_of (de_groups c)) (de_terms c) (de_lam c) (de_c c) before) after
  && forallb (pen_exact_on before after (de_terms c) (de_lam c) (de_c c)) (onehot_assigns (de_groups c))
  && energies_ok before (de_en_before c) && energies_ok after (de_en_after c)
  && (length (de_en_after c) =? length (onehot_assigns (de_groups c)))%nat
  && adjacency_ok (grp_of (de_groups c))
       (dqm_eq_adjacency (grp_of (de_groups c)) (de_terms c) (de_adj_before c)) (de_adj_after c) (de_raw_quad c).

Inductive dqm_outcome :=
| DRaised
| DReturned (slack : list (list (label * Z))).   (* per slack variable: (case label, value), case 0 first with value 0 *)

Record dqm_ineq_case := mkDqmIneq {
  di_n : nat;
  di_groups : list (list label);          (* variables existing before *)
  di_method : slack_method;
  di_terms : list (label * Z);
  di_lam : Qc; di_const : Z; di_lb : Z; di_ub : Z;
  di_cz : bool;                           (* cross_zero *)
  di_out : dqm_outcome;
  di_before : obs; di_after : obs;
  di_en_before : list (list (label * Qc) * Qc);     (* every one-hot sample of the old variables *)
  di_en_after : list (list (label * Qc) * Qc);      (* one-hot samples incl. slack variables (all, or an evenly spaced subset) *)
  di_adj_before : list (list nat);
  di_adj_after : list (list nat);
  di_raw_quad : list qterm }.

Definition plan_U (a : list Z) (const lb ub : Z) : Z :=
  (Z.min (sum_pos a) (ub - const) - Z.max (sum_neg a) (lb - const))%Z.

Definition dqm_ineq_model_ok (c : dqm_ineq_case) : bool :=
  let before := obs_poly (di_before c) in
  let after := obs_poly (di_after c) in
  let a := map snd (di_terms c) in
  match plan_inequality a (di_const c) (di_lb c) (di_ub c), di_out c with
  | Skip, DReturned [] => poly_coeff_eqb (di_n c) before after
  | Infeasible, DRaised => poly_coeff_eqb (di_n c) before after
  | Equality ubc, DReturned [] =>
      poly_coeff_eqb (di_n c)
        (add_eq_dqm (grp_of (di_groups c)) (qterms (di_terms c)) (di_lam c) (zq (- ubc)) before) after
  | Slack ubc _, DReturned sl =>
      let U := plan_U a (di_const c) (di_lb c) (di_ub c) in
      let groups := di_groups c ++ map (map fst) sl in
      let slack_terms := flat_map (fun var => tl var) sl in
      let zero := dqm_cz_active (di_cz c) (lbc_of a (di_const c) (di_lb c)) ubc in
      list_eqb (list_eqb Z.eqb) (map (map snd) sl) (dqm_slack_values_cz (di_method c) U ubc zero)
      && poly_coeff_eqb (di_n c)
           (add_eq_dqm (grp_of groups) (qterms (di_terms c ++ slack_terms)) (di_lam c) (zq (- ubc)) before) after
  | _, _ => false
  end.

(* what the added objective admits: the constraint itself; with cross_zero active also, per method,
   log2: -U <= sum <= 0 ; linear: sum = 0 ; log10: -(10^(digits-1) - 1) <= sum <= 0 *)
Definition dqm_allowed_q (c : dqm_ineq_case) (A : Qc) : bool :=
  let a := map snd (di_terms c) in
  let lbc := lbc_of a (di_const c) (di_lb c) in
  let ubc := ubc_of a (di_const c) (di_ub c) in
  let U := (ubc - lbc)%Z in
  feasible_q A (di_const c) (di_lb c) (di_ub c)
  || (dqm_cz_active (di_cz c) lbc ubc && (0 <? U)%Z
      && Qc_leb A 0
      && match di_method c with
         | Log2 => Qc_leb (zq (- U)) A
         | Linear => Qc_eqb A 0
         | Log10 => Qc_leb (zq (- (10 ^ Z.of_nat (pred (ndigits (Z.to_nat U) U)) - 1))) A
         end).

Definition dqm_ineq_oracle_ok (c : dqm_ineq_case) : bool :=
  let before := obs_poly (di_before c) in
  let after := obs_poly (di_after c) in
  let xs := onehot_assigns (di_groups c) in
  match di_out c with
  | DRaised => forallb (fun x => negb (feasible_q (zdot (di_terms c) x) (di_const c) (di_lb c) (di_ub c))) xs
  | DReturned sl =>
      let sas := onehot_assigns (map (map fst) sl) in
      forallb (fun x => gap_ok (dqm_allowed_q c (zdot (di_terms c) x))
                               (min_increase before after x sas) (di_lam c)) xs
  end.

(* add_variable for every slack variable (an empty adjacency row each), then the equality merge *)
Definition dqm_ineq_adjacency_ok (c : dqm_ineq_case) : bool :=
  let a := map snd (di_terms c) in
  match plan_inequality a (di_const c) (di_lb c) (di_ub c), di_out c with
  | Equality _, DReturned [] =>
      adjacency_ok (grp_of (di_groups c))
        (dqm_eq_adjacency (grp_of (di_groups c)) (qterms (di_terms c)) (di_adj_before c))
        (di_adj_after c) (di_raw_quad c)
  | Slack _ _, DReturned sl =>
      let groups := di_groups c ++ map (map fst) sl in
      let slack_terms := flat_map (fun var => tl var) sl in
      adjacency_ok (grp_of groups)
        (dqm_eq_adjacency (grp_of groups) (qterms (di_terms c ++ slack_terms))
                          (di_adj_before c ++ repeat [] (length sl)))
        (di_adj_after c) (di_raw_quad c)
  | _, _ => adjacency_ok (grp_of (di_groups c)) (di_adj_before c) (di_adj_after c) (di_raw_quad c)
  end.

(* the decision and the cases of every slack variable as the rules GENERATED from
   discrete_quadratic_model.py give them (Model/DqmIneqGen.v; equal to the above by
   Proofs/DqmIneqGenFacts.plan_dqm_inequality_g_eq) *)
Definition dqm_ineq_generated_ok (c : dqm_ineq_case) : bool :=
  match plan_dqm_inequality_g (di_method c) (di_cz c) (map snd (di_terms c)) (di_const c) (di_lb c) (di_ub c), di_out c with
  | DSkip, DReturned [] => true
  | DInfeasible, DRaised => true
  | DEquality _, DReturned [] => true
  | DSlack _ vals, DReturned sl => list_eqb (list_eqb Z.eqb) (map (map snd) sl) vals
  | _, _ => false
  end.

Definition check_dqm_ineq (c : dqm_ineq_case) : bool :=
  dqm_ineq_model_ok c && dqm_ineq_generated_ok c && dqm_ineq_oracle_ok c
  && energies_ok (obs_poly (di_before c)) (di_en_before c)
  && energies_ok (obs_poly (di_after c)) (di_en_after c)
  && (length (di_en_before c) =? length (onehot_assigns (di_groups c)))%nat
  && dqm_ineq_adjacency_ok c.

(* ------------------------------------------------------------------ *)
(* generators.binary_encoding *)

Record enc_case := mkEnc { n_ub : Z; n_coeffs : list Z }.

Definition check_enc (c : enc_case) : bool :=
  list_eqb Z.eqb (n_coeffs c) (binary_encoding_coeffs (n_ub c))
  && forallb (fun n => let t := Z.of_nat n in Z.eqb (dot (n_coeffs c) (slack_bits (n_ub c) t)) t)
             (seq 0 (S (Z.to_nat (n_ub c))))
  && Z.eqb (dot (n_coeffs c) (repeat true (length (n_coeffs c)))) (n_ub c).

(* ------------------------------------------------------------------ *)
(* cqm_to_bqm *)

Record cqm_case := mkCqm {
  q_n : nat;                                   (* BQM labels *)
  q_vars : list (label * cvar);                (* CQM label -> kind *)
  q_enc : list (label * poly);                 (* CQM label -> linear polynomial over BQM labels (from the inverter) *)
  q_obj : obs;                                 (* over CQM labels *)
  q_cons : list (obs * sense * Qc);            (* lhs, sense, rhs *)
  q_lam : Qc;
  q_slack : list (list label);                 (* BQM labels of the slack groups, in order of creation *)
  q_raised : bool;
  q_bqm : obs;
  q_rows : list (list (label * Qc) * Qc);      (* CQM assignment, min of the BQM energy over its preimages *)
  q_inv : list (list (label * Qc) * list (label * Qc)) }.  (* BQM sample, inverter output *)

(* the slack groups reported by the BQM are handed out, in order, to the constraints whose plan needs slack *)
Fixpoint distribute (E : encoding) (cons : list (obs * sense * Qc)) (groups : list (list label))
  : list ccon * list (list label) :=
  match cons with
  | [] => ([], groups)
  | (lhs, sn, rhs) :: r =>
      let k0 := mkCcon (obs_poly lhs) sn rhs [] in
      let needs := match sn with
                   | SEq => false
                   | _ => match con_plan E k0 with Slack _ _ => true | _ => false end
                   end in
      match needs, groups with
      | true, g :: gr => let res := distribute E r gr in (mkCcon (obs_poly lhs) sn rhs g :: fst res, snd res)
      | _, _ => let res := distribute E r groups in (k0 :: fst res, snd res)
      end
  end.

Fixpoint nodupb (l : list label) : bool :=
  match l with [] => true | x :: r => negb (existsb (Nat.eqb x) r) && nodupb r end.

(* slack labels pairwise distinct and disjoint from the labels the encoding uses *)
Definition separated_b (vars : list (label * cvar)) (E : encoding) (ks : list ccon) : bool :=
  let sl := slack_labels ks in
  nodupb sl
  && forallb (fun vk => forallb (fun t => negb (existsb (Nat.eqb (fst t)) sl)) (p_lin (E (fst vk)))) vars.

Definition enc_ok (vars : list (label * cvar)) (E : encoding) : bool :=
  forallb (fun vk => match snd vk with
                     | CInt ub => list_eqb Qc_eqb (map snd (p_lin (E (fst vk)))) (map zq (binary_encoding_coeffs ub))
                                  && Qc_eqb (p_off (E (fst vk))) 0
                     | CSpin => Qc_eqb (p_off (E (fst vk))) (- (1)) && list_eqb Qc_eqb (map snd (p_lin (E (fst vk)))) [two]
                     | CBin => Qc_eqb (p_off (E (fst vk))) 0 && list_eqb Qc_eqb (map snd (p_lin (E (fst vk)))) [1]
                     end) vars.

Definition con_satisfied (x : sample) (con : obs * sense * Qc) : bool :=
  let '(lhs, sn, rhs) := con in
  let l := energy (obs_poly lhs) x in
  match sn with SLe => Qc_leb l rhs | SGe => Qc_leb rhs l | SEq => Qc_eqb l rhs end.

Definition in_domain_b (k : cvar) (x : Qc) : bool :=
  match k with
  | CBin => Qc_eqb x 0 || Qc_eqb x 1
  | CSpin => Qc_eqb x (- (1)) || Qc_eqb x 1
  | CInt ub => is_int x && Qc_leb 0 x && Qc_leb x (zq ub)
  end.

Definition dom_size (k : cvar) : nat := match k with CInt ub => S (Z.to_nat ub) | _ => 2 end.

Definition row_ok (c : cqm_case) (row : list (label * Qc) * Qc) : bool :=
  let x := sample_of_list (fst row) in
  let obj := energy (obs_poly (q_obj c)) x in
  forallb (fun vk => in_domain_b (snd vk) (x (fst vk))) (q_vars c)
  && if forallb (con_satisfied x) (q_cons c) then Qc_eqb (snd row) obj
     else Qc_leb (obj + q_lam c) (snd row).

Definition inv_ok (E : encoding) (vars : list (label * cvar)) (r : list (label * Qc) * list (label * Qc)) : bool :=
  let s := sample_of_list (fst r) in
  let x := sample_of_list (snd r) in
  forallb (fun vk => Qc_eqb (invert E s (fst vk)) (x (fst vk))) vars.

(* the code-shaped _qm_to_bqm / inverter (Model/CqmBqm.v) on the same tables *)
Definition spins_of (vars : list (label * cvar)) : list label :=
  map fst (filter (fun vk => match snd vk with CSpin => true | _ => false end) vars).
Definition ints_of (vars : list (label * cvar)) (E : encoding) : int_table :=
  map (fun vk => (fst vk, p_lin (E (fst vk)))) (filter (fun vk => match snd vk with CInt _ => true | _ => false end) vars).
Definition binary_of (vars : list (label * cvar)) : list (label * vartype) :=
  map (fun vk => (fst vk, match snd vk with CSpin => SPIN | _ => BINARY end))
      (filter (fun vk => match snd vk with CInt _ => false | _ => true end) vars).

Definition code_model_ok (c : cqm_case) (E : encoding) : bool :=
  let spins := spins_of (q_vars c) in
  let ints := ints_of (q_vars c) E in
  forallb (fun o => poly_coeff_eqb (q_n c) (qm_to_bqm_code spins ints (obs_poly o)) (encode_poly E (obs_poly o)))
          (q_obj c :: map (fun k => fst (fst k)) (q_cons c))
  && forallb (fun r => let out := sample_of_list (inverter_call (binary_of (q_vars c)) ints (sample_of_list (fst r))) in
                       let want := sample_of_list (snd r) in
                       forallb (fun vk => Qc_eqb (out (fst vk)) (want (fst vk))) (q_vars c)) (q_inv c).

Definition check_cqm (c : cqm_case) : bool :=
  let E := enc_of (q_enc c) in
  let dist := distribute E (q_cons c) (q_slack c) in
  let ks := fst dist in
  enc_ok (q_vars c) E
  && code_model_ok c E
  && Bool.eqb (cqm_raises E ks) (q_raised c)
  && (if q_raised c then true   (* no BQM, hence no slack labels, to compare with *)
      else forallb (con_wf E) ks
           && match snd dist with [] => true | _ => false end
           && separated_b (q_vars c) E ks
           && poly_coeff_eqb (q_n c) (cqm_bqm E (q_lam c) (obs_poly (q_obj c)) ks) (obs_poly (q_bqm c))
           && (length (q_rows c) =? fold_right Nat.mul 1 (map (fun vk => dom_size (snd vk)) (q_vars c)))%nat
           && forallb (row_ok c) (q_rows c)
           && forallb (inv_ok E (q_vars c)) (q_inv c)).
