(* S level: the plain polynomial a user has in mind.
   A quadratic polynomial over labelled variables is an offset, a bag of linear
   terms and a bag of quadratic terms; coefficients are read by summing the bag.
   Every definition here is executable (vm_compute) and is what the
   correspondence check compares with the coefficients the implementation
   reports.  No proofs in this file. *)
From Coq Require Import List ZArith QArith Qcanon Bool Arith.
From Dimod Require Import Base.Util.
Import ListNotations.
Open Scope Qc_scope.

Notation label := nat (only parsing).
Definition sample := label -> Qc.

Inductive vartype := BINARY | SPIN | INTEGER | REAL.

Definition vartype_eqb (a b : vartype) : bool :=
  match a, b with
  | BINARY, BINARY | SPIN, SPIN | INTEGER, INTEGER | REAL, REAL => true
  | _, _ => false
  end.

Definition lterm := (label * Qc)%type.
Definition qterm := (label * label * Qc)%type.

Record poly := mkPoly { p_off : Qc; p_lin : list lterm; p_quad : list qterm }.

Definition two : Qc := 1 + 1.
Definition half : Qc := / two.

(* ---------- energy: the definition of C01 ---------- *)

Definition lterm_val (s : sample) (t : lterm) : Qc := snd t * s (fst t).
Definition qterm_val (s : sample) (t : qterm) : Qc :=
  snd t * s (fst (fst t)) * s (snd (fst t)).

Fixpoint qsum (l : list Qc) : Qc :=
  match l with [] => 0 | x :: xs => x + qsum xs end.

Definition lin_energy (l : list lterm) (s : sample) : Qc := qsum (map (lterm_val s) l).
Definition quad_energy (q : list qterm) (s : sample) : Qc := qsum (map (qterm_val s) q).

Definition energy (p : poly) (s : sample) : Qc :=
  p_off p + lin_energy (p_lin p) s + quad_energy (p_quad p) s.

(* ---------- coefficient readers ---------- *)

Definition lin_coeff (l : list lterm) (v : label) : Qc :=
  qsum (map snd (filter (fun t => fst t =? v)%nat l)).

Definition same_pair (u v a b : label) : bool :=
  ((u =? a) && (v =? b) || (u =? b) && (v =? a))%nat.

Definition quad_coeff (q : list qterm) (u v : label) : Qc :=
  qsum (map snd (filter (fun t => same_pair u v (fst (fst t)) (snd (fst t))) q)).

Definition has_pair (q : list qterm) (u v : label) : bool :=
  existsb (fun t => same_pair u v (fst (fst t)) (snd (fst t))) q.

Definition sample_of_list (l : list (label * Qc)) : sample :=
  fun v => match find (fun t => fst t =? v)%nat l with Some t => snd t | None => 0 end.

Definition upd (s : sample) (v : label) (a : Qc) : sample :=
  fun w => if (w =? v)%nat then a else s w.

(* ---------- elementary edits ---------- *)

Definition add_offset (b : Qc) (p : poly) : poly :=
  mkPoly (p_off p + b) (p_lin p) (p_quad p).

Definition add_linear (v : label) (b : Qc) (p : poly) : poly :=
  mkPoly (p_off p) ((v, b) :: p_lin p) (p_quad p).

Definition set_linear (v : label) (b : Qc) (p : poly) : poly :=
  mkPoly (p_off p) ((v, b) :: filter (fun t => negb (fst t =? v)%nat) (p_lin p)) (p_quad p).

(* abc.h add_quadratic: a self interaction folds into the linear bias (binary),
   the offset (spin), or stays a squared term (integer/real) *)
Definition add_quadratic (vt : label -> vartype) (u v : label) (b : Qc) (p : poly) : poly :=
  if (u =? v)%nat then
    match vt u with
    | BINARY => add_linear u b p
    | SPIN => add_offset b p
    | _ => mkPoly (p_off p) (p_lin p) ((u, u, b) :: p_quad p)
    end
  else mkPoly (p_off p) (p_lin p) ((u, v, b) :: p_quad p).

Definition remove_interaction (u v : label) (p : poly) : poly :=
  mkPoly (p_off p) (p_lin p)
    (filter (fun t => negb (same_pair u v (fst (fst t)) (snd (fst t)))) (p_quad p)).

Definition set_quadratic (u v : label) (b : Qc) (p : poly) : poly :=
  let p' := remove_interaction u v p in
  mkPoly (p_off p') (p_lin p') ((u, v, b) :: p_quad p').

Definition mentions (v : label) (t : qterm) : bool :=
  ((fst (fst t) =? v) || (snd (fst t) =? v))%nat.

Definition remove_variable (v : label) (p : poly) : poly :=
  mkPoly (p_off p) (filter (fun t => negb (fst t =? v)%nat) (p_lin p))
    (filter (fun t => negb (mentions v t)) (p_quad p)).

Definition scale (k : Qc) (p : poly) : poly :=
  mkPoly (k * p_off p) (map (fun t => (fst t, k * snd t)) (p_lin p))
    (map (fun t => (fst t, k * snd t)) (p_quad p)).

Definition relabel (f : label -> label) (p : poly) : poly :=
  mkPoly (p_off p) (map (fun t => (f (fst t), snd t)) (p_lin p))
    (map (fun t => (f (fst (fst t)), f (snd (fst t)), snd t)) (p_quad p)).

(* ---------- affine substitution  x_v := m * y_v + c  (C02, C03) ---------- *)

(* contribution of one linear term *)
Definition subst_lterm (v : label) (m c : Qc) (t : lterm) : poly :=
  if (fst t =? v)%nat then mkPoly (snd t * c) [(v, snd t * m)] []
  else mkPoly 0 [t] [].

Definition subst_qterm (v : label) (m c : Qc) (t : qterm) : poly :=
  let '(x, y, b) := t in
  if (x =? v)%nat then
    if (y =? v)%nat then
      mkPoly (b * c * c) [(v, two * b * m * c)] [(v, v, b * m * m)]
    else mkPoly 0 [(y, b * c)] [(v, y, b * m)]
  else if (y =? v)%nat then mkPoly 0 [(x, b * c)] [(x, v, b * m)]
  else mkPoly 0 [] [t].

Definition padd (a b : poly) : poly :=
  mkPoly (p_off a + p_off b) (p_lin a ++ p_lin b) (p_quad a ++ p_quad b).

Definition pzero : poly := mkPoly 0 [] [].

Definition psum (l : list poly) : poly := fold_right padd pzero l.

Definition substitute (v : label) (m c : Qc) (p : poly) : poly :=
  padd (mkPoly (p_off p) [] [])
    (padd (psum (map (subst_lterm v m c) (p_lin p)))
          (psum (map (subst_qterm v m c) (p_quad p)))).

Definition substitute_many (vs : list label) (m c : Qc) (p : poly) : poly :=
  fold_left (fun acc v => substitute v m c acc) vs p.

(* fixing = substitution with multiplier 0 followed by removal of the variable *)
Definition fix_variable (v : label) (a : Qc) (p : poly) : poly :=
  remove_variable v (substitute v 0 a p).

Definition fix_variables (fs : list (label * Qc)) (p : poly) : poly :=
  fold_left (fun acc f => fix_variable (fst f) (snd f) acc) fs p.

(* spin -> binary:  s = 2 x - 1 ;  binary -> spin:  x = (s + 1) / 2 *)
Definition spin_to_binary (v : label) (p : poly) : poly := substitute v two (- (1)) p.
Definition binary_to_spin (v : label) (p : poly) : poly := substitute v half half p.
Definition flip_spin (v : label) (p : poly) : poly := substitute v (- (1)) 0 p.
Definition flip_binary (v : label) (p : poly) : poly := substitute v (- (1)) 1 p.

(* ---------- arithmetic (C06) ---------- *)

Definition pneg (a : poly) : poly := scale (- (1)) a.
Definition psub (a b : poly) : poly := padd a (pneg b).

(* product of two linear polynomials; squares are reduced per vartype *)
Definition mul_lterms (vt : label -> vartype) (t1 t2 : lterm) : poly :=
  add_quadratic vt (fst t1) (fst t2) (snd t1 * snd t2) pzero.

Definition pmul_linear (vt : label -> vartype) (a b : poly) : poly :=
  padd (mkPoly (p_off a * p_off b)
          (map (fun t => (fst t, p_off b * snd t)) (p_lin a) ++
           map (fun t => (fst t, p_off a * snd t)) (p_lin b)) [])
       (psum (flat_map (fun t1 => map (mul_lterms vt t1) (p_lin b)) (p_lin a))).

(* a sample respects the variable domains that matter for term folding *)
Definition respects (vt : label -> vartype) (s : sample) : Prop :=
  forall v, match vt v with
            | BINARY => s v * s v = s v
            | SPIN => s v * s v = 1
            | _ => True
            end.

(* ---------- executable comparison with reported coefficients ---------- *)

(* an observation of the implementation: offset, linear dict, quadratic dict *)
Record obs := mkObs { o_off : Qc; o_lin : list lterm; o_quad : list qterm }.

Definition obs_poly (o : obs) : poly := mkPoly (o_off o) (o_lin o) (o_quad o).

Definition labels_upto (n : nat) : list label := seq 0 n.

(* coefficient-wise equality over the label range [0,n) *)
Definition poly_coeff_eqb (n : nat) (a b : poly) : bool :=
  Qc_eqb (p_off a) (p_off b) &&
  forallb (fun v => Qc_eqb (lin_coeff (p_lin a) v) (lin_coeff (p_lin b) v)) (labels_upto n) &&
  forallb (fun u => forallb (fun v => Qc_eqb (quad_coeff (p_quad a) u v) (quad_coeff (p_quad b) u v))
                      (labels_upto (S u))) (labels_upto n).

(* same set of interactions present (an explicit zero interaction counts) *)
Definition poly_pairs_eqb (n : nat) (a b : poly) : bool :=
  forallb (fun u => forallb (fun v => Bool.eqb (has_pair (p_quad a) u v) (has_pair (p_quad b) u v))
                      (labels_upto (S u))) (labels_upto n).

Definition energy_on (p : poly) (l : list (label * Qc)) : Qc := energy p (sample_of_list l).
