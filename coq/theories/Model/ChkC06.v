(* C06 correspondence and oracle.
   correspondence: the class, variable table and coefficients (or the exception
   bucket) the implementation produced for an expression tree are those of `eval`.
   oracle: on every listed domain assignment the energy of the implementation's own
   result equals ordinary arithmetic on the energies of the operands (`denote`). *)
From Coq Require Import List ZArith QArith Qcanon Bool Arith.
From Dimod Require Import Base.Util Model.Poly Model.Sym Model.SymStore Model.OpsLang Gen.Gen_Ops Gen.Gen_AddVar Model.Ops.
Import ListNotations.

Inductive ores := ONum (q : Qc) | OMdl (c : cls) (t : tab) (o : obs) | OView (t : tab) (o : obs) | OErr (e : err).

Record case := mkCase {
  c_n : nat;                               (* labels are 0..n-1 *)
  c_expr : sx;
  c_res : ores;
  c_samples : list (list (label * Qc))
}.

Definition tab_sub (a b : tab) : bool :=
  forallb (fun li => match lookup b (fst li) with Some i' => vinfo_eqb (snd li) i' | None => false end) a.

Definition tab_eqb (a b : tab) : bool :=
  (length a =? length b)%nat && tab_sub a b && tab_sub b a.

Definition check_corr (c : case) : bool :=
  match eval (c_expr c), c_res c with
  | Ok (VNum q), ONum q' => Qc_eqb q q'
  | Ok (VMdl m), OMdl k t o =>
      cls_eqb (m_cls m) k && tab_eqb (m_tab m) t
      && poly_coeff_eqb (c_n c) (m_poly m) (obs_poly o)
      && poly_pairs_eqb (c_n c) (m_poly m) (obs_poly o)
  | Ok (VView m), OView t o =>
      tab_eqb (m_tab m) t
      && poly_coeff_eqb (c_n c) (m_poly m) (obs_poly o)
      && poly_pairs_eqb (c_n c) (m_poly m) (obs_poly o)
  | Err e, OErr e' => err_eqb e e'
  | _, _ => false
  end.

Definition check_oracle (c : case) : bool :=
  match c_res c with
  | OMdl _ _ o | OView _ o =>
      forallb (fun s => Qc_eqb (energy_on (obs_poly o) s) (denote (c_expr c) (sample_of_list s))) (c_samples c)
  | ONum q =>
      forallb (fun s => Qc_eqb q (denote (c_expr c) (sample_of_list s))) (c_samples c)
  | OErr _ => true
  end.

(* the same comparison with the expression evaluated through the operator methods as translated
   from the source (Gen/Gen_Ops.v) and the operator protocol of Model/Ops.v *)
Definition check_gen (c : case) : bool :=
  match eval_gen (c_expr c), c_res c with
  | Ok (VNum q), ONum q' => Qc_eqb q q'
  | Ok (VMdl m), OMdl k t o =>
      cls_eqb (m_cls m) k && tab_eqb (m_tab m) t
      && poly_coeff_eqb (c_n c) (m_poly m) (obs_poly o)
      && poly_pairs_eqb (c_n c) (m_poly m) (obs_poly o)
  | Ok (VView m), OView t o =>
      tab_eqb (m_tab m) t
      && poly_coeff_eqb (c_n c) (m_poly m) (obs_poly o)
      && poly_pairs_eqb (c_n c) (m_poly m) (obs_poly o)
  | Err e, OErr e' => err_eqb e e'
  | _, _ => false
  end.

Definition check (c : case) : bool := check_corr c && check_oracle c && check_gen c.

(* ---------- comparison objects handed to ConstrainedQuadraticModel.add_constraint ---------- *)
Inductive ocmp := OCmp (t : tab) (o : obs) (s : csense) (r : Qc) | OCErr (e : err).

Record ccase := mkCCase {
  cc_n : nat;
  cc_a : sx;
  cc_sense : csense;
  cc_b : sx;
  cc_res : ocmp;                          (* the stored constraint: lhs variables and biases, sense, rhs *)
  cc_samples : list (list (label * Qc))
}.

Definition check_cmp_corr (c : ccase) : bool :=
  match eval_cmp (cc_a c) (cc_sense c) (cc_b c), cc_res c with
  | Ok k, OCmp t o s r =>
      let '(l, s', r') := stored_constraint k in
      tab_eqb (m_tab l) t && poly_coeff_eqb (cc_n c) (m_poly l) (obs_poly o)
      && poly_pairs_eqb (cc_n c) (m_poly l) (obs_poly o) && csense_eqb s' s && Qc_eqb r' r
  | Err e, OCErr e' => err_eqb e e'
  | _, _ => false
  end.

(* the stored constraint accepts a sample iff the relation as written holds between the sides *)
Definition check_cmp_oracle (c : ccase) : bool :=
  match cc_res c with
  | OCmp _ o s r =>
      forallb (fun smp => Bool.eqb (sat_b s (energy_on (obs_poly o) smp) r)
                                   (sat_b (cc_sense c) (denote (cc_a c) (sample_of_list smp))
                                                       (denote (cc_b c) (sample_of_list smp)))) (cc_samples c)
  | OCErr _ => true
  end.

Definition check_cmp (c : ccase) : bool := check_cmp_corr c && check_cmp_oracle c.


(* ---------- qm.add_variable(vartype, label, lower_bound=.., upper_bound=..) on an existing label ----------
   (the entry point through which QuadraticModel.__mul__ merges the variables of its operands)
   correspondence: the outcome (accepted / TypeError / ValueError) is that of the branch as read from the
   source; oracle: it is accepted exactly when the re-declaration is compatible (redecl_ok_b). *)
Record avcall := mkAvCall { av_l : label; av_vt : vartype; av_lb : option Qc; av_ub : option Qc; av_obs : option err }.
Record avcase := mkAvCase { av_tab : tab; av_calls : list avcall }.

Definition opt_err_eqb (a b : option err) : bool :=
  match a, b with
  | None, None => true
  | Some x, Some y => err_eqb x y
  | _, _ => false
  end.

Definition is_none {A} (o : option A) : bool := match o with None => true | Some _ => false end.

Definition check_av (c : avcase) : bool :=
  forallb (fun k =>
    match lookup (av_tab c) (av_l k) with
    | Some have =>
        opt_err_eqb (gen_addvar_existing have (av_vt k) (av_lb k) (av_ub k)) (av_obs k)
        && Bool.eqb (redecl_ok_b have (av_vt k) (av_lb k) (av_ub k)) (is_none (av_obs k))
    | None => false
    end) (av_calls c).
